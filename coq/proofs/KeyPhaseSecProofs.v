(* The key-phase machine with key material (model/KeyPhaseSec.v) is the counter machine (model/KeyPhase.v):
   generation g of a direction <-> the g-th secret of that direction's "ku" chain.  Hence every theorem about generations
   (KeyPhaseProofs.v) is a theorem about secrets and keys. *)
From AQ Require Import lib.Base lib.Tok gen.C02Keys model.Protect model.KeyDerive model.KeyPhase model.KeyPhaseSec
  proofs.KeyDeriveProofs proofs.KeyPhaseProofs.

Lemma list_eqb_eq : forall a b, list_eqb a b = true <-> a = b.
Proof.
  induction a as [|x a IH]; intros [|y b]; cbn; split; intro H; try reflexivity; try discriminate.
  - apply Bool.andb_true_iff in H. destruct H as [H1 H2]. apply Z.eqb_eq in H1. apply IH in H2. congruence.
  - injection H as -> ->. rewrite Z.eqb_refl. cbn. apply IH. reflexivity.
Qed.

Section Sim.
  Variable hmac : Z -> list Z -> list Z -> list Z.
  Variables cs version : Z.
  Variable s0 : bool -> list Z.
  Variable a : alg.

  (* premises: a cipher suite tls.CIPHER_SUITES knows; first secrets of digest length (TLS traffic secrets are); H-HMAC; neither
     chain of next secrets ever returns to its first secret *)
  Hypothesis Hsuite : cipher_suite_hash cs = Some a.
  Hypothesis Hs0 : forall d, Zlen (s0 d) = snd a.
  Hypothesis Hideal : hmac_ideal hmac.
  Hypothesis Hlen : hmac_len hmac.
  Hypothesis Hfresh : forall d n, n <> O -> secret_at hmac cs version (s0 d) n <> Ok (s0 d).

  Notation nexts := (nexts hmac cs version).
  Notation keys_of := (keys_of hmac cs version).

  Fixpoint chain (n : nat) (s : list Z) : list Z := match n with O => s | S n' => nexts (chain n' s) end.
  (* the secret of generation g of the direction whose sender is d *)
  Definition sec (d : bool) (g : Z) : list Z := chain (Z.to_nat g) (s0 d).

  Lemma dsz_bounds : 32 <= snd a <= 48.
  Proof. destruct (suite_cases cs a Hsuite) as [(_ & -> & _) | [(_ & -> & _) | (_ & -> & _)]]; cbn; lia. Qed.

  Lemma label_short : forall v p, Zlen (purpose_label v p) < 250.
  Proof. intros v p. unfold purpose_label. destruct p, (is_v2 v); vm_compute; reflexivity. Qed.

  Lemma derive_ok : forall s p, exists o, derive hmac cs version s p = Ok o.
  Proof.
    intros s p. unfold derive. rewrite Hsuite. pose proof (purpose_len_bounds cs a p Hsuite). pose proof dsz_bounds.
    apply expand_label_defined; try lia; [apply label_short | cbn; lia].
  Qed.

  (* the derivations of an established context cannot raise *)
  Lemma nexts_ok : forall s, next_secret hmac cs s version = Ok (nexts s).
  Proof.
    intros s. unfold KeyPhaseSec.nexts. destruct (derive_ok s PKu) as [o H]. rewrite next_secret_is_derive, H. reflexivity.
  Qed.

  Lemma keys_of_ok : forall s, exists k i, keys_of s = Some (k, i) /\ derive hmac cs version s PKey = Ok k /\ derive hmac cs version s PIv = Ok i.
  Proof.
    intros s. unfold KeyPhaseSec.keys_of. rewrite derive_key_iv_hp_components.
    destruct (derive_ok s PKey) as [k Hk]. destruct (derive_ok s PIv) as [i Hi]. destruct (derive_ok s PHp) as [h Hh].
    rewrite Hk, Hi, Hh. cbn. eauto.
  Qed.

  Lemma chain_is_secret_at : forall n d, secret_at hmac cs version (s0 d) n = Ok (chain n (s0 d)).
  Proof. induction n as [|n IH]; intros d; cbn [secret_at chain]; [reflexivity|]. rewrite IH. cbn [bind]. apply nexts_ok. Qed.

  Lemma sec_len : forall d g, Zlen (sec d g) = snd a.
  Proof. intros d g. unfold sec. eapply secret_at_len; [exact Hlen | exact Hsuite | apply Hs0 | apply chain_is_secret_at]. Qed.

  Lemma sec_succ : forall d g, 0 <= g -> sec d (g + 1) = nexts (sec d g).
  Proof. intros d g Hg. unfold sec. rewrite Z2Nat.inj_add by lia. rewrite Nat.add_comm. reflexivity. Qed.

  (* a packet sealed under the keys of generation g opens under the keys of generation g' iff g = g' *)
  Lemma keys_distinct : forall d g g', 0 <= g -> 0 <= g' -> keys_of (sec d g) = keys_of (sec d g') -> g = g'.
  Proof.
    intros d g g' Hg Hg' E.
    destruct (keys_of_ok (sec d g)) as (k & i & K1 & D1 & _). destruct (keys_of_ok (sec d g')) as (k' & i' & K2 & D2 & _).
    rewrite K1, K2 in E. injection E as <- <-.
    assert (L : Zlen (sec d g) = Zlen (sec d g')) by (rewrite !sec_len; reflexivity).
    pose proof (proj1 (derived_secrets_separated_lemma hmac Hideal Hlen _ _ _ _ _ _ _ _ _ L D1 D2)) as Es.
    assert (Z.to_nat g = Z.to_nat g').
    { eapply (key_chain_no_repeat hmac Hideal Hlen cs a version (s0 d) Hsuite (Hs0 d) (Hfresh d)); [apply chain_is_secret_at|].
      rewrite chain_is_secret_at. unfold sec in Es. rewrite Es. reflexivity. }
    lia.
  Qed.

  (* ---------------------------------------------------------------- concretisation of the counter machine *)
  Definition conc_ctx (d : bool) (c : kctx) : sctx := mkSC (sec d (k_gen c)) (k_phase c).
  (* endpoint x sends in direction x and receives in direction (negb x) *)
  Definition cpair (x : bool) (e : kpair) : spair := mkSP (conc_ctx (negb x) (p_recv e)) (conc_ctx x (p_send e)) (p_req e).
  Definition cpkt (d : bool) (p : kpkt) : spkt :=
    mkSQ (match q_auth p with Some g => keys_of (sec d g) | None => None end) (q_phase p) (q_long p).
  Definition csys (s : sys) : ssys :=
    mkSS (cpair false (s_a s)) (cpair true (s_b s)) (map (cpkt false) (h_a s)) (map (cpkt true) (h_b s)).

  (* a packet with key material [sp] travelling in direction d is described by the abstract packet [kp] *)
  Definition rpkt (d : bool) (sp : spkt) (kp : kpkt) : Prop :=
    sq_phase sp = q_phase kp /\ sq_long sp = q_long kp /\
    forall g, 0 <= g -> opens_under hmac cs version sp (sec d g) = auth_under kp g.

  Lemma keys_eqb_eq : forall x y, keys_eqb x y = true <-> x = y.
  Proof.
    intros [x1 x2] [y1 y2]. unfold keys_eqb. cbn [fst snd]. rewrite Bool.andb_true_iff, !list_eqb_eq. split; [intros [-> ->]; reflexivity | intro H; injection H; auto].
  Qed.

  (* sealed under generation g >= 0 of direction d: described by q_auth = Some g; not a sealing: q_auth = None *)
  Lemma rpkt_cpkt : forall d p, (forall g, q_auth p = Some g -> 0 <= g) -> rpkt d (cpkt d p) p.
  Proof.
    intros d p Hp. unfold rpkt, cpkt. cbn [sq_phase sq_long sq_keys]. split; [reflexivity|]. split; [reflexivity|].
    intros g' Hg'. unfold opens_under, auth_under. cbn [sq_keys]. destruct (q_auth p) as [g|]; [|reflexivity].
    specialize (Hp g eq_refl).
    destruct (keys_of_ok (sec d g)) as (k & i & K1 & _). destruct (keys_of_ok (sec d g')) as (k' & i' & K2 & _).
    rewrite K1, K2. destruct (g =? g') eqn:E.
    - apply Z.eqb_eq in E. subst g'. rewrite K1 in K2. injection K2 as <- <-. apply keys_eqb_eq. reflexivity.
    - apply Z.eqb_neq in E. destruct (keys_eqb (k, i) (k', i')) eqn:E2; [|reflexivity]. exfalso. apply E.
      apply keys_eqb_eq in E2. apply (keys_distinct d); try assumption. rewrite K1, K2, E2. reflexivity.
  Qed.

  (* sealed under keys that belong to no generation of direction d (other direction, other connection, garbage), or not a
     sealing: described by the forged abstract packet *)
  Lemma rpkt_foreign : forall d sp, (forall g, 0 <= g -> sq_keys sp <> keys_of (sec d g)) ->
    rpkt d sp (mkQ None (sq_phase sp) (sq_long sp)).
  Proof.
    intros d sp H. unfold rpkt. cbn [q_phase q_long]. split; [reflexivity|]. split; [reflexivity|].
    intros g Hg. unfold opens_under, auth_under. cbn [q_auth]. specialize (H g Hg).
    destruct (sq_keys sp) as [k|]; [|reflexivity]. destruct (keys_of (sec d g)) as [k'|]; [|reflexivity].
    destruct (keys_eqb k k') eqn:E; [|reflexivity]. apply keys_eqb_eq in E. subst. contradiction.
  Qed.

  Lemma conc_ctx_next : forall d c, 0 <= k_gen c -> sc_next hmac cs version (conc_ctx d c) = conc_ctx d (k_next c).
  Proof. intros d c H. unfold sc_next, conc_ctx, k_next. cbn [sc_secret sc_phase k_gen k_phase]. rewrite sec_succ by assumption. reflexivity. Qed.

  Lemma sim_ctx : forall d c sp kp, 0 <= k_gen c -> rpkt d sp kp ->
    sctx_decrypt hmac cs version (conc_ctx d c) sp = ctx_decrypt c kp.
  Proof.
    intros d c sp kp Hc (Hph & Hl & Ho). unfold sctx_decrypt, ctx_decrypt, sc_select, k_select. rewrite Hl, Hph.
    change (sc_phase (conc_ctx d c)) with (k_phase c).
    destruct (q_long kp); [|destruct (q_phase kp =? k_phase c)].
    - change (sc_secret (conc_ctx d c)) with (sec d (k_gen c)). rewrite Ho by assumption. reflexivity.
    - change (sc_secret (conc_ctx d c)) with (sec d (k_gen c)). rewrite Ho by assumption. reflexivity.
    - rewrite conc_ctx_next by assumption. change (sc_secret (conc_ctx d (k_next c))) with (sec d (k_gen (k_next c))).
      rewrite Ho by (cbn; lia). reflexivity.
  Qed.

  Definition nonneg_pair (e : kpair) : Prop := 0 <= k_gen (p_recv e) /\ 0 <= k_gen (p_send e).

  Lemma cpair_update : forall x e, nonneg_pair e -> spair_update hmac cs version (cpair x e) = cpair x (pair_update e).
  Proof. intros x e [H1 H2]. unfold spair_update, cpair, pair_update. cbn [sp_recv sp_send p_recv p_send p_req]. rewrite !conc_ctx_next by assumption. reflexivity. Qed.

  Lemma sim_pair_decrypt : forall y e sp kp, nonneg_pair e -> rpkt (negb y) sp kp ->
    spair_decrypt hmac cs version (cpair y e) sp = (cpair y (fst (pair_decrypt e kp)), snd (pair_decrypt e kp)).
  Proof.
    intros y e sp kp He R. unfold spair_decrypt, pair_decrypt. change (sp_recv (cpair y e)) with (conc_ctx (negb y) (p_recv e)).
    rewrite (sim_ctx _ _ _ _ (proj1 He) R). destruct (ctx_decrypt (p_recv e) kp) as [[|]|]; cbn [fst snd]; try reflexivity.
    rewrite cpair_update by assumption. reflexivity.
  Qed.

  Lemma sim_pair_send : forall x e, nonneg_pair e ->
    spair_send hmac cs version (cpair x e) = (cpair x (fst (pair_send e)), cpkt x (snd (pair_send e))).
  Proof.
    intros x e He. unfold spair_send, pair_send, spair_key_phase, pair_key_phase. change (sp_req (cpair x e)) with (p_req e).
    change (sc_phase (sp_recv (cpair x e))) with (k_phase (p_recv e)). cbn [fst snd].
    destruct (p_req e); [rewrite cpair_update by assumption|]; reflexivity.
  Qed.

  (* ---------------------------------------------------------------- the systems, step by step *)
  Definition revent (se : sevent) (ke : event) : Prop :=
    match se, ke with
    | SRequest x, ERequest x' => x = x'
    | SSend x, ESend x' => x = x'
    | SDeliver x k, EDeliver x' k' => x = x' /\ k = k'
    | SInject y sp, EInject y' kp => y = y' /\ rpkt (negb y) sp kp
    | _, _ => False
    end.

  Lemma csys_ep : forall s x, sep (csys s) x = cpair x (ep s x).
  Proof. intros s [|]; reflexivity. Qed.
  Lemma csys_set_ep : forall s x e, sset_ep (csys s) x (cpair x e) = csys (set_ep s x e).
  Proof. intros s [|] e; reflexivity. Qed.
  Lemma csys_hist : forall s x, shist (csys s) x = map (cpkt x) (hist s x).
  Proof. intros s [|]; reflexivity. Qed.
  Lemma csys_push : forall s x p, spush_hist (csys s) x (cpkt x p) = csys (push_hist s x p).
  Proof. intros s [|] p; unfold spush_hist, push_hist, csys; cbn; rewrite map_app; reflexivity. Qed.

  Lemma inv_nonneg : forall s x, inv s -> nonneg_pair (ep s x).
  Proof.
    intros s x (Wa & Wb & _). destruct x; cbn [ep]; [destruct Wb as ((? & _) & (? & _) & _) | destruct Wa as ((? & _) & (? & _) & _)]; split; assumption.
  Qed.

  Lemma inv_hist_nonneg : forall s x k p, inv s -> nth_error (hist s x) k = Some p -> forall g, q_auth p = Some g -> 0 <= g.
  Proof.
    intros s x k p (_ & _ & _ & Fa & Fb & _) N g Hg.
    assert (G : exists b, genuine_pkt b p).
    { destruct x; cbn [hist] in N; [exists (gen (s_b s)); exact (nth_error_Forall _ _ _ _ Fb N) | exists (gen (s_a s)); exact (nth_error_Forall _ _ _ _ Fa N)]. }
    destruct G as (b & g' & Ha & Hb & _). rewrite Ha in Hg. injection Hg as <-. lia.
  Qed.

  (* one step of the machine with key material on the concretised state = the concretised step of the counter machine *)
  Lemma sim_step : forall s se ke, inv s -> revent se ke ->
    sstep hmac cs version (csys s) se = (csys (fst (step s ke)), snd (step s ke)).
  Proof.
    intros s se ke I R. destruct se as [x|x|x k|y sp], ke as [x'|x'|x' k'|y' kp]; cbn [revent] in R; try contradiction.
    - subst x'. cbn [sstep step fst snd]. rewrite csys_ep. change (spair_request (cpair x (ep s x))) with (cpair x (pair_request (ep s x))).
      rewrite csys_set_ep. reflexivity.
    - subst x'. cbn [sstep step]. rewrite csys_ep, (sim_pair_send _ _ (inv_nonneg s x I)).
      destruct (pair_send (ep s x)) as [e' p]. cbn [fst snd]. rewrite csys_set_ep, csys_push. reflexivity.
    - destruct R as [<- <-]. cbn [sstep step]. rewrite csys_hist, nth_error_map.
      destruct (nth_error (hist s x) (Z.to_nat k)) as [p|] eqn:N; cbn [option_map]; [|reflexivity].
      rewrite csys_ep. assert (Rp : rpkt (negb (negb x)) (cpkt x p) p) by (rewrite Bool.negb_involutive; apply rpkt_cpkt; eapply inv_hist_nonneg; eauto).
      rewrite (sim_pair_decrypt _ _ _ _ (inv_nonneg s (negb x) I) Rp).
      destruct (pair_decrypt (ep s (negb x)) p) as [e' v]. cbn [fst snd]. rewrite csys_set_ep. reflexivity.
    - destruct R as [<- Rp]. cbn [sstep step]. rewrite csys_ep, (sim_pair_decrypt _ _ _ _ (inv_nonneg s y I) Rp).
      destruct (pair_decrypt (ep s y) kp) as [e' v]. cbn [fst snd]. rewrite csys_set_ep. reflexivity.
  Qed.

  Fixpoint revents (ses : list sevent) (kes : list event) : Prop :=
    match ses, kes with
    | [], [] => True
    | se :: st, ke :: kt => revent se ke /\ revents st kt
    | _, _ => False
    end.

  Lemma sim_run : forall ses kes s, inv s -> allowed_run s kes -> revents ses kes ->
    srun hmac cs version (csys s) ses = (csys (fst (run s kes)), snd (run s kes)).
  Proof.
    induction ses as [|se st IH]; intros [|ke kt] s I A R; cbn [revents] in R; try contradiction; [reflexivity|].
    destruct R as [R1 R2]. destruct A as [A1 A2]. cbn [srun run]. rewrite (sim_step _ _ _ I R1).
    pose proof (inv_step_lemma s ke I A1) as I1. destruct (step s ke) as [s1 o]. cbn [fst snd] in *.
    rewrite (IH kt s1 I1 A2 R2). destruct (run s1 kt). reflexivity.
  Qed.

  Lemma csys_init : csys sys_init = ssys_init s0.
  Proof. reflexivity. Qed.

  (* ---------------------------------------------------------------- the statements of props/C02.v *)
  (* (1) a packet sealed under the keys of generation g of a direction opens under the keys of generation g' of that
         direction iff g = g' *)
  Lemma sealed_generation_opens_only_itself_lemma : forall d g g', 0 <= g -> 0 <= g' ->
    opens_under hmac cs version (cpkt d (mkQ (Some g) (g mod 2) false)) (sec d g') = (g =? g').
  Proof. intros d g g' Hg Hg'. apply (rpkt_cpkt d (mkQ (Some g) (g mod 2) false)); [|assumption]. cbn. intros ? E. injection E as <-. assumption. Qed.

  (* (2) the run of the machine with key material from the two first secrets is the run of the counter machine *)
  Lemma secrets_refine_generations_lemma : forall ses kes, allowed_run sys_init kes -> revents ses kes ->
    srun hmac cs version (ssys_init s0) ses = (csys (fst (run sys_init kes)), snd (run sys_init kes)).
  Proof. intros ses kes A R. rewrite <- csys_init. apply sim_run; [apply inv_init | assumption | assumption]. Qed.

  (* (3) genuine_packet_verdict with secrets: in every reachable state, a packet the peer has ever sent -- sealed under the
         (key, iv) derived from the g-th secret of its direction -- is rejected by the real-key machine only if the receiver's
         secret is already beyond the g-th one; otherwise it is accepted and the receiver's receive secret is then exactly
         the g-th secret of that direction *)
  Lemma genuine_packet_verdict_secrets_lemma : forall s x k p, reachable s -> nth_error (hist s x) (Z.to_nat k) = Some p ->
    exists g, 0 <= g /\ nth_error (shist (csys s) x) (Z.to_nat k) = Some (mkSQ (keys_of (sec x g)) (q_phase p) (q_long p)) /\
      let y := sep (csys s) (negb x) in
      sc_secret (sp_recv y) = sec x (gen (ep s (negb x))) /\
      ((g < gen (ep s (negb x)) /\ spair_decrypt hmac cs version y (cpkt x p) = (y, Rejected)) \/
       (gen (ep s (negb x)) <= g /\ exists y' upd, spair_decrypt hmac cs version y (cpkt x p) = (y', Accepted upd) /\
          sc_secret (sp_recv y') = sec x g /\ upd = negb (g =? gen (ep s (negb x))))).
  Proof.
    intros s x k p Rch N. pose proof (reachable_inv s Rch) as I.
    destruct (genuine_packet_verdict_lemma s x k p Rch N) as (g & Ha & V).
    assert (Hg : 0 <= g) by (eapply inv_hist_nonneg; eauto).
    exists g. split; [exact Hg|]. split.
    { rewrite csys_hist, nth_error_map, N. cbn [option_map]. unfold cpkt. rewrite Ha. reflexivity. }
    cbv zeta in *. rewrite csys_ep.
    assert (Rp : rpkt (negb (negb x)) (cpkt x p) p) by (rewrite Bool.negb_involutive; apply rpkt_cpkt; eapply inv_hist_nonneg; eauto).
    pose proof (sim_pair_decrypt (negb x) (ep s (negb x)) _ _ (inv_nonneg s (negb x) I) Rp) as S.
    split; [unfold cpair, conc_ctx, gen; cbn [sp_recv sc_secret]; rewrite Bool.negb_involutive; reflexivity|].
    destruct V as [(Hlt & E) | (Hge & y' & upd & E & Gy & U)]; rewrite E in S; cbn [fst snd] in S.
    - left. split; [exact Hlt | exact S].
    - right. split; [exact Hge|]. exists (cpair (negb x) y'), upd. split; [exact S|]. split; [|exact U].
      unfold cpair, conc_ctx. cbn [sp_recv sc_secret]. rewrite Bool.negb_involutive. unfold gen in Gy. rewrite Gy. reflexivity.
  Qed.
End Sim.

(* the premises of the three statements, bundled (props/ files may not contain definitions) *)
Definition chain_premises (hmac : Z -> list Z -> list Z -> list Z) (cs version : Z) (s0 : bool -> list Z) (a : alg) : Prop :=
  cipher_suite_hash cs = Some a /\ (forall d, Zlen (s0 d) = snd a) /\ hmac_ideal hmac /\ hmac_len hmac /\
  (forall (d : bool) (n : nat), n <> O -> secret_at hmac cs version (s0 d) n <> Ok (s0 d)).

Lemma sealed_generation_opens_only_itself_closed : forall hmac cs version s0 a, chain_premises hmac cs version s0 a ->
  forall d g g', 0 <= g -> 0 <= g' ->
  opens_under hmac cs version (cpkt hmac cs version s0 d (mkQ (Some g) (g mod 2) false)) (sec hmac cs version s0 d g') = (g =? g').
Proof. intros hmac cs version s0 a (H1 & H2 & H3 & H4 & H5). exact (sealed_generation_opens_only_itself_lemma hmac cs version s0 a H1 H2 H3 H4 H5). Qed.

Lemma secrets_refine_generations_closed : forall hmac cs version s0 a, chain_premises hmac cs version s0 a ->
  forall ses kes, allowed_run sys_init kes -> revents hmac cs version s0 ses kes ->
  srun hmac cs version (ssys_init s0) ses = (csys hmac cs version s0 (fst (run sys_init kes)), snd (run sys_init kes)).
Proof. intros hmac cs version s0 a (H1 & H2 & H3 & H4 & H5). exact (secrets_refine_generations_lemma hmac cs version s0 a H1 H2 H3 H4 H5). Qed.

Lemma foreign_packet_is_forged_closed : forall hmac cs version s0 d sp,
  (forall g, 0 <= g -> sq_keys sp <> keys_of hmac cs version (sec hmac cs version s0 d g)) ->
  rpkt hmac cs version s0 d sp (mkQ None (sq_phase sp) (sq_long sp)).
Proof. exact rpkt_foreign. Qed.

Lemma genuine_packet_verdict_secrets_closed : forall hmac cs version s0 a, chain_premises hmac cs version s0 a ->
  forall s x k p, reachable s -> nth_error (hist s x) (Z.to_nat k) = Some p ->
  exists g, 0 <= g /\
    nth_error (shist (csys hmac cs version s0 s) x) (Z.to_nat k)
      = Some (mkSQ (keys_of hmac cs version (sec hmac cs version s0 x g)) (q_phase p) (q_long p)) /\
    let y := sep (csys hmac cs version s0 s) (negb x) in
    sc_secret (sp_recv y) = sec hmac cs version s0 x (gen (ep s (negb x))) /\
    ((g < gen (ep s (negb x)) /\ spair_decrypt hmac cs version y (cpkt hmac cs version s0 x p) = (y, Rejected)) \/
     (gen (ep s (negb x)) <= g /\ exists y' upd, spair_decrypt hmac cs version y (cpkt hmac cs version s0 x p) = (y', Accepted upd) /\
        sc_secret (sp_recv y') = sec hmac cs version s0 x g /\ upd = negb (g =? gen (ep s (negb x))))).
Proof. intros hmac cs version s0 a (H1 & H2 & H3 & H4 & H5). exact (genuine_packet_verdict_secrets_lemma hmac cs version s0 a H1 H2 H3 H4 H5). Qed.

(* the premises are satisfiable: the collision-free toy HMAC of KeyDeriveProofs.v, AES-128-GCM, QUIC v1, all-zero first secrets *)
Example chain_premises_example : chain_premises toy_hmac CS_AES_128_GCM_SHA256 QUIC_VERSION_1 (fun _ => zeros 32) (256, 32).
Proof.
  unfold chain_premises. split; [reflexivity|]. split; [intros; reflexivity|]. split; [exact toy_hmac_ideal|].
  split; [exact toy_hmac_len|]. intros d n Hn. apply toy_chain_fresh; [exact Hn | lia].
Qed.
