(* C14: a PUSH_PROMISE whose header block waits for the QPACK encoder stream (model of the code with C14-fix-3,
   fx_pushblock): the request stream and the encoder stream can be delivered in either order. *)
From AQ Require Import lib.Base lib.Tok model.H3Parse proofs.H3Chunk proofs.H3Split proofs.H3Loop proofs.H3Recv proofs.H3Fin
  proofs.H3Uni proofs.H3Table.
From Coq Require Import ZifyBool.

(* a complete frame of type t (any varint encoding of type and length) at the head of [bytes] *)
Definition frame_at (bytes : list Z) (t : Z) (payload rest : list Z) : Prop :=
  exists b1, pull_uint_var bytes = Some (t, b1) /\ pull_uint_var b1 = Some (Zlen payload, payload ++ rest).

(* a request stream between two frames: nothing buffered, no frame open, not blocked, not ended;
   blocked_frame_type is None whenever the stream is not blocked (it is reset by the resume pass) *)
Definition at_boundary (s : hstream) : Prop :=
  s_buf s = [] /\ s_cur s = None /\ s_session s = None /\ s_blocked s = false /\ s_ended s = false /\
  s_push s = None /\ s_btype s = None.

Definition to_rsd (c : conn) (r : rres) : rsd :=
  match r with
  | RVal e st' => SVal e (set_streams c (put_stream st' (c_streams c)))
  | RErr k => SErr k c
  | RExn k => SExn k
  end.

Ltac rsimpl :=
  cbv beta iota zeta delta
      [s_id s_buf s_cur s_session s_blocked s_ended s_hstate s_clen s_expect s_push s_stype s_btype s_bpush
       set_buf set_cur set_session set_blocked set_ended set_hstate set_clen set_expect set_push set_stype set_btype set_bpush];
  cbn [orb andb negb is_none app].

Section Push.
Variable fx : fixes.
Hypothesis Htr : fx_trunc fx = true.
Hypothesis Hem : fx_endmark fx = true.
Hypothesis Hpb : fx_pushblock fx = true.

(* the request stream behind the header of the promise frame, push id parsed, before the decoder answers *)
Definition pp_state (s0 : hstream) (fin : bool) (pid : Z) : hstream :=
  set_bpush (set_cur (set_buf (set_ended s0 fin) []) None) (Some pid).

(* ... and what is left to do once the header block is decoded: the other frames of the delivery *)
Definition pp_tail (O : oracle) (fin : bool) (st2 : hstream) (rest : list Z) (e : list event) : rres :=
  match rq_loop (rq_fuel rest) fx O true fin st2 rest e with
  | RVal evs st' =>
      if fin && negb (s_blocked st') && (negb (is_nil (s_buf st')) || negb (is_none (s_cur st')))
      then RErr H3_FRAME_ERROR else RVal evs st'
  | r => r
  end.

Definition pp_decoded (O : oracle) (s0 : hstream) (fin : bool) (pid : Z) (rest : list Z) (r : dres) : rres :=
  match r with
  | DBlocked => RExn X_UNBLOCK_BLOCKED
  | DFailed => RErr QPACK_DECOMPRESSION_FAILED
  | DHeaders hid =>
      if negb (fst (o_val O 3 hid)) then RErr H3_MESSAGE_ERROR else
      match endmark fx (pp_state s0 fin pid) (fin && is_nil rest) [EPush (s_id s0) pid hid] with
      | HVal e st2 => pp_tail O fin st2 rest e
      | HErr c => RErr c
      | HExn k => RExn k
      | HBlocked _ => RExn X_UNBLOCK_BLOCKED
      end
  end.

Lemma frame_nonempty : forall data t payload rest, frame_at data t payload rest -> is_nil data = false.
Proof. intros data t p r (b1 & H & _). destruct data; [discriminate|reflexivity]. Qed.

Lemma frame_rest_len : forall data t payload rest, frame_at data t payload rest -> Zlen rest + 2 <= Zlen data.
Proof.
  intros data t p r (b1 & H1 & H2). apply pull_len in H1. apply pull_len in H2.
  rewrite Zlen_app in H2. pose proof (Zlen_nonneg p). lia.
Qed.

(* delivery of the request stream: one iteration of the frame loop up to the decoder's answer *)
Lemma pp_recv : forall O s0 data payload rest pid block fin,
  at_boundary s0 -> frame_at data 5 payload rest -> pull_uint_var payload = Some (pid, block) ->
  rq_recv fx O true s0 data fin =
  match o_dec O (s_id s0) block with
  | DBlocked => RVal [] (set_buf (set_btype (set_blocked (pp_state s0 fin pid) true) (Some 5)) rest)
  | r => pp_decoded O s0 fin pid rest r
  end.
Proof.
  intros O s0 data payload rest pid block fin (B1 & B2 & B3 & B4 & B5 & B6 & B7) Hf Hp.
  pose proof (frame_nonempty _ _ _ _ Hf) as Hne. pose proof (frame_rest_len _ _ _ _ Hf) as Hlen.
  destruct Hf as (b1 & P1 & P2).
  destruct s0 as [i bf cu se bl en hs cn ex pu sy bt bp]. cbn in B1, B2, B3, B4, B5, B6, B7. subst.
  unfold rq_recv.
  rsimpl.
  rewrite Hne. rewrite andb_false_r. cbn [andb].
  unfold rq_fuel. rewrite (rq_loop_S fx O true).
  rewrite Hne. unfold hdr_of.
  rsimpl.
  rewrite P1, P2. cbn [is_none andb Z.eqb Pos.eqb].
  unfold body.
  pose proof (Zlen_nonneg payload) as Hp0. pose proof (Zlen_nonneg rest) as Hr0.
  rewrite Zlen_app.
  replace (Z.min (Zlen payload) (Zlen payload + Zlen rest)) with (Zlen payload) by lia.
  replace (Zlen payload <? Zlen payload) with false by lia. rewrite andb_false_r.
  rewrite ztake_app_le, zdrop_app_le by lia. rewrite ztake_all, zdrop_all by lia. cbn [app].
  replace (Zlen payload - Zlen payload =? 0) with true by lia.
  rewrite Htr. cbn [negb orb is_none].
  rewrite andb_true_r.
  unfold handle_rp_frame.
  rsimpl. cbn [Z.eqb Pos.eqb andb].
  rewrite Hp, Hpb.
  rsimpl.
  unfold pp_decoded, pp_state.
  rsimpl.
  destruct (o_dec O i block) as [hid| |]; [| rsimpl; rewrite ?andb_false_r; reflexivity | reflexivity].
  destruct (negb (fst (o_val O 3 hid))); [reflexivity|].
  unfold endmark. rewrite Hem. cbn [andb].
  rsimpl.
  assert (Fuel : forall st e, s_cur st = None ->
            rq_loop (S (length data + length data)) fx O true fin st rest e = rq_loop (S (S (length rest + length rest))) fx O true fin st rest e).
  { intros st e Hc. apply (loop_fuel fx O true Htr Hem); unfold measure; rewrite Hc; cbn [is_none]; unfold Zlen in *; lia. }
  unfold pp_tail, rq_fuel.
  destruct (fin && is_nil rest).
  - destruct (check_cl _); [|reflexivity]. rewrite Fuel by reflexivity. reflexivity.
  - rewrite Fuel by reflexivity. reflexivity.
Qed.

(* the resume pass for that stream, once the decoder reports it as unblocked *)
Lemma pp_unblock : forall O c s0 rest pid fin,
  at_boundary s0 -> c_client c = true ->
  find_stream (s_id s0) (c_streams c) = Some (set_buf (set_btype (set_blocked (pp_state s0 fin pid) true) (Some 5)) rest) ->
  unblock fx O c [s_id s0] [] = to_rsd c (pp_decoded O s0 fin pid rest (o_resume O (s_id s0))).
Proof.
  intros O c s0 rest pid fin (B1 & B2 & B3 & B4 & B5 & B6 & B7) Hc Hfind.
  destruct s0 as [i bf cu se bl en hs cn ex pu sy bt bp]. cbn in B1, B2, B3, B4, B5, B6, B7. subst.
  cbn [s_id] in *. cbn [unblock]. rewrite Hfind, Hpb, Hc.
  unfold pp_state.
  rsimpl.
  unfold handle_rp_frame.
  rsimpl. cbn [Z.eqb Pos.eqb andb].
  rewrite Hpb. unfold pp_decoded, pp_state.
  rsimpl.
  destruct (o_resume O i) as [hid| |]; [| reflexivity | reflexivity].
  destruct (negb (fst (o_val O 3 hid))); [reflexivity|].
  unfold endmark. rewrite Hem. cbn [andb].
  rsimpl.
  unfold pp_tail.
  destruct rest as [|r0 rest].
  - (* the promise was the last thing in the buffer *)
    cbn [is_nil andb]. rewrite andb_true_r.
    destruct fin; cbn [andb].
    + unfold check_cl. cbn [s_expect s_clen].
      destruct (match ex with Some e => cn =? e | None => true end); [|reflexivity].
      cbn [set_blocked set_btype s_buf is_nil negb].
      rewrite rq_loop_nil. cbn [s_blocked s_buf s_cur set_buf is_nil is_none negb andb orb to_rsd app]. reflexivity.
    + cbn [set_blocked set_btype s_buf is_nil negb].
      rewrite rq_loop_nil. cbn [s_blocked s_buf s_cur set_buf is_nil is_none negb andb orb to_rsd app]. reflexivity.
  - (* further frames wait behind it: they are parsed by _receive_request_or_push_data(stream, b"", receiving_ended) *)
    cbn [is_nil andb]. rewrite andb_false_r.
    cbn [set_blocked set_btype s_buf is_nil negb s_ended].
    unfold rq_recv.
    rsimpl.
    rewrite app_nil_r. rewrite orb_diag. cbn [is_nil]. rewrite andb_false_r. cbn [andb].
    rewrite (loop_acc fx O true _ _ _ _ [EPush i pid hid]).
    destruct (rq_loop (rq_fuel (r0 :: rest)) fx O true fin _ (r0 :: rest) []) as [e2 s3| |]; cbn [prepend to_rsd]; try reflexivity.
    rewrite Htr. cbn [andb].
    match goal with |- context [if ?b then RErr H3_FRAME_ERROR else _] => destruct b end; cbn [to_rsd app]; reflexivity.
Qed.


(* ------------------------------------------------------------------ the two streams on a connection *)
(* the peer's QPACK encoder stream [es]: already open (type known), or opened by this very delivery;
   [payload] = the bytes handed to Decoder.feed_encoder *)
Definition enc_ready (c0 : conn) (es : Z) (encdata payload : list Z) : Prop :=
  match find_stream es (c_streams c0) with
  | Some se => s_stype se = Some 2 /\ s_ended se = false /\ payload = s_buf se ++ encdata /\ is_nil payload = false
  | None => c_qenc c0 = None /\ pull_uint_var encdata = Some (2, payload)
  end.

(* the request stream [sid]: new, or between two frames *)
Definition req_ready (c0 : conn) (sid : Z) : Prop :=
  match find_stream sid (c_streams c0) with Some s => at_boundary s | None => True end.

Definition to_hout (r : rres) : hout :=
  match r with RVal e _ => Events e | RErr k => Closed k | RExn k => Raised k end.

Lemma he_stream : forall O c sid d f, c_done c = false ->
  handle_event fx O c (QStream sid d f) =
  match receive_stream_data fx O c sid d f with
  | SVal evs c' => (Events evs, c')
  | SErr k c' => (Closed k, set_done c' true)
  | SExn k => (Raised k, c)
  end.
Proof. intros O c sid d f H. unfold handle_event. rewrite H. reflexivity. Qed.

Lemma recv_bidi : forall O c sid d f, is_uni sid = false ->
  receive_stream_data0 fx O c sid d f =
  to_rsd (snd (get_or_create c sid)) (rq_recv fx O (c_client c) (fst (get_or_create c sid)) d f).
Proof.
  intros O c sid d f H. unfold receive_stream_data0.
  pose proof (goc_fields c sid) as (Hc & _). cbv zeta in Hc. rewrite <- Hc.
  destruct (get_or_create c sid) as [s0 cg]. cbn [fst snd]. rewrite H.
  destruct (rq_recv fx O (c_client cg) s0 d f); reflexivity.
Qed.

Lemma at_boundary_new : forall sid, at_boundary (new_stream sid).
Proof. intros sid. repeat split. Qed.

Lemma req_ready_goc : forall c sid, req_ready c sid -> at_boundary (fst (get_or_create c sid)).
Proof.
  intros c sid H. unfold req_ready in H. unfold get_or_create.
  destruct (find_stream sid (c_streams c)); cbn [fst]; [assumption | apply at_boundary_new].
Qed.

Lemma goc_fst_ext : forall c c' sid, find_stream sid (c_streams c') = find_stream sid (c_streams c) ->
  fst (get_or_create c' sid) = fst (get_or_create c sid).
Proof. intros c c' sid H. unfold get_or_create. rewrite H. destruct (find_stream sid (c_streams c)); reflexivity. Qed.

Lemma enc_ready_ext : forall c c' es d p,
  find_stream es (c_streams c') = find_stream es (c_streams c) -> c_qenc c' = c_qenc c ->
  enc_ready c es d p -> enc_ready c' es d p.
Proof. intros c c' es d p H1 H2. unfold enc_ready. rewrite H1, H2. tauto. Qed.

(* one delivery on the encoder stream: the bytes go to the decoder, the streams it reports are resumed *)
Lemma enc_step : forall O c0 es encdata payload l,
  is_uni es = true -> enc_ready c0 es encdata payload -> o_enc O payload = EUnblocked l ->
  exists c1, receive_stream_data0 fx O c0 es encdata false = unblock fx O c1 l [] /\
    c_client c1 = c_client c0 /\ c_done c1 = c_done c0 /\ c_sent_end c1 = c_sent_end c0 /\
    (forall x, x <> es -> find_stream x (c_streams c1) = find_stream x (c_streams c0)) /\
    (exists se', find_stream es (c_streams c1) = Some se' /\ s_ended se' = false).
Proof.
  intros O c0 es encdata payload l Hu Hr Ho.
  rewrite (recv0_uni_full fx O c0 es encdata false Hu).
  unfold enc_ready in Hr. unfold get_or_create.
  destruct (find_stream es (c_streams c0)) as [se|] eqn:Ef.
  - destruct Hr as (Ht & He & Hp & Hn).
    pose proof (find_id _ _ _ Ef) as Hid.
    rewrite uni_full_spec. rewrite (uni_spec_typed fx O se 2 c0 encdata false Ht He). cbv zeta.
    rewrite <- Hp, Hn. cbn [stream_loops Z.eqb Pos.eqb orb negb].
    unfold tspec. cbn [Z.eqb Pos.eqb]. rewrite Ho.
    eexists. split; [reflexivity|].
    repeat split; try reflexivity.
    + intros x Hx. cbn [c_streams set_streams].
      apply find_put_other. destruct se; cbn in *. lia.
    + eexists. split.
      * cbn [c_streams set_streams].
        match goal with |- find_stream _ (put_stream ?s _) = _ => replace es with (s_id s) by (destruct se; cbn in *; lia) end.
        apply find_put_same.
      * destruct se; cbn in *. reflexivity.
  - destruct Hr as (Hq & Hp).
    rewrite uni_full_spec. unfold uni_spec. cbv zeta.
    cbn [new_stream s_buf s_stype app stream_loops orb].
    assert (Hn : is_nil encdata = false) by (destruct encdata; [discriminate|reflexivity]).
    rewrite Hn. cbn [negb].
    unfold typed_of, ustart. cbn [new_stream s_buf s_stype s_ended s_id set_buf set_ended app orb]. rewrite Hp.
    cbn [Z.eqb Pos.eqb]. cbn [c_qenc set_streams]. rewrite Hq. cbn [is_none].
    unfold tspec. cbn [Z.eqb Pos.eqb]. rewrite Ho.
    eexists. split; [reflexivity|].
    repeat split; try reflexivity.
    + intros x Hx. cbn [c_streams set_streams set_qenc].
      rewrite find_put_other by (cbn; lia). rewrite find_app_new.
      destruct (find_stream x (c_streams c0)); [reflexivity|]. cbn [new_stream s_id].
      replace (es =? x) with false by lia. reflexivity.
    + eexists. split.
      * cbn [c_streams set_streams set_qenc].
        match goal with |- find_stream _ (put_stream ?s _) = _ => change es with (s_id s) at 1 end.
        apply find_put_same.
      * reflexivity.
Qed.

(* INTERLEAVING: the request stream carries a PUSH_PROMISE frame (followed by any other bytes, with or without FIN) whose
   header block needs encoder-stream data.  Delivering the encoder stream first (the block decodes at once: o_dec O2) or the
   request stream first (the block has to wait: o_dec OB = DBlocked; the encoder-stream delivery then reports the stream
   as unblocked and the block is resumed: o_resume O2) gives the same outputs of handle_event, provided the decoder is
   deterministic: decoding the block with the encoder data known = resuming it once the data arrived. *)
Theorem pp_interleave : forall c0 sid es data payload rest pid block fin encdata encpayload OA OB O2,
  c_client c0 = true -> c_done c0 = false -> is_uni sid = false -> is_uni es = true ->
  req_ready c0 sid -> enc_ready c0 es encdata encpayload ->
  frame_at data 5 payload rest -> pull_uint_var payload = Some (pid, block) ->
  o_enc OA encpayload = EUnblocked [] ->
  o_dec OB sid block = DBlocked ->
  o_enc O2 encpayload = EUnblocked [sid] -> o_resume O2 sid = o_dec O2 sid block -> o_dec O2 sid block <> DBlocked ->
  run fx c0 [(QStream es encdata false, OA); (QStream sid data fin, O2)] =
  run fx c0 [(QStream sid data fin, OB); (QStream es encdata false, O2)].
Proof.
  intros c0 sid es data payload rest pid block fin encdata encpayload OA OB O2
         Hcl Hdn Hus Hue Hreq Henc Hfr Hpid HoA HoB Ho2 Hres Hnb.
  assert (Hne : sid <> es) by (intros ->; congruence).
  set (s0 := fst (get_or_create c0 sid)).
  assert (Hb0 : at_boundary s0) by (apply req_ready_goc; assumption).
  assert (Hid : s_id s0 = sid) by apply goc_id.
  set (R := pp_decoded O2 s0 fin pid rest (o_dec O2 sid block)).
  (* ---- encoder stream first *)
  assert (HA : run fx c0 [(QStream es encdata false, OA); (QStream sid data fin, O2)] = [Events []; to_hout R]).
  { cbn [run]. rewrite he_stream by assumption. unfold receive_stream_data.
    destruct (enc_step OA c0 es encdata encpayload [] Hue Henc HoA) as (c1 & E1 & C1 & D1 & SE1 & F1 & (se' & G1 & G2)).
    rewrite E1. cbn [unblock].
    rewrite (pop_not_ended c1 es se' G1 (is_ended_open _ _ G2)).
    rewrite he_stream by congruence. unfold receive_stream_data.
    rewrite recv_bidi by assumption.
    rewrite (goc_fst_ext c0 c1 sid) by (apply F1; assumption). fold s0.
    rewrite C1, Hcl.
    rewrite (pp_recv O2 s0 data payload rest pid block fin Hb0 Hfr Hpid). rewrite Hid.
    subst R.
    destruct (o_dec O2 sid block) as [hid| |] eqn:ED; [| exfalso; apply Hnb; reflexivity |];
      match goal with |- context [to_rsd _ ?r] => destruct r end; reflexivity. }
  (* ---- request stream first *)
  assert (HB : run fx c0 [(QStream sid data fin, OB); (QStream es encdata false, O2)] = [Events []; to_hout R]).
  { cbn [run]. rewrite he_stream by assumption. unfold receive_stream_data.
    rewrite recv_bidi by assumption. fold s0. rewrite Hcl.
    rewrite (pp_recv OB s0 data payload rest pid block fin Hb0 Hfr Hpid). rewrite Hid, HoB.
    set (sB := set_buf (set_btype (set_blocked (pp_state s0 fin pid) true) (Some 5)) rest).
    assert (HsB : s_id sB = sid) by (subst sB; destruct s0; cbn in *; assumption).
    assert (HbB : s_blocked sB = true) by (subst sB; destruct s0; reflexivity).
    cbn [to_rsd].
    set (cg := snd (get_or_create c0 sid)).
    set (cB := set_streams cg (put_stream sB (c_streams cg))).
    assert (FB : find_stream sid (c_streams cB) = Some sB).
    { subst cB. cbn [c_streams set_streams]. rewrite <- HsB. apply find_put_same. }
    pose proof (goc_fields c0 sid) as (K1 & _ & K3 & _ & _ & _ & K7 & _). cbv zeta in K1, K3, K7. fold cg in K1, K3, K7.
    rewrite (pop_not_ended cB sid sB FB (is_ended_blocked _ _ HbB)).
    assert (DB : c_done cB = false) by (subst cB; cbn [c_done set_streams]; congruence).
    rewrite he_stream by assumption. unfold receive_stream_data.
    assert (HencB : enc_ready cB es encdata encpayload).
    { apply (enc_ready_ext c0); [| subst cB; cbn [c_qenc set_streams]; congruence | assumption].
      subst cB. transitivity (find_stream es (c_streams cg)).
      - cbn [c_streams set_streams]. apply find_put_other. lia.
      - subst cg. apply goc_find_other. lia. }
    destruct (enc_step O2 cB es encdata encpayload [sid] Hue HencB Ho2) as (c1 & E1 & C1 & D1 & SE1 & F1 & (se' & G1 & G2)).
    rewrite E1.
    assert (CC : c_client c1 = true) by (rewrite C1; subst cB; cbn [c_client set_streams]; congruence).
    assert (FF : find_stream (s_id s0) (c_streams c1) = Some sB) by (rewrite Hid, F1 by assumption; assumption).
    rewrite <- Hid at 1.
    rewrite (pp_unblock O2 c1 s0 rest pid fin Hb0 CC FF). rewrite Hid, Hres. subst R.
    match goal with |- context [to_rsd _ ?r] => destruct r end; reflexivity. }
  rewrite HA, HB. reflexivity.
Qed.

End Push.

(* the hypotheses are satisfiable: the D4 exchange of docs/C14.md (oracles of proofs/H3Chunk.v) *)
Example pp_interleave_example :
  req_ready (conn_init true true) 0 /\ enc_ready (conn_init true true) 7 [2; 1] [1] /\
  frame_at pp_frame 5 [9; 0] [] /\ pull_uint_var [9; 0] = Some (9, [0]) /\
  o_enc o_inorder [1] = EUnblocked [] /\ o_dec o_blocked 0 [0] = DBlocked /\
  o_enc o_ready [1] = EUnblocked [0] /\ o_resume o_ready 0 = o_dec o_ready 0 [0] /\ o_dec o_ready 0 [0] <> DBlocked.
Proof.
  repeat split; try (vm_compute; congruence).
  exists [2; 9; 0]. split; reflexivity.
Qed.
