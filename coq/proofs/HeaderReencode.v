(* C17: decode -> re-encode for QUIC packet headers.  pull_quic_header does not return the four low bits of the first
   byte (reserved bits and packet-number length -- still under header protection when it runs), the widths of the
   token-length / Length varints, nor the packet number.  What IS returned is enough to rebuild, with the builder /
   encode_quic_retry / encode_quic_version_negotiation models, a header that decodes to the same fields:
   version, packet type, DCID, SCID, token, integrity tag, supported versions and the Length value. *)
From AQ Require Import lib.Base model.Codec model.Varint model.Header
  proofs.CodecProofs proofs.VarintProofs proofs.HeaderProofs proofs.AckFrameProofs proofs.AckReencode proofs.TlsReencode.
From Coq Require Import ZifyBool.

(* ---- Initial / 0-RTT / Handshake ---------------------------------------------------------------------- *)
Theorem header_reencode_long hcl bs h rest pn : bytes_ok bs -> pull_quic_header hcl bs = Ok (h, rest) ->
  (h_type h = PT_INITIAL \/ h_type h = PT_ZERO_RTT \/ h_type h = PT_HANDSHAKE) ->
  exists version rl, h_version h = Some version /\ h_length h = Zlen bs - Zlen rest + rl /\ 0 <= rl <= Zlen rest /\
    h_tag h = [] /\ h_versions h = [] /\ (h_type h <> PT_INITIAL -> h_token h = []) /\
    (rl < 16384 ->
     exists h0 pnb,
       flatten (builder_long_header version (h_type h) (h_dcid h) (h_scid h) (h_token h) rl pn) = Ok (h0 ++ pnb) /\
       Zlen pnb = 2 /\
       forall after, rl <= Zlen (pnb ++ after) ->
         pull_quic_header hcl (h0 ++ pnb ++ after) =
           Ok (mkHeader (Some version) (h_type h) (Zlen h0 + rl) (h_dcid h) (h_scid h) (h_token h) [] [], pnb ++ after)).
Proof.
  intros Hb H Ht. unfold pull_quic_header in H.
  destruct (pull_uint8 bs) as [[first b1]|?] eqn:E1; cbn [bind] in H; [|discriminate].
  destruct (is_long_header first).
  2:{ destruct (negb (has_fixed_bit first)); [discriminate|].
      destruct (pull_bytes hcl b1) as [[dcid b2]|?]; cbn [bind] in H; [|discriminate]. injection H as <- <-.
      cbn [h_type] in Ht. unfold PT_ONE_RTT, PT_INITIAL, PT_ZERO_RTT, PT_HANDSHAKE in Ht. lia. }
  destruct (pull_uint32 b1) as [[version b2]|?] eqn:E2; cbn [bind] in H; [|discriminate].
  destruct (pull_uint8 b2) as [[dl b3]|?] eqn:E3; cbn [bind] in H; [|discriminate].
  destruct (dl >? CONNECTION_ID_MAX_SIZE) eqn:C1; [discriminate|].
  destruct (pull_bytes dl b3) as [[dcid b4]|?] eqn:E4; cbn [bind] in H; [|discriminate].
  destruct (pull_uint8 b4) as [[sl b5]|?] eqn:E5; cbn [bind] in H; [|discriminate].
  destruct (sl >? CONNECTION_ID_MAX_SIZE) eqn:C2; [discriminate|].
  destruct (pull_bytes sl b5) as [[scid b6]|?] eqn:E6; cbn [bind] in H; [|discriminate].
  unfold pull_uint8, pull_uint32 in *.
  destruct (pull_be_inv _ _ _ _ Hb E1) as (-> & _ & Hb1). destruct (pull_be_inv _ _ _ _ Hb1 E2) as (-> & Hv & Hb2).
  destruct (pull_be_inv _ _ _ _ Hb2 E3) as (-> & _ & Hb3). destruct (pull_bytes_inv _ _ _ _ Hb3 E4) as (-> & Ld & _ & Hb4).
  destruct (pull_be_inv _ _ _ _ Hb4 E5) as (-> & _ & Hb5). destruct (pull_bytes_inv _ _ _ _ Hb5 E6) as (-> & Ls & _ & Hb6).
  change (256 ^ Z.of_nat 4) with (2 ^ 32) in Hv. unfold CONNECTION_ID_MAX_SIZE in *.
  destruct (version =? 0) eqn:V0.
  { destruct (pull_versions b6); cbn [bind] in H; [|discriminate]. injection H as <- <-.
    cbn [h_type] in Ht. unfold PT_VERSION_NEGOTIATION, PT_INITIAL, PT_ZERO_RTT, PT_HANDSHAKE in Ht. lia. }
  destruct (negb (has_fixed_bit first)); [discriminate|].
  set (ptype := decode_long_type version (Z.shiftr (Z.land first 48) 4)) in *.
  assert (Fin : forall token rl b9, bytes_ok b9 -> 0 <= rl < 2 ^ 62 -> Zlen token < 2 ^ 62 -> 0 <= ptype <= 2 ->
            (ptype <> PT_INITIAL -> token = []) ->
            finish_long (Zlen (be_enc 1 first ++ be_enc 4 version ++ be_enc 1 dl ++ dcid ++ be_enc 1 sl ++ scid ++ b6))
                        version ptype dcid scid token [] rl b9 = Ok (h, rest) ->
            exists version0 rl0, h_version h = Some version0 /\
              h_length h = Zlen (be_enc 1 first ++ be_enc 4 version ++ be_enc 1 dl ++ dcid ++ be_enc 1 sl ++ scid ++ b6)
                           - Zlen rest + rl0 /\ 0 <= rl0 <= Zlen rest /\
              h_tag h = [] /\ h_versions h = [] /\ (h_type h <> PT_INITIAL -> h_token h = []) /\
              (rl0 < 16384 ->
               exists h0 pnb,
                 flatten (builder_long_header version0 (h_type h) (h_dcid h) (h_scid h) (h_token h) rl0 pn) = Ok (h0 ++ pnb) /\
                 Zlen pnb = 2 /\
                 forall after, rl0 <= Zlen (pnb ++ after) ->
                   pull_quic_header hcl (h0 ++ pnb ++ after) =
                     Ok (mkHeader (Some version0) (h_type h) (Zlen h0 + rl0) (h_dcid h) (h_scid h) (h_token h) [] [],
                         pnb ++ after))).
  { intros token rl b9 Hb9 Hrl Htok Hp Hnt F. unfold finish_long in F.
    destruct (rl >? Zlen b9) eqn:C3; [discriminate|]. injection F as <- <-.
    cbn [h_version h_length h_tag h_versions h_type h_token h_dcid h_scid].
    exists version, rl. repeat split; auto; try lia.
    intros Hsmall.
    destruct (builder_long_roundtrip hcl version ptype dcid scid token rl pn) as (h0 & pnb & Fl & Lp & P); try lia.
    exists h0, pnb. split; [exact Fl|]. split; [exact Lp|]. intros after Ha. rewrite (P after Ha).
    destruct (ptype =? PT_INITIAL) eqn:PI; [reflexivity|]. rewrite Hnt by (unfold PT_INITIAL in *; lia). reflexivity. }
  destruct (ptype =? PT_INITIAL) eqn:PI.
  - destruct (pull_uint_var b6) as [[tl b7]|?] eqn:E7; cbn [bind] in H; [|discriminate].
    destruct (pull_bytes tl b7) as [[token b8]|?] eqn:E8; cbn [bind] in H; [|discriminate].
    destruct (pull_uint_var b8) as [[rl b9]|?] eqn:E9; cbn [bind] in H; [|discriminate].
    destruct (varint_step _ _ _ Hb6 E7) as (G7 & Hb7 & _). destruct (pull_bytes_inv _ _ _ _ Hb7 E8) as (-> & Lt & _ & Hb8).
    destruct (varint_step _ _ _ Hb8 E9) as (G9 & Hb9 & _).
    apply (Fin token rl b9); auto; try lia; unfold PT_INITIAL in *; lia.
  - destruct ((ptype =? PT_ZERO_RTT) || (ptype =? PT_HANDSHAKE)) eqn:PZ.
    + destruct (pull_uint_var b6) as [[rl b7]|?] eqn:E7; cbn [bind] in H; [|discriminate].
      destruct (varint_step _ _ _ Hb6 E7) as (G7 & Hb7 & _).
      apply (Fin [] rl b7); auto; try lia; unfold PT_INITIAL, PT_ZERO_RTT, PT_HANDSHAKE in *; try lia. reflexivity.
    + destruct (pull_bytes (Zlen b6 - RETRY_INTEGRITY_TAG_SIZE) b6) as [[token b7]|?]; cbn [bind] in H; [|discriminate].
      destruct (pull_bytes RETRY_INTEGRITY_TAG_SIZE b7) as [[tag b8]|?]; cbn [bind] in H; [|discriminate].
      unfold finish_long in H. destruct (0 >? Zlen b8); [discriminate|]. injection H as <- <-.
      cbn [h_type] in Ht. unfold PT_INITIAL, PT_ZERO_RTT, PT_HANDSHAKE in *. lia.
Qed.

(* ---- first bytes: finite sweeps over the 256 byte values (finite by nature) ------------------------------- *)
Definition all_bytes : list Z := map Z.of_nat (seq 0 256).

Lemma in_all_bytes f : 0 <= f < 256 -> In f all_bytes.
Proof.
  intros H. unfold all_bytes. apply in_map_iff. exists (Z.to_nat f). split; [lia|]. apply in_seq. lia.
Qed.

Lemma sweep_bytes (P : Z -> bool) : forallb P all_bytes = true -> forall f, 0 <= f < 256 -> P f = true.
Proof. intros H f Hf. rewrite forallb_forall in H. apply H, in_all_bytes, Hf. Qed.

Lemma vn_first_byte_inv first : 0 <= first < 256 -> is_long_header first = true -> Z.lor (first mod 128) 128 = first.
Proof.
  intros Hf L.
  pose proof (sweep_bytes (fun f => implb (is_long_header f) (Z.lor (f mod 128) 128 =? f)) ltac:(vm_compute; reflexivity) first Hf) as S.
  cbv beta in S. rewrite L in S. cbn [implb] in S. lia.
Qed.

Lemma retry_first_byte_inv first version : 0 <= first < 256 -> is_long_header first = true -> has_fixed_bit first = true ->
  decode_long_type version (Z.shiftr (Z.land first 48) 4) = PT_RETRY ->
  encode_long_header_first_byte version PT_RETRY (first mod 16) = Ok first.
Proof.
  intros Hf L F D. unfold encode_long_header_first_byte, encode_long_type, decode_long_type in *.
  change ((PT_RETRY <? 0) || (PT_RETRY >? 3)) with false. cbn [bind].
  destruct (version =? VERSION_2); cbn [bind].
  - pose proof (sweep_bytes (fun f => implb (is_long_header f && has_fixed_bit f &&
        ((if Z.shiftr (Z.land f 48) 4 =? 1 then PT_INITIAL else if Z.shiftr (Z.land f 48) 4 =? 2 then PT_ZERO_RTT
          else if Z.shiftr (Z.land f 48) 4 =? 3 then PT_HANDSHAKE else PT_RETRY) =? PT_RETRY))
        (Z.lor (Z.lor (Z.lor 128 64) (Z.shiftl (if PT_RETRY =? PT_RETRY then 0 else PT_RETRY + 1) 4)) (f mod 16) =? f))
        ltac:(vm_compute; reflexivity) first Hf) as S.
    cbv beta in S. rewrite L, F, D in S. cbn [andb implb] in S. change (PT_RETRY =? PT_RETRY) with true in S.
    cbn [implb] in S. f_equal. change (PT_RETRY =? PT_RETRY) with true. lia.
  - pose proof (sweep_bytes (fun f => implb (is_long_header f && has_fixed_bit f &&
        ((if Z.shiftr (Z.land f 48) 4 =? 0 then PT_INITIAL else if Z.shiftr (Z.land f 48) 4 =? 1 then PT_ZERO_RTT
          else if Z.shiftr (Z.land f 48) 4 =? 2 then PT_HANDSHAKE else PT_RETRY) =? PT_RETRY))
        (Z.lor (Z.lor (Z.lor 128 64) (Z.shiftl PT_RETRY 4)) (f mod 16) =? f))
        ltac:(vm_compute; reflexivity) first Hf) as S.
    cbv beta in S. rewrite L, F, D in S. cbn [andb implb] in S. change (PT_RETRY =? PT_RETRY) with true in S.
    cbn [implb] in S. f_equal. lia.
Qed.

Lemma pull_versions_inv : forall n bs vs, (length bs <= n)%nat -> bytes_ok bs -> pull_versions bs = Ok vs ->
  flatten (map push_uint32 vs) = Ok bs /\ Forall u32_ok vs.
Proof.
  induction n as [|n IH]; intros bs vs L Hb H.
  - destruct bs; [|cbn [length] in L; lia]. injection H as <-. split; [reflexivity|constructor].
  - destruct bs as [|b0 [|b1 [|b2 [|b3 t]]]]; cbn [pull_versions] in H; try discriminate.
    + injection H as <-. split; [reflexivity|constructor].
    + destruct (pull_versions t) as [vs'|] eqn:E; cbn [bind] in H; [|discriminate]. injection H as <-.
      change (b0 :: b1 :: b2 :: b3 :: t) with ([b0; b1; b2; b3] ++ t) in Hb. apply bytes_ok_app in Hb as [H4 Ht].
      destruct (IH t vs' ltac:(cbn [length] in L; lia) Ht E) as (F & U).
      split.
      * cbn [map]. unfold push_uint32 at 1. rewrite (flatten_cons_ok _ _ _ F).
        pose proof (be_enc_dec _ H4 0) as BE. cbn [length] in BE.
        change (((b0 * 256 + b1) * 256 + b2) * 256 + b3) with (be_dec 0 [b0; b1; b2; b3]). rewrite BE. reflexivity.
      * constructor; [|exact U]. change (((b0 * 256 + b1) * 256 + b2) * 256 + b3) with (be_dec 0 [b0; b1; b2; b3]).
        pose proof (be_dec_bound _ H4) as B. cbn [length] in B. unfold u32_ok.
        change (256 ^ Z.of_nat 4) with (2 ^ 32) in B. exact B.
Qed.

(* ---- Version Negotiation: encode_quic_version_negotiation of the decoded fields (and r = first byte & 0x7f) gives
        back the datagram, byte for byte ------------------------------------------------------------------------ *)
Theorem header_reencode_vn hcl bs h rest : bytes_ok bs -> pull_quic_header hcl bs = Ok (h, rest) ->
  h_type h = PT_VERSION_NEGOTIATION ->
  rest = [] /\ h_version h = Some 0 /\ h_length h = Zlen bs /\
  flatten (encode_quic_version_negotiation (hd 0 bs mod 128) (h_scid h) (h_dcid h) (h_versions h)) = Ok bs.
Proof.
  intros Hb H Ht. unfold pull_quic_header in H.
  destruct (pull_uint8 bs) as [[first b1]|?] eqn:E1; cbn [bind] in H; [|discriminate].
  destruct (is_long_header first) eqn:IL.
  2:{ destruct (negb (has_fixed_bit first)); [discriminate|].
      destruct (pull_bytes hcl b1) as [[dcid b2]|?]; cbn [bind] in H; [|discriminate]. injection H as <- <-.
      cbn [h_type] in Ht. discriminate Ht. }
  destruct (pull_uint32 b1) as [[version b2]|?] eqn:E2; cbn [bind] in H; [|discriminate].
  destruct (pull_uint8 b2) as [[dl b3]|?] eqn:E3; cbn [bind] in H; [|discriminate].
  destruct (dl >? CONNECTION_ID_MAX_SIZE) eqn:C1; [discriminate|].
  destruct (pull_bytes dl b3) as [[dcid b4]|?] eqn:E4; cbn [bind] in H; [|discriminate].
  destruct (pull_uint8 b4) as [[sl b5]|?] eqn:E5; cbn [bind] in H; [|discriminate].
  destruct (sl >? CONNECTION_ID_MAX_SIZE) eqn:C2; [discriminate|].
  destruct (pull_bytes sl b5) as [[scid b6]|?] eqn:E6; cbn [bind] in H; [|discriminate].
  unfold pull_uint8, pull_uint32 in *.
  destruct (pull_be_inv _ _ _ _ Hb E1) as (-> & Hf & Hb1). destruct (pull_be_inv _ _ _ _ Hb1 E2) as (-> & Hv & Hb2).
  destruct (pull_be_inv _ _ _ _ Hb2 E3) as (-> & _ & Hb3). destruct (pull_bytes_inv _ _ _ _ Hb3 E4) as (-> & Ld & _ & Hb4).
  destruct (pull_be_inv _ _ _ _ Hb4 E5) as (-> & _ & Hb5). destruct (pull_bytes_inv _ _ _ _ Hb5 E6) as (-> & Ls & _ & Hb6).
  change (256 ^ Z.of_nat 1) with 256 in Hf.
  destruct (version =? 0) eqn:V0.
  - destruct (pull_versions b6) as [vs|] eqn:EV; cbn [bind] in H; [|discriminate]. injection H as <- <-.
    cbn [h_version h_length h_scid h_dcid h_versions]. assert (version = 0) by lia. subst version.
    destruct (pull_versions_inv _ b6 vs (le_n _) Hb6 EV) as (FV & _).
    assert (B1 : be_enc 1 first = [first]).
    { cbn [be_enc]. change (256 ^ Z.of_nat 0) with 1. rewrite Z.div_1_r, Z.mod_small by lia. reflexivity. }
    rewrite B1. cbn [app hd]. repeat split; auto.
    unfold encode_quic_version_negotiation. rewrite (vn_first_byte_inv first Hf IL).
    unfold push_uint8, push_bytes. unfold push_uint32 at 1. rewrite Ld, Ls, B1. cbn [app].
    change (first :: be_enc 4 0 ++ be_enc 1 dl ++ dcid ++ be_enc 1 sl ++ scid ++ b6)
      with ([first] ++ be_enc 4 0 ++ be_enc 1 dl ++ dcid ++ be_enc 1 sl ++ scid ++ b6).
    repeat apply flatten_cons_ok. exact FV.
  - exfalso. destruct (negb (has_fixed_bit first)); [discriminate|].
    set (ptype := decode_long_type version (Z.shiftr (Z.land first 48) 4)) in *.
    assert (R : 0 <= ptype <= 3).
    { unfold ptype, decode_long_type, PT_INITIAL, PT_ZERO_RTT, PT_HANDSHAKE, PT_RETRY.
      repeat match goal with |- context [if ?c then _ else _] => destruct c end; lia. }
    assert (T : forall token tag rl b9, finish_long (Zlen (be_enc 1 first ++ be_enc 4 version ++ be_enc 1 dl ++ dcid ++ be_enc 1 sl ++ scid ++ b6))
                  version ptype dcid scid token tag rl b9 = Ok (h, rest) -> False).
    { intros token tag rl b9 F. unfold finish_long in F. destruct (rl >? Zlen b9); [discriminate|]. injection F as <- <-.
      cbn [h_type] in Ht. unfold PT_VERSION_NEGOTIATION in Ht. lia. }
    destruct (ptype =? PT_INITIAL).
    + destruct (pull_uint_var b6) as [[tl b7]|?]; cbn [bind] in H; [|discriminate].
      destruct (pull_bytes tl b7) as [[token b8]|?]; cbn [bind] in H; [|discriminate].
      destruct (pull_uint_var b8) as [[rl b9]|?]; cbn [bind] in H; [|discriminate]. exact (T _ _ _ _ H).
    + destruct ((ptype =? PT_ZERO_RTT) || (ptype =? PT_HANDSHAKE)).
      * destruct (pull_uint_var b6) as [[rl b7]|?]; cbn [bind] in H; [|discriminate]. exact (T _ _ _ _ H).
      * destruct (pull_bytes (Zlen b6 - RETRY_INTEGRITY_TAG_SIZE) b6) as [[token b7]|?]; cbn [bind] in H; [|discriminate].
        destruct (pull_bytes RETRY_INTEGRITY_TAG_SIZE b7) as [[tag b8]|?]; cbn [bind] in H; [|discriminate].
        exact (T _ _ _ _ H).
Qed.

Lemma decode_long_type_range version bits : 0 <= decode_long_type version bits <= 3.
Proof.
  unfold decode_long_type, PT_INITIAL, PT_ZERO_RTT, PT_HANDSHAKE, PT_RETRY.
  repeat match goal with |- context [if ?c then _ else _] => destruct c end; lia.
Qed.

Lemma Zlen_zero_nil {A} (l : list A) : Zlen l = 0 -> l = [].
Proof. destruct l; [reflexivity|]. rewrite Zlen_cons. pose proof (Zlen_nonneg l). lia. Qed.

(* ---- Retry: encode_quic_retry of the decoded fields (and unused = first byte & 0x0f) gives back the datagram ------ *)
Theorem header_reencode_retry hcl bs h rest : bytes_ok bs -> pull_quic_header hcl bs = Ok (h, rest) ->
  h_type h = PT_RETRY ->
  exists version, h_version h = Some version /\ rest = [] /\ h_length h = Zlen bs /\ Zlen (h_tag h) = 16 /\
    flatten (encode_quic_retry version (h_scid h) (h_dcid h) (h_token h) (hd 0 bs mod 16) (h_tag h)) = Ok bs.
Proof.
  intros Hb H Ht. unfold pull_quic_header in H.
  destruct (pull_uint8 bs) as [[first b1]|?] eqn:E1; cbn [bind] in H; [|discriminate].
  destruct (is_long_header first) eqn:IL.
  2:{ destruct (negb (has_fixed_bit first)); [discriminate|].
      destruct (pull_bytes hcl b1) as [[dcid b2]|?]; cbn [bind] in H; [|discriminate]. injection H as <- <-.
      cbn [h_type] in Ht. discriminate Ht. }
  destruct (pull_uint32 b1) as [[version b2]|?] eqn:E2; cbn [bind] in H; [|discriminate].
  destruct (pull_uint8 b2) as [[dl b3]|?] eqn:E3; cbn [bind] in H; [|discriminate].
  destruct (dl >? CONNECTION_ID_MAX_SIZE) eqn:C1; [discriminate|].
  destruct (pull_bytes dl b3) as [[dcid b4]|?] eqn:E4; cbn [bind] in H; [|discriminate].
  destruct (pull_uint8 b4) as [[sl b5]|?] eqn:E5; cbn [bind] in H; [|discriminate].
  destruct (sl >? CONNECTION_ID_MAX_SIZE) eqn:C2; [discriminate|].
  destruct (pull_bytes sl b5) as [[scid b6]|?] eqn:E6; cbn [bind] in H; [|discriminate].
  unfold pull_uint8, pull_uint32 in *.
  destruct (pull_be_inv _ _ _ _ Hb E1) as (-> & Hf & Hb1). destruct (pull_be_inv _ _ _ _ Hb1 E2) as (-> & Hv & Hb2).
  destruct (pull_be_inv _ _ _ _ Hb2 E3) as (-> & _ & Hb3). destruct (pull_bytes_inv _ _ _ _ Hb3 E4) as (-> & Ld & _ & Hb4).
  destruct (pull_be_inv _ _ _ _ Hb4 E5) as (-> & _ & Hb5). destruct (pull_bytes_inv _ _ _ _ Hb5 E6) as (-> & Ls & _ & Hb6).
  change (256 ^ Z.of_nat 1) with 256 in Hf.
  destruct (version =? 0) eqn:V0.
  { destruct (pull_versions b6); cbn [bind] in H; [|discriminate]. injection H as <- <-. cbn [h_type] in Ht. discriminate Ht. }
  destruct (has_fixed_bit first) eqn:FB; cbn [negb] in H; [|discriminate].
  set (ptype := decode_long_type version (Z.shiftr (Z.land first 48) 4)) in *.
  pose proof (decode_long_type_range version (Z.shiftr (Z.land first 48) 4)) as R. fold ptype in R.
  assert (T : forall token tag rl b9, finish_long (Zlen (be_enc 1 first ++ be_enc 4 version ++ be_enc 1 dl ++ dcid ++ be_enc 1 sl ++ scid ++ b6))
                version ptype dcid scid token tag rl b9 = Ok (h, rest) -> ptype = PT_RETRY).
  { intros token tag rl b9 F. unfold finish_long in F. destruct (rl >? Zlen b9); [discriminate|]. injection F as <- <-.
    exact Ht. }
  destruct (ptype =? PT_INITIAL) eqn:PI.
  { destruct (pull_uint_var b6) as [[tl b7]|?]; cbn [bind] in H; [|discriminate].
    destruct (pull_bytes tl b7) as [[token b8]|?]; cbn [bind] in H; [|discriminate].
    destruct (pull_uint_var b8) as [[rl b9]|?]; cbn [bind] in H; [|discriminate].
    apply T in H. unfold PT_INITIAL, PT_RETRY in *. lia. }
  destruct ((ptype =? PT_ZERO_RTT) || (ptype =? PT_HANDSHAKE)) eqn:PZ.
  { destruct (pull_uint_var b6) as [[rl b7]|?]; cbn [bind] in H; [|discriminate].
    apply T in H. unfold PT_ZERO_RTT, PT_HANDSHAKE, PT_RETRY in *. lia. }
  destruct (pull_bytes (Zlen b6 - RETRY_INTEGRITY_TAG_SIZE) b6) as [[token b7]|?] eqn:E7; cbn [bind] in H; [|discriminate].
  destruct (pull_bytes RETRY_INTEGRITY_TAG_SIZE b7) as [[tag b8]|?] eqn:E8; cbn [bind] in H; [|discriminate].
  pose proof (T _ _ _ _ H) as PR.
  destruct (pull_bytes_inv _ _ _ _ Hb6 E7) as (-> & Lt & _ & Hb7). destruct (pull_bytes_inv _ _ _ _ Hb7 E8) as (-> & Lg & _ & Hb8).
  unfold RETRY_INTEGRITY_TAG_SIZE in *. rewrite !Zlen_app in Lt.
  assert (b8 = []) by (apply Zlen_zero_nil; lia). subst b8.
  unfold finish_long in H. change (0 >? Zlen (@nil Z)) with false in H. injection H as <- <-.
  cbn [h_version h_length h_tag h_scid h_dcid h_token].
  assert (B1 : be_enc 1 first = [first]).
  { cbn [be_enc]. change (256 ^ Z.of_nat 0) with 1. rewrite Z.div_1_r, Z.mod_small by lia. reflexivity. }
  exists version. rewrite B1. cbn [app hd]. change (Zlen (@nil Z)) with 0.
  split; [reflexivity|]. split; [reflexivity|].
  split; [repeat rewrite ?Zlen_cons, ?Zlen_app, ?be_enc_Zlen; change (Zlen (@nil Z)) with 0; lia|]. split; [exact Lg|].
  unfold encode_quic_retry. unfold ptype in PR. rewrite (retry_first_byte_inv first version Hf IL FB PR).
  cbn [lift_first]. unfold push_uint8, push_uint32, push_bytes. rewrite Ld, Ls, B1.
  change (first :: be_enc 4 version ++ be_enc 1 dl ++ dcid ++ be_enc 1 sl ++ scid ++ token ++ tag ++ [])
    with ([first] ++ be_enc 4 version ++ be_enc 1 dl ++ dcid ++ be_enc 1 sl ++ scid ++ token ++ tag ++ []).
  repeat apply flatten_cons_ok. reflexivity.
Qed.

(* ---- 1-RTT: the decoder returns only the DCID (host_cid_length bytes after the first byte); spin bit, key phase,
        reserved bits and packet-number length are not returned: any builder header for that DCID decodes to the same
        fields ------------------------------------------------------------------------------------------------- *)
Lemma long_header_type hcl bs h rest first b1 : pull_uint8 bs = Ok (first, b1) -> is_long_header first = true ->
  pull_quic_header hcl bs = Ok (h, rest) -> 0 <= h_type h <= 4.
Proof.
  intros E1 IL H. unfold pull_quic_header in H. rewrite E1 in H. cbn [bind] in H. rewrite IL in H.
  destruct (pull_uint32 b1) as [[version b2]|?]; cbn [bind] in H; [|discriminate].
  destruct (pull_uint8 b2) as [[dl b3]|?]; cbn [bind] in H; [|discriminate].
  destruct (dl >? CONNECTION_ID_MAX_SIZE); [discriminate|].
  destruct (pull_bytes dl b3) as [[dcid b4]|?]; cbn [bind] in H; [|discriminate].
  destruct (pull_uint8 b4) as [[sl b5]|?]; cbn [bind] in H; [|discriminate].
  destruct (sl >? CONNECTION_ID_MAX_SIZE); [discriminate|].
  destruct (pull_bytes sl b5) as [[scid b6]|?]; cbn [bind] in H; [|discriminate].
  destruct (version =? 0).
  { destruct (pull_versions b6); cbn [bind] in H; [|discriminate]. injection H as <- <-. cbn [h_type].
    unfold PT_VERSION_NEGOTIATION. lia. }
  destruct (negb (has_fixed_bit first)); [discriminate|].
  pose proof (decode_long_type_range version (Z.shiftr (Z.land first 48) 4)) as R.
  set (ptype := decode_long_type version (Z.shiftr (Z.land first 48) 4)) in *.
  assert (T : forall token tag rl b9, finish_long (Zlen bs) version ptype dcid scid token tag rl b9 = Ok (h, rest) ->
                0 <= h_type h <= 4).
  { intros token tag rl b9 F. unfold finish_long in F. destruct (rl >? Zlen b9); [discriminate|]. injection F as <- <-.
    cbn [h_type]. lia. }
  destruct (ptype =? PT_INITIAL).
  { destruct (pull_uint_var b6) as [[tl b7]|?]; cbn [bind] in H; [|discriminate].
    destruct (pull_bytes tl b7) as [[token b8]|?]; cbn [bind] in H; [|discriminate].
    destruct (pull_uint_var b8) as [[rl b9]|?]; cbn [bind] in H; [|discriminate]. exact (T _ _ _ _ H). }
  destruct ((ptype =? PT_ZERO_RTT) || (ptype =? PT_HANDSHAKE)).
  { destruct (pull_uint_var b6) as [[rl b7]|?]; cbn [bind] in H; [|discriminate]. exact (T _ _ _ _ H). }
  destruct (pull_bytes (Zlen b6 - RETRY_INTEGRITY_TAG_SIZE) b6) as [[token b7]|?]; cbn [bind] in H; [|discriminate].
  destruct (pull_bytes RETRY_INTEGRITY_TAG_SIZE b7) as [[tag b8]|?]; cbn [bind] in H; [|discriminate].
  exact (T _ _ _ _ H).
Qed.

Theorem header_reencode_short hcl bs h rest spin kp pn after : bytes_ok bs -> pull_quic_header hcl bs = Ok (h, rest) ->
  h_type h = PT_ONE_RTT -> (spin = 0 \/ spin = 1) -> (kp = 0 \/ kp = 1) ->
  h_version h = None /\ Zlen (h_dcid h) = hcl /\ h_length h = Zlen bs /\
  h_scid h = [] /\ h_token h = [] /\ h_tag h = [] /\ h_versions h = [] /\
  exists h0 pnb, flatten (builder_short_header spin kp (h_dcid h) pn) = Ok (h0 ++ pnb) /\ Zlen pnb = 2 /\
    pull_quic_header hcl (h0 ++ pnb ++ after) =
      Ok (mkHeader None PT_ONE_RTT (Zlen (h0 ++ pnb ++ after)) (h_dcid h) [] [] [] [], pnb ++ after).
Proof.
  intros Hb H Ht Hs Hk.
  destruct (pull_uint8 bs) as [[first b1]|?] eqn:E1; [|unfold pull_quic_header in H; rewrite E1 in H; discriminate].
  destruct (is_long_header first) eqn:IL.
  { pose proof (long_header_type _ _ _ _ _ _ E1 IL H) as R. rewrite Ht in R. unfold PT_ONE_RTT in R. lia. }
  unfold pull_quic_header in H. rewrite E1 in H. cbn [bind] in H. rewrite IL in H.
  destruct (negb (has_fixed_bit first)); [discriminate|].
  destruct (pull_bytes hcl b1) as [[dcid b2]|?] eqn:E2; cbn [bind] in H; [|discriminate]. injection H as <- <-.
  unfold pull_uint8 in E1. destruct (pull_be_inv _ _ _ _ Hb E1) as (-> & _ & Hb1).
  destruct (pull_bytes_inv _ _ _ _ Hb1 E2) as (-> & Ld & _ & _).
  cbn [h_version h_dcid h_length h_scid h_token h_tag h_versions]. repeat split; auto.
  destruct (builder_short_roundtrip spin kp dcid pn after Hs Hk) as (h0 & pnb & F & Lp & P).
  exists h0, pnb. rewrite <- Ld. auto.
Qed.

(* what is NOT preserved, on one Initial packet (first byte c3: packet-number-length bits 11; token length on two
   bytes 40 01; Length on four bytes 80 00 00 03): the builder writes c1, 01 and 40 03 -- 12 header bytes instead of 15,
   same version / type / DCID / SCID / token / Length value.  And the builder's Length field is 2 bytes: a decoded
   Length of 16384 cannot be rebuilt (push_uint16(16384 | 0x4000) is 40 00, which reads back as 0). *)
Definition w_initial : list Z := [195; 0; 0; 0; 1; 1; 170; 0; 64; 1; 85; 128; 0; 0; 3; 1; 2; 3].

Theorem header_reencode_not_canonical_refuted :
  pull_quic_header 0 w_initial = Ok (mkHeader (Some 1) PT_INITIAL 18 [170] [] [85] [] [], [1; 2; 3]) /\
  (exists b, flatten (builder_long_header 1 PT_INITIAL [170] [] [85] 3 258) = Ok b /\ Zlen b = 14 /\
             b <> firstn 14 w_initial /\
             pull_quic_header 0 (b ++ [3]) = Ok (mkHeader (Some 1) PT_INITIAL 15 [170] [] [85] [] [], [1; 2; 3])) /\
  (push_uint16 (Z.lor 16384 16384) = Ok [64; 0] /\ pull_uint_var [64; 0] = Ok (0, [])).
Proof.
  split; [vm_compute; reflexivity|]. split; [|split; vm_compute; reflexivity].
  eexists. split; [vm_compute; reflexivity|]. split; [vm_compute; reflexivity|].
  split; [intros X; discriminate X|vm_compute; reflexivity].
Qed.
