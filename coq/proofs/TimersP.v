(* Proofs about the timer / closing state machine of model/Timers.v (C09). *)
From Coq Require Import ZArith List Bool Lia.
From AQ Require Import lib.Base model.Timers model.TimersSpec.

Ltac dconn c := destruct c as [cl cc st ca cp ce la vn hp ev].

Ltac split_ifs :=
  repeat match goal with
  | |- context [if ?b then _ else _] => destruct b eqn:?
  end.

Lemma is_none_true : forall A (o : option A), is_none o = true -> o = None.
Proof. destruct o; simpl; congruence. Qed.
Lemma is_none_false : forall A (o : option A), is_none o = false -> o <> None.
Proof. destruct o; simpl; congruence. Qed.

Lemma forall_repeat0 : forall n, Forall ordinary (repeat EV_OTHER n).
Proof. induction n; simpl; constructor; auto; reflexivity. Qed.

Lemma term_kind_consts :
  is_term_kind EV_LOCAL /\ is_term_kind EV_ERROR /\ is_term_kind EV_PEER /\ is_term_kind EV_IDLE /\ is_term_kind EV_VN.
Proof. unfold is_term_kind, EV_LOCAL, EV_ERROR, EV_PEER, EV_IDLE, EV_VN; lia. Qed.

Lemma cstate_eq_dec_term : forall c, c_state c = TERMINATED \/ c_state c <> TERMINATED.
Proof. intros c. destruct (c_state c); auto; right; discriminate. Qed.

(* ------------------------------------------------------------------ the invariant *)

Definition live (c : conn) : Prop := c_close_at c <> None.

Lemma inv_live_state : forall c, inv c -> live c -> c_state c <> TERMINATED.
Proof. unfold inv, live; intros c [[H _] _] L E; auto. Qed.

Ltac tinv :=
  unfold inv in *; simpl in *;
  repeat match goal with H : _ /\ _ |- _ => destruct H end;
  (split; [|split]);
  [ split; intros; try congruence; try tauto; auto
  | intros; try congruence; auto
  | let k' := fresh "k" in let E' := fresh "E" in
    intros k' E'; try (inversion E'; subst); try congruence; auto ].

Lemma inv_do_close : forall k c, is_term_kind k -> inv c -> inv (do_close k c).
Proof.
  intros k c K I. dconn c. unfold do_close; simpl.
  destruct (is_none ce && negb (is_end st)); simpl; auto. tinv.
Qed.

Lemma inv_srv_init : forall c, inv c -> inv (srv_init c).
Proof.
  intros c I. dconn c. unfold srv_init; simpl.
  destruct (negb cl && is_firstflight st); simpl; auto.
Qed.

Lemma state_srv_init : forall c, c_state (srv_init c) = c_state c.
Proof. intros c; dconn c; unfold srv_init; simpl. destruct (negb cl && is_firstflight st); reflexivity. Qed.

Lemma events_srv_init : forall c, c_events (srv_init c) = c_events c.
Proof. intros c; dconn c; unfold srv_init; simpl. destruct (negb cl && is_firstflight st); reflexivity. Qed.

Lemma pending_srv_init : forall c, c_close_pending (srv_init c) = c_close_pending c.
Proof. intros c; dconn c; unfold srv_init; simpl. destruct (negb cl && is_firstflight st); reflexivity. Qed.

Lemma live_do_close : forall k c, live (do_close k c) <-> live c.
Proof. intros k c; dconn c; unfold do_close, live; simpl. destruct (is_none ce && negb (is_end st)); simpl; tauto. Qed.

Lemma state_do_close : forall k c, c_state (do_close k c) = c_state c.
Proof. intros k c; dconn c; unfold do_close; simpl. destruct (is_none ce && negb (is_end st)); reflexivity. Qed.

Lemma inv_set_close_at : forall d c, inv c -> c_state c <> TERMINATED -> inv (set_close_at (Some d) c).
Proof. intros d c I L. dconn c. tinv. Qed.

Lemma inv_connect_internal : forall now idle c, inv c -> c_state c <> TERMINATED -> inv (connect_internal now idle c).
Proof. intros. apply inv_set_close_at; auto. Qed.

Lemma inv_close_end : forall c, inv c -> inv (close_end c).
Proof. intros c I. dconn c. unfold close_end. tinv. Qed.

Lemma inv_set_event : forall k c, is_term_kind k -> inv c -> inv (set_event (Some k) c).
Proof. intros k c K I. dconn c. tinv. Qed.

Lemma inv_vn_pkt : forall now v idle c, inv c -> live c -> inv (vn_pkt now v idle c).
Proof.
  intros now v idle c I L. pose proof (inv_live_state c I L) as NT.
  unfold vn_pkt.
  destruct (c_client c && is_firstflight (c_state c) && negb (c_vn_done c)); auto.
  destruct (v =? 0); auto. destruct (v =? 1).
  - apply inv_close_end. apply inv_set_event; auto. apply term_kind_consts.
  - apply inv_connect_internal; [|dconn c; auto]. dconn c. tinv.
Qed.

Lemma inv_proc_pkt : forall now nev pc err c, inv c -> live c -> inv (proc_pkt now nev pc err c) /\ live (proc_pkt now nev pc err c).
Proof.
  intros now nev pc err c I L. pose proof (inv_live_state c I L) as NT.
  pose proof term_kind_consts as (K1 & K2 & K3 & K4 & K5).
  dconn c. unfold proc_pkt, srv_init, do_close, close_begin, live in *; simpl in *.
  destruct (negb cl && is_firstflight st); simpl;
  destruct (is_firstflight st) eqn:FF; simpl;
  destruct pc as [p|]; simpl;
  try destruct (is_none ce) eqn:CE; simpl;
  destruct err; simpl;
  repeat match goal with |- context [if ?b then _ else _] => destruct b eqn:? end; simpl;
  (split; [tinv | congruence]).
Qed.

Lemma inv_recv_pkts : forall now ps c, inv c -> live c -> inv (recv_pkts now c ps).
Proof.
  intros now ps. induction ps as [|p rest IH]; intros c I L; simpl; auto.
  destruct p.
  - auto.
  - apply IH. apply inv_srv_init; auto.
    dconn c; unfold srv_init, live in *; simpl in *. destruct (negb cl && is_firstflight st); auto.
  - apply inv_vn_pkt; auto.
  - destruct (c_client c && valid); auto. apply inv_connect_internal; auto. apply inv_live_state; auto.
  - apply inv_do_close; [apply term_kind_consts|apply inv_srv_init; auto].
  - destruct (inv_proc_pkt now nev peer_close err c I L) as [I1 L1].
    destruct (is_end (c_state (proc_pkt now nev peer_close err c)) || c_close_pending (proc_pkt now nev peer_close err c)); auto.
    apply IH.
    + apply inv_set_close_at; auto. apply inv_live_state; auto.
    + remember (proc_pkt now nev peer_close err c) as c1. dconn c1. unfold live; simpl. congruence.
Qed.

Lemma inv_receive : forall now idle0 ps c, inv c -> inv (receive now idle0 ps c).
Proof.
  intros now idle0 ps c I. unfold receive.
  destruct (is_end (c_state c)) eqn:E; auto.
  destruct (c_close_pending c); auto.
  assert (NT : c_state c <> TERMINATED) by (intro H; rewrite H in E; discriminate).
  apply inv_recv_pkts.
  - destruct (is_none (c_close_at c)); auto. apply inv_set_close_at; auto.
  - destruct (is_none (c_close_at c)) eqn:N.
    + dconn c; unfold live; simpl; congruence.
    + apply is_none_false in N. exact N.
Qed.

Lemma inv_step : forall c o r c', inv c -> step c o = (r, c') -> inv c'.
Proof.
  intros c o r c' I S. destruct o; simpl in S.
  - (* connect *)
    unfold connect in S. destruct (c_client c && negb (c_connect_called c)) eqn:G; inversion S; subst; auto.
    apply andb_prop in G. destruct G as [G1 G2]. apply negb_true_iff in G2.
    dconn c. unfold inv in I; simpl in *. destruct I as (A & B & C).
    rewrite G1 in B. rewrite B in G2 by reflexivity. discriminate.
  - inversion S; subst. apply inv_receive; auto.
  - inversion S; subst. apply inv_do_close; auto. apply term_kind_consts.
  - unfold send in S. destruct (negb (c_has_path c)); [inversion S; subst; auto|].
    destruct (is_end (c_state c)) eqn:E; [inversion S; subst; auto|].
    destruct (c_close_pending c); inversion S; subst.
    + dconn c. unfold close_begin. tinv.
    + dconn c. tinv.
  - unfold timer in S. destruct (c_close_at c) eqn:CA; [|inversion S; subst; auto].
    destruct (now >=? z); inversion S; subst; auto.
    apply inv_close_end.
    destruct (is_none (c_close_event c)); auto. apply inv_set_event; auto. apply term_kind_consts.
  - unfold next_event in S. destruct (c_events c); inversion S; subst; auto.
  - unfold get_timer in S. destruct (is_end (c_state c)); [inversion S; subst; auto|].
    destruct (fold_left _ acks _); inversion S; subst; auto.
Qed.

Lemma inv_run : forall ops c, inv c -> inv (snd (run c ops)).
Proof.
  induction ops as [|o t IH]; intros c I; simpl; auto.
  destruct (step c o) as [r c1] eqn:S. specialize (IH c1 (inv_step _ _ _ _ I S)).
  destruct (run c1 t); simpl in *; auto.
Qed.

(* the first op of a run establishes the invariant *)
Lemma inv_first : forall client o r c, first_op client o -> step (conn_init client) o = (r, c) -> inv c.
Proof.
  intros client o r c F S. destruct o; simpl in F; try contradiction; subst; simpl in S.
  - inversion S; subst. unfold connect_internal; tinv.
  - inversion S; subst. unfold receive; simpl.
    apply inv_recv_pkts.
    + tinv.
    + unfold live; simpl; congruence.
Qed.

Lemma inv_reach : forall client o ops, first_op client o -> inv (snd (run (conn_init client) (o :: ops))).
Proof.
  intros client o ops F. simpl. destruct (step (conn_init client) o) as [r c1] eqn:S.
  pose proof (inv_run ops c1 (inv_first _ _ _ _ F S)) as I.
  destruct (run c1 ops); simpl in *; auto.
Qed.

(* ------------------------------------------------------------------ timer_defined *)

Lemma tmin_some : forall src d v, v <= d -> exists v', tmin src (Ok (Some v)) = Ok (Some v') /\ v' <= d.
Proof.
  intros src d v H. destruct src as [x|]; simpl.
  - destruct (x <? v) eqn:E; eexists; split; eauto. apply Z.ltb_lt in E. lia.
  - eauto.
Qed.

Lemma fold_tmin_some : forall acks d v, v <= d ->
  exists v', fold_left (fun cur a => tmin a cur) acks (Ok (Some v)) = Ok (Some v') /\ v' <= d.
Proof.
  induction acks as [|a t IH]; intros d v H; cbn [fold_left]; eauto.
  destruct (tmin_some a d v H) as (v1 & E & L). rewrite E. apply IH; auto.
Qed.

Lemma get_timer_defined : forall acks loss pacing c d,
  c_close_at c = Some d ->
  exists v, fst (get_timer acks loss pacing c) = Ok (Some v) /\ v <= d.
Proof.
  intros acks loss pacing c d CA. unfold get_timer. rewrite CA.
  destruct (is_end (c_state c)); cbn [fst].
  - exists d; split; auto; lia.
  - destruct (fold_tmin_some acks d d (Z.le_refl d)) as (v1 & E & L1). rewrite E. cbn [fst].
    destruct (tmin_some loss d v1 L1) as (v2 & E2 & L2). rewrite E2.
    destruct (tmin_some pacing d v2 L2) as (v3 & E3 & L3). rewrite E3. eauto.
Qed.

Lemma timer_defined_lemma : forall client o ops,
  first_op client o ->
  c_state (snd (run (conn_init client) (o :: ops))) <> TERMINATED ->
  exists d, c_close_at (snd (run (conn_init client) (o :: ops))) = Some d /\
    (forall acks loss pacing, exists v,
        fst (get_timer acks loss pacing (snd (run (conn_init client) (o :: ops)))) = Ok (Some v) /\ v <= d) /\
    (forall u, exists c', timer u (snd (run (conn_init client) (o :: ops))) = Ok c').
Proof.
  intros client o ops F NT. pose proof (inv_reach client o ops F) as I.
  set (c := snd (run (conn_init client) (o :: ops))) in *.
  destruct (c_close_at c) as [d|] eqn:CA.
  - exists d. split; auto. split.
    + intros. apply get_timer_defined; auto.
    + intros u. unfold timer. rewrite CA. destruct (u >=? d); eauto.
  - exfalso. apply NT. destruct I as [[_ A] _]. auto.
Qed.

(* ------------------------------------------------------------------ event history *)

(* what one op appends to _events *)
Definition grows (c c' : conn) (added : list Z) : Prop :=
  (c_state c' <> TERMINATED /\ Forall ordinary added) \/
  (c_state c' = TERMINATED /\ exists z k, added = z ++ [k] /\ Forall ordinary z /\ is_term_kind k).

Lemma close_end_grows : forall c k, c_close_event c = Some k -> is_term_kind k ->
  c_events (close_end c) = c_events c ++ [k] /\ c_state (close_end c) = TERMINATED.
Proof. intros c k E K. dconn c. unfold close_end; simpl in *. rewrite E. auto. Qed.

Lemma proc_pkt_events : forall now nev pc err c,
  c_state c <> TERMINATED ->
  c_state (proc_pkt now nev pc err c) <> TERMINATED /\
  c_events (proc_pkt now nev pc err c) = c_events c ++ repeat EV_OTHER (Z.to_nat nev).
Proof.
  intros now nev pc err c NT. dconn c.
  unfold proc_pkt, srv_init, do_close, close_begin; simpl in *.
  destruct (negb cl && is_firstflight st); simpl;
  destruct (is_firstflight st) eqn:FF; simpl;
  destruct pc as [p|]; simpl;
  try destruct (is_none ce) eqn:CE; simpl;
  destruct err; simpl;
  repeat match goal with |- context [if ?b then _ else _] => destruct b eqn:? end; simpl;
  split; auto; congruence.
Qed.

Lemma recv_pkts_events : forall now ps c, inv c -> c_state c <> TERMINATED ->
  exists added, c_events (recv_pkts now c ps) = c_events c ++ added /\ grows c (recv_pkts now c ps) added.
Proof.
  intros now ps. induction ps as [|p rest IH]; intros c I NT; simpl.
  - exists []. rewrite app_nil_r. split; auto. left; split; auto; try constructor.
  - destruct p.
    + exists []. rewrite app_nil_r. split; auto. left; split; auto; try constructor.
    + destruct (IH (srv_init c)) as (added & E & G).
      * apply inv_srv_init; auto.
      * dconn c; unfold srv_init; simpl in *. destruct (negb cl && is_firstflight st); auto.
      * exists added. split.
        -- rewrite E. dconn c; unfold srv_init; simpl. destruct (negb cl && is_firstflight st); auto.
        -- exact G.
    + unfold vn_pkt. destruct (c_client c && is_firstflight (c_state c) && negb (c_vn_done c)).
      * destruct (verdict =? 0).
        { exists []. rewrite app_nil_r. split; auto. left; split; auto; try constructor. }
        destruct (verdict =? 1).
        { exists [EV_VN]. dconn c. unfold close_end; simpl. split; auto.
          right; split; auto. exists [], EV_VN. split; [reflexivity|]. split; [constructor|apply term_kind_consts]. }
        { exists []. rewrite app_nil_r. dconn c; unfold connect_internal, set_vn_done; simpl in *. split; auto.
          left; split; auto; try constructor. }
      * exists []. rewrite app_nil_r. split; auto. left; split; auto; try constructor.
    + exists []. rewrite app_nil_r. split.
      * destruct (c_client c && valid); auto; dconn c; reflexivity.
      * left; split; [|constructor]. destruct (c_client c && valid); auto; dconn c; auto.
    + exists []. rewrite app_nil_r. split.
      * rewrite <- (events_srv_init c). generalize (srv_init c); intros c0.
        dconn c0; unfold do_close; simpl. destruct (is_none ce && negb (is_end st)); auto.
      * left; split; [|constructor]. rewrite state_do_close, state_srv_init; auto.
    + destruct (proc_pkt_events now nev peer_close err c NT) as [NT1 E1].
      destruct (is_end (c_state (proc_pkt now nev peer_close err c)) || c_close_pending (proc_pkt now nev peer_close err c)).
      * exists (repeat EV_OTHER (Z.to_nat nev)). split; auto. left; split; auto. apply forall_repeat0.
      * assert (L : live c).
        { unfold live. destruct I as [[_ A] _]. intro H; apply NT; auto. }
        destruct (inv_proc_pkt now nev peer_close err c I L) as [I1 L1].
        set (c1 := proc_pkt now nev peer_close err c) in *.
        destruct (IH (set_close_at (Some (now + idle)) c1)) as (added & E & G).
        -- apply inv_set_close_at; auto.
        -- dconn c1; simpl in *; auto.
        -- exists (repeat EV_OTHER (Z.to_nat nev) ++ added). split.
           ++ rewrite E. replace (c_events (set_close_at (Some (now + idle)) c1)) with (c_events c1) by (dconn c1; reflexivity).
              rewrite E1. rewrite app_assoc. reflexivity.
           ++ destruct G as [[G1 G2]|[G1 (z & k & G2 & G3 & G4)]].
              ** left; split; auto. apply Forall_app; split; auto. apply forall_repeat0.
              ** right; split; auto. exists (repeat EV_OTHER (Z.to_nat nev) ++ z), k. repeat split; auto.
                 --- rewrite G2. rewrite app_assoc. reflexivity.
                 --- apply Forall_app; split; auto. apply forall_repeat0.
                 --- apply G4.
                 --- apply G4.
Qed.

(* popped-by-this-op ++ queue afterwards = queue before ++ what the op appended *)
Definition popr (r : ores) : list Z := match r with REvent (Some e) => [e] | _ => [] end.

Lemma step_history : forall c o r c', inv c -> step c o = (r, c') ->
  exists added, popr r ++ c_events c' = c_events c ++ added /\
    ((c_state c = TERMINATED /\ c_state c' = TERMINATED /\ added = []) \/
     (c_state c <> TERMINATED /\ grows c c' added)).
Proof.
  intros c o r c' I S.
  destruct (cstate_eq_dec_term c) as [T|NT].
  - (* terminated: nothing is ever appended *)
    exists []. rewrite app_nil_r. assert (CA : c_close_at c = None) by (destruct I as [[A _] _]; auto).
    destruct o; simpl in S.
    + unfold connect in S. destruct (c_client c && negb (c_connect_called c)) eqn:G.
      * apply andb_prop in G. destruct G as [G1 G2]. apply negb_true_iff in G2.
        destruct I as (_ & B & _). rewrite B in G2; auto. discriminate.
      * inversion S; subst; simpl; auto.
    + inversion S; subst. unfold receive. rewrite T. simpl. auto.
    + inversion S; subst. unfold do_close. rewrite T. simpl. rewrite andb_false_r. simpl. auto.
    + unfold send in S. destruct (negb (c_has_path c)); [inversion S; subst; simpl; auto|].
      rewrite T in S. simpl in S. inversion S; subst; simpl; auto.
    + unfold timer in S. rewrite CA in S. inversion S; subst; simpl; auto.
    + unfold next_event in S. destruct (c_events c) eqn:EV; inversion S; subst; simpl; auto.
    + unfold get_timer in S. rewrite T in S. simpl in S. inversion S; subst.
      destruct (c_close_at c'); simpl; auto.
  - destruct o; simpl in S.
    + exists []. rewrite app_nil_r. unfold connect in S.
      destruct (c_client c && negb (c_connect_called c)); inversion S; subst; simpl.
      * split; [dconn c; reflexivity|]. right; split; auto. left; split; [dconn c; auto|constructor].
      * split; auto. right; split; auto. left; split; auto; constructor.
    + inversion S; subst. simpl. unfold receive.
      destruct (is_end (c_state c)) eqn:E.
      * exists []. rewrite app_nil_r. split; auto. right; split; auto. left; split; auto; constructor.
      * destruct (c_close_pending c) eqn:CP.
        { exists []. rewrite app_nil_r. split; auto. right; split; auto. left; split; auto; constructor. }
        set (c0 := if is_none (c_close_at c) then set_close_at (Some (now + idle0)) c else c).
        assert (E0 : c_events c0 = c_events c) by (unfold c0; destruct (is_none (c_close_at c)); auto; dconn c; reflexivity).
        assert (S0 : c_state c0 = c_state c) by (unfold c0; destruct (is_none (c_close_at c)); auto; dconn c; reflexivity).
        assert (I0 : inv c0).
        { unfold c0. destruct (is_none (c_close_at c)); auto. apply inv_set_close_at; auto. }
        destruct (recv_pkts_events now ps c0 I0) as (added & EE & G); [rewrite S0; auto|].
        exists added. rewrite EE, E0. split; auto.
    + inversion S; subst. exists []. rewrite app_nil_r. simpl. split.
      * dconn c; unfold do_close; simpl. destruct (is_none ce && negb (is_end st)); auto.
      * right; split; auto. left; split; [rewrite state_do_close; auto|constructor].
    + unfold send in S. destruct (negb (c_has_path c)).
      { inversion S; subst. exists []. rewrite app_nil_r. simpl. split; auto. right; split; auto. left; split; auto; constructor. }
      destruct (is_end (c_state c)).
      { inversion S; subst. exists []. rewrite app_nil_r. simpl. split; auto. right; split; auto. left; split; auto; constructor. }
      destruct (c_close_pending c); inversion S; subst; simpl.
      * exists []. rewrite app_nil_r. split; [dconn c; reflexivity|]. right; split; auto.
        left; split; [dconn c; simpl; congruence|constructor].
      * exists (repeat EV_OTHER (Z.to_nat nev)). split; [dconn c; reflexivity|]. right; split; auto.
        left; split; [dconn c; auto|apply forall_repeat0].
    + unfold timer in S. destruct (c_close_at c) eqn:CA.
      * destruct (now >=? z).
        -- inversion S; subst. simpl.
           destruct (is_none (c_close_event c)) eqn:N.
           ++ exists [EV_IDLE]. split; [dconn c; unfold close_end; reflexivity|].
              right; split; auto. right. split; [dconn c; reflexivity|].
              exists [], EV_IDLE. repeat split; auto; try constructor; apply term_kind_consts.
           ++ destruct (c_close_event c) as [k|] eqn:CE; [|discriminate].
              assert (K : is_term_kind k) by (destruct I as (_ & _ & C); auto).
              destruct (close_end_grows c k CE K) as [E1 E2].
              exists [k]. split; auto. right; split; auto. right; split; auto.
              exists [], k. repeat split; auto; try constructor; apply K.
        -- inversion S; subst. exists []. rewrite app_nil_r. simpl. split; auto. right; split; auto. left; split; auto; constructor.
      * inversion S; subst. exists []. rewrite app_nil_r. simpl. split; auto. right; split; auto. left; split; auto; constructor.
    + exists []. rewrite app_nil_r. unfold next_event in S.
      destruct (c_events c) eqn:EV; inversion S; subst; simpl.
      * split; auto. right; split; auto. left; split; auto; constructor.
      * split; [dconn c; simpl in *; auto|]. right; split; auto. left; split; [dconn c; auto|constructor].
    + exists []. rewrite app_nil_r. unfold get_timer in S.
      destruct (is_end (c_state c)).
      { inversion S; subst. destruct (c_close_at c'); simpl; split; auto; right; split; auto; left; split; auto; constructor. }
      destruct (fold_left _ acks _).
      * destruct (tmin pacing (tmin loss (Ok a))); inversion S; subst; simpl;
        (split; [dconn c; reflexivity|]; right; split; auto; left; split; [dconn c; auto|constructor]).
      * inversion S; subst. simpl. split; auto. right; split; auto. left; split; auto; constructor.
Qed.

Definition hist_ok (h : list Z) (c : conn) : Prop :=
  (c_state c <> TERMINATED -> Forall ordinary h) /\
  (c_state c = TERMINATED -> exists pre k, h = pre ++ [k] /\ Forall ordinary pre /\ is_term_kind k).

Lemma popped_cons : forall r rs, popped (r :: rs) = popr r ++ popped rs.
Proof. intros r rs. destruct r; simpl; auto. destruct e; auto. Qed.

Lemma run_history : forall ops c p, inv c -> hist_ok (p ++ c_events c) c ->
  hist_ok (p ++ history (fst (run c ops)) (snd (run c ops))) (snd (run c ops)).
Proof.
  induction ops as [|o t IH]; intros c p I H; simpl.
  - unfold history; simpl. auto.
  - destruct (step c o) as [r c1] eqn:S.
    pose proof (inv_step _ _ _ _ I S) as I1.
    destruct (step_history _ _ _ _ I S) as (added & E & G).
    specialize (IH c1 (p ++ popr r) I1).
    destruct (run c1 t) as [rs c2] eqn:R. simpl in *.
    unfold history in *. rewrite popped_cons. repeat rewrite <- app_assoc in IH. repeat rewrite <- app_assoc.
    apply IH. rewrite E. rewrite app_assoc.
    destruct H as [H1 H2].
    destruct G as [(T & T1 & A)|(NT & [(NT1 & A)|(T1 & z & k & A1 & A2 & A3)])].
    + subst added. rewrite app_nil_r. split; [congruence|]. intros _. auto.
    + split; [|congruence]. intros _. apply Forall_app; split; auto.
    + split; [congruence|]. intros _. exists ((p ++ c_events c) ++ z), k. repeat split.
      * rewrite A1. rewrite app_assoc. reflexivity.
      * apply Forall_app; split; auto.
      * apply A3.
      * apply A3.
Qed.

Lemma terminated_once_lemma : forall client o ops, first_op client o ->
  hist_ok (history (fst (run (conn_init client) (o :: ops))) (snd (run (conn_init client) (o :: ops))))
          (snd (run (conn_init client) (o :: ops))).
Proof.
  intros client o ops F.
  assert (I0 : hist_ok ([] ++ c_events (conn_init client)) (conn_init client)).
  { simpl. split; [constructor|]. simpl; congruence. }
  (* the initial state satisfies everything step_history needs for the first op, except inv;
     run the first op by hand *)
  simpl. destruct (step (conn_init client) o) as [r c1] eqn:S.
  pose proof (inv_first _ _ _ _ F S) as I1.
  assert (H1 : hist_ok (popr r ++ c_events c1) c1).
  { destruct o; simpl in F; try contradiction; subst; simpl in S.
    - inversion S; subst. simpl. split; [constructor|]. simpl; congruence.
    - inversion S; subst. simpl. unfold receive; simpl.
      set (c0 := set_close_at (Some (now + idle0)) (conn_init false)).
      assert (I0' : inv c0) by (unfold c0; tinv).
      destruct (recv_pkts_events now ps c0 I0') as (added & E & G); [simpl; congruence|].
      rewrite E. simpl. destruct G as [[G1 G2]|[G1 (z & k & G2 & G3 & G4)]].
      + split; auto. congruence.
      + split; [congruence|]. intros _. exists z, k. auto. }
  pose proof (run_history ops c1 (popr r) I1 H1) as H.
  destruct (run c1 ops) as [rs c2] eqn:R. simpl in *.
  unfold history in *. rewrite popped_cons. rewrite <- app_assoc. exact H.
Qed.

(* after termination every op other than next_event leaves the connection untouched *)
Lemma terminated_quiet_lemma : forall client o ops, first_op client o ->
  c_state (snd (run (conn_init client) (o :: ops))) = TERMINATED ->
  let c := snd (run (conn_init client) (o :: ops)) in
  (forall now idle0 ps, receive now idle0 ps c = c) /\
  (forall now pto3 p nev, send now pto3 p nev c = Ok (SNone, c)) /\
  (forall acks loss pacing, get_timer acks loss pacing c = (Ok None, c)) /\
  do_close EV_LOCAL c = c /\
  (forall now idle, connect now idle c = Err X_ASSERT) /\
  (forall u, timer u c = Err X_TYPE).
Proof.
  intros client o ops F T c. pose proof (inv_reach client o ops F) as I. fold c in I, T.
  assert (CA : c_close_at c = None) by (destruct I as [[A _] _]; auto).
  repeat split; intros.
  - unfold receive. rewrite T. reflexivity.
  - unfold send. destruct (negb (c_has_path c)); auto. rewrite T. simpl. auto.
  - unfold get_timer. rewrite T. simpl. rewrite CA. reflexivity.
  - unfold do_close. rewrite T. simpl. rewrite andb_false_r. reflexivity.
  - unfold connect. destruct (c_client c) eqn:CL; simpl; auto.
    destruct I as (_ & B & _). rewrite B; auto.
  - unfold timer. rewrite CA. reflexivity.
Qed.

(* ------------------------------------------------------------------ deadlines (stretch) *)

(* handle_timer at or after _close_at terminates, whatever _close_at stands for (idle deadline or
   end of the closing / draining period); before it, handle_timer changes nothing here. *)
Lemma timer_at_deadline : forall c d u, inv c -> c_close_at c = Some d -> u >= d ->
  exists c' k, timer u c = Ok c' /\ c_state c' = TERMINATED /\ c_close_at c' = None /\
    is_term_kind k /\ c_events c' = c_events c ++ [k].
Proof.
  intros c d u I CA U. unfold timer. rewrite CA.
  assert (G : (u >=? d) = true) by (rewrite Z.geb_leb; apply Z.leb_le; lia). rewrite G.
  destruct (c_close_event c) as [k|] eqn:CE; simpl.
  - assert (K : is_term_kind k) by (destruct I as (_ & _ & C); auto).
    exists (close_end c), k. dconn c. unfold close_end; simpl in *. rewrite CE. auto.
  - exists (close_end (set_event (Some EV_IDLE) c)), EV_IDLE. dconn c. unfold close_end; simpl.
    repeat split; auto; apply term_kind_consts.
Qed.

Lemma timer_before_deadline : forall c d u, c_close_at c = Some d -> u < d -> timer u c = Ok c.
Proof.
  intros c d u CA U. unfold timer. rewrite CA.
  assert (G : (u >=? d) = false) by (rewrite Z.geb_leb; apply Z.leb_gt; lia). rewrite G. reflexivity.
Qed.

(* entering CLOSING: only datagrams_to_send with a pending close does it, and it arms now + 3 PTO *)
Lemma send_enters_closing : forall now pto3 p nev c s c',
  send now pto3 p nev c = Ok (s, c') -> is_end (c_state c) = false -> is_end (c_state c') = true ->
  c_state c' = CLOSING /\ c_close_at c' = Some (now + pto3) /\ c_close_pending c = true /\ s <> SData.
Proof.
  intros now pto3 p nev c s c' S E E'. unfold send in S.
  destruct (negb (c_has_path c)); [inversion S; subst; congruence|]. rewrite E in S.
  destruct (c_close_pending c) eqn:P; inversion S; subst.
  - dconn c; unfold close_begin; simpl. repeat split; auto. destruct p; discriminate.
  - dconn c; simpl in *. congruence.
Qed.

Lemma proc_pkt_end : forall now nev pc err c,
  is_end (c_state c) = false -> is_end (c_state (proc_pkt now nev pc err c)) = true ->
  exists pto3, pc = Some pto3 /\ c_state (proc_pkt now nev pc err c) = DRAINING /\
               c_close_at (proc_pkt now nev pc err c) = Some (now + pto3).
Proof.
  intros now nev pc err c E. dconn c.
  unfold proc_pkt, srv_init, do_close, close_begin; simpl in *.
  destruct (negb cl && is_firstflight st); simpl;
  destruct (is_firstflight st) eqn:FF; simpl;
  destruct pc as [p|]; simpl;
  try destruct (is_none ce) eqn:CE; simpl;
  destruct err; simpl;
  repeat match goal with |- context [if ?b then _ else _] => destruct b eqn:? end; simpl;
  intros E'; try congruence; eauto.
Qed.

(* entering DRAINING: only a processed packet with a CONNECTION_CLOSE frame does it: now + 3 PTO *)
Lemma recv_pkts_draining : forall now ps c,
  is_end (c_state c) = false -> closing_state (c_state (recv_pkts now c ps)) ->
  c_state (recv_pkts now c ps) = DRAINING /\
  exists nev pto3 err idle, In (PProc nev (Some pto3) err idle) ps /\ c_close_at (recv_pkts now c ps) = Some (now + pto3).
Proof.
  intros now ps. induction ps as [|p rest IH]; intros c E CS; simpl in *.
  - destruct CS as [H|H]; rewrite H in E; discriminate.
  - destruct p.
    + destruct CS as [H|H]; rewrite H in E; discriminate.
    + destruct (IH (srv_init c)) as (A & nev & pto3 & err & idle & B & C); auto.
      * dconn c; unfold srv_init; simpl in *. destruct (negb cl && is_firstflight st); auto.
      * split; auto. exists nev, pto3, err, idle. auto.
    + exfalso. unfold vn_pkt in CS.
      destruct (c_client c && is_firstflight (c_state c) && negb (c_vn_done c)).
      * destruct (verdict =? 0); [destruct CS as [H|H]; rewrite H in E; discriminate|].
        destruct (verdict =? 1).
        -- dconn c; unfold close_end in CS; simpl in CS. destruct CS; discriminate.
        -- dconn c; unfold connect_internal, set_vn_done in CS; simpl in *. destruct CS as [H|H]; rewrite H in E; discriminate.
      * destruct CS as [H|H]; rewrite H in E; discriminate.
    + exfalso. destruct (c_client c && valid).
      * dconn c; unfold connect_internal in CS; simpl in *. destruct CS as [H|H]; rewrite H in E; discriminate.
      * destruct CS as [H|H]; rewrite H in E; discriminate.
    + exfalso. rewrite state_do_close, state_srv_init in CS. destruct CS as [H|H]; rewrite H in E; discriminate.
    + destruct (is_end (c_state (proc_pkt now nev peer_close err c))) eqn:E1; simpl in *.
      * destruct (proc_pkt_end now nev peer_close err c E E1) as (pto3 & P1 & P2 & P3).
        split; auto. exists nev, pto3, err, idle. subst peer_close. auto.
      * destruct (c_close_pending (proc_pkt now nev peer_close err c)).
        -- destruct CS as [H|H]; rewrite H in E1; discriminate.
        -- assert (E2 : is_end (c_state (set_close_at (Some (now + idle)) (proc_pkt now nev peer_close err c))) = false).
           { remember (proc_pkt now nev peer_close err c) as c1. dconn c1; simpl in *; auto. }
           destruct (IH _ E2 CS) as (A & nev' & pto3 & err' & idle' & B & C).
           split; auto. exists nev', pto3, err', idle'. auto.
Qed.

Lemma receive_draining : forall now idle0 ps c,
  is_end (c_state c) = false -> closing_state (c_state (receive now idle0 ps c)) ->
  c_state (receive now idle0 ps c) = DRAINING /\
  exists nev pto3 err idle, In (PProc nev (Some pto3) err idle) ps /\ c_close_at (receive now idle0 ps c) = Some (now + pto3).
Proof.
  intros now idle0 ps c E. unfold receive. rewrite E.
  destruct (c_close_pending c).
  { intros CS. exfalso. destruct CS as [CS|CS]; rewrite CS in E; discriminate. }
  intros CS.
  apply recv_pkts_draining; auto.
  destruct (is_none (c_close_at c)); auto.
Qed.

(* a processed packet (no close, no error) while live re-arms the idle deadline to now + idle *)
Lemma receive_rearms_idle : forall now idle0 nev idle c,
  is_end (c_state c) = false -> c_close_pending c = false ->
  c_close_at (receive now idle0 [PProc nev None false idle] c) = Some (now + idle) /\
  is_end (c_state (receive now idle0 [PProc nev None false idle] c)) = false.
Proof.
  intros now idle0 nev idle c E P. unfold receive. rewrite E, P.
  dconn c. simpl in *. subst cp.
  unfold proc_pkt, srv_init; simpl.
  destruct (is_none ca); simpl;
  destruct (negb cl && is_firstflight st); simpl;
  destruct (is_firstflight st) eqn:FF; simpl; try rewrite E; simpl; auto;
  destruct st; simpl in *; try discriminate; auto.
Qed.

(* TERMINATED is absorbing *)
Lemma terminated_step : forall c o r c', inv c -> c_state c = TERMINATED -> step c o = (r, c') -> c_state c' = TERMINATED.
Proof.
  intros c o r c' I T S. destruct (step_history _ _ _ _ I S) as (added & _ & [(_ & T' & _)|(NT & _)]); auto.
  contradiction.
Qed.

Lemma terminated_run : forall ops c, inv c -> c_state c = TERMINATED -> c_state (snd (run c ops)) = TERMINATED.
Proof.
  induction ops as [|o t IH]; intros c I T; simpl; auto.
  destruct (step c o) as [r c1] eqn:S.
  specialize (IH c1 (inv_step _ _ _ _ I S) (terminated_step _ _ _ _ I T S)).
  destruct (run c1 t); simpl in *; auto.
Qed.

(* while CLOSING / DRAINING nothing but the timer changes state or deadline *)
Lemma closing_step : forall c o r c', inv c -> closing_state (c_state c) -> step c o = (r, c') ->
  (c_state c' = c_state c /\ c_close_at c' = c_close_at c) \/ c_state c' = TERMINATED.
Proof.
  intros c o r c' I CS S.
  assert (E : is_end (c_state c) = true) by (destruct CS as [H|H]; rewrite H; reflexivity).
  destruct o; simpl in S.
  - unfold connect in S. destruct (c_client c && negb (c_connect_called c)) eqn:G; inversion S; subst; auto.
    exfalso. apply andb_prop in G. destruct G as [G1 G2]. apply negb_true_iff in G2.
    destruct I as (_ & B & _). rewrite B in G2; auto. discriminate.
  - inversion S; subst. unfold receive. rewrite E. auto.
  - inversion S; subst. left. rewrite state_do_close. split; auto.
    dconn c; unfold do_close; simpl in *. rewrite E. rewrite andb_false_r. reflexivity.
  - unfold send in S. destruct (negb (c_has_path c)); [inversion S; subst; auto|].
    rewrite E in S. inversion S; subst; auto.
  - unfold timer in S. destruct (c_close_at c) eqn:CA; [|inversion S; subst; auto].
    destruct (now >=? z); inversion S; subst; auto.
  - unfold next_event in S. destruct (c_events c); inversion S; subst; auto.
  - unfold get_timer in S. rewrite E in S. inversion S; subst; auto.
Qed.

Lemma closing_run : forall ops c, inv c -> closing_state (c_state c) ->
  (c_state (snd (run c ops)) = c_state c /\ c_close_at (snd (run c ops)) = c_close_at c) \/
  c_state (snd (run c ops)) = TERMINATED.
Proof.
  induction ops as [|o t IH]; intros c I CS; simpl; auto.
  destruct (step c o) as [r c1] eqn:S.
  pose proof (inv_step _ _ _ _ I S) as I1.
  destruct (closing_step _ _ _ _ I CS S) as [[A B]|T].
  - assert (CS1 : closing_state (c_state c1)) by (rewrite A; auto).
    specialize (IH c1 I1 CS1). destruct (run c1 t); simpl in *.
    destruct IH as [[A' B']|T']; auto. left. split; congruence.
  - pose proof (terminated_run t c1 I1 T) as T'. destruct (run c1 t); simpl in *; auto.
Qed.

(* The closing period: once CLOSING / DRAINING with deadline d, whatever else is done to the
   connection, a handle_timer at u >= d finds it terminated or terminates it. *)
Lemma closing_terminates : forall c d ops u, inv c -> closing_state (c_state c) -> c_close_at c = Some d -> u >= d ->
  c_state (snd (run c (ops ++ [OTimer u]))) = TERMINATED.
Proof.
  intros c d ops u I CS CA U.
  assert (R : forall l1 l2 c0, snd (run c0 (l1 ++ l2)) = snd (run (snd (run c0 l1)) l2)).
  { induction l1 as [|o t IH]; intros l2 c0; simpl; auto.
    destruct (step c0 o) as [r c1]. specialize (IH l2 c1).
    destruct (run c1 (t ++ l2)); destruct (run c1 t); simpl in *; auto. }
  rewrite R. pose proof (inv_run ops c I) as I'.
  destruct (closing_run ops c I CS) as [[A B]|T].
  - rewrite CA in B. destruct (timer_at_deadline _ d u I' B U) as (c' & k & T1 & T2 & _).
    simpl. rewrite T1. simpl. auto.
  - apply terminated_run; auto.
Qed.

(* ------------------------------------------------------------------ closing sends only the close (stretch) *)

Lemma end_step : forall c o r c', is_end (c_state c) = true -> step c o = (r, c') ->
  is_end (c_state c') = true /\ r <> RSent SData /\ r <> RSent SClose.
Proof.
  intros c o r c' E S. destruct o; simpl in S.
  - unfold connect in S. destruct (c_client c && negb (c_connect_called c)); inversion S; subst; repeat split; auto; try discriminate.
    all: try (dconn c; simpl in *; auto).
  - inversion S; subst. unfold receive. rewrite E. repeat split; auto; discriminate.
  - inversion S; subst. rewrite state_do_close. repeat split; auto; discriminate.
  - unfold send in S. destruct (negb (c_has_path c)); [inversion S; subst; repeat split; auto; discriminate|].
    rewrite E in S. inversion S; subst. repeat split; auto; discriminate.
  - unfold timer in S. destruct (c_close_at c); [|inversion S; subst; repeat split; auto; discriminate].
    destruct (now >=? z); inversion S; subst; repeat split; auto; try discriminate.
    all: try (destruct (is_none (c_close_event c)); dconn c; reflexivity).
  - unfold next_event in S. destruct (c_events c); inversion S; subst; repeat split; auto; try discriminate.
    all: try (dconn c; simpl in *; auto).
  - unfold get_timer in S. rewrite E in S. inversion S; subst. repeat split; auto.
    all: try (destruct (c_close_at c'); discriminate).
Qed.

Lemma end_run : forall ops c, is_end (c_state c) = true ->
  n_data (fst (run c ops)) = O /\ n_close (fst (run c ops)) = O /\ is_end (c_state (snd (run c ops))) = true.
Proof.
  induction ops as [|o t IH]; intros c E; simpl; auto.
  destruct (step c o) as [r c1] eqn:S.
  destruct (end_step _ _ _ _ E S) as (E1 & D & C).
  specialize (IH c1 E1). destruct (run c1 t); simpl in *.
  destruct IH as (A & B & F). repeat split; auto.
  - destruct r; auto. destruct s; auto. contradiction.
  - destruct r; auto. destruct s; auto. contradiction.
Qed.

Lemma pending_proc_pkt : forall now nev pc err c, c_close_pending c = true -> c_close_pending (proc_pkt now nev pc err c) = true.
Proof.
  intros now nev pc err c P. dconn c. simpl in P. subst cp.
  unfold proc_pkt, srv_init, do_close, close_begin; simpl.
  destruct (negb cl && is_firstflight st); simpl;
  destruct (is_firstflight st) eqn:FF; simpl;
  destruct pc as [p|]; simpl;
  try destruct (is_none ce) eqn:CE; simpl;
  destruct err; simpl;
  repeat match goal with |- context [if ?b then _ else _] => destruct b eqn:? end; simpl; auto.
Qed.

Lemma pending_recv_pkts : forall now ps c, c_close_pending c = true -> c_close_pending (recv_pkts now c ps) = true.
Proof.
  intros now ps. induction ps as [|p rest IH]; intros c P; simpl; auto.
  destruct p; auto.
  - apply IH. dconn c; unfold srv_init; simpl in *. destruct (negb cl && is_firstflight st); auto.
  - unfold vn_pkt. destruct (c_client c && is_firstflight (c_state c) && negb (c_vn_done c)); auto.
    destruct (verdict =? 0); auto. destruct (verdict =? 1); dconn c; simpl in *; auto.
  - destruct (c_client c && valid); auto.
  - rewrite <- pending_srv_init in P. revert P. generalize (srv_init c); intros c0 P.
    dconn c0; unfold do_close; simpl in *. destruct (is_none ce && negb (is_end st)); auto.
  - rewrite (pending_proc_pkt now nev peer_close err c P). rewrite orb_true_r. apply pending_proc_pkt; auto.
Qed.

Lemma began_step : forall c o r c', began c -> step c o = (r, c') ->
  began c' /\ r <> RSent SData /\ (r = RSent SClose -> is_end (c_state c') = true).
Proof.
  intros c o r c' B S.
  destruct (is_end (c_state c)) eqn:E.
  { destruct (end_step _ _ _ _ E S) as (E1 & D & C). repeat split; auto. right; auto. }
  destruct B as [P|B]; [|congruence].
  destruct o; simpl in S.
  - unfold connect in S. destruct (c_client c && negb (c_connect_called c)); inversion S; subst;
    repeat split; try discriminate; try (left; auto).
    all: try (left; dconn c; simpl in *; auto).
  - inversion S; subst. repeat split; try discriminate. left. unfold receive. rewrite E, P. exact P.
  - inversion S; subst. repeat split; try discriminate. left.
    dconn c; unfold do_close; simpl in *. destruct (is_none ce && negb (is_end st)); auto.
  - unfold send in S. destruct (negb (c_has_path c)).
    { inversion S; subst. repeat split; try discriminate. left; auto. }
    rewrite E, P in S. inversion S; subst. repeat split.
    all: try (right; dconn c; reflexivity).
    all: try (destruct produced; discriminate).
    all: try (intros _; dconn c; reflexivity).
  - unfold timer in S. destruct (c_close_at c); [|inversion S; subst; repeat split; try discriminate; left; auto].
    destruct (now >=? z); inversion S; subst; repeat split; try discriminate; [right|left; auto].
    all: try (destruct (is_none (c_close_event c)); dconn c; reflexivity).
  - unfold next_event in S. destruct (c_events c); inversion S; subst; repeat split; try discriminate; try (left; auto).
    all: try (left; dconn c; simpl in *; auto).
  - unfold get_timer in S. rewrite E in S.
    destruct (fold_left _ acks _).
    + destruct (tmin pacing (tmin loss (Ok a))); inversion S; subst;
      repeat split; try discriminate; left; dconn c; simpl in *; auto.
    + inversion S; subst. repeat split; try discriminate; left; auto.
Qed.

Lemma began_run : forall ops c, began c ->
  n_data (fst (run c ops)) = O /\ (n_close (fst (run c ops)) <= 1)%nat.
Proof.
  induction ops as [|o t IH]; intros c B; simpl; auto.
  destruct (step c o) as [r c1] eqn:S.
  destruct (began_step _ _ _ _ B S) as (B1 & D & C).
  destruct r as [| |s| |]; try (specialize (IH c1 B1); destruct (run c1 t); simpl in *; tauto).
  destruct s.
  - specialize (IH c1 B1); destruct (run c1 t); simpl in *; tauto.
  - contradiction.
  - specialize (C eq_refl). destruct (end_run t c1 C) as (A1 & A2 & _).
    destruct (run c1 t); simpl in *. rewrite A1, A2. auto.
Qed.

(* close() on a live connection makes the close begin; and a close event is never set without it *)
Lemma began_do_close : forall k c, c_close_event c = None -> began (do_close k c).
Proof.
  intros k c CE. dconn c. unfold do_close, began; simpl in *. subst ce. simpl.
  destruct (is_end st) eqn:E; simpl; auto.
Qed.

(* ------------------------------------------------------------------ the hypotheses are satisfiable *)

Example ex_client_run :
  let ops := [OConnect 1000 60; OGetTimer [None; None; None] (Some 1002) None; OSend 1000 6 true 0;
              OReceive 1020 60 [PProc 2 None false 60]; OClose; OSend 1030 6 true 0;
              OReceive 1031 60 [PProc 1 None false 60]; OTimer 1036; ONextEvent; ONextEvent; ONextEvent] in
  first_op true (OConnect 1000 60) /\
  fst (run (conn_init true) ops) =
    [RUnit; RTimer (Some 1002); RSent SData; RUnit; RUnit; RSent SClose; RUnit; RUnit;
     REvent (Some 0); REvent (Some 0); REvent (Some EV_LOCAL)] /\
  c_state (snd (run (conn_init true) ops)) = TERMINATED.
Proof. vm_compute. repeat split; reflexivity. Qed.

Example ex_server_draining :
  let ops := [OReceive 1000 60 [PProc 1 None false 60]; OSend 1000 6 true 1;
              OReceive 1005 60 [PProc 0 (Some 9) false 60]] in
  first_op false (OReceive 1000 60 [PProc 1 None false 60]) /\
  c_state (snd (run (conn_init false) ops)) = DRAINING /\
  c_close_at (snd (run (conn_init false) ops)) = Some 1014 /\
  c_state (snd (run (conn_init false) (ops ++ [OTimer 1014]))) = TERMINATED /\
  c_state (snd (run (conn_init false) (ops ++ [OTimer 1013]))) = DRAINING.
Proof. vm_compute. repeat split; reflexivity. Qed.

(* the quirk the model keeps: get_timer() / handle_timer() compare with _close_at = None *)
Example ex_unstarted_server_raises :
  fst (get_timer [Some 5] None None (conn_init false)) = Err X_TYPE /\
  timer 5 (conn_init false) = Err X_TYPE.
Proof. vm_compute. split; reflexivity. Qed.

(* ------------------------------------------------------------------ statements for props/C09.v *)

Lemma close_deadline_terminates_lemma : forall client o ops d more u, first_op client o ->
  closing_state (c_state (snd (run (conn_init client) (o :: ops)))) ->
  c_close_at (snd (run (conn_init client) (o :: ops))) = Some d -> u >= d ->
  c_state (snd (run (snd (run (conn_init client) (o :: ops))) (more ++ [OTimer u]))) = TERMINATED.
Proof. intros; eapply closing_terminates; eauto using inv_reach. Qed.

Lemma close_deadline_timer_lemma : forall client o ops d u, first_op client o ->
  c_close_at (snd (run (conn_init client) (o :: ops))) = Some d ->
  (u >= d -> exists c' k, timer u (snd (run (conn_init client) (o :: ops))) = Ok c' /\
       c_state c' = TERMINATED /\ c_close_at c' = None /\ is_term_kind k /\
       c_events c' = c_events (snd (run (conn_init client) (o :: ops))) ++ [k]) /\
  (u < d -> timer u (snd (run (conn_init client) (o :: ops))) = Ok (snd (run (conn_init client) (o :: ops)))).
Proof. intros; split; intros; [eapply timer_at_deadline | eapply timer_before_deadline]; eauto using inv_reach. Qed.
