(* C04: crypto entry points under their call contracts, and the library's own calls. *)
From Coq Require Import ZArith List Bool Lia ZifyBool.
From AQ Require Import model.CMemBase gen.CMem model.CMemSpec proofs.CMemProofs.
Import ListNotations.
Local Open Scope Z_scope.

(* ---------- every access in bounds under the closed-form contract ---------- *)
Ltac under_contract S := intros; apply S; auto; hnf in *; repeat split; intros; try exact I; lia.

Lemma aead_encrypt_under_contract :
  forall data_len associated_len pn parsed i f1 outlen f2 outlen2 f3 f4 f5,
    R_AEAD_encrypt data_len associated_len pn parsed i f1 outlen f2 outlen2 f3 f4 f5 ->
    Kspec_AEAD_encrypt data_len ->
    events_safe (ev_AEAD_encrypt data_len associated_len pn parsed i f1 outlen f2 outlen2 f3 f4 f5).
Proof. unfold Kspec_AEAD_encrypt, R_AEAD_encrypt, K_AEAD_encrypt. intros; apply safe_AEAD_encrypt; auto;
  unfold R_AEAD_encrypt, K_AEAD_encrypt; repeat split; intros; try exact I; lia. Qed.

Lemma aead_decrypt_under_contract :
  forall data_len associated_len pn parsed i f1 f2 outlen f3 outlen2 f4 f5,
    R_AEAD_decrypt data_len associated_len pn parsed i f1 f2 outlen f3 outlen2 f4 f5 ->
    Kspec_AEAD_decrypt data_len ->
    events_safe (ev_AEAD_decrypt data_len associated_len pn parsed i f1 f2 outlen f3 outlen2 f4 f5).
Proof. intros; apply safe_AEAD_decrypt; auto; unfold K_AEAD_decrypt; exact I. Qed.

Lemma hp_apply_under_contract :
  forall header_len payload_len parsed pnl0 f1 b80 i,
    R_HeaderProtection_apply header_len payload_len parsed pnl0 f1 b80 i ->
    Kspec_HP_apply header_len payload_len pnl0 ->
    events_safe (ev_HeaderProtection_apply header_len payload_len parsed pnl0 f1 b80 i).
Proof. unfold Kspec_HP_apply. intros; apply safe_HeaderProtection_apply; auto;
  unfold R_HeaderProtection_apply, K_HeaderProtection_apply in *; repeat split; intros; try exact I; lia. Qed.

Lemma hp_remove_under_contract :
  forall packet_len pn_offset parsed f1 b80 pnl0 i,
    R_HeaderProtection_remove packet_len pn_offset parsed f1 b80 pnl0 i ->
    Kspec_HP_remove packet_len pn_offset ->
    events_safe (ev_HeaderProtection_remove packet_len pn_offset parsed f1 b80 pnl0 i).
Proof. unfold Kspec_HP_remove. intros; apply safe_HeaderProtection_remove; auto;
  unfold R_HeaderProtection_remove, K_HeaderProtection_remove in *; repeat split; intros; try exact I; lia. Qed.

Lemma crypto_safe_under_contract_all :
  (forall data_len associated_len pn parsed i f1 outlen f2 outlen2 f3 f4 f5,
    R_AEAD_encrypt data_len associated_len pn parsed i f1 outlen f2 outlen2 f3 f4 f5 ->
    Kspec_AEAD_encrypt data_len ->
    events_safe (ev_AEAD_encrypt data_len associated_len pn parsed i f1 outlen f2 outlen2 f3 f4 f5)) /\
  (forall data_len associated_len pn parsed i f1 f2 outlen f3 outlen2 f4 f5,
    R_AEAD_decrypt data_len associated_len pn parsed i f1 f2 outlen f3 outlen2 f4 f5 ->
    Kspec_AEAD_decrypt data_len ->
    events_safe (ev_AEAD_decrypt data_len associated_len pn parsed i f1 f2 outlen f3 outlen2 f4 f5)) /\
  (forall header_len payload_len parsed pnl0 f1 b80 i,
    R_HeaderProtection_apply header_len payload_len parsed pnl0 f1 b80 i ->
    Kspec_HP_apply header_len payload_len pnl0 ->
    events_safe (ev_HeaderProtection_apply header_len payload_len parsed pnl0 f1 b80 i)) /\
  (forall packet_len pn_offset parsed f1 b80 pnl0 i,
    R_HeaderProtection_remove packet_len pn_offset parsed f1 b80 pnl0 i ->
    Kspec_HP_remove packet_len pn_offset ->
    events_safe (ev_HeaderProtection_remove packet_len pn_offset parsed f1 b80 pnl0 i)).
Proof.
  repeat split.
  - apply aead_encrypt_under_contract.
  - apply aead_decrypt_under_contract.
  - apply hp_apply_under_contract.
  - apply hp_remove_under_contract.
Qed.

(* the hypotheses are satisfiable by non-trivial values *)
Example contract_example :
  R_HeaderProtection_remove 1200 26 1 0 1 1 0 /\ Kspec_HP_remove 1200 26 /\
  R_HeaderProtection_apply 27 1173 1 1 0 128 0 /\ Kspec_HP_apply 27 1173 1 /\
  R_AEAD_encrypt 1157 27 7 1 0 0 27 0 1157 0 0 0 /\ Kspec_AEAD_encrypt 1157.
Proof. unfold R_HeaderProtection_remove, Kspec_HP_remove, R_HeaderProtection_apply, Kspec_HP_apply, R_AEAD_encrypt, Kspec_AEAD_encrypt. lia. Qed.

(* ---------- does the C code enforce the contract itself?  (status per tree) ---------- *)
(* `unconditional_<fn>` is emitted by the translator: true iff every VC of <fn> was proved without
   a contract clause.  For each function the theorem below is, on the tree being checked, either
   "all accesses in bounds for ALL arguments" or its refutation by concrete arguments. *)
Definition buffer_init_safe_all : Prop :=
  forall capacity data_len data_given parsed malloc_ok malloc_ok2,
    R_Buffer_init capacity data_len data_given parsed malloc_ok malloc_ok2 ->
    events_safe (ev_Buffer_init capacity data_len data_given parsed malloc_ok malloc_ok2).
Definition aead_encrypt_safe_all : Prop :=
  forall data_len associated_len pn parsed i f1 outlen f2 outlen2 f3 f4 f5,
    R_AEAD_encrypt data_len associated_len pn parsed i f1 outlen f2 outlen2 f3 f4 f5 ->
    events_safe (ev_AEAD_encrypt data_len associated_len pn parsed i f1 outlen f2 outlen2 f3 f4 f5).
Definition aead_decrypt_safe_all : Prop :=
  forall data_len associated_len pn parsed i f1 f2 outlen f3 outlen2 f4 f5,
    R_AEAD_decrypt data_len associated_len pn parsed i f1 f2 outlen f3 outlen2 f4 f5 ->
    events_safe (ev_AEAD_decrypt data_len associated_len pn parsed i f1 f2 outlen f3 outlen2 f4 f5).
Definition hp_apply_safe_all : Prop :=
  forall header_len payload_len parsed pnl0 f1 b80 i,
    R_HeaderProtection_apply header_len payload_len parsed pnl0 f1 b80 i ->
    events_safe (ev_HeaderProtection_apply header_len payload_len parsed pnl0 f1 b80 i).
Definition hp_remove_safe_all : Prop :=
  forall packet_len pn_offset parsed f1 b80 pnl0 i,
    R_HeaderProtection_remove packet_len pn_offset parsed f1 b80 pnl0 i ->
    events_safe (ev_HeaderProtection_remove packet_len pn_offset parsed f1 b80 pnl0 i).

Ltac refute H :=
  match type of H with
  | ?A -> _ => let R := fresh "R" in assert (R : A) by (hnf; lia); specialize (H R); clear R
  end;
  apply oob_of_sound in H; vm_compute in H; discriminate H.

Lemma buffer_init_status : if unconditional_Buffer_init then buffer_init_safe_all else ~ buffer_init_safe_all.
Proof.
  unfold unconditional_Buffer_init; cbv iota; unfold buffer_init_safe_all.
  first [ solve [ intros; apply safe_Buffer_init; auto; exact I ]
        | solve [ intro H; specialize (H (-1) 0 0 1 1 1); refute H ]
        | solve [ intro H; specialize (H 8 0 0 1 1 0); refute H ]
        | solve [ intro H; specialize (H 0 8 1 1 0 1); refute H ] ].
Qed.

Lemma aead_encrypt_status : if unconditional_AEAD_encrypt then aead_encrypt_safe_all else ~ aead_encrypt_safe_all.
Proof.
  unfold unconditional_AEAD_encrypt; cbv iota; unfold aead_encrypt_safe_all.
  first [ solve [ intros; apply safe_AEAD_encrypt; auto; exact I ]
        | solve [ intro H; specialize (H 1500 0 0 1 0 0 0 0 1500 0 0 0); refute H ]
        | solve [ intro H; specialize (H 1485 0 0 1 0 0 0 0 1485 0 0 0); refute H ] ].
Qed.

Lemma aead_decrypt_status : if unconditional_AEAD_decrypt then aead_decrypt_safe_all else ~ aead_decrypt_safe_all.
Proof.
  unfold unconditional_AEAD_decrypt; cbv iota; unfold aead_decrypt_safe_all.
  first [ solve [ intros; apply safe_AEAD_decrypt; auto; exact I ]
        | solve [ intro H; specialize (H 1501 0 0 1 0 0 0 0 0 1485 0 0); refute H ]
        | solve [ intro H; specialize (H 15 0 0 1 0 0 0 0 0 0 0 0); refute H ]
        | solve [ intro H; specialize (H 0 0 0 1 0 0 0 0 0 0 0 0); refute H ] ].
Qed.

Lemma hp_apply_status : if unconditional_HeaderProtection_apply then hp_apply_safe_all else ~ hp_apply_safe_all.
Proof.
  unfold unconditional_HeaderProtection_apply; cbv iota; unfold hp_apply_safe_all.
  first [ solve [ intros; apply safe_HeaderProtection_apply; auto; exact I ]
        | solve [ intro H; specialize (H 11 1506 1 1 0 0 0); refute H ]
        | solve [ intro H; specialize (H 11 10 1 1 0 0 0); refute H ]
        | solve [ intro H; specialize (H 0 40 1 1 0 0 0); refute H ] ].
Qed.

Lemma hp_remove_status : if unconditional_HeaderProtection_remove then hp_remove_safe_all else ~ hp_remove_safe_all.
Proof.
  unfold unconditional_HeaderProtection_remove; cbv iota; unfold hp_remove_safe_all.
  first [ solve [ intros; apply safe_HeaderProtection_remove; auto; exact I ]
        | solve [ intro H; specialize (H 9 9 1 0 0 0 0); refute H ]
        | solve [ intro H; specialize (H 3000 2000 1 0 0 0 0); refute H ]
        | solve [ intro H; specialize (H 100 (-1) 1 0 0 0 0); refute H ] ].
Qed.

(* ---------- the library's own calls ---------- *)
(* default-and-up-to-1500 configurations: every sealing call meets the contracts *)
Lemma seal_calls_meet_contract_upto_1500 :
  forall mds start H S, seal_call mds start H S -> mds <= 1500 ->
    Kspec_AEAD_encrypt (S - H) /\ Kspec_HP_apply H (S - H + 16) 1.
Proof. unfold seal_call, Kspec_AEAD_encrypt, Kspec_HP_apply. intros. lia. Qed.

(* larger max_datagram_size settings, and received packets, do not: witnesses *)
Lemma seal_calls_contract_refuted :
  exists mds start H S, seal_call mds start H S /\ ~ (Kspec_AEAD_encrypt (S - H) /\ Kspec_HP_apply H (S - H + 16) 1).
Proof. exists 1517, 0, 11, 1501. unfold seal_call, Kspec_AEAD_encrypt, Kspec_HP_apply. lia. Qed.
Lemma open_calls_contract_refuted :
  (exists L e, open_call L e /\ ~ Kspec_HP_remove L e /\ e + 20 > L) /\
  (exists L e, open_call L e /\ ~ Kspec_HP_remove L e /\ e + 4 > 1500).
Proof. split; [exists 9, 9 | exists 2147, 2031]; unfold open_call, Kspec_HP_remove; lia. Qed.

Definition seal_calls_safe : Prop :=
  forall mds start H S, seal_call mds start H S ->
  forall al pn parsed i f1 outlen f2 outlen2 f3 f4 f5 parsed' g1 b80 i',
    R_AEAD_encrypt (S - H) al pn parsed i f1 outlen f2 outlen2 f3 f4 f5 ->
    R_HeaderProtection_apply H (S - H + 16) parsed' 1 g1 b80 i' ->
    events_safe (ev_AEAD_encrypt (S - H) al pn parsed i f1 outlen f2 outlen2 f3 f4 f5) /\
    events_safe (ev_HeaderProtection_apply H (S - H + 16) parsed' 1 g1 b80 i').
Definition open_calls_safe : Prop :=
  forall L e, open_call L e ->
  forall parsed f1 b80 pnl0 i,
    R_HeaderProtection_remove L e parsed f1 b80 pnl0 i ->
    events_safe (ev_HeaderProtection_remove L e parsed f1 b80 pnl0 i).

Ltac refute2 H :=
  repeat match type of H with
  | ?A -> _ => let R := fresh "R" in assert (R : A) by (hnf; lia); specialize (H R); clear R
  end;
  destruct H as [H1 H2];
  first [ apply oob_of_sound in H1; vm_compute in H1; discriminate H1
        | apply oob_of_sound in H2; vm_compute in H2; discriminate H2 ].

Lemma library_seal_status :
  if unconditional_AEAD_encrypt && unconditional_HeaderProtection_apply then seal_calls_safe else ~ seal_calls_safe.
Proof.
  unfold unconditional_AEAD_encrypt, unconditional_HeaderProtection_apply; cbv iota beta delta [andb]; unfold seal_calls_safe.
  first [ solve [ intros; split; [ apply safe_AEAD_encrypt | apply safe_HeaderProtection_apply ]; auto; exact I ]
        | solve [ intro H; specialize (H 2000 0 11 1490 (ltac:(hnf; lia)) 11 0 1 0 0 11 0 1479 0 0 0 1 0 0 0); refute2 H ]
        | solve [ intro H; specialize (H 2000 0 11 1500 (ltac:(hnf; lia)) 11 0 1 0 0 11 0 1489 0 0 0 1 0 0 0); refute2 H ] ].
Qed.

Lemma library_open_status :
  if unconditional_HeaderProtection_remove then open_calls_safe else ~ open_calls_safe.
Proof.
  unfold unconditional_HeaderProtection_remove; cbv iota; unfold open_calls_safe.
  first [ solve [ intros; apply safe_HeaderProtection_remove; auto; exact I ]
        | solve [ intro H; specialize (H 9 9 (ltac:(hnf; lia)) 1 0 0 0 0); refute H ]
        | solve [ intro H; specialize (H 2147 2031 (ltac:(hnf; lia)) 1 0 0 0 0); refute H ] ].
Qed.
