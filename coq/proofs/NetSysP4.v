(* C01: liveness by construction.  From EVERY reachable state there is a finite, explicitly bounded
   continuation schedule [complete ms s] -- give every emitted frame without outcome the outcome LOST,
   then repeatedly emit with budget [ms], deliver and acknowledge the emitted frame -- after which the
   receiver has reported every written byte in order, exactly one end marker when a FIN was written, and
   the sender is_finished.  [complete] is a Gallina function (executable: see [complete_example]). *)
From Coq Require Import ZArith List Bool Lia ZifyBool Permutation.
From AQ Require Import lib.Base model.RangeSet model.StreamRecv model.StreamSpec model.StreamSend model.NetSys model.NetSysLive
  proofs.RangeSetP proofs.ListZ proofs.StreamRecvP proofs.StreamSendP proofs.NetSysP proofs.NetSysP2 proofs.NetSysP3.

(* ---------- schedules ---------- *)
Lemma run_sched_app a : forall s b, run_sched s (a ++ b) =
  match run_sched s a with Some s1 => run_sched s1 b | None => None end.
Proof.
  induction a as [|op t IH]; intros s b; cbn [app run_sched]; [reflexivity|].
  destruct (net_step s op) as [[o s1]|]; [apply IH|reflexivity].
Qed.

(* a state is quiet when every emitted frame has had its outcome *)
Definition quiet (s : net) : Prop := outs_of (n_emitted s) = [].

Lemma quiet_partition s : nreach s -> quiet s ->
  (forall o, 0 <= o < Zlen (n_written s) -> acked_at (n_send s) o \/ mem o (s_pending (n_send s))) /\
  (eof s -> s_pending_eof (n_send s) = true \/ s_acked_fin (n_send s) = true).
Proof.
  intros R Q. destruct (nothing_forgotten s R) as (P1 & P2).
  assert (Hno : forall f, In f (n_emitted s) -> ef_out f = None -> False).
  { intros f Hf Hn. unfold quiet in Q.
    assert (Hin : In (ef_key f) (outs_of (n_emitted s))).
    { unfold outs_of. apply in_map. apply filter_In. split; [exact Hf|]. unfold noout. rewrite Hn. reflexivity. }
    rewrite Q in Hin. exact Hin. }
  split.
  - intros o Ho. destruct (P1 o Ho) as [H|[H|(f & Hf & Hn & _)]].
    + left. unfold ackedb in H. unfold acked_at. destruct (o <? s_start (n_send s)) eqn:E; [left; lia|].
      right. apply contains_mem. destruct (contains o (s_acked (n_send s))); [reflexivity|discriminate].
    + right. apply contains_mem. exact H.
    + exfalso. exact (Hno f Hf Hn).
  - intros He. destruct (P2 He) as [H|[H|(f & Hf & Hn & _)]]; [left; exact H|right; exact H|].
    exfalso. exact (Hno f Hf Hn).
Qed.

(* every written byte acknowledged => every written byte reported (acknowledgements are sound) *)
Lemma all_acked_delivered s : nreach s -> s_start (n_send s) = Zlen (n_written s) -> n_dbytes s = n_written s.
Proof.
  intros R F2. pose proof (nreach_inv _ R) as I. pose proof (nreach_ainv _ R) as A.
  destruct (ni_recv _ I) as (sp & V & S & D & E). pose proof (so_del _ _ _ S) as Hdel.
  assert (Hall : sp_del sp = Zlen (n_written s)).
  { destruct (Z.eq_dec (sp_del sp) (Zlen (n_written s))); [assumption|exfalso].
    assert (Hr : recvd (n_recv s) (sp_del sp)) by (apply (ai_acked _ A); [left; lia|lia]).
    destruct Hr as [Hr|Hr]; [rewrite (i_start _ _ _ V) in Hr; lia|].
    pose proof (mem_above _ _ _ (i_wf _ _ _ V) Hr) as Hm. rewrite (i_start _ _ _ V) in Hm. lia. }
  rewrite D, Hall. apply ztake_ztake_all.
Qed.

(* a quiet state with nothing pending is complete *)
Lemma quiet_idle_complete s : nreach s -> quiet s ->
  s_pending (n_send s) = [] -> s_pending_eof (n_send s) = false ->
  n_dbytes s = n_written s /\
  (eof s -> n_ends s = 1 /\ s_finished (n_send s) = true) /\
  (~ eof s -> n_ends s = 0 /\ s_finished (n_send s) = false).
Proof.
  intros R Q Hp He. destruct (quiet_partition s R Q) as (P1 & P2).
  pose proof (nreach_inv _ R) as I. destruct (ni_reach _ I) as (outs & Rs & _).
  destruct (ni_noreset _ I) as (_ & _ & _ & Hra).
  assert (Hstart : s_start (n_send s) = Zlen (n_written s)).
  { apply (all_acked_iff _ _ Rs). cbn [g_written]. intros o Ho. destruct (P1 o Ho) as [H|H]; [exact H|].
    rewrite Hp in H. destruct H. }
  split; [exact (all_acked_delivered s R Hstart)|]. split.
  - intros Hf. destruct (P2 Hf) as [H|H]; [congruence|].
    assert (Hfin : s_finished (n_send s) = true).
    { apply (finished_iff _ _ Rs). left. cbn [g_written]. unfold eof in Hf.
      destruct (s_fin (n_send s)) as [f|] eqn:Ef; [|congruence].
      destruct (send_partition _ _ Rs) as (_ & Pf). destruct (Pf f Ef) as (Hfv & _). cbn [g_written] in Hfv.
      split; [f_equal; exact Hfv|]. split; assumption. }
    split; [|exact Hfin]. exact (proj1 (proj2 (finished_implies_delivered s R Hfin))).
  - intros Hnf. destruct (delivery_is_prefix s R) as (_ & Hrange & Hone). split.
    + destruct (Z.eq_dec (n_ends s) 1) as [E1|E1]; [destruct (Hone E1) as (X & _); contradiction|lia].
    + destruct (s_finished (n_send s)) eqn:Efin; [|reflexivity]. exfalso. apply Hnf.
      exact (proj2 (proj2 (finished_implies_delivered s R Efin))).
Qed.

(* ---------- phase A: LOST for every frame without outcome ---------- *)
Lemma nthE_mid (pre : list eframe) f t : nthE (pre ++ f :: t) (Zlen pre) = Some f.
Proof.
  unfold nthE, Zlen. assert (E : Z.of_nat (length pre) <? 0 = false) by lia. rewrite E, Nat2Z.id.
  rewrite nth_error_app2 by lia. rewrite Nat.sub_diag. reflexivity.
Qed.

Lemma set_nth_mid (pre : list eframe) f f' t : set_nth (Zlen pre) f' (pre ++ f :: t) = pre ++ f' :: t.
Proof.
  unfold set_nth, Zlen. rewrite Nat2Z.id. rewrite firstn_app, Nat.sub_diag, firstn_all. cbn [firstn]. rewrite app_nil_r.
  f_equal. f_equal. rewrite skipn_app. replace (S (length pre) - length pre)%nat with 1%nat by lia.
  rewrite skipn_all2 by lia. reflexivity.
Qed.

Lemma Zlen_snoc {A} (l : list A) x : Zlen (l ++ [x]) = Zlen l + 1.
Proof. rewrite Zlen_app. reflexivity. Qed.

Definition same_acks (s' s : net) : Prop :=
  n_recv s' = n_recv s /\ n_written s' = n_written s /\
  s_start (n_send s') = s_start (n_send s) /\ s_fin (n_send s') = s_fin (n_send s) /\
  s_acked (n_send s') = s_acked (n_send s) /\ s_acked_fin (n_send s') = s_acked_fin (n_send s).

Lemma same_acks_trans s2 s1 s : same_acks s2 s1 -> same_acks s1 s -> same_acks s2 s.
Proof. unfold same_acks. intros (A1 & A2 & A3 & A4 & A5 & A6) (B1 & B2 & B3 & B4 & B5 & B6). repeat split; congruence. Qed.

Lemma lose_from_run : forall l pre s, n_emitted s = pre ++ l ->
  exists s', run_sched s (lose_from (Zlen pre) l) = Some s' /\
    n_emitted s' = pre ++ map lose1 l /\ same_acks s' s.
Proof.
  induction l as [|f t IH]; intros pre s E; cbn [lose_from map].
  - exists s. cbn [run_sched]. rewrite E. unfold same_acks. auto 10.
  - assert (E2 : pre ++ f :: t = (pre ++ [f]) ++ t) by (rewrite <- app_assoc; reflexivity).
    destruct (noout f) eqn:Gn.
    + cbn [app run_sched net_step]. rewrite E, nthE_mid.
      assert (Gi : is_noneb (ef_out f) = true) by exact Gn. rewrite Gi. cbn [negb orb andb]. unfold ef_key.
      destruct (lost_keeps_acked (n_send s) (ef_off f) (ef_off f + Zlen (ef_data f)) (ef_fin f)) as (K1 & K3 & K4).
      destruct (deliv_keeps (n_send s) false (ef_off f) (ef_off f + Zlen (ef_data f)) (ef_fin f)) as (K2 & _).
      destruct (on_data_delivery (n_send s) false (ef_off f) (ef_off f + Zlen (ef_data f)) (ef_fin f)) as [so st'].
      cbn [snd] in K1, K2, K3, K4. rewrite set_nth_mid.
      set (f' := mkEF (ef_off f) (ef_data f) (ef_fin f) (ef_deliv f) (Some false)).
      set (s1 := mkNet st' (n_recv s) (n_written s) (n_racked s) (pre ++ f' :: t) (n_resets s) (n_rreset s)
                       (n_queue s) (n_dbytes s) (n_ends s)).
      destruct (IH (pre ++ [f']) s1) as (s' & Hr & He & HS).
      { unfold s1. cbn [n_emitted]. rewrite <- app_assoc. reflexivity. }
      exists s'. rewrite Zlen_snoc in Hr. split; [exact Hr|].
      split; [rewrite He, <- app_assoc; unfold lose1 at 2; rewrite Gn; reflexivity|].
      apply (same_acks_trans _ s1); [exact HS|]. unfold same_acks, s1. cbn [n_recv n_written n_send]. auto 10.
    + cbn [app]. destruct (IH (pre ++ [f]) s) as (s' & Hr & He & HS).
      { rewrite E. exact E2. }
      exists s'. rewrite Zlen_snoc in Hr. split; [exact Hr|].
      split; [rewrite He, <- app_assoc; unfold lose1 at 2; rewrite Gn; reflexivity|exact HS].
Qed.

Lemma lose_from_data : forall l i, Forall data_op (lose_from i l).
Proof.
  induction l as [|f t IH]; intros i; cbn [lose_from]; [constructor|].
  destruct (noout f); cbn [app]; [constructor; [exact Logic.I|]|]; apply IH.
Qed.

Lemma lose_from_length : forall l i, (length (lose_from i l) <= length l)%nat.
Proof.
  induction l as [|f t IH]; intros i; cbn [lose_from length]; [lia|].
  specialize (IH (i + 1)). destruct (noout f); cbn [app length]; lia.
Qed.

Lemma outs_of_lose l : outs_of (map lose1 l) = [].
Proof.
  induction l as [|f t IH]; [reflexivity|]. cbn [map]. unfold outs_of in *. cbn [filter].
  unfold lose1 at 1. destruct (noout f) eqn:G.
  - unfold noout at 1. cbn [ef_out is_noneb]. exact IH.
  - rewrite G. exact IH.
Qed.

Lemma lose_all_run s : nreach s ->
  exists s1, run_sched s (lose_all s) = Some s1 /\ nreach s1 /\ quiet s1 /\ same_acks s1 s /\
    Zlen (n_emitted s1) = Zlen (n_emitted s).
Proof.
  intros R. destruct (lose_from_run (n_emitted s) [] s eq_refl) as (s1 & Hr & He & HS).
  exists s1. change (Zlen (@nil eframe)) with 0 in Hr. split; [exact Hr|].
  split; [exact (run_sched_reach _ _ _ R (lose_from_data _ _) Hr)|].
  split; [unfold quiet; rewrite He; apply outs_of_lose|]. split; [exact HS|].
  rewrite He. unfold Zlen. cbn [app]. rewrite map_length. reflexivity.
Qed.

(* ---------- phase B: emit / deliver / acknowledge ---------- *)
Fixpoint psize (l : rs) : Z := match l with [] => 0 | (a, b) :: t => (b - a) + psize t end.

Lemma ceil_pos ms n : 0 < ms -> 0 < n -> 1 <= (n + ms - 1) / ms <= n.
Proof.
  intros Hm Hn. split.
  - apply Z.div_le_lower_bound; lia.
  - apply Z.div_le_upper_bound; [lia|]. nia.
Qed.

Lemma rsum_nonneg ms : forall l lo, 0 < ms -> wf_from lo l -> 0 <= rsum ms l.
Proof.
  induction l as [|[a b] t IH]; intros lo Hm W; cbn [rsum]; [lia|]. cbn [wf_from] in W. destruct W as (W1 & W2 & W3).
  pose proof (ceil_pos ms (b - a) Hm ltac:(lia)). specialize (IH b Hm W3). lia.
Qed.

Lemma rsum_le_psize ms : forall l lo, 0 < ms -> wf_from lo l -> rsum ms l <= psize l.
Proof.
  induction l as [|[a b] t IH]; intros lo Hm W; cbn [rsum psize]; [lia|]. cbn [wf_from] in W. destruct W as (W1 & W2 & W3).
  pose proof (ceil_pos ms (b - a) Hm ltac:(lia)). specialize (IH b Hm W3). lia.
Qed.

Lemma psize_bound : forall l lo hi, wf_from lo l -> (forall o, mem o l -> o < hi) -> lo <= hi -> psize l <= hi - lo - 1 \/ l = [].
Proof.
  induction l as [|[a b] t IH]; intros lo hi W M Hl; [right; reflexivity|left].
  cbn [wf_from] in W. destruct W as (W1 & W2 & W3). cbn [psize].
  assert (Hb : b <= hi) by (specialize (M (b - 1)); cbn [mem] in M; assert (a <= b - 1 < b) by lia; specialize (M (or_introl H)); lia).
  destruct (IH b hi W3) as [H|H].
  - intros o Ho. apply M. cbn [mem]. right. exact Ho.
  - exact Hb.
  - lia.
  - subst t. cbn [psize]. lia.
Qed.

(* ---------- useful acknowledgements and written bytes of a schedule ---------- *)
Definition is_useful (s : net) (op : nop) : bool :=
  match op with
  | NOutcome i true =>
      match nthE (n_emitted s) i with
      | Some f => (0 <? Zlen (ef_data f)) || (ef_fin f && negb (s_acked_fin (n_send s)))
      | None => false
      end
  | _ => false
  end.

Definition wcost (op : nop) : Z := match op with NWrite d fin => Zlen d + b2z fin | _ => 0 end.

Fixpoint useful_acks (s : net) (ops : list nop) : Z :=
  match ops with
  | [] => 0
  | op :: t => match net_step s op with
               | Some (_, s') => b2z (is_useful s op) + useful_acks s' t
               | None => 0
               end
  end.

Fixpoint wcosts (ops : list nop) : Z := match ops with [] => 0 | op :: t => wcost op + wcosts t end.

Lemma b2z_range b : 0 <= b2z b <= 1. Proof. destruct b; cbn; lia. Qed.

Lemma useful_acks_nonneg ops : forall s, 0 <= useful_acks s ops.
Proof.
  induction ops as [|op t IH]; intros s; cbn [useful_acks]; [lia|].
  destruct (net_step s op) as [[o s']|]; [|lia]. pose proof (b2z_range (is_useful s op)). specialize (IH s'). lia.
Qed.

Lemma useful_acks_app a : forall s s1 b, run_sched s a = Some s1 ->
  useful_acks s (a ++ b) = useful_acks s a + useful_acks s1 b.
Proof.
  induction a as [|op t IH]; intros s s1 b H; cbn [app useful_acks run_sched] in *.
  - inversion H; subst. lia.
  - destruct (net_step s op) as [[o s']|]; [|discriminate]. rewrite (IH s' s1 b H). lia.
Qed.

(* the same measure in terms of the budget: at most one round per pending range, plus pending bytes / ms, plus the FIN *)
Lemma ceil_le ms n : 0 < ms -> 0 <= n -> (n + ms - 1) / ms <= 1 + n / ms.
Proof.
  intros Hm Hn. replace (1 + n / ms) with ((n + 1 * ms) / ms) by (rewrite Z.div_add by lia; lia).
  apply Z.div_le_mono; lia.
Qed.

Lemma div_add_le ms a b : 0 < ms -> 0 <= a -> 0 <= b -> a / ms + b / ms <= (a + b) / ms.
Proof.
  intros Hm Ha Hb. apply Z.div_le_lower_bound; [lia|].
  pose proof (Z.mul_div_le a ms Hm). pose proof (Z.mul_div_le b ms Hm). lia.
Qed.

Lemma psize_nonneg : forall l lo, wf_from lo l -> 0 <= psize l.
Proof.
  induction l as [|[a b] t IH]; intros lo W; cbn [psize]; [lia|]. cbn [wf_from] in W. destruct W as (W1 & W2 & W3).
  specialize (IH b W3). lia.
Qed.

Lemma rsum_budget ms : forall l lo, 0 < ms -> wf_from lo l -> rsum ms l <= Zlen l + psize l / ms.
Proof.
  induction l as [|[a b] t IH]; intros lo Hm W; cbn [rsum psize].
  - unfold Zlen. cbn [length]. rewrite Z.div_0_l by lia. lia.
  - cbn [wf_from] in W. destruct W as (W1 & W2 & W3). specialize (IH b Hm W3).
    pose proof (ceil_le ms (b - a) Hm ltac:(lia)). pose proof (psize_nonneg t b W3).
    pose proof (div_add_le ms (b - a) (psize t) Hm ltac:(lia) H0).
    assert (Zlen ((a, b) :: t) = 1 + Zlen t) by (unfold Zlen; cbn [length]; lia). lia.
Qed.

(* one round: the three steps and what they do *)
Lemma ack_keeps_pending st a b f :
  s_pending (snd (on_data_delivery st true a b f)) = s_pending st /\
  s_pending_eof (snd (on_data_delivery st true a b f)) = s_pending_eof st.
Proof. unfold on_data_delivery. split_ifs; cbn; auto. Qed.

Lemma subtract_head start stop rstop rest lo :
  wf_from lo ((start, rstop) :: rest) -> start < stop <= rstop ->
  subtract start stop ((start, rstop) :: rest) = if stop =? rstop then rest else (stop, rstop) :: rest.
Proof.
  intros W H. cbn [wf_from] in W. destruct W as (W1 & W2 & W3).
  assert (Hrest : subtract start stop rest = rest).
  { destruct rest as [|[a b] t]; [reflexivity|]. cbn [wf_from] in W3. cbn [subtract].
    assert (E : stop <=? a = true) by lia. rewrite E. reflexivity. }
  cbn [subtract]. assert (E1 : stop <=? start = false) by lia. assert (E2 : start >=? rstop = false) by lia.
  rewrite E1, E2. destruct (stop =? rstop) eqn:E3.
  - assert (E4 : (start <=? start) && (stop >=? rstop) = true) by lia. rewrite E4. exact Hrest.
  - assert (E4 : (start <=? start) && (stop >=? rstop) = false) by lia. rewrite E4.
    assert (E5 : start >? start = false) by lia. rewrite E5, Hrest. reflexivity.
Qed.

Lemma ceil_step ms n : 0 < ms -> ms < n -> (n - ms + ms - 1) / ms = (n + ms - 1) / ms - 1.
Proof.
  intros Hm Hn. replace (n - ms + ms - 1) with ((n + ms - 1) + (-1) * ms) by lia. rewrite Z.div_add by lia. lia.
Qed.

(* what get_frame with budget ms and no offset cap does to the measure *)
Lemma get_frame_rounds st g ms : reach st g -> s_reset st = None -> 0 < ms ->
  match get_frame st ms None with
  | (SFrame off d fin, st') =>
      0 <= rounds ms st' <= rounds ms st - 1 /\ (0 < Zlen d \/ (fin = true /\ s_pending st = []))
  | (_, st') => s_pending st = [] /\ s_pending_eof st = false
  end.
Proof.
  intros R Lr Hm. pose proof (reach_inv _ _ R) as V. pose proof (v_pwf _ _ V) as W.
  unfold get_frame. rewrite Lr. unfold rounds.
  destruct (s_pending st) as [|[start rstop] rest] eqn:EP.
  - destruct (s_pending_eof st) eqn:EE; cbn [s_pending s_pending_eof rsum b2z]; [|unfold set_empty; auto].
    split; [lia|right; split; reflexivity].
  - pose proof W as W0. cbn [wf_from] in W. destruct W as (W1 & W2 & W3).
    assert (Hrs : rstop <= s_stop st).
    { pose proof (v_pmax _ _ V (rstop - 1)) as P. rewrite EP in P. cbn [mem] in P.
      assert (Hq : start <= rstop - 1 < rstop) by lia. specialize (P (or_introl Hq)). lia. }
    pose proof (v_start _ _ V) as Hst.
    assert (E : Z.min rstop (start + ms) <=? start = false) by lia. rewrite E.
    set (stop := Z.min rstop (start + ms)) in *.
    assert (Hq1 : s_start st <= start) by lia. assert (Hq2 : start <= stop) by lia. assert (Hq3 : stop <= s_stop st) by lia.
    destruct (buf_slice st g start stop V Hq1 Hq2 Hq3) as (Hdata & Hlen). rewrite Hdata.
    cbn [s_pending s_pending_eof]. rewrite (subtract_head start stop rstop rest _ W0) by lia.
    pose proof (rsum_nonneg ms rest rstop Hm W3) as Hr0.
    split; [|left; rewrite Hlen; lia].
    assert (Hpe : forall (c : bool), 0 <= b2z (if c then false else s_pending_eof st) <= b2z (s_pending_eof st))
      by (intros c; destruct c, (s_pending_eof st); cbn; lia).
    specialize (Hpe (match s_fin st with Some f => f =? stop | None => false end)).
    cbn [rsum]. destruct (stop =? rstop) eqn:E3.
    + pose proof (ceil_pos ms (rstop - start) Hm ltac:(lia)). lia.
    + cbn [rsum]. assert (Hs : stop = start + ms) by lia.
      replace (rstop - stop) with (rstop - start - ms) by lia.
      rewrite (ceil_step ms (rstop - start) Hm ltac:(lia)).
      pose proof (ceil_pos ms (rstop - start - ms) Hm ltac:(lia)) as Hc.
      rewrite (ceil_step ms (rstop - start) Hm ltac:(lia)) in Hc. lia.
Qed.

Lemma deliver_enabled s i f : nthE (n_emitted s) i = Some f -> exists o s', net_step s (NDeliver i) = Some (o, s').
Proof.
  intros E. cbn [net_step]. rewrite E.
  destruct (handle_frame (n_recv s) (ef_off f) (ef_data f) (ef_fin f)) as [ro r']. destruct ro; eauto.
Qed.

Lemma deliver_result s i f o s' : nthE (n_emitted s) i = Some f -> net_step s (NDeliver i) = Some (o, s') ->
  o <> OFinalSizeError ->
  n_send s' = n_send s /\ n_written s' = n_written s /\
  n_emitted s' = set_nth i (mkEF (ef_off f) (ef_data f) (ef_fin f) true (ef_out f)) (n_emitted s).
Proof.
  intros E H Hne. cbn [net_step] in H. rewrite E in H.
  destruct (handle_frame (n_recv s) (ef_off f) (ef_data f) (ef_fin f)) as [ro r'].
  destruct ro; inversion H; subst; try (contradiction Hne; reflexivity);
    match goal with |- context [report ?a ?b ?c ?d ?e ?g] => destruct (report_fields a b c d e g) as (F1 & _ & F3 & F4) end; auto.
Qed.

Lemma round_run s ms : nreach s -> quiet s -> 0 < ms ->
  match get_frame (n_send s) ms None with
  | (SFrame off d fin, _) =>
      exists s', run_sched s (round_ops ms s) = Some s' /\ nreach s' /\ quiet s' /\
        n_written s' = n_written s /\ s_fin (n_send s') = s_fin (n_send s) /\
        0 <= rounds ms (n_send s') <= rounds ms (n_send s) - 1 /\
        (0 < Zlen d \/ (fin = true /\ s_pending (n_send s) = [])) /\
        useful_acks s (round_ops ms s) = b2z ((0 <? Zlen d) || (fin && negb (s_acked_fin (n_send s))))
  | _ => s_pending (n_send s) = [] /\ s_pending_eof (n_send s) = false
  end.
Proof.
  intros R Q Hm. pose proof (nreach_inv _ R) as I. destruct (ni_reach _ I) as (outs & Rs & _).
  destruct (ni_noreset _ I) as (N1 & _).
  pose proof (get_frame_rounds _ _ ms Rs N1 Hm) as GR.
  destruct (get_frame_keeps (n_send s) ms None) as (K1 & _).
  destruct (get_frame (n_send s) ms None) as [so st'] eqn:G. cbn [snd] in K1.
  destruct (get_frame_keeps_acked (n_send s) ms None) as (_ & _ & K3). rewrite G in K3. cbn [snd] in K3.
  destruct so as [|off d fin|c fs|]; try exact GR. destruct GR as (GR & GU).
  (* step 1: emit *)
  set (f0 := mkEF off d fin false None).
  set (sa := mkNet st' (n_recv s) (n_written s) (n_racked s) (n_emitted s ++ [f0]) (n_resets s) (n_rreset s)
                   (n_queue s) (n_dbytes s) (n_ends s)).
  assert (S1 : net_step s (NEmit ms None) = Some (OFrame off d fin, sa)).
  { cbn [net_step]. rewrite N1. cbn [is_noneb]. rewrite G. reflexivity. }
  assert (Ra : nreach sa) by (eapply nreach_step; [exact R| |exact S1]; exact Logic.I).
  (* step 2: deliver *)
  assert (Ea : nthE (n_emitted sa) (Zlen (n_emitted s)) = Some f0) by (unfold sa; cbn [n_emitted]; apply nthE_mid).
  destruct (deliver_enabled sa _ _ Ea) as (ob & sb & S2).
  pose proof (no_spurious_final_size_error sa _ _ _ Ra S2) as Hne.
  destruct (deliver_result sa _ _ _ _ Ea S2 Hne) as (B1 & B2 & B3).
  assert (Rb : nreach sb) by (eapply nreach_step; [exact Ra| |exact S2]; exact Logic.I).
  unfold sa in B1, B2, B3. cbn [n_send n_written n_emitted] in B1, B2, B3. rewrite set_nth_mid in B3.
  cbn [ef_off ef_data ef_fin ef_out f0] in B3.
  set (f1 := mkEF off d fin true None) in *.
  (* step 3: acknowledge *)
  assert (Eb : nthE (n_emitted sb) (Zlen (n_emitted s)) = Some f1) by (rewrite B3; apply nthE_mid).
  destruct (ack_keeps_pending st' off (off + Zlen d) fin) as (A1 & A2).
  destruct (deliv_keeps st' true off (off + Zlen d) fin) as (A3 & _).
  assert (S3 : exists sc, net_step sb (NOutcome (Zlen (n_emitted s)) true) = Some (ONone, sc) /\
             n_send sc = snd (on_data_delivery st' true off (off + Zlen d) fin) /\ n_written sc = n_written s /\
             n_emitted sc = n_emitted s ++ [mkEF off d fin true (Some true)]).
  { cbn [net_step]. rewrite Eb. cbn [f1 ef_out ef_deliv is_noneb negb orb andb ef_key ef_off ef_data ef_fin]. rewrite B1.
    destruct (on_data_delivery st' true off (off + Zlen d) fin) as [so2 st2]. eexists. split; [reflexivity|].
    cbn [n_send n_written n_emitted snd]. rewrite B3, set_nth_mid. auto. }
  destruct S3 as (sc & S3 & C1 & C2 & C3).
  assert (Rc : nreach sc) by (eapply nreach_step; [exact Rb| |exact S3]; exact Logic.I).
  exists sc. split.
  - unfold round_ops. cbn [run_sched]. rewrite S1.
    replace (Zlen (n_emitted s)) with (Zlen (n_emitted s)) by reflexivity. rewrite S2, S3. reflexivity.
  - split; [exact Rc|]. split.
    + unfold quiet. rewrite C3, outs_of_app. unfold quiet in Q. rewrite Q. reflexivity.
    + split; [exact C2|]. rewrite C1. split; [rewrite A3; exact K1|].
      split; [unfold rounds in *; rewrite A1, A2; exact GR|]. split; [exact GU|].
      unfold round_ops. cbn [useful_acks]. rewrite S1, S2, S3. cbn [is_useful b2z]. rewrite Eb, B1.
      cbn [f1 ef_data ef_fin sa n_send]. rewrite K3. lia.
Qed.

Lemma pump_run ms : 0 < ms -> forall n s, nreach s -> quiet s -> rounds ms (n_send s) <= Z.of_nat n ->
  exists s', run_sched s (pump n ms s) = Some s' /\ Forall data_op (pump n ms s) /\ nreach s' /\ quiet s' /\
    s_pending (n_send s') = [] /\ s_pending_eof (n_send s') = false /\
    n_written s' = n_written s /\ s_fin (n_send s') = s_fin (n_send s) /\
    (length (pump n ms s) <= 3 * n)%nat.
Proof.
  intros Hm. induction n as [|n IH]; intros s R Q Hn.
  - cbn [pump run_sched length]. exists s. pose proof (round_run s ms R Q Hm) as RR.
    destruct (get_frame (n_send s) ms None) as [so st'].
    destruct so as [|off d fin|c fs|]; try (destruct RR as (P1 & P2); repeat split; auto; constructor).
    destruct RR as (s' & _ & _ & _ & _ & _ & Hr & _). lia.
  - cbn [pump]. pose proof (round_run s ms R Q Hm) as RR.
    destruct (get_frame (n_send s) ms None) as [so st'].
    destruct so as [|off d fin|c fs|];
      try (destruct RR as (P1 & P2); exists s; cbn [run_sched length]; repeat split; auto; try constructor; lia).
    destruct RR as (s1 & Hrun & R1 & Q1 & W1 & F1 & Hr & _). rewrite Hrun.
    destruct (IH s1 R1 Q1 ltac:(lia)) as (s' & Hrun' & Hd & R' & Q' & P1 & P2 & W' & F' & Hl).
    exists s'. split; [rewrite run_sched_app, Hrun; exact Hrun'|].
    split; [apply Forall_app; split; [unfold round_ops; repeat constructor|exact Hd]|].
    split; [exact R'|]. split; [exact Q'|]. split; [exact P1|]. split; [exact P2|].
    split; [congruence|]. split; [congruence|]. rewrite app_length. unfold round_ops at 1. cbn [length]. lia.
Qed.

(* ---------- the theorem ---------- *)
Lemma fair_schedule_completes s ms : nreach s -> 0 < ms ->
  exists s', run_sched s (complete ms s) = Some s' /\ Forall data_op (complete ms s) /\
    n_written s' = n_written s /\ n_dbytes s' = n_written s /\
    (eof s -> n_ends s' = 1 /\ s_finished (n_send s') = true) /\
    (~ eof s -> n_ends s' = 0 /\ s_finished (n_send s') = false) /\
    quiet s' /\
    (* explicit bounds on the length of the continuation *)
    Z.of_nat (length (complete ms s)) <= Zlen (n_emitted s) + 3 * rounds ms (n_send (after_loss s)) /\
    rounds ms (n_send (after_loss s)) <= Zlen (n_written s) - s_start (n_send s) + 1 /\
    rounds ms (n_send (after_loss s)) <=
      Zlen (s_pending (n_send (after_loss s))) + psize (s_pending (n_send (after_loss s))) / ms + 1.
Proof.
  intros R Hm. destruct (lose_all_run s R) as (s1 & Hr1 & R1 & Q1 & (_ & W1 & St1 & F1 & _ & _) & L1).
  pose proof (nreach_inv _ R1) as I1. destruct (ni_reach _ I1) as (outs1 & Rs1 & _). pose proof (reach_inv _ _ Rs1) as V1.
  assert (Hr0 : 0 <= rounds ms (n_send s1)).
  { unfold rounds. pose proof (rsum_nonneg ms _ _ Hm (v_pwf _ _ V1)). destruct (s_pending_eof (n_send s1)); cbn; lia. }
  destruct (pump_run ms Hm (Z.to_nat (rounds ms (n_send s1))) s1 R1 Q1 ltac:(lia))
    as (s' & Hr2 & Hd2 & R' & Q' & P1 & P2 & W' & F' & Hl).
  unfold complete, after_loss. rewrite Hr1. exists s'.
  split; [rewrite run_sched_app, Hr1; exact Hr2|].
  split; [apply Forall_app; split; [apply lose_from_data|exact Hd2]|].
  destruct (quiet_idle_complete s' R' Q' P1 P2) as (D & E1 & E2).
  assert (Heof : eof s' <-> eof s) by (unfold eof; rewrite F', F1; tauto).
  split; [congruence|]. split; [congruence|].
  split; [intros H; apply E1, Heof, H|]. split; [intros H; apply E2; intros X; apply H, Heof, X|].
  split; [exact Q'|]. split; [|split].
  - rewrite app_length. pose proof (lose_from_length (n_emitted s) 0). unfold lose_all, Zlen in *. lia.
  - unfold rounds. pose proof (rsum_le_psize ms _ _ Hm (v_pwf _ _ V1)) as H1.
    pose proof (v_start _ _ V1) as Hs. pose proof (v_stop _ _ V1) as Hst. cbn [g_written] in Hst. rewrite W1 in Hst.
    destruct (psize_bound _ _ (s_stop (n_send s1)) (v_pwf _ _ V1) (v_pmax _ _ V1) ltac:(lia)) as [H2|H2].
    + destruct (s_pending_eof (n_send s1)); cbn [b2z]; lia.
    + rewrite H2 in *. cbn [rsum psize] in *. destruct (s_pending_eof (n_send s1)); cbn [b2z]; lia.
  - unfold rounds. pose proof (rsum_budget ms _ _ Hm (v_pwf _ _ V1)). destruct (s_pending_eof (n_send s1)); cbn [b2z]; lia.
Qed.

(* non-vacuity / executability: [complete] run by vm_compute on a mid-way state (one frame delivered twice and
   buffered out of order, one frame lost, one frame in flight without outcome, FIN written but never sent) *)
Definition mid_state : net :=
  match run_sched net_init [NWrite [1; 2; 3] false; NEmit 2 None; NWrite [4; 5; 6; 7] true; NEmit 3 None;
                            NDeliver 1; NDeliver 1; NOutcome 0 false; NEmit 1 None] with
  | Some s => s | None => net_init end.

Example mid_state_reach : nreach mid_state.
Proof.
  apply (run_sched_reach [NWrite [1; 2; 3] false; NEmit 2 None; NWrite [4; 5; 6; 7] true; NEmit 3 None;
                          NDeliver 1; NDeliver 1; NOutcome 0 false; NEmit 1 None] net_init);
    [exact nreach_init|repeat (constructor; [exact Logic.I|]); constructor|vm_compute; reflexivity].
Qed.

Example complete_example :
  complete 2 mid_state =
    [NOutcome 1 false; NOutcome 2 false; NEmit 2 None; NDeliver 3; NOutcome 3 true; NEmit 2 None; NDeliver 4; NOutcome 4 true;
     NEmit 2 None; NDeliver 5; NOutcome 5 true; NEmit 2 None; NDeliver 6; NOutcome 6 true] /\
  n_dbytes mid_state = [] /\ rounds 2 (n_send (after_loss mid_state)) = 5 /\
  match run_sched mid_state (complete 2 mid_state) with
  | Some s => n_dbytes s = [1; 2; 3; 4; 5; 6; 7] /\ n_ends s = 1 /\ s_finished (n_send s) = true /\
              n_queue s = [RData [1; 2; 3; 4; 5] false; RData [6] false; RData [7] true]
  | None => False
  end.
Proof. vm_compute. repeat split; reflexivity. Qed.
