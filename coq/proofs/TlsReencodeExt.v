(* C17: decode -> re-encode for the TLS messages that carry an extension list
   (ServerHello, EncryptedExtensions, CertificateRequest here; ClientHello in TlsReencodeCH.v).

   One invariant for every extension loop (Section ExtInv): after any number of accepted extensions
   * every known attribute that is set holds a value that is well-formed for the encoder and whose
     re-encoded extension weighs at most what the decoder consumed for (the last occurrence of) it,
   * other_extensions is a list of (type, bytes) whose types are 16-bit and not known to this decoder,
   * the total weight of the re-encoded extension list never exceeds the bytes consumed so far.
   Since the decoder checks that the extension block ends at its declared 16-bit length, the re-encoded
   list fits its 2-byte prefix, and so on outwards: the encoder cannot raise OverflowError on a decoded
   message, the re-encoding is never longer, and <msg>_roundtrip makes it decode to the same record. *)
From Coq Require Import ZArith List Bool Lia ZifyBool.
From AQ Require Import lib.Base lib.Tok model.Codec model.TlsCodec.
From AQ Require Import proofs.CodecProofs proofs.TlsCodecProofs proofs.TlsListProofs proofs.TlsRoundtrip
  proofs.TlsReencode.

(* ================= known_get / known_set ============================================================ *)
Lemma known_get_filter ty t l :
  known_get t (filter (fun p : Z * list Z => negb (fst p =? ty)) l) = if t =? ty then None else known_get t l.
Proof.
  induction l as [|[k v] l IH]; cbn [filter known_get fst].
  - destruct (t =? ty); reflexivity.
  - destruct (k =? ty) eqn:K; cbn [negb].
    + rewrite IH. destruct (t =? ty) eqn:T; [reflexivity|]. cbn [known_get].
      destruct (k =? t) eqn:KT; [lia|reflexivity].
    + cbn [known_get]. destruct (k =? t) eqn:KT.
      * destruct (t =? ty) eqn:T; [lia|reflexivity].
      * exact IH.
Qed.

Lemma known_get_app t a b :
  known_get t (a ++ b) = match known_get t a with Some v => Some v | None => known_get t b end.
Proof.
  induction a as [|[k v] a IH]; cbn [app known_get]; [reflexivity|]. destruct (k =? t); [reflexivity|exact IH].
Qed.

Lemma known_get_set t ty toks l :
  known_get t (known_set ty toks l) = if t =? ty then Some toks else known_get t l.
Proof.
  unfold known_set. rewrite known_get_app, known_get_filter. destruct (t =? ty) eqn:T.
  - cbn [known_get]. replace (ty =? t) with true by lia. reflexivity.
  - destruct (known_get t l); [reflexivity|]. cbn [known_get]. replace (ty =? t) with false by lia. reflexivity.
Qed.

(* ================= weights =========================================================================== *)
Definition wsum (wf : Z -> Z) (l : list Z) : Z := fold_right (fun ty s => wf ty + s) 0 l.
Definition wupd (wf : Z -> Z) (ty c : Z) : Z -> Z := fun t => if t =? ty then c else wf t.

Lemma wsum_cons wf a l : wsum wf (a :: l) = wf a + wsum wf l.
Proof. reflexivity. Qed.

Lemma wsum_zero l : wsum (fun _ => 0) l = 0.
Proof. induction l as [|a t IH]; [reflexivity|]. rewrite wsum_cons, IH. reflexivity. Qed.

Lemma wsum_upd_notin wf ty c l : ~ In ty l -> wsum (wupd wf ty c) l = wsum wf l.
Proof.
  induction l as [|a t IH]; intros N; [reflexivity|]. rewrite !wsum_cons.
  rewrite IH by (intros X; apply N; right; exact X). unfold wupd at 1.
  destruct (a =? ty) eqn:E; [exfalso; apply N; left; lia|reflexivity].
Qed.

Lemma wsum_upd wf ty c l : NoDup l -> 0 <= wf ty -> 0 <= c -> wsum (wupd wf ty c) l <= wsum wf l + c.
Proof.
  induction 1 as [|a t Hn Hd IH]; intros Hw Hc; [cbn; lia|]. rewrite !wsum_cons.
  unfold wupd at 1. destruct (a =? ty) eqn:E.
  - assert (a = ty) by lia. subst a. rewrite wsum_upd_notin by exact Hn. lia.
  - specialize (IH Hw Hc). lia.
Qed.

(* a known attribute: tokens = dump of a value v that is well-formed, whose extension body fits, of weight bw *)
Definition kpv {V} (dump : V -> list Z) (wfv : V -> bool) (body : V -> list tv) (toks : list Z) (bw : Z) : Prop :=
  exists v, toks = dump v /\ wfv v = true /\ fits_seq (body v) = true /\ bw = Zlen (flat_seq (body v)).

Lemma kpv_nonneg {V} (dump : V -> list Z) wfv body toks bw : kpv dump wfv body toks bw -> 0 <= bw.
Proof. intros (v & _ & _ & _ & ->). apply Zlen_nonneg. Qed.

Definition kp_none (toks : list Z) (bw : Z) : Prop := False.

Lemma flat_ext_len ty items : Zlen (flat_seq (t_ext ty items)) = 4 + Zlen (flat_seq items).
Proof. rewrite flat_ext, !Zlen_app, !be_enc_Zlen. lia. Qed.

(* ================= the extension loop ================================================================ *)
Section ExtInv.
  Variable parse : Z -> Z -> list Z -> option (Res (list Z * list Z)).
  Variable ch : bool.
  Variable known : list Z.
  Variable kp : Z -> list Z -> Z -> Prop.
  Hypothesis known_nodup : NoDup known.
  Hypothesis kp_nonneg : forall ty toks w, kp ty toks w -> 0 <= w.
  Hypothesis parse_some : forall ty len b toks r, bytes_ok b -> parse ty len b = Some (Ok (toks, r)) ->
    (exists w, kp ty toks w /\ w <= Zlen b - Zlen r) /\ bytes_ok r.
  Hypothesis parse_none : forall ty len b, parse ty len b = None -> existsb (Z.eqb ty) known = false.

  Definition kslot (st : est) (wf : Z -> Z) : Prop :=
    forall ty, match known_get ty (e_known st) with
               | Some toks => exists bw, kp ty toks bw /\ wf ty = 4 + bw
               | None => wf ty = 0
               end.

  Definition ginv (st : est) (w : Z) : Prop :=
    exists wf others, kslot st wf /\
      e_other st = (Zlen others, flat_map dump_ext others) /\ forallb (ext_wf known) others = true /\
      wsum wf known + oweight others <= w.

  Lemma kslot_nonneg st wf ty : kslot st wf -> 0 <= wf ty.
  Proof.
    intros K. specialize (K ty). destruct (known_get ty (e_known st)); [|lia].
    destruct K as (bw & P & ->). apply kp_nonneg in P. lia.
  Qed.

  Lemma g_ext_item_inv st w bs st' r : bytes_ok bs -> ginv st w ->
    ext_item parse ch st bs = Ok (st', r) -> ginv st' (w + (Zlen bs - Zlen r)) /\ bytes_ok r.
  Proof.
    intros Hb (wf & others & K & O & W & S) H. unfold ext_item in H.
    destruct (ch && e_psk st); [discriminate|].
    unfold pull_uint16 in H.
    destruct (pull_be 2 bs) as [[ty b1]|e] eqn:E; cbn [bind] in H; [|discriminate].
    destruct (pull_be 2 b1) as [[len b2]|e] eqn:E0; cbn [bind] in H; [|discriminate].
    destruct (pull_be_inv _ _ _ _ Hb E) as (-> & Hty & Hb1). destruct (pull_be_inv _ _ _ _ Hb1 E0) as (-> & Hlen & Hb2).
    change (256 ^ Z.of_nat 2) with 65536 in *. rewrite !Zlen_app, !be_enc_Zlen. change (Z.of_nat 2) with 2.
    destruct (parse ty len b2) as [res|] eqn:P.
    - destruct res as [[toks b3]|e]; cbn [bind] in H; [|discriminate]. injection H as <- <-.
      destruct (parse_some _ _ _ _ _ Hb2 P) as ((bw & Pk & Lw) & Hr). split; [|exact Hr].
      exists (wupd wf ty (4 + bw)), others. cbn [e_known e_other]. split; [|split; [exact O|split; [exact W|]]].
      + intros t. cbn [e_known]. rewrite known_get_set. unfold wupd. destruct (t =? ty) eqn:T.
        * exists bw. split; [|reflexivity]. assert (t = ty) by lia. subst t. exact Pk.
        * apply K.
      + pose proof (kp_nonneg _ _ _ Pk).
        pose proof (wsum_upd wf ty (4 + bw) known known_nodup (kslot_nonneg _ _ ty K)). lia.
    - destruct (pull_bytes len b2) as [[d b3]|e] eqn:E1; cbn [bind] in H; [|discriminate]. injection H as <- <-.
      destruct (pull_bytes_inv _ _ _ _ Hb2 E1) as (-> & L & _ & Hr).
      rewrite Zlen_app. split; [|exact Hr].
      exists wf, (others ++ [(ty, d)]). cbn [e_known e_other]. split; [exact K|split; [|split]].
      + rewrite O. unfold acc_add. cbn [fst snd]. rewrite Zlen_app, flat_map_app. cbn [flat_map dump_ext fst snd].
        rewrite app_nil_r. reflexivity.
      + rewrite forallb_app, W. cbn [forallb]. unfold ext_wf, u16b. cbn [fst]. rewrite (parse_none _ _ _ P). cbn. lia.
      + rewrite oweight_app. cbn [oweight fold_right snd]. lia.
  Qed.

  Lemma g_fold_inv fuel : forall rem st w bs st' r, bytes_ok bs -> ginv st w ->
    pull_fold (ext_item parse ch) fuel rem st bs = Ok (st', r) ->
    ginv st' (w + (Zlen bs - Zlen r)) /\ bytes_ok r.
  Proof.
    induction fuel as [|f IH]; intros rem st w bs st' r Hb I H; cbn [pull_fold] in H.
    - destruct (rem <=? 0).
      + injection H as <- <-. rewrite Z.sub_diag, Z.add_0_r. auto.
      + destruct (ext_item parse ch st bs) as [[? ?]|?]; cbn [bind] in H; discriminate.
    - destruct (rem <=? 0).
      + injection H as <- <-. rewrite Z.sub_diag, Z.add_0_r. auto.
      + destruct (ext_item parse ch st bs) as [[st1 b1]|e] eqn:E; cbn [bind] in H; [|discriminate].
        destruct (g_ext_item_inv _ _ _ _ _ Hb I E) as (I1 & Hb1).
        destruct (IH _ _ _ _ _ _ Hb1 I1 H) as (I2 & Hr). split; [|exact Hr].
        replace (w + (Zlen bs - Zlen r)) with (w + (Zlen bs - Zlen b1) + (Zlen b1 - Zlen r)) by lia. exact I2.
  Qed.

  (* what pull_extensions accepts *)
  Lemma pull_extensions_inv bs st r : bytes_ok bs -> pull_extensions parse ch bs = Ok (st, r) ->
    exists wf others, kslot st wf /\
      e_other st = (Zlen others, flat_map dump_ext others) /\ forallb (ext_wf known) others = true /\
      wsum wf known + oweight others < 65536 /\ 2 + (wsum wf known + oweight others) + Zlen r <= Zlen bs /\ bytes_ok r.
  Proof.
    intros Hb H. unfold pull_extensions, pull_list, pull_block in H.
    destruct (pull_be 2 bs) as [[elen b1]|e] eqn:E1; cbn [bind] in H; [|discriminate].
    destruct (pull_fold (ext_item parse ch) (length b1) elen est0 b1) as [[st' b2]|e] eqn:E2; cbn [bind] in H; [|discriminate].
    destruct (Zlen b1 - Zlen b2 =? elen) eqn:C; [|discriminate]. injection H as <- <-.
    destruct (pull_be_inv _ _ _ _ Hb E1) as (-> & Hel & Hb1).
    assert (I0 : ginv est0 0).
    { exists (fun _ => 0), []. split; [intros ty; reflexivity|]. rewrite wsum_zero. cbn. repeat split; lia. }
    destruct (g_fold_inv _ _ _ _ _ _ _ Hb1 I0 E2) as ((wf & others & K & O & W & S) & Hr).
    exists wf, others. change (256 ^ Z.of_nat 2) with 65536 in *. rewrite Zlen_app, be_enc_Zlen.
    change (Z.of_nat 2) with 2. split; [exact K|]. repeat split; auto; lia.
  Qed.

  (* one optional attribute of the decoded record *)
  Lemma slot_opt {V} st wf ty (dump : V -> list Z) wfv body :
    kslot st wf -> (forall toks bw, kp ty toks bw -> kpv dump wfv body toks bw) ->
    exists o : option V,
      match known_get ty (e_known st) with Some t => 1 :: t | None => [0] end = dump_opt dump o /\
      opt_b wfv o = true /\
      Zlen (flat_seq (t_opt (fun v => t_ext ty (body v)) o)) = wf ty /\
      (wf ty < 65540 -> fits_seq (t_opt (fun v => t_ext ty (body v)) o) = true).
  Proof.
    intros K Hk. specialize (K ty). destruct (known_get ty (e_known st)) as [toks|].
    - destruct K as (bw & P & Ew). destruct (Hk _ _ P) as (v & -> & Wv & Fv & ->).
      exists (Some v). cbn [dump_opt opt_b t_opt]. rewrite flat_ext_len, fits_ext, Fv. repeat split; auto; lia.
    - exists None. cbn [dump_opt opt_b t_opt]. repeat split; auto.
  Qed.
End ExtInv.

(* the message frame: type byte, 24-bit length, body that must end at the declared length *)
Lemma message_len_inv {A} kind (body : Z -> list Z -> Res (A * list Z)) bs v r :
  bytes_ok bs -> ('(_, b0) <- pull_handshake_type kind bs ;; pull_block 3 body b0) = Ok (v, r) ->
  exists len b1, Zlen bs = 4 + Zlen b1 /\ 0 <= len < 16777216 /\ bytes_ok b1 /\
                 body len b1 = Ok (v, r) /\ Zlen b1 - Zlen r = len.
Proof.
  intros Hb H. destruct (pull_handshake_type kind bs) as [[[] b0]|e] eqn:E0; cbn [bind] in H; [|discriminate].
  unfold pull_block in H.
  destruct (pull_be 3 b0) as [[len b1]|e] eqn:E1; cbn [bind] in H; [|discriminate].
  destruct (body len b1) as [[v' b2]|e] eqn:E2; cbn [bind] in H; [|discriminate].
  destruct (Zlen b1 - Zlen b2 =? len) eqn:C; [|discriminate]. injection H as <- <-.
  unfold pull_handshake_type, pull_uint8 in E0.
  destruct (pull_be 1 bs) as [[t b0']|e] eqn:E0'; cbn [bind] in E0; [|discriminate].
  destruct (t =? kind); [|discriminate]. injection E0 as ->.
  destruct (pull_be_inv _ _ _ _ Hb E0') as (-> & _ & Hb0). destruct (pull_be_inv _ _ _ _ Hb0 E1) as (-> & Hlen & Hb1).
  exists len, b1. rewrite !Zlen_app, !be_enc_Zlen. change (256 ^ Z.of_nat 3) with 16777216 in Hlen.
  repeat split; auto; lia.
Qed.

(* from "the decoded value is the dump of a well-formed record whose tree fits and is not longer" to the statement *)
Lemma reencode_close {M} (pull : list Z -> Res (list Z * list Z)) (tree : M -> list tv) (dump : M -> list Z)
      (wfm : M -> bool) (bs : list Z) d (rest : list Z) :
  (forall m bytes rest, wfm m = true -> enc_seq (tree m) = Ok bytes -> pull (bytes ++ rest) = Ok (dump m, rest)) ->
  (exists m, d = dump m /\ wfm m = true /\ fits_seq (tree m) = true /\ Zlen (flat_seq (tree m)) + Zlen rest <= Zlen bs) ->
  exists m bytes', d = dump m /\ wfm m = true /\ enc_seq (tree m) = Ok bytes' /\ Zlen bytes' + Zlen rest <= Zlen bs /\
                   forall rest', pull (bytes' ++ rest') = Ok (d, rest').
Proof.
  intros RT (m & -> & Wf & F & L). exists m, (flat_seq (tree m)). rewrite enc_seq_spec, F. repeat split; auto.
  intros rest'. apply RT; [exact Wf|]. rewrite enc_seq_spec, F. reflexivity.
Qed.

Lemma hello_prefix_inv bs pre r : bytes_ok bs -> hello_prefix bs = Ok (pre, r) ->
  exists random sid, pre = out_bytes random ++ out_bytes sid /\ Zlen random = 32 /\
    fits_tv (t_opaque 1 sid) = true /\ Zlen bs = 2 + 32 + Zlen (flat_tv (t_opaque 1 sid)) + Zlen r /\ bytes_ok r.
Proof.
  intros Hb H. unfold hello_prefix, pull_uint16 in H.
  destruct (pull_be 2 bs) as [[ver b1]|e] eqn:E1; cbn [bind] in H; [|discriminate].
  destruct (negb (ver =? 771)); [discriminate|].
  destruct (pull_bytes 32 b1) as [[random b2]|e] eqn:E2; cbn [bind] in H; [|discriminate].
  destruct (pull_opaque 1 b2) as [[sid b3]|e] eqn:E3; cbn [bind] in H; [|discriminate]. injection H as <- <-.
  destruct (pull_be_inv _ _ _ _ Hb E1) as (-> & _ & Hb1). destruct (pull_bytes_inv _ _ _ _ Hb1 E2) as (-> & L & _ & Hb2).
  destruct (pull_opaque_inv _ _ _ _ Hb2 E3) as (-> & F & _ & Hr).
  exists random, sid. rewrite !Zlen_app, be_enc_Zlen. repeat split; auto. change (Z.of_nat 2) with 2. lia.
Qed.

Lemma others_dump (others : list ext) : out_acc (Zlen others, flat_map dump_ext others) = dump_list dump_ext others.
Proof. reflexivity. Qed.

Lemma nodup3 (a b c : Z) : a <> b -> a <> c -> b <> c -> NoDup [a; b; c].
Proof.
  intros. repeat constructor; cbn [In]; intuition.
Qed.

(* ================= ServerHello ====================================================================== *)
Definition sh_kp (ty : Z) : list Z -> Z -> Prop :=
  if (ty =? 43) || (ty =? 41) then kpv (fun v => [v]) u16b (fun v => [TInt 2 v])
  else if ty =? 51 then kpv dump_ext (fun k => u16b (fst k)) t_ks
  else kp_none.

Lemma sh_kp_nonneg ty toks w : sh_kp ty toks w -> 0 <= w.
Proof.
  unfold sh_kp. destruct ((ty =? 43) || (ty =? 41)); [apply kpv_nonneg|]. destruct (ty =? 51); [apply kpv_nonneg|intros []].
Qed.

Lemma uint16_kpv b toks r : bytes_ok b -> ('(v, r) <- pull_uint16 b ;; Ok ([v], r)) = Ok (toks, r) ->
  (exists w, kpv (fun v => [v]) u16b (fun v => [TInt 2 v]) toks w /\ w <= Zlen b - Zlen r) /\ bytes_ok r.
Proof.
  intros Hb H. unfold pull_uint16 in H. destruct (pull_be 2 b) as [[v r']|e] eqn:E; cbn [bind] in H; [|discriminate].
  injection H as <- <-. destruct (pull_be_inv _ _ _ _ Hb E) as (-> & Hv & Hr). change (256 ^ Z.of_nat 2) with 65536 in Hv.
  split; [|exact Hr]. exists 2. split.
  - exists v. unfold u16b. rewrite flat_single, flat_int, be_enc_Zlen. repeat split; auto. lia.
  - rewrite Zlen_app, be_enc_Zlen. change (Z.of_nat 2) with 2. lia.
Qed.

Lemma sh_parse_some ty len b toks r : bytes_ok b -> parse_server_hello_ext ty len b = Some (Ok (toks, r)) ->
  (exists w, sh_kp ty toks w /\ w <= Zlen b - Zlen r) /\ bytes_ok r.
Proof.
  intros Hb H. unfold parse_server_hello_ext, sh_kp in *.
  destruct (ty =? 43) eqn:T43; [injection H as H; cbn [orb]; now apply uint16_kpv|].
  destruct (ty =? 51) eqn:T51.
  { injection H as H. replace (ty =? 41) with false by lia. cbn [orb]. unfold pull_uint16 in H.
    destruct (pull_be 2 b) as [[g b1]|e] eqn:E; cbn [bind] in H; [|discriminate].
    destruct (pull_opaque 2 b1) as [[d b2]|e] eqn:E2; cbn [bind] in H; [|discriminate]. injection H as <- <-.
    destruct (pull_be_inv _ _ _ _ Hb E) as (-> & Hg & Hb1). change (256 ^ Z.of_nat 2) with 65536 in Hg.
    destruct (pull_opaque_inv _ _ _ _ Hb1 E2) as (-> & F & _ & Hr). split; [|exact Hr].
    exists (Zlen (flat_seq (t_ks (g, d)))). split.
    - exists (g, d). unfold u16b. rewrite fits_ks. cbn [fst snd]. repeat split; auto. lia.
    - rewrite flat_ks. cbn [fst snd]. rewrite !Zlen_app. lia. }
  destruct (ty =? 41) eqn:T41; [injection H as H; cbn [orb]; now apply uint16_kpv|]. discriminate.
Qed.

Lemma sh_parse_none ty len b : parse_server_hello_ext ty len b = None -> existsb (Z.eqb ty) SH_ORDER = false.
Proof.
  unfold parse_server_hello_ext, SH_ORDER. cbn [existsb].
  destruct (ty =? 43); [discriminate|]. destruct (ty =? 51); [discriminate|]. destruct (ty =? 41); [discriminate|]. reflexivity.
Qed.

Theorem server_hello_reencode bs d rest : bytes_ok bs -> pull_server_hello bs = Ok (d, rest) ->
  exists m bytes', d = dump_server_hello m /\ server_hello_wf m = true /\
    enc_seq (tree_server_hello m) = Ok bytes' /\ Zlen bytes' + Zlen rest <= Zlen bs /\
    forall rest', pull_server_hello (bytes' ++ rest') = Ok (d, rest').
Proof.
  intros Hb H. apply (reencode_close pull_server_hello tree_server_hello dump_server_hello server_hello_wf);
    [exact server_hello_roundtrip|].
  unfold pull_server_hello in H.
  destruct (message_len_inv _ _ _ _ _ Hb H) as (len & b1 & Lbs & Hlen & Hb1 & B & C). clear H. cbv beta in B.
  destruct (hello_prefix b1) as [[pre b2]|e] eqn:E1; cbn [bind] in B; [|discriminate].
  unfold pull_uint16, pull_uint8 in B.
  destruct (pull_be 2 b2) as [[cs b3]|e] eqn:E2; cbn [bind] in B; [|discriminate].
  destruct (pull_be 1 b3) as [[cm b4]|e] eqn:E3; cbn [bind] in B; [|discriminate].
  destruct (pull_extensions parse_server_hello_ext false b4) as [[st b5]|e] eqn:E4; cbn [bind] in B; [|discriminate].
  injection B as <- <-.
  destruct (hello_prefix_inv _ _ _ Hb1 E1) as (random & sid & -> & Lr & Fs & L1 & Hb2).
  destruct (pull_be_inv _ _ _ _ Hb2 E2) as (-> & Hcs & Hb3). destruct (pull_be_inv _ _ _ _ Hb3 E3) as (-> & Hcm & Hb4).
  change (256 ^ Z.of_nat 2) with 65536 in *. change (256 ^ Z.of_nat 1) with 256 in *.
  rewrite !Zlen_app, !be_enc_Zlen in L1. change (Z.of_nat 2) with 2 in L1. change (Z.of_nat 1) with 1 in L1.
  destruct (pull_extensions_inv parse_server_hello_ext false SH_ORDER sh_kp
              (nodup3 43 51 41 ltac:(lia) ltac:(lia) ltac:(lia)) sh_kp_nonneg sh_parse_some sh_parse_none _ _ _ Hb4 E4)
    as (wf & others & K & O & W & S1 & S2 & Hr).
  destruct (slot_opt sh_kp st wf 43 (fun v => [v]) u16b (fun v => [TInt 2 v]) K (fun _ _ P => P))
    as (sv & D43 & W43 & L43 & F43).
  destruct (slot_opt sh_kp st wf 51 dump_ext (fun k => u16b (fst k)) t_ks K (fun _ _ P => P))
    as (ks & D51 & W51 & L51 & F51).
  destruct (slot_opt sh_kp st wf 41 (fun v => [v]) u16b (fun v => [TInt 2 v]) K (fun _ _ P => P))
    as (psk & D41 & W41 & L41 & F41).
  pose proof (kslot_nonneg sh_kp sh_kp_nonneg st wf 43 K). pose proof (kslot_nonneg sh_kp sh_kp_nonneg st wf 51 K).
  pose proof (kslot_nonneg sh_kp sh_kp_nonneg st wf 41 K). pose proof (oweight_nonneg others) as ON.
  unfold SH_ORDER in S1, S2. rewrite !wsum_cons in S1, S2. cbn [wsum fold_right] in S1, S2.
  clear E1 E2 E3 E4 Hb Hb1 Hb2 Hb3 Hb4 Hr K.
  exists (mkSH random sid cs cm sv ks psk others).
  assert (EX : Zlen (flat_seq (sh_exts (mkSH random sid cs cm sv ks psk others))) = wf 43 + wf 51 + wf 41 + oweight others).
  { unfold sh_exts. cbn [sh_supported_version sh_key_share sh_pre_shared_key sh_other_extensions].
    rewrite !flat_seq_app, !Zlen_app, flat_others_len, L43, L51, L41. lia. }
  assert (FX : fits_seq (sh_exts (mkSH random sid cs cm sv ks psk others)) = true).
  { unfold sh_exts. cbn [sh_supported_version sh_key_share sh_pre_shared_key sh_other_extensions].
    clear - F43 F51 F41 S1 H H0 H1 ON. rewrite !fits_seq_app, F43, F51, F41, fits_others by lia. reflexivity. }
  repeat split.
  - unfold dump_server_hello. cbn [sh_random sh_session_id sh_cipher_suite sh_compression_method sh_supported_version
      sh_key_share sh_pre_shared_key sh_other_extensions].
    unfold out_est, SH_ORDER. cbn [flat_map]. rewrite D43, D51, D41, O, others_dump, app_nil_r.
    repeat rewrite <- app_assoc. reflexivity.
  - unfold server_hello_wf. cbn [sh_random sh_session_id sh_cipher_suite sh_compression_method sh_supported_version
      sh_key_share sh_pre_shared_key sh_other_extensions].
    clear - Lr Hcs Hcm W43 W51 W41 W. rewrite !andb_true_iff. repeat split; try assumption; unfold u16b, u8b; lia.
  - clear D43 D51 D41 W43 W51 W41 W L43 L51 L41 F43 F51 F41 O.
    unfold tree_server_hello. cbn [sh_random sh_session_id sh_cipher_suite sh_compression_method].
    rewrite !fits_seq_cons, fits_block, !fits_seq_cons, !fits_int, fits_bytes, fits_seq_nil, Fs, fits_block, FX, EX.
    rewrite !flat_seq_cons, flat_seq_nil, !flat_int, flat_bytes, flat_block, EX, !Zlen_app, !be_enc_Zlen.
    cbn [andb]. change (Zlen (@nil Z)) with 0. change (256 ^ Z.of_nat 3) with 16777216. change (256 ^ Z.of_nat 2) with 65536.
    change (Z.of_nat 2) with 2. change (Z.of_nat 1) with 1. lia.
  - clear D43 D51 D41 W43 W51 W41 W L43 L51 L41 F43 F51 F41 O FX Fs.
    unfold tree_server_hello. cbn [sh_random sh_session_id sh_cipher_suite sh_compression_method].
    rewrite !flat_seq_cons, flat_seq_nil, flat_int, flat_block, !flat_seq_cons, flat_seq_nil, !flat_int, flat_bytes, flat_block.
    repeat rewrite ?Zlen_app, ?be_enc_Zlen, ?EX. change (Zlen (@nil Z)) with 0.
    change (Z.of_nat 3) with 3. change (Z.of_nat 2) with 2. change (Z.of_nat 1) with 1. lia.
Qed.
