(* Proofs about coq/model/Adapter.v (QuicConnectionProtocol bookkeeping). *)
From AQ Require Import lib.Base model.Adapter.
From Coq Require Import Lia.

Lemma handler_code_ne : forall hx k, k < 10 -> Some (X_HANDLER + Z.abs hx) <> Some k.
Proof.
  intros hx k L X. assert (X_HANDLER + Z.abs hx = k) as X1 by congruence.
  unfold X_HANDLER in X1. pose proof (Z.abs_nonneg hx). lia.
Qed.
Lemma handler_ne_invalid : forall hx, Some (X_HANDLER + Z.abs hx) <> Some X_INVALID_STATE.
Proof. intros. apply handler_code_ne. unfold X_INVALID_STATE. lia. Qed.
Lemma handler_ne_timer : forall hx, Some (X_HANDLER + Z.abs hx) = Some X_TIMER_NONE -> False.
Proof. intros hx. apply handler_code_ne. unfold X_TIMER_NONE. lia. Qed.

Lemma NoDup_app_remove_l : forall (A : Type) (l l' : list A), NoDup (l ++ l') -> NoDup l'.
Proof. induction l as [|x t IH]; intros l' H; simpl in *; [assumption|]. inversion H; subst. apply IH; assumption. Qed.

(* ---------- futures ---------------------------------------------------------------------------- *)
Lemma nth_set_same : forall l i v f, nth_error l i = Some f -> nth_error (set_nth i v l) i = Some v.
Proof. induction l as [|x t IH]; intros [|i] v f H; simpl in *; try discriminate; eauto. Qed.

Lemma nth_set_other : forall l i j v, i <> j -> nth_error (set_nth i v l) j = nth_error l j.
Proof.
  induction l as [|x t IH]; intros [|i] [|j] v H; simpl; try reflexivity; try lia.
  apply IH. lia.
Qed.

Lemma resolve_pending : forall l i v, nth_error l i = Some FPending -> resolve i v l = Some (set_nth i v l).
Proof. intros l i v H. unfold resolve. rewrite H. reflexivity. Qed.

Lemma resolve_some : forall l i v l', resolve i v l = Some l' -> nth_error l i = Some FPending /\ l' = set_nth i v l.
Proof.
  intros l i v l' H. unfold resolve in H. destruct (nth_error l i) as [[| | |]|]; try discriminate.
  inversion H. auto.
Qed.

(* ---------- the references the protocol holds to futures ------------------------------------------- *)
Definition olist (o : option nat) : list nat := match o with Some i => [i] | None => [] end.
Definition refs (s : st) : list nat := olist (cwait s) ++ map snd (pings s).

(* Inv: the futures the protocol refers to are distinct and all still pending *)
Definition Inv (s : st) : Prop :=
  NoDup (refs s) /\ forall i, In i (refs s) -> nth_error (futs s) i = Some FPending.
(* NoOrphan: every pending future is still referred to (so it will be resolved) *)
Definition NoOrphan (s : st) : Prop :=
  forall i, nth_error (futs s) i = Some FPending -> In i (refs s).
Definition AllDone (s : st) : Prop := forall i, nth_error (futs s) i <> Some FPending.

Lemma fail_all_spec : forall ps f,
  NoDup (map snd ps) -> (forall i, In i (map snd ps) -> nth_error f i = Some FPending) ->
  exists f', fail_all ps f = (None, f') /\
             (forall j, In j (map snd ps) -> nth_error f' j = Some FErr) /\
             (forall j, ~ In j (map snd ps) -> nth_error f' j = nth_error f j).
Proof.
  induction ps as [|[u i] t IH]; intros f ND P; simpl.
  - exists f. repeat split; intros; tauto.
  - simpl in ND. inversion ND as [|? ? N1 N2]; subst.
    rewrite (resolve_pending f i FErr) by (apply P; simpl; auto).
    destruct (IH (set_nth i FErr f) N2) as [f' [E [A B]]].
    { intros j Hj. rewrite nth_set_other; [apply P; simpl; auto|]. intros X; subst; tauto. }
    exists f'. split; [exact E|]. split.
    + intros j [X|X]; [subst|apply A; assumption].
      rewrite B by assumption. apply nth_set_same with (f := FPending). apply P; simpl; auto.
    + intros j X. simpl in X. rewrite B by tauto. apply nth_set_other. intros Y; subst; tauto.
Qed.

Lemma ping_get_in : forall ps u i, ping_get u ps = Some i -> In i (map snd ps).
Proof.
  induction ps as [|[v g] t IH]; intros u i H; simpl in *; [discriminate|].
  destruct (v =? u); [inversion H; auto|right; eapply IH; eauto].
Qed.

Lemma ping_del_sub : forall ps u j, In j (map snd (ping_del u ps)) -> In j (map snd ps).
Proof.
  induction ps as [|[v g] t IH]; intros u j H; simpl in *; [tauto|].
  destruct (v =? u); simpl in *; [tauto|]. destruct H; [auto|right; eapply IH; eauto].
Qed.

Lemma ping_del_nodup : forall ps u, NoDup (map snd ps) -> NoDup (map snd (ping_del u ps)).
Proof.
  induction ps as [|[v g] t IH]; intros u ND; simpl in *; [constructor|].
  inversion ND as [|? ? N1 N2]; subst. destruct (v =? u); simpl; [assumption|].
  constructor; [|apply IH; assumption]. intros X. apply N1. eapply ping_del_sub; eauto.
Qed.

Lemma ping_del_gone : forall ps u i, NoDup (map snd ps) -> ping_get u ps = Some i -> ~ In i (map snd (ping_del u ps)).
Proof.
  induction ps as [|[v g] t IH]; intros u i ND H; simpl in *; [discriminate|].
  inversion ND as [|? ? N1 N2]; subst. destruct (v =? u).
  - inversion H; subst. assumption.
  - simpl. intros [X|X].
    + subst. apply N1. eapply ping_get_in; eauto.
    + eapply IH; eauto.
Qed.

Lemma ping_del_keeps : forall ps u i j, ping_get u ps = Some i -> In j (map snd ps) -> j <> i -> In j (map snd (ping_del u ps)).
Proof.
  induction ps as [|[v g] t IH]; intros u i j H I N; simpl in *; [tauto|].
  destruct (v =? u).
  - inversion H; subst. destruct I; [congruence|assumption].
  - simpl. destruct I; [auto|right; eapply IH; eauto].
Qed.

Lemma ping_set_in : forall ps u i j, In j (map snd (ping_set u i ps)) -> j = i \/ In j (map snd ps).
Proof.
  induction ps as [|[v g] t IH]; intros u i j H; simpl in *.
  - destruct H; [auto|tauto].
  - destruct (v =? u); simpl in *.
    + destruct H; [auto|tauto].
    + destruct H; [auto|]. destruct (IH _ _ _ H); auto.
Qed.

Lemma ping_set_nodup : forall ps u i, NoDup (map snd ps) -> ~ In i (map snd ps) -> NoDup (map snd (ping_set u i ps)).
Proof.
  induction ps as [|[v g] t IH]; intros u i ND NI; simpl in *.
  - constructor; [tauto|constructor].
  - inversion ND as [|? ? N1 N2]; subst. destruct (v =? u); simpl.
    + constructor; [tauto|assumption].
    + constructor; [|apply IH; tauto]. intros X. apply ping_set_in in X. destruct X; [subst; tauto|tauto].
Qed.

Lemma ping_set_fresh_in : forall ps u i j, ping_get u ps = None ->
  (In j (map snd (ping_set u i ps)) <-> j = i \/ In j (map snd ps)).
Proof.
  induction ps as [|[v g] t IH]; intros u i j H; simpl in *.
  - intuition.
  - destruct (v =? u); [discriminate|]. simpl. rewrite IH by assumption. intuition.
Qed.

(* ---------- one event ----------------------------------------------------------------------------- *)
Ltac inv_pair H := inversion H; subst; clear H.

Lemma on_stream_frame : forall s sid d fin x s', on_stream s sid d fin = (x, s') ->
  futs s' = futs s /\ cwait s' = cwait s /\ pings s' = pings s /\ closed s' = closed s /\
  timer s' = timer s /\ timer_at s' = timer_at s /\ ltimers s' = ltimers s /\ ttask s' = ttask s /\
  soon s' = soon s /\ dirty s' = dirty s /\
  (x = None \/ x = Some X_FEED_AFTER_EOF).
Proof.
  intros s sid d fin x s' H. unfold on_stream in H.
  destruct (rd_get sid (readers s)) as [r|]; simpl in H.
  - destruct d; [|destruct (rd_eof r)]; inv_pair H; simpl; repeat split; auto.
  - destruct d; [|destruct (closed s) eqn:Cl]; inv_pair H; simpl; repeat split; auto.
Qed.

(* under Inv an event never double-resolves a future, and Inv is kept *)
Lemma handle_event_inv : forall e s x s', Inv s -> handle_event e s = (x, s') ->
  x <> Some X_INVALID_STATE /\ Inv s'.
Proof.
  intros e s x s' [ND P] H. destruct e as [|hx|uid|sid d fin|cid hx|cid hx|]; simpl in H.
  - (* handshake *)
    destruct (cwait s) as [i|] eqn:C.
    + assert (nth_error (futs s) i = Some FPending) as Pi by (apply P; unfold refs; rewrite C; simpl; auto).
      simpl in H. rewrite (resolve_pending _ _ FOk Pi) in H. inv_pair H. split; [discriminate|].
      unfold Inv, refs in *. simpl. rewrite C in *. simpl in *. inversion ND as [|? ? N1 N2]; subst.
      split; [assumption|]. intros j Hj. rewrite nth_set_other; [apply P; auto|]. intros X; subst; tauto.
    + inv_pair H. split; [discriminate|split; assumption].
  - (* terminated *)
    destruct (hx =? 0) eqn:E; simpl in H.
    2:{ inv_pair H. split; [apply handler_ne_invalid|split; assumption]. }
    destruct (cwait s) as [i|] eqn:C.
    + assert (nth_error (futs s) i = Some FPending) as Pi by (apply P; unfold refs; rewrite C; simpl; auto).
      simpl in H. rewrite (resolve_pending _ _ FErr Pi) in H. simpl in H.
      unfold refs in ND, P. rewrite C in ND, P. simpl in ND, P. inversion ND as [|? ? N1 N2]; subst.
      destruct (fail_all_spec (pings s) (set_nth i FErr (futs s)) N2) as [f' [F _]].
      { intros j Hj. rewrite nth_set_other; [apply P; auto|]. intros X; subst; tauto. }
      rewrite F in H. inv_pair H. split; [discriminate|]. unfold Inv, refs. simpl. split; [constructor|tauto].
    + unfold refs in ND, P. rewrite C in ND, P. simpl in ND, P.
      destruct (fail_all_spec (pings s) (futs s) ND P) as [f' [F _]].
      rewrite F in H. inv_pair H. split; [discriminate|]. unfold Inv, refs. simpl. rewrite C. simpl. split; [constructor|tauto].
  - (* ping ack *)
    destruct (ping_get uid (pings s)) as [i|] eqn:G.
    + assert (In i (map snd (pings s))) as Ii by (eapply ping_get_in; eauto).
      assert (nth_error (futs s) i = Some FPending) as Pi by (apply P; unfold refs; apply in_or_app; auto).
      simpl in H. rewrite (resolve_pending _ _ FOk Pi) in H. inv_pair H. split; [discriminate|].
      unfold Inv, refs in *. simpl.
      apply NoDup_app_remove_l in ND as ND2.
      split.
      * destruct (cwait s) as [c|]; simpl in *; [|apply ping_del_nodup; assumption].
        inversion ND as [|? ? N1 N2]; subst. constructor; [|apply ping_del_nodup; assumption].
        intros X. apply N1. eapply ping_del_sub; eauto.
      * intros j Hj. assert (j <> i) as NE.
        { intros X; subst j. apply in_app_or in Hj. destruct Hj as [Hj|Hj].
          - destruct (cwait s) as [c|]; simpl in *; [|tauto]. destruct Hj; [subst|tauto].
            inversion ND as [|? ? N1 N2]; subst. tauto.
          - eapply ping_del_gone; eauto. }
        rewrite nth_set_other by auto. apply P. apply in_app_or in Hj. apply in_or_app.
        destruct Hj; [auto|right; eapply ping_del_sub; eauto].
    + inv_pair H. split; [discriminate|split; assumption].
  - (* stream data *)
    destruct (on_stream_frame _ _ _ _ _ _ H) as [A [B [C [_ [_ [_ [_ [_ [_ [_ D]]]]]]]]]].
    split; [destruct D as [->| ->]; discriminate|].
    unfold Inv, refs in *. rewrite A, B, C. split; assumption.
  - destruct (hx =? 0); inv_pair H; (split; [try discriminate|split; assumption]).
    apply handler_ne_invalid.
  - destruct (hx =? 0); inv_pair H; (split; [try discriminate|split; assumption]).
    apply handler_ne_invalid.
  - inv_pair H. split; [discriminate|split; assumption].
Qed.

(* NoOrphan is kept by events, and ConnectionTerminated resolves everything *)
Lemma handle_event_orphan : forall e s x s', Inv s -> NoOrphan s -> handle_event e s = (x, s') ->
  NoOrphan s' /\ (e = EvTerminated 0 -> x = None -> AllDone s').
Proof.
  intros e s x s' [ND P] NO H. destruct e as [|hx|uid|sid d fin|cid hx|cid hx|]; simpl in H.
  - destruct (cwait s) as [i|] eqn:C.
    + assert (nth_error (futs s) i = Some FPending) as Pi by (apply P; unfold refs; rewrite C; simpl; auto).
      simpl in H. rewrite (resolve_pending _ _ FOk Pi) in H. inv_pair H. split; [|discriminate].
      unfold NoOrphan, refs in *. simpl. rewrite C in *. simpl in *. intros j Hj.
      destruct (Nat.eq_dec j i) as [->|NE].
      * rewrite (nth_set_same _ _ _ _ Pi) in Hj. discriminate.
      * rewrite nth_set_other in Hj by auto. destruct (NO j Hj); [congruence|assumption].
    + inv_pair H. split; [assumption|discriminate].
  - destruct (hx =? 0) eqn:E; simpl in H.
    2:{ inv_pair H. split; [assumption|]. intros X _. inversion X; subst. discriminate. }
    assert (forall f', (forall j, In j (refs s) -> nth_error f' j <> Some FPending) ->
                       (forall j, ~ In j (refs s) -> nth_error f' j = nth_error (futs s) j) ->
                       forall j, nth_error f' j <> Some FPending) as K.
    { intros f' A B j. destruct (in_dec Nat.eq_dec j (refs s)) as [I|I]; [apply A; assumption|].
      rewrite B by assumption. intros X. apply I. apply NO. assumption. }
    destruct (cwait s) as [i|] eqn:C.
    + assert (nth_error (futs s) i = Some FPending) as Pi by (apply P; unfold refs; rewrite C; simpl; auto).
      simpl in H. rewrite (resolve_pending _ _ FErr Pi) in H. simpl in H.
      unfold refs in ND, P, K. rewrite C in ND, P, K. simpl in ND, P, K. inversion ND as [|? ? N1 N2]; subst.
      destruct (fail_all_spec (pings s) (set_nth i FErr (futs s)) N2) as [f' [F [A B]]].
      { intros j Hj. rewrite nth_set_other; [apply P; auto|]. intros X; subst; tauto. }
      rewrite F in H. inv_pair H.
      assert (AllDone (with_readers (with_closed (with_pings (with_futs (with_cwait s None) f') []) true)
                        (feed_eof_all (readers (with_closed (with_pings (with_futs (with_cwait s None) f') []) true))))) as AD.
      { unfold AllDone. simpl. apply K.
        - intros j [X|X].
          + subst j. rewrite B by assumption. rewrite (nth_set_same _ _ _ _ Pi). discriminate.
          + rewrite A by assumption. discriminate.
        - intros j X. rewrite B by tauto. apply nth_set_other. intros Y; subst; tauto. }
      split; [|intros _ _; exact AD]. intros j Hj. exfalso. exact (AD j Hj).
    + unfold refs in ND, P, K. rewrite C in ND, P, K. simpl in ND, P, K.
      destruct (fail_all_spec (pings s) (futs s) ND P) as [f' [F [A B]]].
      rewrite F in H. inv_pair H.
      assert (AllDone (with_readers (with_closed (with_pings (with_futs s f') []) true)
                        (feed_eof_all (readers (with_closed (with_pings (with_futs s f') []) true))))) as AD.
      { unfold AllDone. simpl. apply K.
        - intros j X. rewrite A by assumption. discriminate.
        - intros j X. apply B. assumption. }
      split; [|intros _ _; exact AD]. intros j Hj. exfalso. exact (AD j Hj).
  - destruct (ping_get uid (pings s)) as [i|] eqn:G.
    + assert (In i (map snd (pings s))) as Ii by (eapply ping_get_in; eauto).
      assert (nth_error (futs s) i = Some FPending) as Pi by (apply P; unfold refs; apply in_or_app; auto).
      simpl in H. rewrite (resolve_pending _ _ FOk Pi) in H. inv_pair H. split; [|discriminate].
      unfold NoOrphan, refs in *. simpl. intros j Hj.
      destruct (Nat.eq_dec j i) as [->|NE].
      * rewrite (nth_set_same _ _ _ _ Pi) in Hj. discriminate.
      * rewrite nth_set_other in Hj by auto. apply NO in Hj. apply in_app_or in Hj. apply in_or_app.
        destruct Hj; [auto|right; eapply ping_del_keeps; eauto].
    + inv_pair H. split; [assumption|discriminate].
  - destruct (on_stream_frame _ _ _ _ _ _ H) as [A [B [C _]]]. split; [|discriminate].
    unfold NoOrphan, refs in *. rewrite A, B, C. assumption.
  - destruct (hx =? 0); inv_pair H; (split; [assumption|discriminate]).
  - destruct (hx =? 0); inv_pair H; (split; [assumption|discriminate]).
  - inv_pair H. split; [assumption|discriminate].
Qed.

(* once everything is resolved, events keep it so (no event creates a future) *)
Lemma handle_event_alldone : forall e s x s', AllDone s -> handle_event e s = (x, s') -> AllDone s'.
Proof.
  intros e s x s' AD H.
  assert (forall i v, resolve i v (futs s) = None) as R.
  { intros i v. unfold resolve. specialize (AD i). destruct (nth_error (futs s) i) as [[| | |]|]; try reflexivity. congruence. }
  assert (forall ps, fail_all ps (futs s) = (None, futs s) \/ exists x, fail_all ps (futs s) = (Some x, futs s)) as FA.
  { intros [|[u i] t]; simpl; [auto|]. rewrite R. right. eauto. }
  destruct e as [|hx|uid|sid d fin|cid hx|cid hx|]; simpl in H.
  - destruct (cwait s); simpl in H; [rewrite R in H|]; inv_pair H; exact AD.
  - destruct (hx =? 0); simpl in H; [|inv_pair H; exact AD].
    destruct (cwait s); simpl in H.
    + rewrite R in H. inv_pair H. exact AD.
    + destruct (FA (pings s)) as [F|[y F]]; rewrite F in H; inv_pair H; exact AD.
  - destruct (ping_get uid (pings s)); simpl in H; [rewrite R in H|]; inv_pair H; exact AD.
  - destruct (on_stream_frame _ _ _ _ _ _ H) as [A _]. unfold AllDone. rewrite A. exact AD.
  - destruct (hx =? 0); inv_pair H; exact AD.
  - destruct (hx =? 0); inv_pair H; exact AD.
  - inv_pair H. exact AD.
Qed.

(* ---------- _process_events ------------------------------------------------------------------------ *)
Lemma with_evq_inv : forall s q, Inv (with_evq s q) <-> Inv s.
Proof. intros. unfold Inv, refs. simpl. tauto. Qed.
Lemma with_evq_orphan : forall s q, NoOrphan (with_evq s q) <-> NoOrphan s.
Proof. intros. unfold NoOrphan, refs. simpl. tauto. Qed.
Lemma with_evq_alldone : forall s q, AllDone (with_evq s q) <-> AllDone s.
Proof. intros. unfold AllDone. simpl. tauto. Qed.

Lemma process_inv : forall q s x s', Inv s -> process q s = (x, s') -> x <> Some X_INVALID_STATE /\ Inv s'.
Proof.
  induction q as [|e rest IH]; intros s x s' I H; simpl in H.
  - inv_pair H. split; [discriminate|apply with_evq_inv; assumption].
  - destruct (handle_event e (with_evq s rest)) as [[y|] s1] eqn:E.
    + inv_pair H. eapply handle_event_inv; [|exact E]. apply with_evq_inv; assumption.
    + eapply IH; [|exact H]. eapply handle_event_inv; [|exact E]. apply with_evq_inv; assumption.
Qed.

Lemma process_orphan : forall q s x s', Inv s -> NoOrphan s -> process q s = (x, s') -> NoOrphan s'.
Proof.
  induction q as [|e rest IH]; intros s x s' I NO H; simpl in H.
  - inv_pair H. apply with_evq_orphan; assumption.
  - assert (Inv (with_evq s rest)) as I' by (apply with_evq_inv; assumption).
    assert (NoOrphan (with_evq s rest)) as NO' by (apply with_evq_orphan; assumption).
    destruct (handle_event e (with_evq s rest)) as [[y|] s1] eqn:E.
    + inv_pair H. eapply handle_event_orphan; eauto.
    + eapply IH; [| |exact H].
      * eapply handle_event_inv; eauto.
      * eapply handle_event_orphan; eauto.
Qed.

Lemma process_alldone : forall q s x s', AllDone s -> process q s = (x, s') -> AllDone s'.
Proof.
  induction q as [|e rest IH]; intros s x s' AD H; simpl in H.
  - inv_pair H. apply with_evq_alldone; assumption.
  - assert (AllDone (with_evq s rest)) as AD' by (apply with_evq_alldone; assumption).
    destruct (handle_event e (with_evq s rest)) as [[y|] s1] eqn:E.
    + inv_pair H. eapply handle_event_alldone; eauto.
    + eapply IH; [|exact H]. eapply handle_event_alldone; eauto.
Qed.

(* if the queue contains ConnectionTerminated and processing reaches its end, every future is resolved *)
Lemma process_terminated : forall q s s', Inv s -> NoOrphan s -> In (EvTerminated 0) q ->
  process q s = (None, s') -> AllDone s'.
Proof.
  induction q as [|e rest IH]; intros s s' I NO IN H; simpl in H; [destruct IN|].
  assert (Inv (with_evq s rest)) as I' by (apply with_evq_inv; assumption).
  assert (NoOrphan (with_evq s rest)) as NO' by (apply with_evq_orphan; assumption).
  destruct (handle_event e (with_evq s rest)) as [[y|] s1] eqn:E; [discriminate|].
  destruct IN as [->|IN].
  - eapply process_alldone; [|exact H]. eapply handle_event_orphan; eauto.
  - eapply IH; [| |exact IN|exact H].
    + eapply handle_event_inv; eauto.
    + eapply handle_event_orphan; eauto.
Qed.

(* ---------- transmit_core and the timer ------------------------------------------------------------------- *)
Lemma transmit_frame : forall s gt e, futs (transmit_core s gt e) = futs s /\ cwait (transmit_core s gt e) = cwait s /\
                                      pings (transmit_core s gt e) = pings s.
Proof.
  intros. unfold transmit_core. destruct (timer s); [destruct (negb (oz_eqb (timer_at s) gt))|]; destruct gt; simpl; auto.
Qed.

Lemma transmit_soon_frame : forall s, futs (transmit_soon s) = futs s /\ cwait (transmit_soon s) = cwait s /\
                                      pings (transmit_soon s) = pings s.
Proof. intros. unfold transmit_soon. destruct (ttask s); simpl; auto. Qed.

Lemma frame_inv : forall s s', futs s' = futs s -> cwait s' = cwait s -> pings s' = pings s ->
  (Inv s -> Inv s') /\ (NoOrphan s -> NoOrphan s') /\ (AllDone s -> AllDone s').
Proof. intros s s' A B C. unfold Inv, NoOrphan, AllDone, refs. rewrite A, B, C. tauto. Qed.

Lemma oz_eqb_eq : forall a b, oz_eqb a b = true <-> a = b.
Proof.
  intros [a|] [b|]; simpl; split; intros H; try discriminate; try reflexivity.
  - f_equal; lia.
  - inversion H; lia.
Qed.

(* the loop holds exactly the handle _timer refers to, and _timer_at is its deadline *)
Definition TimerOk (s : st) : Prop :=
  ltimers s = match timer s with Some w => [w] | None => [] end /\
  (forall w, timer s = Some w -> timer_at s = Some w).

Lemma transmit_timer : forall s gt e, TimerOk s -> TimerOk (transmit_core s gt e).
Proof.
  intros s gt e [L T]. unfold TimerOk, transmit_core. destruct (timer s) as [w|] eqn:Tm.
  - rewrite (T w eq_refl). rewrite L. destruct (oz_eqb (Some w) gt) eqn:E; simpl.
    + apply oz_eqb_eq in E. subst gt. simpl. split; [reflexivity|]. intros; congruence.
    + rewrite Z.eqb_refl. destruct gt as [g|]; simpl; split; try reflexivity; intros; congruence.
  - rewrite L. destruct gt as [g|]; simpl; split; try reflexivity; intros; congruence.
Qed.

(* a pending transmit_core is never lost: while _transmit_task is set or written data has not been passed
   to transmit_core(), the loop holds a call_soon(transmit_core) handle *)
Definition SoonOk (s : st) : Prop :=
  (ttask s = true -> soon s <> O) /\ (dirty s = true -> soon s <> O).

Lemma transmit_soonok : forall s gt e, SoonOk (transmit_core s gt e).
Proof.
  intros. unfold SoonOk, transmit_core.
  destruct (timer s); [destruct (negb (oz_eqb (timer_at s) gt))|]; destruct gt; simpl; split; discriminate.
Qed.

Lemma transmit_soon_ok : forall s, SoonOk s -> SoonOk (transmit_soon s).
Proof.
  intros s [A B]. unfold SoonOk, transmit_soon. destruct (ttask s) eqn:T; simpl; [tauto|]. split; intros; lia.
Qed.

Lemma process_frame2 : forall q s x s', process q s = (x, s') ->
  timer s' = timer s /\ timer_at s' = timer_at s /\ ltimers s' = ltimers s /\ ttask s' = ttask s /\
  soon s' = soon s /\ dirty s' = dirty s.
Proof.
  assert (forall e s x s', handle_event e s = (x, s') ->
            timer s' = timer s /\ timer_at s' = timer_at s /\ ltimers s' = ltimers s /\ ttask s' = ttask s /\
            soon s' = soon s /\ dirty s' = dirty s) as HE.
  { intros e s x s' H. destruct e as [|hx|uid|sid d fin|cid hx|cid hx|]; simpl in H.
    - destruct (cwait s); simpl in H; [destruct (resolve _ _ _)|]; inv_pair H; simpl; auto 10.
    - destruct (hx =? 0); simpl in H; [|inv_pair H; auto 10].
      destruct (cwait s); simpl in H.
      + destruct (resolve _ _ _); simpl in H; [|inv_pair H; simpl; auto 10].
        destruct (fail_all _ _) as [[y|] f]; inv_pair H; simpl; auto 10.
      + destruct (fail_all _ _) as [[y|] f]; inv_pair H; simpl; auto 10.
    - destruct (ping_get uid (pings s)); simpl in H; [destruct (resolve _ _ _)|]; inv_pair H; simpl; auto 10.
    - destruct (on_stream_frame _ _ _ _ _ _ H) as [_ [_ [_ [_ [A1 [A2 [A3 [A4 [A5 [A6 _]]]]]]]]]]. auto 10.
    - destruct (hx =? 0); inv_pair H; auto 10.
    - destruct (hx =? 0); inv_pair H; auto 10.
    - inv_pair H; auto 10. }
  induction q as [|e rest IH]; intros s x s' H; simpl in H.
  - inv_pair H. simpl. auto 10.
  - destruct (handle_event e (with_evq s rest)) as [[y|] s1] eqn:E.
    + inv_pair H. apply HE in E. simpl in E. exact E.
    + apply IH in H. apply HE in E. simpl in E. intuition congruence.
Qed.

Lemma fail_all_exn : forall ps f x f', fail_all ps f = (Some x, f') -> x = X_INVALID_STATE.
Proof.
  induction ps as [|[u i] t IH]; intros f x f' H; simpl in H; [discriminate|].
  destruct (resolve i FErr f); [eapply IH; eauto|inversion H; reflexivity].
Qed.

(* event processing raises only InvalidStateError, the feed_data assertion or a handler's exception *)
Lemma handle_event_exn : forall e s x s', handle_event e s = (Some x, s') ->
  x = X_INVALID_STATE \/ x = X_FEED_AFTER_EOF \/ exists hx, x = X_HANDLER + Z.abs hx.
Proof.
  intros e s x s' H. destruct e as [|hx|uid|sid d fin|cid hx|cid hx|]; simpl in H.
  - destruct (cwait s); simpl in H; [destruct (resolve _ _ _)|]; inv_pair H; auto.
  - destruct (hx =? 0); simpl in H; [|inv_pair H; right; right; eexists; reflexivity].
    destruct (cwait s); simpl in H.
    + destruct (resolve _ _ _); simpl in H; [|inv_pair H; auto].
      destruct (fail_all _ _) as [[z|] f] eqn:FA; inv_pair H. left. eapply fail_all_exn; eauto.
    + destruct (fail_all _ _) as [[z|] f] eqn:FA; inv_pair H. left. eapply fail_all_exn; eauto.
  - destruct (ping_get uid (pings s)); simpl in H; [destruct (resolve _ _ _)|]; inv_pair H; auto.
  - apply on_stream_frame in H. destruct H as [_ [_ [_ [_ [_ [_ [_ [_ [_ [_ [D|D]]]]]]]]]]]; inv_pair D; auto.
  - destruct (hx =? 0); inv_pair H; right; right; eexists; reflexivity.
  - destruct (hx =? 0); inv_pair H; right; right; eexists; reflexivity.
  - inv_pair H.
Qed.

Lemma process_no_timer_none : forall q s x s', process q s = (x, s') -> x <> Some X_TIMER_NONE.
Proof.
  induction q as [|e rest IH]; intros s x s' H; simpl in H; [inv_pair H; discriminate|].
  destruct (handle_event e (with_evq s rest)) as [[y|] s1] eqn:E; [|eapply IH; eauto].
  inv_pair H. apply handle_event_exn in E. destruct E as [->|[->|[hx ->]]]; try discriminate.
  intros X. eapply handler_ne_timer; eauto.
Qed.

Ltac ne_code := let X := fresh in
  unfold R_INVALID, X_INVALID_STATE, X_TIMER_NONE, X_ALREADY_AWAITING, X_CONNECTION_ERROR; intros X; inversion X.

Lemma transmit_closed : forall s gt e, closed (transmit_core s gt e) = closed s.
Proof.
  intros. unfold transmit_core. destruct (timer s); [destruct (negb (oz_eqb (timer_at s) gt))|]; destruct gt; reflexivity.
Qed.
Lemma transmit_soon_closed : forall s, closed (transmit_soon s) = closed s.
Proof. intros. unfold transmit_soon. destruct (ttask s); reflexivity. Qed.
Lemma transmit_dirty : forall s gt e, dirty (transmit_core s gt e) = false.
Proof.
  intros. unfold transmit_core. destruct (timer s); [destruct (negb (oz_eqb (timer_at s) gt))|]; destruct gt; reflexivity.
Qed.

(* ---------- steps ----------------------------------------------------------------------------------- *)
Definition Good (s : st) : Prop := Inv s /\ TimerOk s /\ SoonOk s.
Definition IT (s : st) : Prop := Inv s /\ TimerOk s.
Definition Qcodes (x : option Z) : Prop := x <> Some X_INVALID_STATE /\ x <> Some X_TIMER_NONE.

Lemma memz_in : forall l w, memz w l = true <-> In w l.
Proof.
  induction l as [|x t IH]; intros w; simpl; [split; [discriminate|tauto]|].
  rewrite orb_true_iff, IH. split; intros [H|H]; auto; left; lia.
Qed.

(* a step = prepare ; [_process_events()] ; transmit_core ; [with the F4 repair: _process_events()] *)
Lemma step_unfold : forall fx s o, step fx s o =
  match prepare s o with
  | PDone x extra s0 => (x, extra, s0)
  | PGo extra s0 pe gt etx =>
      match (if pe then process_events s0 else (None, s0)) with
      | (Some x, s1) => (Some x, extra, s1)
      | (None, s1) =>
          if fx then let '(x2, s3) := process_events (transmit_core s1 gt etx) in (x2, extra, s3)
          else (None, extra, transmit_core s1 gt etx)
      end
  end.
Proof.
  intros. unfold step, run_plan, proc0. destruct (prepare s o) as [x extra s0|extra s0 pe gt etx]; [reflexivity|].
  destruct pe.
  - destruct (process_events s0) as [[x|] s1]; [reflexivity|]. destruct fx; [|reflexivity].
    destruct (process_events (transmit_core s1 gt etx)) as [x2 s3]. reflexivity.
  - destruct fx; [|reflexivity]. destruct (process_events (transmit_core s0 gt etx)) as [x2 s3]. reflexivity.
Qed.

(* whatever _process_events() and transmit_core keep, every step keeps -- for both values of fx *)
Lemma step_via : forall (P : st -> Prop) (Q : option Z -> Prop),
  (forall s x s', P s -> process_events s = (x, s') -> P s' /\ Q x) ->
  (forall s gt e, P s -> P (transmit_core s gt e)) ->
  Q None ->
  forall fx s o x out s',
    match prepare s o with PDone x0 _ s0 => P s0 /\ Q x0 | PGo _ s0 _ _ _ => P s0 end ->
    step fx s o = (x, out, s') -> P s' /\ Q x.
Proof.
  intros P Q HP HT QN fx s o x out s' PR H. rewrite step_unfold in H.
  destruct (prepare s o) as [x0 extra s0|extra s0 pe gt etx].
  - inv_pair H. exact PR.
  - assert (forall s1, P s1 ->
              (if fx then let '(x2, s3) := process_events (transmit_core s1 gt etx) in (x2, extra, s3)
               else (None, extra, transmit_core s1 gt etx)) = (x, out, s') -> P s' /\ Q x) as K.
    { intros s1 P1 H1. destruct fx.
      - destruct (process_events (transmit_core s1 gt etx)) as [x2 s3] eqn:E2. inv_pair H1.
        eapply HP; [|exact E2]. apply HT. exact P1.
      - inv_pair H1. split; [apply HT; exact P1|exact QN]. }
    destruct pe.
    + destruct (process_events s0) as [[y|] s1] eqn:E.
      * inv_pair H. eapply HP; eauto.
      * apply (K s1); [|exact H]. eapply HP; eauto.
    + apply (K s0); assumption.
Qed.

Lemma process_events_it : forall s x s', IT s -> process_events s = (x, s') -> IT s' /\ Qcodes x.
Proof.
  intros s x s' [I TO] E. unfold process_events in E.
  pose proof (process_frame2 _ _ _ _ E) as [F1 [F2 [F3 _]]].
  destruct (process_inv _ _ _ _ I E) as [A B].
  split; [split; [exact B|unfold TimerOk in *; rewrite F1, F2, F3; exact TO]|].
  split; [exact A|eapply process_no_timer_none; exact E].
Qed.

Lemma transmit_core_it : forall s gt e, IT s -> IT (transmit_core s gt e).
Proof.
  intros s gt e [I TO]. destruct (transmit_frame s gt e) as [T1 [T2 T3]].
  split; [apply (frame_inv s _ T1 T2 T3); exact I|apply transmit_timer; exact TO].
Qed.

Lemma ping_inv : forall s uid, Inv s ->
  Inv (with_pings (with_futs s (futs s ++ [FPending])) (ping_set uid (length (futs s)) (pings s))).
Proof.
  intros s uid [ND P].
  assert (forall j, In j (refs s) -> (j < length (futs s))%nat) as LT.
  { intros j Hj. apply P in Hj. apply nth_error_Some. congruence. }
  unfold Inv, refs in *. simpl. split.
  + apply NoDup_app_remove_l in ND as ND2.
    assert (~ In (length (futs s)) (map snd (pings s))) as NI.
    { intros X. assert (length (futs s) < length (futs s))%nat; [apply LT; apply in_or_app; auto|lia]. }
    destruct (cwait s) as [c|]; simpl in *; [|apply ping_set_nodup; assumption].
    inversion ND as [|? ? N1 N2]; subst. constructor; [|apply ping_set_nodup; assumption].
    intros X. apply ping_set_in in X. destruct X as [X|X]; [|tauto].
    assert (c < length (futs s))%nat by (apply LT; auto). lia.
  + intros j Hj. apply in_app_or in Hj. destruct Hj as [Hj|Hj].
    * rewrite nth_error_app1; [apply P; apply in_or_app; auto|apply LT; apply in_or_app; auto].
    * apply ping_set_in in Hj. destruct Hj as [->|Hj].
      -- rewrite nth_error_app2 by lia. rewrite Nat.sub_diag. reflexivity.
      -- rewrite nth_error_app1; [apply P; apply in_or_app; auto|apply LT; apply in_or_app; auto].
Qed.

Lemma prepare_it : forall s o, IT s ->
  match prepare s o with PDone x0 _ s0 => IT s0 /\ Qcodes x0 | PGo _ s0 _ _ _ => IT s0 end.
Proof.
  intros s o [I TO]. destruct o; simpl.
  - (* recv *) split; [apply with_evq_inv; exact I|exact TO].
  - (* timer *)
    destruct (memz w (ltimers s)) eqn:M; simpl.
    2:{ split; [exact (conj I TO)|split; ne_code]. }
    apply memz_in in M. destruct TO as [L T]. destruct (timer s) as [w'|] eqn:Tm; [|rewrite L in M; destruct M].
    rewrite L in M. destruct M as [->|[]]. rewrite (T w eq_refl).
    split; [exact I|]. unfold TimerOk. simpl. rewrite L. simpl. rewrite Z.eqb_refl. split; [reflexivity|discriminate].
  - (* run_soon *)
    destruct (soon s) as [|n]; [split; [exact (conj I TO)|split; ne_code]|exact (conj I TO)].
  - exact (conj I TO).
  - exact (conj I TO).
  - (* ping *)
    destruct (closed s); [split; [exact (conj I TO)|split; ne_code]|].
    split; [apply ping_inv; exact I|exact TO].
  - (* wait_connected *)
    destruct (cwait s) as [c|] eqn:C; [split; [exact (conj I TO)|split; ne_code]|].
    destruct (connected s); [split; [exact (conj I TO)|split; discriminate]|].
    destruct (closed s); [split; [exact (conj I TO)|split; ne_code]|].
    split; [|split; discriminate]. split; [|exact TO]. destruct I as [ND P].
    assert (forall j, In j (refs s) -> (j < length (futs s))%nat) as LT.
    { intros j Hj. apply P in Hj. apply nth_error_Some. congruence. }
    unfold Inv, refs in *. rewrite C in *. simpl in *. split.
    * constructor; [|assumption]. intros X. apply LT in X. lia.
    * intros j [<-|Hj].
      -- rewrite nth_error_app2 by lia. rewrite Nat.sub_diag. reflexivity.
      -- rewrite nth_error_app1; [apply P; assumption|apply LT; assumption].
  - (* write *)
    split; [|split; discriminate].
    destruct (transmit_soon_frame (set_dirty s)) as [T1 [T2 T3]].
    split; [apply (frame_inv (set_dirty s) _ T1 T2 T3); exact I|].
    unfold TimerOk, transmit_soon, set_dirty in *. destruct (ttask s); simpl; exact TO.
  - (* write_eof *)
    destruct (memz sid (wclosing s)); (split; [|split; discriminate]); [exact (conj I TO)|].
    match goal with |- IT (transmit_soon ?S0) => destruct (transmit_soon_frame S0) as [T1 [T2 T3]]; set (s0 := S0) in * end.
    split; [apply (frame_inv s0 _ T1 T2 T3); exact I|].
    unfold TimerOk, transmit_soon in *. subst s0. simpl. destruct (ttask s); simpl; exact TO.
  - (* create_stream *)
    split; [exact (conj I TO)|split; discriminate].
  - (* transmit_soon *)
    split; [|split; discriminate].
    destruct (transmit_soon_frame s) as [T1 [T2 T3]].
    split; [apply (frame_inv s _ T1 T2 T3); exact I|].
    unfold TimerOk, transmit_soon in *. destruct (ttask s); simpl; exact TO.
Qed.

Lemma step_it : forall fx s o x out s', IT s -> step fx s o = (x, out, s') -> IT s' /\ Qcodes x.
Proof.
  intros fx s o x out s' G H.
  eapply (step_via IT Qcodes process_events_it transmit_core_it); [split; discriminate| |exact H].
  apply prepare_it. exact G.
Qed.

Lemma process_events_soon : forall s x s', SoonOk s -> process_events s = (x, s') -> SoonOk s'.
Proof.
  intros s x s' SO E. unfold process_events in E. apply process_frame2 in E.
  destruct E as [_ [_ [_ [F4 [F5 F6]]]]]. unfold SoonOk in *. rewrite F4, F5, F6. exact SO.
Qed.

Lemma prepare_soon : forall s o, SoonOk s ->
  match prepare s o with PDone _ _ s0 => SoonOk s0 | PGo _ s0 pe _ _ => pe = true -> SoonOk s0 end.
Proof.
  intros s o SO. destruct o; simpl.
  - intros _. exact SO.
  - destruct (memz w (ltimers s)); simpl; [|exact SO]. destruct (timer_at s); [intros _|]; exact SO.
  - destruct (soon s); [exact SO|discriminate].
  - discriminate.
  - discriminate.
  - destruct (closed s); [exact SO|discriminate].
  - destruct (cwait s); [exact SO|]. destruct (connected s); [exact SO|]. destruct (closed s); exact SO.
  - unfold SoonOk, transmit_soon, set_dirty in *. simpl. destruct (ttask s) eqn:T; simpl; [tauto|]. split; intros; lia.
  - destruct (memz sid (wclosing s)); [exact SO|].
    unfold SoonOk, transmit_soon in *. simpl. destruct (ttask s) eqn:T; simpl; [tauto|]. split; intros; lia.
  - exact SO.
  - apply transmit_soon_ok; assumption.
Qed.

Lemma step_soon : forall fx s o x out s', SoonOk s -> step fx s o = (x, out, s') -> SoonOk s'.
Proof.
  intros fx s o x out s' SO H. rewrite step_unfold in H. pose proof (prepare_soon s o SO) as PS.
  destruct (prepare s o) as [x0 extra s0|extra s0 pe gt etx].
  - inv_pair H. exact PS.
  - assert (forall s1,
              (if fx then let '(x2, s3) := process_events (transmit_core s1 gt etx) in (x2, extra, s3)
               else (None, extra, transmit_core s1 gt etx)) = (x, out, s') -> SoonOk s') as K.
    { intros s1 H1. destruct fx.
      - destruct (process_events (transmit_core s1 gt etx)) as [x2 s3] eqn:E2. inv_pair H1.
        eapply process_events_soon; [|exact E2]. apply transmit_soonok.
      - inv_pair H1. apply transmit_soonok. }
    destruct pe.
    + destruct (process_events s0) as [[y|] s1] eqn:E.
      * inv_pair H. eapply process_events_soon; [|exact E]. apply PS. reflexivity.
      * apply (K s1). exact H.
    + apply (K s0). exact H.
Qed.

Lemma step_good : forall fx s o x out s', Good s -> step fx s o = (x, out, s') ->
  x <> Some X_INVALID_STATE /\ x <> Some X_TIMER_NONE /\ Good s'.
Proof.
  intros fx s o x out s' [I [TO SO]] H.
  destruct (step_it fx s o x out s' (conj I TO) H) as [[I' TO'] [Q1 Q2]].
  split; [exact Q1|]. split; [exact Q2|]. split; [exact I'|]. split; [exact TO'|].
  eapply step_soon; eauto.
Qed.

Lemma good_init : Good st_init.
Proof.
  unfold Good, Inv, TimerOk, SoonOk, refs. simpl. repeat split; try constructor; try discriminate; tauto.
Qed.

Lemma run_good : forall fx ops s, Good s -> Good (run fx s ops).
Proof.
  induction ops as [|o t IH]; intros s G; simpl; [assumption|].
  destruct (step fx s o) as [[x out] s'] eqn:E. apply IH. eapply step_good; eauto.
Qed.

(* ---------- theorems (each for both values of fx: the tree without and with the repair of F4) ---------- *)
(* no future is ever resolved twice, whatever the order of callbacks, API calls and events *)
Lemma waiter_never_resolved_twice_l : forall fx ops o,
  fst (fst (step fx (run fx st_init ops) o)) <> Some X_INVALID_STATE.
Proof.
  intros fx ops o. destruct (step fx (run fx st_init ops) o) as [[x out] s'] eqn:E. simpl.
  eapply step_good; [|exact E]. apply run_good. apply good_init.
Qed.

(* the loop never holds two _handle_timer handles, _handle_timer never meets _timer_at = None *)
Lemma timer_single_l : forall fx ops,
  let s := run fx st_init ops in
  ltimers s = match timer s with Some w => [w] | None => [] end /\
  (forall w, timer s = Some w -> timer_at s = Some w) /\
  forall o, fst (fst (step fx s o)) <> Some X_TIMER_NONE.
Proof.
  intros fx ops s. pose proof (run_good fx ops st_init good_init) as G. fold s in G.
  destruct G as [I [[L T] SO]]. split; [exact L|]. split; [exact T|].
  intros o. destruct (step fx s o) as [[x out] s'] eqn:E. simpl.
  eapply step_good; [|exact E]. split; [exact I|]. split; [split; assumption|exact SO].
Qed.

(* running the deferred transmit always transmits (the datagrams leave and dirty is reset), also when -- with
   the repair -- a handler raises during the drain that follows; without the repair nothing can raise *)
Lemma transmit_not_lost_l : forall fx ops,
  let s := run fx st_init ops in
  (dirty s = true -> soon s <> O) /\
  (soon s <> O -> forall gt e, exists x out s', step fx s (ORunSoon gt e) = (x, out, s') /\ dirty s' = false /\
                                              (fx = false -> x = None)).
Proof.
  intros fx ops s. pose proof (run_good fx ops st_init good_init) as [_ [_ [_ D]]]. fold s in D. split; [exact D|].
  intros N gt e. rewrite step_unfold. simpl. destruct (soon s) as [|n]; [tauto|]. simpl.
  destruct fx.
  - match goal with |- context [process_events ?S0] => destruct (process_events S0) as [x2 s3] eqn:E end.
    exists x2, [], s3. split; [reflexivity|]. split; [|discriminate].
    unfold process_events in E. apply process_frame2 in E. destruct E as [_ [_ [_ [_ [_ F6]]]]].
    rewrite F6. apply transmit_dirty.
  - eexists. eexists. eexists. split; [reflexivity|]. split; [apply transmit_dirty|reflexivity].
Qed.

(* uids are fresh: id(waiter) differs from the uid of every future still in _ping_waiters *)
Fixpoint uids_fresh (fx : bool) (s : st) (ops : list op) : Prop :=
  match ops with
  | [] => True
  | o :: t =>
      (match o with OPing uid _ _ => ping_get uid (pings s) = None | _ => True end) /\
      uids_fresh fx (snd (step fx s o)) t
  end.

Definition IO (s : st) : Prop := Inv s /\ NoOrphan s.

Lemma process_events_io : forall s x s', IO s -> process_events s = (x, s') -> IO s' /\ True.
Proof.
  intros s x s' [I NO] E. unfold process_events in E. split; [|exact Logic.I]. split.
  - eapply process_inv; eauto.
  - eapply process_orphan; eauto.
Qed.

Lemma transmit_core_io : forall s gt e, IO s -> IO (transmit_core s gt e).
Proof.
  intros s gt e [I NO]. destruct (transmit_frame s gt e) as [T1 [T2 T3]].
  split; apply (frame_inv s _ T1 T2 T3); assumption.
Qed.

Lemma prepare_orphan : forall s o, Inv s -> NoOrphan s ->
  (match o with OPing uid _ _ => ping_get uid (pings s) = None | _ => True end) ->
  NoOrphan (match prepare s o with PDone _ _ s0 => s0 | PGo _ s0 _ _ _ => s0 end).
Proof.
  intros s o I NO F. destruct o; simpl.
  - apply with_evq_orphan; exact NO.
  - destruct (memz w (ltimers s)); simpl; [|exact NO]. destruct (timer_at s); exact NO.
  - destruct (soon s); exact NO.
  - exact NO.
  - exact NO.
  - destruct (closed s); [exact NO|].
    unfold NoOrphan, refs in *. simpl. intros j Hj.
    apply in_or_app. destruct (Nat.lt_ge_cases j (length (futs s))) as [LT|GE].
    + rewrite nth_error_app1 in Hj by assumption. apply NO in Hj. apply in_app_or in Hj.
      destruct Hj; [auto|right; apply ping_set_fresh_in; auto].
    + right. apply ping_set_fresh_in; [assumption|]. left.
      assert (j < length (futs s ++ [FPending]))%nat as L by (apply nth_error_Some; congruence).
      rewrite app_length in L. simpl in L. lia.
  - destruct (cwait s) as [c|] eqn:C; [exact NO|].
    destruct (connected s); [exact NO|].
    destruct (closed s); [exact NO|].
    unfold NoOrphan, refs in *. simpl. rewrite C in *. simpl in *. intros j Hj.
    destruct (Nat.lt_ge_cases j (length (futs s))) as [LT|GE].
    + rewrite nth_error_app1 in Hj by assumption. right. apply NO. assumption.
    + left. assert (j < length (futs s ++ [FPending]))%nat as L by (apply nth_error_Some; congruence).
      rewrite app_length in L. simpl in L. lia.
  - destruct (transmit_soon_frame (set_dirty s)) as [T1 [T2 T3]].
    apply (frame_inv (set_dirty s) _ T1 T2 T3). exact NO.
  - destruct (memz sid (wclosing s)); [exact NO|].
    match goal with |- NoOrphan (transmit_soon ?S0) => destruct (transmit_soon_frame S0) as [T1 [T2 T3]]; set (s0 := S0) in * end.
    apply (frame_inv s0 _ T1 T2 T3). exact NO.
  - exact NO.
  - destruct (transmit_soon_frame s) as [T1 [T2 T3]]. apply (frame_inv s _ T1 T2 T3). exact NO.
Qed.

Lemma prepare_inv : forall s o, IT s -> Inv (match prepare s o with PDone _ _ s0 => s0 | PGo _ s0 _ _ _ => s0 end).
Proof.
  intros s o G. pose proof (prepare_it s o G) as K. destruct (prepare s o); [apply K|apply K].
Qed.

Lemma step_orphan : forall fx s o x out s', Good s -> NoOrphan s ->
  (match o with OPing uid _ _ => ping_get uid (pings s) = None | _ => True end) ->
  step fx s o = (x, out, s') -> NoOrphan s'.
Proof.
  intros fx s o x out s' [I [TO _]] NO F H.
  pose proof (prepare_orphan s o I NO F) as PO. pose proof (prepare_inv s o (conj I TO)) as PI.
  apply (step_via IO (fun _ => True) process_events_io transmit_core_io Logic.I fx s o x out s'); [|exact H].
  destruct (prepare s o); [split; [split; assumption|exact Logic.I]|split; assumption].
Qed.

Lemma run_orphan : forall fx ops s, Good s -> NoOrphan s -> uids_fresh fx s ops -> NoOrphan (run fx s ops).
Proof.
  induction ops as [|o t IH]; intros s G NO F; simpl; [assumption|].
  destruct F as [F1 F2]. destruct (step fx s o) as [[x out] s'] eqn:E. simpl in F2. apply IH.
  - eapply step_good; eauto.
  - eapply step_orphan; eauto.
  - assumption.
Qed.

(* a step that went through transmit() and returned normally: what it did, as equations *)
Lemma step_go_ok : forall fx s o out s' extra s0 pe gt etx,
  prepare s o = PGo extra s0 pe gt etx -> step fx s o = (None, out, s') ->
  exists s1, (if pe then process_events s0 else (None, s0)) = (None, s1) /\
             (if fx then process_events (transmit_core s1 gt etx) = (None, s') else s' = transmit_core s1 gt etx).
Proof.
  intros fx s o out s' extra s0 pe gt etx PR H. rewrite step_unfold, PR in H.
  destruct (if pe then process_events s0 else (None, s0)) as [[y|] s1] eqn:E; [discriminate|].
  exists s1. split; [reflexivity|]. destruct fx.
  - destruct (process_events (transmit_core s1 gt etx)) as [x2 s3]. inv_pair H. reflexivity.
  - inv_pair H. reflexivity.
Qed.

(* every pending waiter is resolved by the time ConnectionTerminated has been processed: after a
   datagram or timer callback that processed ConnectionTerminated (to the end of its event loop),
   no future created so far is pending. *)
Lemma all_done_after : forall (fx : bool) s0 gt etx s1 s', Inv s0 -> NoOrphan s0 -> In (EvTerminated 0) (evq s0) ->
  process_events s0 = (None, s1) ->
  (if fx return Prop then process_events (transmit_core s1 gt etx) = (None, s') else s' = transmit_core s1 gt etx) ->
  AllDone s'.
Proof.
  intros fx s0 gt etx s1 s' I NO IN E1 E2.
  assert (AllDone s1) as A1 by (eapply process_terminated; [exact I|exact NO|exact IN|exact E1]).
  assert (AllDone (transmit_core s1 gt etx)) as A2.
  { destruct (transmit_frame s1 gt etx) as [T1 [T2 T3]]. apply (frame_inv s1 _ T1 T2 T3). exact A1. }
  destruct fx; [|subst s'; exact A2]. eapply process_alldone; [exact A2|exact E2].
Qed.

Lemma waiter_all_resolved_at_termination_l : forall fx ops evs gt etx out s',
  uids_fresh fx st_init ops ->
  let s := run fx st_init ops in
  In (EvTerminated 0) (evq s ++ evs) ->
  step fx s (ORecv evs gt etx) = (None, out, s') ->
  forall i, nth_error (futs s') i <> Some FPending.
Proof.
  intros fx ops evs gt etx out s' F s IN H.
  pose proof (run_good fx ops st_init good_init) as G. fold s in G.
  assert (NoOrphan s) as NO.
  { apply run_orphan; [apply good_init| |assumption]. unfold NoOrphan. simpl. intros [|i]; discriminate. }
  destruct (step_go_ok fx s (ORecv evs gt etx) out s' [] (with_evq s (evq s ++ evs)) true gt etx eq_refl H) as [s1 [E1 E2]].
  eapply (all_done_after fx); [| | |exact E1|exact E2].
  - apply with_evq_inv. apply G.
  - apply with_evq_orphan. exact NO.
  - exact IN.
Qed.

Lemma waiter_all_resolved_at_termination_timer_l : forall fx ops w now evs gt etx out s',
  uids_fresh fx st_init ops ->
  let s := run fx st_init ops in
  In (EvTerminated 0) (evq s ++ evs) ->
  step fx s (OTimer w now evs gt etx) = (None, out, s') ->
  forall i, nth_error (futs s') i <> Some FPending.
Proof.
  intros fx ops w now evs gt etx out s' F s IN H.
  pose proof (run_good fx ops st_init good_init) as G. fold s in G.
  assert (NoOrphan s) as NO.
  { apply run_orphan; [apply good_init| |assumption]. unfold NoOrphan. simpl. intros [|i]; discriminate. }
  destruct (prepare s (OTimer w now evs gt etx)) as [x0 extra0 s0|extra0 s0 pe gt0 etx0] eqn:PR.
  { rewrite step_unfold, PR in H. inv_pair H. simpl in PR.
    destruct (memz w (ltimers s)); simpl in PR; [|discriminate]. destruct (timer_at s); discriminate. }
  destruct (step_go_ok fx s _ out s' _ _ _ _ _ PR H) as [s1 [E1 E2]].
  simpl in PR. destruct (memz w (ltimers s)); simpl in PR; [|discriminate].
  destruct (timer_at s); [|discriminate]. inv_pair PR.
  eapply (all_done_after fx); [| | |exact E1|exact E2]; [apply G|exact NO|exact IN].
Qed.

(* ---------- after termination ---------------------------------------------------------------------------
   CInv: once the closed event is set, no future is pending -- and none can become pending again, because
   ping() and wait_connected() on a closed protocol finish at once with ConnectionError. *)
Definition CInv (s : st) : Prop := closed s = true -> AllDone s.

Lemma handle_event_closed : forall e s x s', handle_event e s = (x, s') ->
  closed s' = true -> closed s = true \/ (e = EvTerminated 0 /\ x = None).
Proof.
  intros e s x s' H Cl. destruct e as [|hx|uid|sid d fin|cid hx|cid hx|]; simpl in H.
  - destruct (cwait s); simpl in H; [destruct (resolve _ _ _)|]; inv_pair H; simpl in Cl; auto.
  - destruct (hx =? 0) eqn:E; simpl in H; [|inv_pair H; auto].
    assert (hx = 0) by lia. subst hx.
    destruct (cwait s); simpl in H.
    + destruct (resolve _ _ _); simpl in H; [|inv_pair H; simpl in Cl; auto].
      destruct (fail_all _ _) as [[y|] f]; inv_pair H; simpl in Cl; auto.
    + destruct (fail_all _ _) as [[y|] f]; inv_pair H; simpl in Cl; auto.
  - destruct (ping_get uid (pings s)); simpl in H; [destruct (resolve _ _ _)|]; inv_pair H; simpl in Cl; auto.
  - apply on_stream_frame in H. destruct H as [_ [_ [_ [A _]]]]. left. congruence.
  - destruct (hx =? 0); inv_pair H; auto.
  - destruct (hx =? 0); inv_pair H; auto.
  - inv_pair H; auto.
Qed.

Lemma handle_event_cinv : forall e s x s', Inv s -> NoOrphan s -> CInv s -> handle_event e s = (x, s') -> CInv s'.
Proof.
  intros e s x s' I NO C H Cl. destruct (handle_event_closed _ _ _ _ H Cl) as [Cs|[-> ->]].
  - eapply handle_event_alldone; [apply C; exact Cs|exact H].
  - eapply handle_event_orphan; eauto.
Qed.

Lemma with_evq_cinv : forall s q, CInv (with_evq s q) <-> CInv s.
Proof. intros. unfold CInv, AllDone. simpl. tauto. Qed.

Lemma process_cinv : forall q s x s', Inv s -> NoOrphan s -> CInv s -> process q s = (x, s') -> CInv s'.
Proof.
  induction q as [|e rest IH]; intros s x s' I NO C H; simpl in H.
  - inv_pair H. apply with_evq_cinv; assumption.
  - assert (Inv (with_evq s rest)) as I' by (apply with_evq_inv; assumption).
    assert (NoOrphan (with_evq s rest)) as NO' by (apply with_evq_orphan; assumption).
    assert (CInv (with_evq s rest)) as C' by (apply with_evq_cinv; assumption).
    destruct (handle_event e (with_evq s rest)) as [[y|] s1] eqn:E.
    + inv_pair H. eapply handle_event_cinv; eauto.
    + eapply IH; [| | |exact H].
      * eapply handle_event_inv; eauto.
      * eapply handle_event_orphan; eauto.
      * eapply handle_event_cinv; eauto.
Qed.

Lemma frame_cinv : forall s s', futs s' = futs s -> closed s' = closed s -> CInv s -> CInv s'.
Proof. intros s s' A B. unfold CInv, AllDone. rewrite A, B. tauto. Qed.

Definition IOC (s : st) : Prop := Inv s /\ NoOrphan s /\ CInv s.

Lemma process_events_ioc : forall s x s', IOC s -> process_events s = (x, s') -> IOC s' /\ True.
Proof.
  intros s x s' [I [NO C]] E. unfold process_events in E. split; [|exact Logic.I]. split; [|split].
  - eapply process_inv; eauto.
  - eapply process_orphan; eauto.
  - eapply process_cinv; eauto.
Qed.

Lemma transmit_core_ioc : forall s gt e, IOC s -> IOC (transmit_core s gt e).
Proof.
  intros s gt e [I [NO C]]. destruct (transmit_frame s gt e) as [T1 [T2 T3]].
  split; [apply (frame_inv s _ T1 T2 T3); assumption|]. split; [apply (frame_inv s _ T1 T2 T3); assumption|].
  apply (frame_cinv s); [exact T1|apply transmit_closed|exact C].
Qed.

Lemma prepare_cinv : forall s o, CInv s -> CInv (match prepare s o with PDone _ _ s0 => s0 | PGo _ s0 _ _ _ => s0 end).
Proof.
  intros s o C. destruct o; simpl.
  - apply with_evq_cinv; exact C.
  - destruct (memz w (ltimers s)); simpl; [|exact C]. destruct (timer_at s); exact C.
  - destruct (soon s); exact C.
  - exact C.
  - exact C.
  - destruct (closed s) eqn:Cl; [exact C|]. intros X. simpl in X. congruence.
  - destruct (cwait s); [exact C|]. destruct (connected s); [exact C|].
    destruct (closed s) eqn:Cl; [exact C|]. intros X. simpl in X. congruence.
  - apply (frame_cinv (set_dirty s)); [apply transmit_soon_frame|apply transmit_soon_closed|exact C].
  - destruct (memz sid (wclosing s)); [exact C|].
    match goal with |- CInv (transmit_soon ?S0) => apply (frame_cinv S0); [apply transmit_soon_frame|apply transmit_soon_closed|exact C] end.
  - exact C.
  - apply (frame_cinv s); [apply transmit_soon_frame|apply transmit_soon_closed|exact C].
Qed.

Lemma step_cinv : forall fx s o x out s', Good s -> NoOrphan s -> CInv s ->
  (match o with OPing uid _ _ => ping_get uid (pings s) = None | _ => True end) ->
  step fx s o = (x, out, s') -> CInv s'.
Proof.
  intros fx s o x out s' [I [TO _]] NO C F H.
  pose proof (prepare_orphan s o I NO F) as PO. pose proof (prepare_inv s o (conj I TO)) as PI.
  pose proof (prepare_cinv s o C) as PC.
  apply (step_via IOC (fun _ => True) process_events_ioc transmit_core_ioc Logic.I fx s o x out s'); [|exact H].
  destruct (prepare s o); [split; [exact (conj PI (conj PO PC))|exact Logic.I]|exact (conj PI (conj PO PC))].
Qed.

Lemma run_all : forall fx ops s, Good s -> NoOrphan s -> CInv s -> uids_fresh fx s ops ->
  Good (run fx s ops) /\ NoOrphan (run fx s ops) /\ CInv (run fx s ops).
Proof.
  induction ops as [|o t IH]; intros s G NO C F; simpl; [auto|].
  destruct F as [F1 F2]. destruct (step fx s o) as [[x out] s'] eqn:E. simpl in F2. apply IH.
  - eapply step_good; eauto.
  - eapply step_orphan; eauto.
  - eapply step_cinv; eauto.
  - assumption.
Qed.

(* once the closed event is set -- at whatever point of whatever schedule -- no waiter is pending, ever again *)
Lemma no_waiter_pending_once_closed_l : forall fx ops, uids_fresh fx st_init ops ->
  closed (run fx st_init ops) = true -> forall i, nth_error (futs (run fx st_init ops)) i <> Some FPending.
Proof.
  intros fx ops F Cl. destruct (run_all fx ops st_init good_init) as [_ [_ C]]; try assumption.
  - unfold NoOrphan. simpl. intros [|i]; discriminate.
  - intros X. discriminate.
  - apply C. exact Cl.
Qed.

(* ... because the API calls made on a closed protocol finish at once: ping() raises ConnectionError, creates
   no future and leaves the state untouched; wait_connected() returns (connected) or raises ConnectionError;
   create_stream() hands out a reader that is already at EOF *)
Lemma api_after_termination_l : forall fx s, closed s = true ->
  (forall uid gt e, step fx s (OPing uid gt e) = (Some X_CONNECTION_ERROR, [], s)) /\
  (cwait s = None -> step fx s OWaitConnected = (if connected s then (None, [1], s) else (Some X_CONNECTION_ERROR, [], s))) /\
  (forall sid out s', step fx s (OCreateStream sid) = (None, out, s') ->
     exists r, rd_get sid (readers s') = Some r /\ rd_eof r = true /\ rd_buf r = []).
Proof.
  intros fx s Cl. split; [|split].
  - intros. rewrite step_unfold. simpl. rewrite Cl. reflexivity.
  - intros C. rewrite step_unfold. simpl. rewrite C, Cl. destruct (connected s); reflexivity.
  - intros sid out s' H. rewrite step_unfold in H. simpl in H. inv_pair H. rewrite Cl. simpl.
    exists (mkReader sid [] true). split; [|auto].
    induction (readers s) as [|r t IH]; simpl; [rewrite Z.eqb_refl; reflexivity|].
    destruct (rd_sid r =? sid) eqn:E; simpl; [rewrite Z.eqb_refl; reflexivity|]. rewrite E. exact IH.
Qed.

(* the former counter-example [recv [ConnectionTerminated]; ping] now ends with ConnectionError and no future *)
Example late_ping_fails_at_once : forall fx,
  let s := run fx st_init [ORecv [EvTerminated 0] None []] in
  closed s = true /\ step fx s (OPing 1 None []) = (Some X_CONNECTION_ERROR, [], s) /\ futs s = [].
Proof. intros [|]; vm_compute; repeat split. Qed.

(* a non-trivial trace satisfying the freshness hypothesis *)
Example uids_fresh_example : forall fx,
  uids_fresh fx st_init [OWaitConnected; OPing 7 (Some 5) []; OPing 8 (Some 5) []; ORecv [EvPingAck 7; EvHandshake] (Some 6) [];
                      OPing 7 None []; OTimer 6 6 [EvTerminated 0] None []].
Proof. intros [|]; vm_compute; repeat split. Qed.
