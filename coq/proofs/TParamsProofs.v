(* Proofs about model/TParams.v: pull_quic_transport_parameters is total on arbitrary bytes
   (parameters | BufferReadError | ValueError) -- stretch; the round trip is NOT proved. *)
From AQ Require Import lib.Base model.Codec model.Varint model.TParams
  proofs.CodecProofs proofs.VarintProofs proofs.HeaderProofs.
From Coq Require Import ZifyBool.

Definition good {A} (bs : list Z) (r : Res (A * list Z)) : Prop :=
  match r with
  | Ok (_, rest) => suffix rest bs
  | Err k => k = E_READ \/ k = E_VALUE
  end.

Lemma good_bind {A B} bs (r : Res (A * list Z)) (f : A * list Z -> Res (B * list Z)) :
  bytes_ok bs -> good bs r ->
  (forall a rest, suffix rest bs -> bytes_ok rest -> good rest (f (a, rest))) ->
  good bs (bind r f).
Proof.
  intros Hb Hr Hf. destruct r as [[a rest]|k]; cbn [bind good] in *; auto.
  specialize (Hf a rest Hr (suffix_ok _ _ Hr Hb)).
  destruct (f (a, rest)) as [[b rest']|k]; cbn [good] in *; auto.
  eapply suffix_trans; eauto.
Qed.

Lemma good_be n bs : bytes_ok bs -> good bs (pull_be n bs).
Proof. intros H. pose proof (pull_be_spec n bs H) as S. destruct (pull_be n bs) as [[v r]|k]; cbn; [tauto|auto]. Qed.

Lemma good_bytes n bs : good bs (pull_bytes n bs).
Proof. pose proof (pull_bytes_spec n bs) as S. destruct (pull_bytes n bs) as [[v r]|k]; cbn; [tauto|auto]. Qed.

Lemma good_var bs : bytes_ok bs -> good bs (pull_uint_var bs).
Proof. intros H. pose proof (pull_uint_var_spec bs H) as S. destruct (pull_uint_var bs) as [[v r]|k]; cbn; [tauto|auto]. Qed.

Ltac gb :=
  apply good_bind;
  [ assumption
  | first [ apply good_bytes | apply good_be; assumption | apply good_var; assumption ]
  | intros ? ? ? ?; cbn beta iota ].

Lemma good_pref bs : bytes_ok bs -> good bs (pull_preferred_address bs).
Proof.
  intros Hb. unfold pull_preferred_address, pull_uint16, pull_uint8.
  do 7 gb. cbn [good]. apply suffix_refl.
Qed.

Lemma good_u32s fuel : forall count bs, bytes_ok bs -> good bs (pull_u32s fuel count bs).
Proof.
  induction fuel as [|f IH]; intros count bs Hb; cbn [pull_u32s];
    destruct (count <=? 0); cbn [good]; try apply suffix_refl; auto.
  unfold pull_uint32. gb.
  apply good_bind; [assumption|apply IH; assumption|]. intros vs r' S' B'. cbn beta iota. cbn [good]. apply suffix_refl.
Qed.

Lemma good_ver len bs : bytes_ok bs -> good bs (pull_version_information len bs).
Proof.
  intros Hb. unfold pull_version_information, pull_uint32. gb.
  apply good_bind; [assumption|apply good_u32s; assumption|]. intros vs r' S' B'. cbn beta iota.
  destruct ((a =? 0) || existsb (fun v => v =? 0) vs); cbn [good]; auto. apply suffix_refl.
Qed.

Lemma good_param id len bs : bytes_ok bs -> good bs (pull_param_value id len bs).
Proof.
  intros Hb. unfold pull_param_value.
  destruct (assoc id PARAMS) as [k|].
  - destruct (k =? 0); [gb; cbn [good]; apply suffix_refl|].
    destruct (k =? 1); [gb; cbn [good]; apply suffix_refl|].
    destruct (k =? 3); [apply good_bind; [assumption|apply good_pref; assumption|]; intros ? ? ? ?; cbn beta iota; cbn [good]; apply suffix_refl|].
    destruct (k =? 4); [apply good_bind; [assumption|apply good_ver; assumption|]; intros ? ? ? ?; cbn beta iota; cbn [good]; apply suffix_refl|].
    cbn [good]. apply suffix_refl.
  - gb. cbn [good]. apply suffix_refl.
Qed.

Lemma pull_tparams_total fuel : forall acc bs, bytes_ok bs ->
  match pull_tparams fuel acc bs with Ok _ => True | Err k => k = E_READ \/ k = E_VALUE end.
Proof.
  induction fuel as [|f IH]; intros acc bs Hb; destruct bs as [|b0 t]; cbn [pull_tparams]; auto.
  pose proof (good_var _ Hb) as G1.
  destruct (pull_uint_var (b0 :: t)) as [[id b1]|k]; cbn [bind good] in *; auto.
  pose proof (suffix_ok _ _ G1 Hb) as B1. pose proof (good_var _ B1) as G2.
  destruct (pull_uint_var b1) as [[len b2]|k]; cbn [bind good] in *; auto.
  pose proof (suffix_ok _ _ G2 B1) as B2. pose proof (good_param id len _ B2) as G3.
  destruct (pull_param_value id len b2) as [[v b3]|k]; cbn [bind good] in *; auto.
  destruct (negb (Zlen b2 - Zlen b3 =? len)); auto.
  apply IH. eapply suffix_ok; eauto.
Qed.

(* pull_quic_transport_parameters on ARBITRARY bytes: parameters, BufferReadError or ValueError *)
Theorem tparams_pull_total bs : bytes_ok bs ->
  match pull_quic_transport_parameters bs with Ok _ => True | Err k => k = E_READ \/ k = E_VALUE end.
Proof. intros. apply pull_tparams_total. assumption. Qed.

(* RFC 9000 section 18.2 shaped example: max_idle_timeout=30000, initial_max_data=2^20, disable_active_migration *)
Example tparams_example :
  flatten (push_quic_transport_parameters [(0x01, PInt 30000); (0x04, PInt 1048576); (0x0C, PTrue)])
    = Ok [1; 4; 0x80; 0; 0x75; 0x30; 4; 4; 0x80; 0x10; 0; 0; 0x0C; 0] /\
  pull_quic_transport_parameters [1; 4; 0x80; 0; 0x75; 0x30; 4; 4; 0x80; 0x10; 0; 0; 0x0C; 0]
    = Ok [(0x01, PInt 30000); (0x04, PInt 1048576); (0x0C, PTrue)].
Proof. split; reflexivity. Qed.
