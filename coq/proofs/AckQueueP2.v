(* Proofs about model/AckQueue.v, part 2: timeliness (the ghost [owed] list: every ack-eliciting packet that carried
   the largest packet number keeps an armed ACK timer within the delay bound and stays in the queue until an ACK
   frame covering it is written; the send decision), pruning on ACK-of-ACK, and the two refuted statements. *)
From Coq Require Import ZArith List Bool Lia ZifyBool.
From AQ Require Import lib.Base lib.Tok model.Codec model.Varint model.RangeSet model.AckFrame gen.C12Consts
  model.AckQueue proofs.CodecProofs proofs.VarintProofs proofs.RangeSetP proofs.AckFrameProofs proofs.AckQueueP.

(* op sequences for the timeliness statements: additionally the clock is monotone, every acknowledgement delay
   d (= fl(now + _ack_delay) - now, evaluated outside) is within dmax, the encoded delay field is encodable, and
   at every send the queue holds at most MAX_ACK_RANGES ranges (otherwise see ack_timely_cap_refuted) *)
Definition wf_op_t (dmax : Z) (s : space) (o : op) : Prop :=
  wf_op s o /\
  match o with
  | Recv _ _ t d _ _ => clk s <= t /\ 0 <= d <= dmax
  | Send t delay _ _ => clk s <= t /\ 0 <= delay < 2 ^ 62 /\ Zlen (aq s) <= MAX_ACK_RANGES
  | _ => True
  end.

Inductive reach_t (dmax : Z) (a : bool) : space -> Prop :=
| rt_init : reach_t dmax a (init a)
| rt_step s o : reach_t dmax a s -> wf_op_t dmax s o -> reach_t dmax a (snd (step s o)).

Lemma reach_t_reach dmax a s : reach_t dmax a s -> reach a s.
Proof. induction 1; [constructor|]. apply reach_step; auto. destruct H0; auto. Qed.

Record TInv (dmax : Z) (a : bool) (s : space) : Prop := mkTInv {
  t_app : app s = a;
  t_nodisc : app s = true -> disc s = false;
  t_armed : forall x, ack_at s = Some x -> x <= clk s + dmax;
  t_owed : closing s = false -> disc s = false -> forall L t, In (L, t) (owed s) ->
      mem L (aq s) /\ (exists x, ack_at s = Some x /\ x <= t + dmax) /\ t <= clk s /\
      (forall q h, In (q, h) (frames s) -> h < L) /\ (app s = true -> complete s = true)
}.

Lemma set_aq_same s : set_aq s (aq s) = s.
Proof. destruct s; reflexivity. Qed.

Lemma tinv_clk dmax a s t : TInv dmax a s -> clk s <= t -> TInv dmax a (set_clk s t).
Proof.
  intros [A N R O] H. constructor; cbn; auto.
  - intros x Hx. specialize (R x Hx). lia.
  - intros C D L t0 Hin. destruct (O C D L t0 Hin) as (M & E & T & F & K). repeat split; auto. lia.
Qed.

Lemma filter_all_covered q l : (forall o, In o l -> covered q o = true) -> filter (fun o => negb (covered q o)) l = [].
Proof.
  induction l as [|o t IH]; intros H; cbn; auto. rewrite (H o (or_introl eq_refl)). cbn. apply IH. intros; apply H; right; auto.
Qed.

Lemma tinv_write_ack dmax a s delay room r s' : Inv s -> TInv dmax a s -> Zlen (aq s) <= MAX_ACK_RANGES ->
  write_ack s delay room = (r, s') -> TInv dmax a s'.
Proof.
  intros [I Ne] T Hc H. unfold write_ack in H.
  destruct (cap_ranges_spec (aq s) (i_wf _ I)) as (_ & _ & _ & _ & Eq). rewrite (Eq Hc), set_aq_same in H.
  destruct (room <? _); [inversion H; subst; auto|].
  destruct (w_chunks _ _ _); inversion H; subst; clear H; auto.
  destruct T as [A N R O]. constructor; cbn; auto; [congruence|].
  intros C D L t0 Hin. exfalso. apply filter_In in Hin. destruct Hin as (Hin & Hc2).
  destruct (O C D L t0 Hin) as (M & _). unfold covered in Hc2. cbn in Hc2.
  apply contains_mem in M. rewrite M in Hc2. discriminate.
Qed.

Lemma tinv_send dmax a s t delay room blocked r s' : Inv s -> TInv dmax a s -> clk s <= t ->
  Zlen (aq s) <= MAX_ACK_RANGES -> send s t delay room blocked = (r, s') -> TInv dmax a s'.
Proof.
  intros I T Hc Hq H. apply (inv_set_clk s t) in I. apply (tinv_clk _ _ _ t) in T; auto. unfold send in H.
  destruct (closing (set_clk s t)); [inversion H; subst; auto|].
  destruct (disc (set_clk s t)); [inversion H; subst; auto|].
  destruct (app (set_clk s t)).
  - destruct (negb _ && blocked); [inversion H; subst; auto|].
    destruct (complete (set_clk s t)); [|inversion H; subst; auto].
    destruct (ack_at (set_clk s t)); [|inversion H; subst; auto].
    destruct (z <=? t); [|inversion H; subst; auto]. eapply tinv_write_ack; eauto.
  - destruct (ack_at (set_clk s t)); [|inversion H; subst; auto]. eapply tinv_write_ack; eauto.
Qed.

Lemma cap_now_some b t a1 y : a1 = Some y -> exists x, cap_now b t a1 = Some x /\ x <= y.
Proof. intros ->. unfold cap_now. destruct b; [exists (Z.min y t)|exists y]; split; auto; lia. Qed.

Lemma cap_now_inv b t a1 x : cap_now b t a1 = Some x -> exists y, a1 = Some y /\ x <= y /\ (x = y \/ (b = true /\ x = t /\ t <= y)).
Proof.
  unfold cap_now. destruct b; [destruct a1 as [y|]; [|discriminate]|]; intros H; inversion H; subst.
  - exists y. split; auto. split; [lia|]. destruct (Z_le_dec y t); [left; lia|right; repeat split; lia].
  - exists x. split; auto. split; [lia|auto].
Qed.

(* needs only the soundness half of Inv: used mid-packet by proofs/RecvAckT.v, where "an armed timer has something to
   report" does not hold yet *)
Lemma tinv_recv0 dmax a s pn elic t d dels ok s' : Inv0 s -> TInv dmax a s ->
  wf_op_t dmax s (Recv pn elic t d dels ok) -> recv s pn elic t d dels ok = Ok s' -> TInv dmax a s'.
Proof.
  intros I T ((Hp & Hd) & Hc & Hdd) H. unfold recv in H.
  destruct (delivers (aq s) dels) as [q|] eqn:E; [|discriminate]. cbn in H. inversion H; subst; clear H.
  destruct (delivers_spec _ _ _ (i_wf _ I) E) as (Wq & _ & Keep).
  destruct T as [A N R O].
  destruct (ok && negb (closing s)) eqn:K.
  - assert (C : closing s = false) by (destruct (closing s); [rewrite andb_false_r in K; discriminate|auto]).
    unfold record. cbn [disc set_clk set_aq].
    destruct (disc s) eqn:D.
    + constructor; cbn; auto; try congruence; try (intros Ha; specialize (N Ha); congruence). intros x Hx. specialize (R x Hx). lia.
    + constructor; cbn [app disc ack_at clk closing owed aq frames complete set_clk set_aq lrp]; auto.
      * intros x Hx. apply cap_now_inv in Hx. destruct Hx as (y & Hy & Hle & _).
        assert (y <= t + dmax); [|lia].
        destruct elic; [destruct (ack_at s) as [z|] eqn:Ea|]; try (inversion Hy; subst; lia).
        -- inversion Hy; subst. specialize (R y eq_refl). lia.
        -- specialize (R y Hy). lia.
      * intros _ _ L t0 Hin.
        set (a1 := if elic then match ack_at s with None => Some (t + d) | Some y => Some y end else ack_at s) in *.
        assert (Old : In (L, t0) (owed s) ->
          mem L (add pn (pn + 1) q) /\
          (exists x, a1 = Some x /\ x <= t0 + dmax) /\
          t0 <= t /\ (forall q0 h, In (q0, h) (frames s) -> h < L) /\ (app s = true -> complete s = true)).
        { intros Ho. destruct (O C eq_refl L t0 Ho) as (M & (x & Ex & Bx) & Tc & F & Kc). repeat split; auto; try lia.
          - apply add_mem; auto; try lia. right. apply Keep; auto.
            intros h Hh. destruct (Hd h Hh) as [q0 Hq0]. eapply F; eauto.
          - exists x. unfold a1. rewrite Ex. destruct elic; auto. }
        assert (Fin : (mem L (add pn (pn + 1) q) /\
          (exists x, a1 = Some x /\ x <= t0 + dmax) /\
          t0 <= t /\ (forall q0 h, In (q0, h) (frames s) -> h < L) /\ (app s = true -> complete s = true)) ->
          mem L (add pn (pn + 1) q) /\
          (exists x, cap_now (CAP_ACK_NOW && (Zlen (add pn (pn + 1) q) >=? MAX_ACK_RANGES)) t a1 = Some x /\ x <= t0 + dmax) /\
          t0 <= t /\ (forall q0 h, In (q0, h) (frames s) -> h < L) /\ (app s = true -> complete s = true)).
        { intros (M & (x & Ex & Bx) & Rest). split; auto. split; auto.
          destruct (cap_now_some (CAP_ACK_NOW && (Zlen (add pn (pn + 1) q) >=? MAX_ACK_RANGES)) t a1 x Ex) as (x' & E1 & E2).
          exists x'. split; auto. lia. }
        apply Fin.
        destruct (elic && (pn >? lrp s) && (negb (app s) || complete s)) eqn:Cond; [|auto].
        destruct Hin as [Hin|Hin]; [|auto]. inversion Hin; subst; clear Hin.
        assert (elic = true /\ lrp s < L /\ (app s = true -> complete s = true)) as (He & Hl & Hk).
        { destruct elic; cbn in Cond; [|discriminate]. destruct (L >? lrp s) eqn:E1; cbn in Cond; [|discriminate].
          repeat split; try lia; intros Ha; rewrite Ha in Cond; cbn in Cond; auto. }
        subst elic. repeat split; auto; try lia.
        -- apply add_mem; auto; try lia.
        -- unfold a1. destruct (ack_at s) as [y|] eqn:Ea; [exists y|exists (t0 + d)]; split; auto; try lia.
           specialize (R y eq_refl). lia.
        -- intros q0 h Hq0. destruct (i_frames _ I q0 h Hq0). lia.
  - constructor; cbn; auto; try congruence. intros x Hx. specialize (R x Hx). lia.
Qed.

Lemma tinv_recv dmax a s pn elic t d dels ok s' : Inv s -> TInv dmax a s ->
  wf_op_t dmax s (Recv pn elic t d dels ok) -> recv s pn elic t d dels ok = Ok s' -> TInv dmax a s'.
Proof. intros [I _]. apply tinv_recv0. exact I. Qed.

Lemma tinv_init dmax a : TInv dmax a (init a).
Proof. constructor; cbn; auto; try congruence. intros _ _ L t []. Qed.

Lemma tinv_step dmax a s o : Inv s -> TInv dmax a s -> wf_op_t dmax s o -> TInv dmax a (snd (step s o)).
Proof.
  intros I T Hw. destruct o; cbn [step].
  - destruct T as [A N R O]. constructor; cbn; auto.
    intros C D L t0 Hin. destruct (O C D L t0 Hin) as (M & E & Tc & F & K). repeat split; auto.
  - destruct (recv_never_raises s pn elic t d dels ok I (proj1 Hw)) as [s' E]. rewrite E. cbn. eapply tinv_recv; eauto.
  - destruct (send s t delay room blocked) as [r s'] eqn:E. cbn. destruct Hw as (_ & Hc & _ & Hq). eapply tinv_send; eauto.
  - destruct Hw as (Hw & _). cbn in Hw. destruct T as [A N R O]. constructor; cbn; auto; congruence.
  - destruct T as [A N R O]. constructor; cbn; auto; congruence.
Qed.

Lemma reach_t_tinv dmax a s : reach_t dmax a s -> TInv dmax a s.
Proof.
  induction 1; [apply tinv_init|]. apply tinv_step; auto. apply (reach_inv a). eapply reach_t_reach; eauto.
Qed.

(* ---- C12 statements, part 2 ------------------------------------------------------------------ *)

(* how a packet becomes owed: it is ack-eliciting, carries a packet number above everything recorded so far, is
   processed without error on a live connection, and -- in the application space -- the handshake is complete *)
Theorem owed_recorded_l s pn elic t d dels ok s' : recv s pn elic t d dels ok = Ok s' ->
  ok = true -> closing s = false -> disc s = false -> elic = true -> lrp s < pn -> (app s = true -> complete s = true) ->
  In (pn, t) (owed s') /\ lrp s' = pn.
Proof.
  intros H -> C D -> Hl Hc. unfold recv in H. destruct (delivers (aq s) dels) as [q|]; [|discriminate]. cbn in H.
  inversion H; subst; clear H. rewrite C. cbn. unfold record. cbn. rewrite D. cbn.
  destruct (pn >? lrp s) eqn:E; [|lia]. cbn.
  destruct (app s) eqn:A; cbn; [rewrite (Hc eq_refl); cbn|]; auto.
Qed.

(* ack_timely, the timer: as long as the connection is live and the space exists, an owed packet (L, t) is still in
   the queue and the ACK timer is armed no later than t + dmax -- it is never silently dropped *)
Theorem ack_timely_pending_l dmax a s L t : reach_t dmax a s -> closing s = false -> disc s = false ->
  In (L, t) (owed s) -> mem L (aq s) /\ exists x, ack_at s = Some x /\ x <= t + dmax.
Proof. intros R C D H. destruct (t_owed _ _ _ (reach_t_tinv _ _ _ R) C D L t H) as (M & E & _). auto. Qed.

(* an owed packet leaves the list only through an ACK frame that covers it (for ALL op sequences, also beyond the cap) *)
Theorem owed_leaves_only_by_ack_l s o x : In x (owed s) -> ~ In x (owed (snd (step s o))) ->
  exists bytes q, fst (step s o) = OSend (SFrame bytes q) /\ mem (fst x) q.
Proof.
  intros Hin Hout. destruct o; cbn [step] in *.
  - exfalso. apply Hout. cbn. auto.
  - exfalso. apply Hout. unfold recv. destruct (delivers (aq s) dels) as [q|]; cbn; auto.
    destruct (ok && negb (closing s)); cbn; auto. unfold record. cbn. destruct (disc s); cbn; auto.
    destruct (elic && _ && _); cbn; auto.
  - assert (W : forall s0, owed s0 = owed s -> ~ In x (owed (snd (write_ack s0 delay room))) ->
              exists bytes q, fst (write_ack s0 delay room) = SFrame bytes q /\ mem (fst x) q).
    { intros s0 Eo Hn. unfold write_ack in *. destruct (room <? _); [exfalso; apply Hn; cbn; congruence|].
      destruct (w_chunks _ _ _); [|exfalso; apply Hn; cbn; congruence]. cbn in *.
      exists a, (cap_ranges (aq s0)). split; auto. apply contains_mem.
      destruct (contains (fst x) (cap_ranges (aq s0))) eqn:Ec; auto. exfalso. apply Hn. apply filter_In.
      split; [congruence|]. unfold covered. rewrite Ec. reflexivity. }
    unfold send in *.
    destruct (closing (set_clk s t)); [exfalso; apply Hout; cbn; auto|].
    destruct (disc (set_clk s t)); [exfalso; apply Hout; cbn; auto|].
    destruct (app (set_clk s t)).
    + destruct (negb _ && blocked); [exfalso; apply Hout; cbn; auto|].
      destruct (complete (set_clk s t)); [|exfalso; apply Hout; cbn; auto].
      destruct (ack_at (set_clk s t)); [|exfalso; apply Hout; cbn; auto].
      destruct (z <=? t); [|exfalso; apply Hout; cbn; auto].
      destruct (write_ack (set_clk s t) delay room) as [r1 s1] eqn:Ew.
      destruct (W (set_clk s t) eq_refl) as (b & q & E1 & E2); [rewrite Ew; exact Hout|]. rewrite Ew in E1. cbn in *. subst. eauto.
    + destruct (ack_at (set_clk s t)); [|exfalso; apply Hout; cbn; auto].
      destruct (write_ack (set_clk s t) delay room) as [r1 s1] eqn:Ew.
      destruct (W (set_clk s t) eq_refl) as (b & q & E1 & E2); [rewrite Ew; exact Hout|]. rewrite Ew in E1. cbn in *. subst. eauto.
  - exfalso. apply Hout. cbn. auto.
  - exfalso. apply Hout. cbn. auto.
Qed.

(* the frame a due send writes: all of the queue, every owed packet covered, nothing owed afterwards *)
Lemma write_ack_all dmax a s delay room : Inv s -> TInv dmax a s -> closing s = false -> disc s = false ->
  owed s <> [] -> Zlen (aq s) <= MAX_ACK_RANGES -> ack_capacity (aq s) <= room -> 0 <= delay < 2 ^ 62 ->
  exists bytes s', write_ack s delay room = (SFrame bytes (aq s), s') /\ owed s' = [] /\ ack_at s' = None /\
    forall L t, In (L, t) (owed s) -> mem L (aq s).
Proof.
  intros [I Ne] T C D Ho Hc Hr Hd.
  assert (Hm : forall L t, In (L, t) (owed s) -> mem L (aq s)).
  { intros L t Hin. destruct (t_owed _ _ _ T C D L t Hin) as (M & _). auto. }
  assert (N : aq s <> []).
  { destruct (owed s) as [|[L t] l] eqn:Eo; [congruence|]. specialize (Hm L t (or_introl eq_refl)).
    intros E0. rewrite E0 in Hm. exact Hm. }
  unfold write_ack. destruct (cap_ranges_spec (aq s) (i_wf _ I)) as (_ & _ & _ & _ & Eq). rewrite (Eq Hc), set_aq_same.
  pose proof capacity_const as (K1 & K2). pose proof (Zlen_nonneg (aq s)).
  destruct (room <? _) eqn:E1; [unfold ack_capacity, UINT_VAR_MAX_SIZE, ACK_FRAME_CAPACITY, MIN_FRAME_CAPACITY in *; lia|].
  assert (Hp : forall x, mem x (aq s) -> pn_ok x) by (intros x Hx; apply (i_rcvd _ I), (i_sub _ I), Hx).
  destruct (ack_frame_bytes _ delay room (i_wf _ I) N Hp Hd Hr) as (body & B1 & _). rewrite B1.
  eexists; eexists. split; [reflexivity|]. cbn. repeat split; auto.
  apply filter_all_covered. intros [L t] Hin. unfold covered. cbn. apply contains_mem. eauto.
Qed.

(* ack_timely, the send: application space, handshake complete, an owed packet, the timer value a has been reached
   (strictly passed, or the pacer lets a packet through), the packet has room for the frame: the send writes an
   ACK frame built from the whole queue, which covers every owed packet; nothing is owed afterwards *)
Theorem ack_timely_send_l dmax s L t0 x u delay room blocked : reach_t dmax true s -> closing s = false ->
  In (L, t0) (owed s) -> ack_at s = Some x -> x <= u -> (x < u \/ blocked = false) -> clk s <= u ->
  Zlen (aq s) <= MAX_ACK_RANGES -> ack_capacity (aq s) <= room -> 0 <= delay < 2 ^ 62 ->
  exists bytes s', send s u delay room blocked = (SFrame bytes (aq s), s') /\ mem L (aq s) /\
    owed s' = [] /\ ack_at s' = None.
Proof.
  intros R C Hin Ea Hx Hp Hk Hc Hr Hd.
  pose proof (reach_inv _ _ (reach_t_reach _ _ _ R)) as I. pose proof (reach_t_tinv _ _ _ R) as T.
  assert (A : app s = true) by apply (t_app _ _ _ T). assert (D : disc s = false) by (apply (t_nodisc _ _ _ T); auto).
  destruct (t_owed _ _ _ T C D L t0 Hin) as (M & _ & _ & _ & K). specialize (K A).
  apply (inv_set_clk s u) in I. apply (tinv_clk _ _ _ u) in T; auto.
  destruct (write_ack_all dmax true (set_clk s u) delay room I T C D) as (bytes & s' & E & O1 & O2 & _); auto.
  { cbn. intros E0. rewrite E0 in Hin. destruct Hin. }
  unfold send. cbn [closing disc app complete ack_at set_clk]. rewrite C, D, A, K, Ea.
  replace (negb (if PACING_LE then x <=? u else x <? u) && blocked) with false
    by (destruct Hp as [Hp|Hp]; [destruct PACING_LE; [destruct (x <=? u) eqn:E1|destruct (x <? u) eqn:E1]; [reflexivity|lia|reflexivity|lia]
                                |subst; apply eq_sym, andb_false_r]).
  destruct (x <=? u) eqn:E2; [|lia]. cbn in E. exists bytes, s'. auto.
Qed.

(* Initial / Handshake: while an owed packet exists the next send that starts a packet of the space (with room)
   carries an ACK frame covering it, whatever the time and the pacer *)
Theorem hs_send_carries_ack_l dmax s L t0 u delay room blocked : reach_t dmax false s -> closing s = false ->
  disc s = false -> In (L, t0) (owed s) -> clk s <= u ->
  Zlen (aq s) <= MAX_ACK_RANGES -> ack_capacity (aq s) <= room -> 0 <= delay < 2 ^ 62 ->
  exists bytes s', send s u delay room blocked = (SFrame bytes (aq s), s') /\ mem L (aq s) /\ owed s' = [].
Proof.
  intros R C D Hin Hk Hc Hr Hd.
  pose proof (reach_inv _ _ (reach_t_reach _ _ _ R)) as I. pose proof (reach_t_tinv _ _ _ R) as T.
  assert (A : app s = false) by apply (t_app _ _ _ T).
  destruct (t_owed _ _ _ T C D L t0 Hin) as (M & (x & Ea & _) & _).
  apply (inv_set_clk s u) in I. apply (tinv_clk _ _ _ u) in T; auto.
  destruct (write_ack_all dmax false (set_clk s u) delay room I T C D) as (bytes & s' & E & O1 & O2 & _); auto.
  { cbn. intros E0. rewrite E0 in Hin. destruct Hin. }
  unfold send. cbn [closing disc app complete ack_at set_clk]. rewrite C, D, A, Ea. cbn in E. exists bytes, s'. auto.
Qed.

(* ---- pruning on ACK-of-ACK ------------------------------------------------------------------- *)

(* what _on_ack_delivery(ACKED, highest) removes lies at or below the handler argument of the acknowledged frame *)
Theorem prune_only_below_l q h q' x : wf q -> deliver q h = Ok q' -> mem x q -> ~ mem x q' -> 0 <= x <= h.
Proof.
  intros W E M N. destruct (deliver_spec _ _ _ W E) as (_ & S).
  destruct (Z_le_dec 0 x); [destruct (Z_le_dec x h); [lia|]|]; exfalso; apply N, S; split; auto; lia.
Qed.

(* ... and never an owed packet: the acknowledgement of any ACK frames written so far leaves every owed packet queued *)
Theorem prune_keeps_owed_l dmax a s L t dels q' : reach_t dmax a s -> closing s = false -> disc s = false ->
  In (L, t) (owed s) -> (forall h, In h dels -> exists q, In (q, h) (frames s)) ->
  delivers (aq s) dels = Ok q' -> mem L q'.
Proof.
  intros R C D Hin Hd E.
  pose proof (reach_inv _ _ (reach_t_reach _ _ _ R)) as [I _]. pose proof (reach_t_tinv _ _ _ R) as T.
  destruct (t_owed _ _ _ T C D L t Hin) as (M & _ & _ & F & _).
  destruct (delivers_spec _ _ _ (i_wf _ I) E) as (_ & _ & Keep). apply Keep; auto.
  intros h Hh. destruct (Hd h Hh) as [q Hq]. eapply F; eauto.
Qed.

(* ---- refuted statements ------------------------------------------------------------------------ *)
Definition simple_op (o : op) : Prop :=
  match o with Recv pn _ _ _ [] _ => pn_ok pn | Recv _ _ _ _ _ _ => False | Discard => False | _ => True end.

Lemma simple_reach_run ops : Forall simple_op ops -> forall s, reach_run s ops.
Proof.
  induction 1 as [|o t Ho _ IH]; intros s; cbn; auto. split; auto.
  destruct o; cbn in *; auto; try tauto. destruct dels; [|tauto]. split; auto. intros h [].
Qed.

(* (1) "pruning removes only what an acknowledged ACK frame reported" is FALSE: packet 5 arrives, is acknowledged
   (frame {5}); packet 3 arrives late (ack-eliciting); the peer's packet 6 acknowledges the frame: subtract(0, 6)
   also removes 3, which no ACK frame ever reported and none ever will *)
Definition prune_witness : list op :=
  [Complete; Recv 5 true 100 10 [] true; Send 120 1 1000 false; Recv 3 true 130 10 [] true;
   Recv 6 false 131 10 [5] true; Send 150 1 1000 false].

Lemma prune_facts : let s := run (init true) prune_witness in
  existsb (Z.eqb 3) (rcvd s) = true /\ contains 3 (aq s) = false /\
  forallb (fun f => negb (contains 3 (fst f))) (frames s) = true /\ ack_at s = None /\
  map snd (frames (run (init true) [Complete; Recv 5 true 100 10 [] true; Send 120 1 1000 false; Recv 3 true 130 10 [] true])) = [5].
Proof. vm_compute. repeat split; reflexivity. Qed.

Lemma prune_witness_wf : reach_run (init true) prune_witness.
Proof.
  unfold prune_witness.
  split; [exact I|]. split; [split; [unfold pn_ok; lia|intros h []]|]. split; [exact I|].
  split; [split; [unfold pn_ok; lia|intros h []]|]. split; [|split; exact I].
  split; [unfold pn_ok; lia|]. intros h [<-|[]].
  pose proof prune_facts as (_ & _ & _ & _ & F). cbv zeta in F.
  change (snd (step (snd (step (snd (step (snd (step (init true) Complete)) (Recv 5 true 100 10 [] true))) (Send 120 1 1000 false)))
                    (Recv 3 true 130 10 [] true)))
    with (run (init true) [Complete; Recv 5 true 100 10 [] true; Send 120 1 1000 false; Recv 3 true 130 10 [] true]).
  remember (frames (run (init true) [Complete; Recv 5 true 100 10 [] true; Send 120 1 1000 false; Recv 3 true 130 10 [] true])) as fr.
  destruct fr as [|[q0 h0] [|]]; cbn in F; try discriminate. inversion F; subst. exists q0. left. reflexivity.
Qed.

Theorem prune_uncovered_refuted_l : exists ops x, reach_run (init true) ops /\
  let s := run (init true) ops in
  In x (rcvd s) /\ ~ mem x (aq s) /\ (forall q h, In (q, h) (frames s) -> ~ mem x q) /\ ack_at s = None.
Proof.
  exists prune_witness, 3. split; [exact prune_witness_wf|].
  pose proof prune_facts as (E1 & E2 & E3 & E4 & _). cbv zeta in *.
  remember (run (init true) prune_witness) as s0 eqn:Hs0. clear Hs0. repeat split; auto.
  - apply existsb_exists in E1. destruct E1 as (y & Hy & Ey). apply Z.eqb_eq in Ey. subst. auto.
  - intros M. apply contains_mem in M. congruence.
  - intros q h Hin M. rewrite forallb_forall in E3. specialize (E3 _ Hin). apply contains_mem in M. cbn [fst] in E3.
    rewrite M in E3. discriminate.
Qed.

(* (2) "an owed packet is always covered by the ACK frame written when its timer is due" is FALSE beyond the cap:
   packet 0 (ack-eliciting, largest, handshake complete) arms the timer; 33 more packets with gaps arrive before
   the send; the writer keeps the 32 highest ranges and forgets 0 and 2 for good: 0 is still owed, no timer is
   armed, it is in no frame and no longer queued *)
Definition cap_witness : list op :=
  Complete :: map (fun i => Recv (2 * Z.of_nat i) true 100 10 [] true) (seq 0 34) ++ [Send 111 1 1000 false].

Lemma cap_facts : let s := run (init true) cap_witness in
  owed s = [(2, 100); (0, 100)] /\ closing s = false /\ ack_at s = None /\ contains 0 (aq s) = false /\
  forallb (fun f => negb (contains 0 (fst f))) (frames s) = true /\ Zlen (frames s) = 1.
Proof. vm_compute. repeat split; reflexivity. Qed.

Theorem ack_timely_cap_refuted_l : exists ops L t, reach_run (init true) ops /\
  let s := run (init true) ops in
  In (L, t) (owed s) /\ closing s = false /\ ack_at s = None /\ ~ mem L (aq s) /\
  (forall q h, In (q, h) (frames s) -> ~ mem L q) /\ Zlen (frames s) = 1.
Proof.
  exists cap_witness, 0, 100. split.
  - apply simple_reach_run. unfold cap_witness. constructor; [exact I|]. apply Forall_app. split.
    + apply Forall_map. apply Forall_forall. intros i Hi. apply in_seq in Hi. change (pn_ok (2 * Z.of_nat i)). unfold pn_ok. lia.
    + repeat constructor.
  - pose proof cap_facts as E. cbv zeta in E |- *.
    remember (run (init true) cap_witness) as s0 eqn:Hs0. clear Hs0.
    destruct E as (E1 & E2 & E3 & E4 & E5 & E6). rewrite E1. repeat split; auto.
    + right. left. reflexivity.
    + intros M. apply contains_mem in M. congruence.
    + intros q h Hin M. rewrite forallb_forall in E5. specialize (E5 _ Hin). apply contains_mem in M. cbn [fst] in E5.
      rewrite M in E5. discriminate.
Qed.

(* ---- non-vacuity of the timeliness hypotheses ---------------------------------------------------- *)
Fixpoint reach_run_t (dmax : Z) (s : space) (ops : list op) : Prop :=
  match ops with [] => True | o :: t => wf_op_t dmax s o /\ reach_run_t dmax (snd (step s o)) t end.

Lemma reach_run_t_reach dmax a ops : forall s, reach_t dmax a s -> reach_run_t dmax s ops -> reach_t dmax a (run s ops).
Proof.
  induction ops as [|o t IH]; intros s R H; cbn; auto. destruct H as (W & H). apply IH; auto. now apply rt_step.
Qed.

(* packets 5 and 9 are owed, the timer armed by 5 at 100 + 10 covers both; the send at 110 acknowledges them
   (a blocked pacer before ack_at: nothing) *)
Definition ex_t_ops : list op := [Complete; Recv 5 true 100 10 [] true; Recv 9 true 103 10 [] true].

Example ex_timely_reach : reach_t 25 true (run (init true) ex_t_ops).
Proof.
  apply reach_run_t_reach; [constructor|]. unfold ex_t_ops.
  split; [split; exact I|]. split.
  - split; [split; [unfold pn_ok; lia|intros h []]|]. vm_compute. split; [discriminate|split; discriminate].
  - split; [|exact I]. split; [split; [unfold pn_ok; lia|intros h []]|]. vm_compute. split; [discriminate|split; discriminate].
Qed.

Example ex_timely : let s := run (init true) ex_t_ops in
  owed s = [(9, 103); (5, 100)] /\ ack_at s = Some 110 /\ closing s = false /\
  fst (send s 109 1 1000 true) = SNothing 1 /\
  exists b s', send s 110 1 1000 false = (SFrame b [(5, 6); (9, 10)], s') /\ owed s' = [].
Proof. cbv zeta. repeat split; try (vm_compute; reflexivity). eexists; eexists; split; vm_compute; reflexivity. Qed.
