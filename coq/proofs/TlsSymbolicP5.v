(* C03: the negotiated parameters are FUNCTIONS OF THE TRANSCRIPT on the client side (run invariant cinv3):
   after an accepted ServerHello the client's transcript is  <own hello bytes> ++ sh ++ rest  with sh framed,
   k_suite = sh_suite (parse sh), _session_resumed = (pre_shared_key present in parse sh);  after an accepted
   EncryptedExtensions  rest = ee ++ rest'  with ee framed, alpn_negotiated / early_data_accepted = the fields of
   parse ee.  Together with the server's flight (server_flight_tr) and equal transcripts (Finished) this gives
   agreement on cipher suite, resumption flag, ALPN and early-data flag (parameters_agreement). *)
From AQ Require Import lib.Base gen.TlsDispatch model.TlsSymbolic proofs.TlsDispatchLegal.
From AQ Require Import proofs.TlsSymbolicP1 proofs.TlsSymbolicP2 proofs.TlsSymbolicP4.

Section P5.
Variable O : oracles.

Ltac fields := cbn [t_state t_ks t_kpsk t_kproxy t_resumed t_alpn t_early t_creq t_peer t_enc t_dec t_next_dec t_expected
                    t_recv_ext t_ext t_kex_mode t_keys set_state set_ks add_key log_key the_ks] in *.

(* what the client hashed as its own ClientHello: the proxy schedules hash the message as sent; the PSK schedule
   hashes the binder split *)
Definition client_hello_tr (c : cfg) (resumed : bool) : bytes :=
  if resumed then match use_ticket c with Some t => k_tr (fst (client_psk_schedule O c t)) | None => [] end
  else client_hello_msg O c.

Definition post_sh (x : State) : bool :=
  match x with
  | CLIENT_EXPECT_ENCRYPTED_EXTENSIONS | CLIENT_EXPECT_CERTIFICATE_REQUEST_OR_CERTIFICATE | CLIENT_EXPECT_CERTIFICATE
  | CLIENT_EXPECT_CERTIFICATE_VERIFY | CLIENT_EXPECT_FINISHED | CLIENT_POST_HANDSHAKE => true
  | _ => false
  end.
Definition post_ee (x : State) : bool :=
  match x with
  | CLIENT_EXPECT_CERTIFICATE_REQUEST_OR_CERTIFICATE | CLIENT_EXPECT_CERTIFICATE
  | CLIENT_EXPECT_CERTIFICATE_VERIFY | CLIENT_EXPECT_FINISHED | CLIENT_POST_HANDSHAKE => true
  | _ => false
  end.

Definition has_psk (v : sh_view) : bool := match sh_psk v with Some _ => true | None => false end.

Definition shape (c : cfg) (s : tst) : Prop :=
  exists sh v rest,
    k_tr (the_ks s) = client_hello_tr c (t_resumed s) ++ sh ++ rest /\ framed sh /\ o_parse_sh O sh = POk v /\
    k_suite (the_ks s) = sh_suite v /\ t_resumed s = has_psk v /\
    (t_state s = CLIENT_EXPECT_ENCRYPTED_EXTENSIONS -> rest = []) /\
    (post_ee (t_state s) = true ->
     exists ee e rest', rest = ee ++ rest' /\ framed ee /\ o_parse_ee O ee = POk e /\
                        t_alpn s = ee_alpn e /\ t_early s = ee_early e).

Record cinv3 (c : cfg) (s : tst) : Prop := mkCinv3 {
  c3_client : client_state (t_state s) = true /\ t_state s <> CLIENT_HANDSHAKE_START;
  c3_proxy : forall px suite k, t_kproxy s = Some px -> proxy_select px suite = Some k ->
                                k_tr k = client_hello_msg O c /\ k_suite k = suite;
  c3_kpsk : forall kp, t_kpsk s = Some kp -> exists t, use_ticket c = Some t /\ kp = fst (client_psk_schedule O c t);
  c3_res : t_resumed s = true -> t_kproxy s = None;
  c3_shape : post_sh (t_state s) = true -> shape c s
}.

Lemma cinv3_started : forall c, cinv3 c (client_started O c).
Proof.
  intro c. unfold client_started, client_send_hello. cbn [fst snd].
  assert (Hbase : forall s0 : tst,
            t_state s0 = CLIENT_EXPECT_SERVER_HELLO -> t_resumed s0 = false ->
            t_kpsk s0 = match use_ticket c with Some t => Some (fst (client_psk_schedule O c t)) | None => None end ->
            t_kproxy s0 = Some (proxy_map (fun k => ks_update (ks_extract O k None) (client_hello_msg O c)) (proxy_new (f_suites c) [])) ->
            cinv3 c s0).
  { intros s0 Hs Hr Hp Hx. constructor; rewrite ?Hs, ?Hr; try discriminate.
    - split; [reflexivity | discriminate].
    - intros px suite k Hpx Hsel. rewrite Hx in Hpx. inversion Hpx; subst px.
      apply proxy_select_new in Hsel. subst k. split; reflexivity.
    - intros kp Hkp. rewrite Hp in Hkp. destruct (use_ticket c) eqn:E; [| discriminate].
      inversion Hkp. eauto. }
  destruct (use_ticket c) as [t |] eqn:E.
  - destruct (tk_early t); apply Hbase; reflexivity.
  - apply Hbase; reflexivity.
Qed.

(* handlers after EncryptedExtensions that append d to the transcript and do not touch the negotiated fields *)
Lemma cinv3_extend : forall c s s' d x,
  cinv3 c s -> post_ee (t_state s) = true ->
  k_tr (the_ks s') = k_tr (the_ks s) ++ d -> k_suite (the_ks s') = k_suite (the_ks s) ->
  t_kpsk s' = t_kpsk s -> t_kproxy s' = t_kproxy s -> t_resumed s' = t_resumed s ->
  t_alpn s' = t_alpn s -> t_early s' = t_early s -> t_state s' = x -> post_ee x = true ->
  cinv3 c s'.
Proof.
  intros c s s' d x I Hp Htr Hsu Hkp Hpx Hr Ha He Hx Hee.
  assert (Hps : post_sh (t_state s) = true) by (destruct (t_state s); try discriminate; reflexivity).
  constructor; rewrite ?Hx, ?Hkp, ?Hpx, ?Hr.
  - destruct x; try discriminate; (split; [reflexivity | discriminate]).
  - apply (c3_proxy c s I).
  - apply (c3_kpsk c s I).
  - apply (c3_res c s I).
  - intros _. destruct (c3_shape c s I Hps) as (sh & v & rest & T & F & P & S & R & _ & E).
    exists sh, v, (rest ++ d). rewrite Htr, T, Hsu, Hr, Hx. rewrite <- !app_assoc.
    split; [reflexivity |]. split; [exact F |]. split; [exact P |]. split; [exact S |]. split; [exact R |].
    split; [intro Q; rewrite Q in Hee; discriminate |].
    intros _. destruct (E Hp) as (ee & e & rest' & E1 & E2 & E3 & E4 & E5).
    exists ee, e, (rest' ++ d). rewrite E1, Ha, He, <- app_assoc. repeat split; assumption.
Qed.

Lemma cinv3_same : forall c s s',
  cinv3 c s -> t_state s' = t_state s -> t_ks s' = t_ks s -> t_kpsk s' = t_kpsk s -> t_kproxy s' = t_kproxy s ->
  t_resumed s' = t_resumed s -> (post_ee (t_state s) = true -> t_alpn s' = t_alpn s /\ t_early s' = t_early s) ->
  cinv3 c s'.
Proof.
  intros c s s' I A B D E F G. assert (K : the_ks s' = the_ks s) by (unfold the_ks; rewrite B; reflexivity).
  constructor; rewrite ?A, ?D, ?E, ?F; try apply I.
  intro Hp. destruct (c3_shape c s I Hp) as (sh & v & rest & T & Fr & P & S & R & Z0 & Ee).
  exists sh, v, rest. rewrite K, F, A. repeat split; try assumption.
  intro Hpe. destruct (Ee Hpe) as (ee & e & rest' & E1 & E2 & E3 & E4 & E5). destruct (G Hpe) as [Ga Ge].
  exists ee, e, rest'. rewrite Ga, Ge. repeat split; assumption.
Qed.

Lemma negotiate_single : forall sup x y, negotiate memz sup [x] = Some y -> y = x.
Proof.
  intros sup x y H. apply negotiate_some in H. destruct H as [_ M]. simpl in M. rewrite orb_false_r in M.
  apply Z.eqb_eq in M. exact M.
Qed.

Lemma cinv3_step : forall c s m o s' out,
  cinv3 c s -> step O c s m = (o, s', out) -> cinv3 c s'.
Proof.
  intros c s m o s' out I H.
  destruct (c3_client c s I) as [Hc Hn].
  unfold step in H.
  destruct (t_state s) eqn:Es; try discriminate Hc; try congruence;
    (destruct (negb (framedb m)) eqn:Fm; [inversion H; subst; exact I |]);
    rewrite dispatch_all in H; cbn [legal_next] in H;
    repeat match type of H with
    | context [if ?b then _ else _] => destruct b
    end;
    cbn [run_handler] in H; try (inversion H; subst; exact I);
    apply negb_false_iff in Fm.
  - (* ServerHello *)
    unfold client_handle_hello in H.
    destruct (o_parse_sh O m) as [v | dd | ee] eqn:P; cbn [with_parse] in H; try (inversion H; subst; exact I).
    destruct (negotiate memz (f_suites c) [sh_suite v]) as [suite |] eqn:Eneg; [| inversion H; subst; exact I].
    apply negotiate_single in Eneg. subst suite.
    destruct (negb (memz (sh_comp v) (f_comp c))); [inversion H; subst; exact I |].
    destruct (negb match sh_version v with Some x => memz x (f_versions c) | None => false end);
      [inversion H; subst; exact I |].
    apply with_parse_inv in H. destruct H as [([ks psk] & Hsel & H) | [-> _]]; [| exact I].
    assert (Hk : psk = has_psk v /\ k_suite ks = sh_suite v /\
                 k_tr ks = client_hello_tr c (if psk then true else t_resumed s) /\
                 (psk = false -> t_resumed s = false)).
    { unfold has_psk. destruct (sh_psk v).
      - destruct (t_kpsk s) as [kp |] eqn:Ekp; [| discriminate].
        destruct ((z =? 0) && (sh_suite v =? k_suite kp)) eqn:Ec; [| discriminate].
        inversion Hsel; subst. apply andb_true_iff in Ec. destruct Ec as [_ Ec]. apply Z.eqb_eq in Ec.
        destruct (c3_kpsk c s I ks Ekp) as (t & Ht & Hks).
        split; [reflexivity |]. split; [symmetry; exact Ec |]. split; [| discriminate].
        unfold client_hello_tr. rewrite Ht, Hks. reflexivity.
      - destruct (t_kproxy s) as [px |] eqn:Epx; [| discriminate].
        destruct (proxy_select px (sh_suite v)) eqn:Esel; [| discriminate].
        inversion Hsel; subst. destruct (c3_proxy c s I px _ ks Epx Esel) as [A B].
        assert (Hr : t_resumed s = false).
        { destruct (t_resumed s) eqn:Er; [| reflexivity]. pose proof (c3_res c s I Er). congruence. }
        split; [reflexivity |]. split; [exact B |]. split; [| intros _; exact Hr].
        rewrite Hr. unfold client_hello_tr. exact A. }
    destruct Hk as (Hp & Hsu & Htr & Hrf).
    assert (I1 : forall s1, t_state s1 = CLIENT_EXPECT_SERVER_HELLO -> t_kpsk s1 = None -> t_kproxy s1 = None -> cinv3 c s1).
    { intros s1 A B D. constructor; rewrite ?A, ?B, ?D; try discriminate. split; [reflexivity | discriminate].
      intros _. reflexivity. }
    destruct (sh_key_share v) as [[g pk] |]; [| inversion H; subst; apply I1; fields; auto].
    destruct (o_decode O g pk =? 2); [inversion H; subst; apply I1; fields; auto |].
    destruct (if o_decode O g pk =? 1 then find_priv g (f_privs c) None else None) as [priv |];
      [| inversion H; subst; apply I1; fields; auto].
    destruct (o_dh O g priv pk) as [shared |]; [| inversion H; subst; apply I1; fields; auto].
    inversion H; subst o s' out; clear H.
    constructor; fields; try discriminate.
    + split; [reflexivity | discriminate].
    + intros _. reflexivity.
    + intros _. exists m, v, []. fields. simpl. rewrite Htr, app_nil_r.
      split; [reflexivity |]. split; [exact Fm |]. split; [exact P |]. split; [exact Hsu |].
      split; [| split; [reflexivity | discriminate]].
      rewrite <- Hp. destruct psk; [reflexivity | apply Hrf; reflexivity].
  - (* EncryptedExtensions *)
    unfold client_handle_encrypted_extensions in H.
    destruct (o_parse_ee O m) as [v | dd | ee] eqn:P; cbn [with_parse] in H; try (inversion H; subst; exact I).
    cbv zeta in H.
    destruct (f_alpn_cb c (ee_alpn v) (ee_other v)) as [code newext].
    destruct (negb (code =? 0)).
    + inversion H; subst. eapply cinv3_same; [exact I | | | | | |]; fields; auto. rewrite Es. discriminate.
    + inversion H; subst o s' out; clear H.
      assert (Hps : post_sh (t_state s) = true) by (rewrite Es; reflexivity).
      destruct (c3_shape c s I Hps) as (sh & v0 & rest & T & Fr & P0 & S & R & Z0 & _).
      specialize (Z0 Es). subst rest.
      assert (G : forall s1, post_ee (t_state s1) = true -> t_state s1 <> CLIENT_POST_HANDSHAKE ->
                           the_ks s1 = ks_update (the_ks s) m -> t_kpsk s1 = t_kpsk s ->
                           t_kproxy s1 = t_kproxy s -> t_resumed s1 = t_resumed s -> t_alpn s1 = ee_alpn v ->
                           t_early s1 = ee_early v -> cinv3 c s1).
      { intros s1 A A' B D E F Ga Ge. constructor; rewrite ?D, ?E, ?F.
        - destruct (t_state s1); try discriminate; (split; [reflexivity | discriminate]).
        - apply (c3_proxy c s I).
        - apply (c3_kpsk c s I).
        - apply (c3_res c s I).
        - intros _. exists sh, v0, m. rewrite B, F. simpl. rewrite T, app_nil_r, <- app_assoc.
          split; [reflexivity |]. split; [exact Fr |]. split; [exact P0 |]. split; [exact S |]. split; [exact R |].
          split; [intro Q; rewrite Q in A; discriminate |].
          intros _. exists m, v, []. rewrite Ga, Ge, app_nil_r. repeat split; auto. }
      destruct (t_resumed s) eqn:Er; apply G; try reflexivity; try discriminate; fields; rewrite ?Er; reflexivity.
  - (* Certificate *)
    unfold client_handle_certificate in H.
    apply with_parse_inv in H. destruct H as [(v & _ & H) | [-> _]]; [| exact I].
    assert (I1 : cinv3 c (set_ks s (ks_update (the_ks s) m))).
    { eapply (cinv3_extend c s _ m (t_state s) I); fields; rewrite ?Es; reflexivity. }
    apply with_parse_inv in H. destruct H as [(s2 & Hset & H) | [-> _]]; [| exact I1].
    inversion H; subst o s' out; clear H.
    unfold set_peer in Hset. destruct (ct_certs v); [discriminate |].
    destruct (forallb _ _); [| discriminate]. inversion Hset; subst s2; clear Hset.
    eapply (cinv3_extend c s _ m CLIENT_EXPECT_CERTIFICATE_VERIFY I); fields; rewrite ?Es; reflexivity.
  - (* CertificateRequest *)
    unfold client_handle_certificate_request in H.
    apply with_parse_inv in H. destruct H as [(v & _ & H) | [-> _]]; [| exact I].
    inversion H; subst o s' out; clear H.
    eapply (cinv3_extend c s _ m CLIENT_EXPECT_CERTIFICATE I); fields; rewrite ?Es; reflexivity.
  - (* Certificate (after a request) *)
    unfold client_handle_certificate in H.
    apply with_parse_inv in H. destruct H as [(v & _ & H) | [-> _]]; [| exact I].
    assert (I1 : cinv3 c (set_ks s (ks_update (the_ks s) m))).
    { eapply (cinv3_extend c s _ m (t_state s) I); fields; rewrite ?Es; reflexivity. }
    apply with_parse_inv in H. destruct H as [(s2 & Hset & H) | [-> _]]; [| exact I1].
    inversion H; subst o s' out; clear H.
    unfold set_peer in Hset. destruct (ct_certs v); [discriminate |].
    destruct (forallb _ _); [| discriminate]. inversion Hset; subst s2; clear Hset.
    eapply (cinv3_extend c s _ m CLIENT_EXPECT_CERTIFICATE_VERIFY I); fields; rewrite ?Es; reflexivity.
  - (* CertificateVerify *)
    unfold client_handle_certificate_verify in H.
    apply with_parse_inv in H. destruct H as [(v & _ & H) | [-> _]]; [| exact I].
    destruct (check_cv O c s v SERVER_CONTEXT_STRING); [inversion H; subst; exact I |].
    destruct (negb ((if f_verify c then o_cert_ok O (verify_name c) (t_peer s) else 0) =? 0));
      [inversion H; subst; exact I |].
    inversion H; subst o s' out; clear H.
    eapply (cinv3_extend c s _ m CLIENT_EXPECT_FINISHED I); fields; rewrite ?Es; reflexivity.
  - (* Finished *)
    unfold client_handle_finished in H.
    apply with_parse_inv in H. destruct H as [(vd & _ & H) | [-> _]]; [| exact I]. cbv zeta in H.
    destruct (negb (beqb vd (ks_finished O (the_ks s) (t_dec s)))); [inversion H; subst; exact I |].
    assert (I1 : cinv3 c (set_ks s (ks_update (the_ks s) m))).
    { eapply (cinv3_extend c s _ m (t_state s) I); fields; rewrite ?Es; reflexivity. }
    destruct (negb (k_gen (ks_update (the_ks s) m) =? 2)); [inversion H; subst; exact I1 |].
    match type of H with (let '(k3, msgs) := ?X in _) = _ => destruct X as [k3 msgs] eqn:E3 end.
    set (k2 := ks_extract O (ks_update (the_ks s) m) None) in *.
    assert (Hk3 : k_suite k3 = k_suite (the_ks s) /\ exists r, k_tr k3 = k_tr (the_ks s) ++ r).
    { destruct (t_creq s) as [cr |].
      - destruct (match f_chain c with [] => None | _ :: _ => negotiate_opt memz (f_key_sigalgs c) (cr_sigalgs cr) end).
        + inversion E3. split; [reflexivity |]. eexists. simpl. rewrite <- !app_assoc. reflexivity.
        + inversion E3. split; [reflexivity |]. eexists. simpl. rewrite <- !app_assoc. reflexivity.
      - inversion E3. split; [reflexivity |]. eexists. simpl. reflexivity. }
    destruct Hk3 as (Hsu & r & Hr3).
    inversion H; subst o s' out; clear H.
    eapply (cinv3_extend c s _ (r ++ o_build_fin O (ks_finished O k3 (t_enc s))) CLIENT_POST_HANDSHAKE I);
      fields; rewrite ?Es; try reflexivity.
    + simpl. rewrite Hr3, <- app_assoc. reflexivity.
    + simpl. exact Hsu.
  - (* NewSessionTicket *)
    unfold client_handle_new_session_ticket in H.
    apply with_parse_inv in H. destruct H as [(v & _ & H) | [-> _]]; [| exact I].
    inversion H; subst; exact I.
Qed.

Lemma cinv3_run : forall c ms s, cinv3 c s -> cinv3 c (run O c s ms).
Proof.
  intros c ms. induction ms as [| m r IH]; intros s I; simpl; [exact I |].
  destruct (step O c s m) as [[o s1] out] eqn:E. apply IH. eapply cinv3_step; eauto.
Qed.


(* ---------- server: the flight as a function of the negotiated parameters ------------------------------------- *)
Lemma server_flight_tr : forall c s5 sid suite comp sigalg version kex psk g pubk shared s' out kF eS finm,
  server_flight O c s5 sid suite comp sigalg version kex psk g pubk shared = (OOk, s', out) ->
  In (EP_HANDSHAKE, finm) out -> finm = o_build_fin O (ks_finished O kF eS) ->
  (forall k e k' e', o_build_fin O (ks_finished O k e) = o_build_fin O (ks_finished O k' e') -> k_tr k = k_tr k') ->
  (forall x, msg_type (o_build_fin O x) = 20) ->
  (forall v, msg_type (o_build_ee O v) <> 20) -> (forall v, msg_type (o_build_cr O v) <> 20) ->
  (forall v, msg_type (o_build_ct O v) <> 20) -> (forall v, msg_type (o_build_cv O v) <> 20) ->
  exists shv rest,
    k_tr kF = k_tr (the_ks s5) ++ o_build_sh O shv ++ o_build_ee O (mkEE (t_alpn s5) (t_early s5) (t_ext s5)) ++ rest /\
    sh_suite shv = suite /\ has_psk shv = psk /\
    k_suite (the_ks s') = k_suite (the_ks s5) /\ t_resumed s' = t_resumed s5 /\ t_alpn s' = t_alpn s5 /\
    t_early s' = t_early s5.
Proof.
  intros c s5 sid suite comp sigalg version kex psk g pubk shared s' out kF eS finm H Hin Hf Hinj T20 Tee Tcr Tct Tcv.
  unfold server_flight in H. cbv zeta in H.
  match type of H with (let '(k3, authmsgs) := ?X in _) = _ => destruct X as [k3 authmsgs] eqn:E3 end.
  match type of H with (if negb (k_gen ?k4 =? 2) then _ else _) = _ => destruct (k_gen k4 =? 2) eqn:G end;
    cbn [negb] in H; [| destruct (f_reqcert c); discriminate].
  set (shv := mkSH (f_random c) sid suite comp (Some (g, pubk)) (if psk then Some 0 else None) (Some version)) in *.
  set (k1 := ks_extract O (ks_update (the_ks s5) (o_build_sh O shv)) (Some shared)) in *.
  set (eem := o_build_ee O (mkEE (t_alpn s5) (t_early s5) (t_ext s5))).
  (* the Finished in the output is the one over k3 *)
  assert (K3 : k_suite k3 = k_suite (the_ks s5) /\ (exists rest, k_tr k3 = k_tr (the_ks s5) ++ o_build_sh O shv ++ eem ++ rest) /\
               Forall (fun x => msg_type x <> 20) authmsgs).
  { destruct psk.
    - inversion E3. split; [reflexivity |]. split; [| constructor].
      exists []. simpl. rewrite app_nil_r, <- app_assoc. reflexivity.
    - destruct (f_reqcert c); inversion E3; (split; [reflexivity |]); split.
      + eexists. simpl. rewrite <- !app_assoc. reflexivity.
      + repeat constructor; auto.
      + eexists. simpl. rewrite <- !app_assoc. reflexivity.
      + repeat constructor; auto. }
  destruct K3 as (KS & (rest & KT) & KA).
  assert (Hfin : finm = o_build_fin O (ks_finished O k3 (ks_derive O k1 L_s_hs_traffic))).
  { assert (Hout : out = (EP_INITIAL, o_build_sh O shv) :: map (fun x => (EP_HANDSHAKE, x))
                           ([eem] ++ authmsgs ++ [o_build_fin O (ks_finished O k3 (ks_derive O k1 L_s_hs_traffic))])).
    { destruct (f_reqcert c); inversion H; reflexivity. }
    rewrite Hout in Hin. destruct Hin as [Hin | Hin]; [inversion Hin |].
    apply in_map_iff in Hin. destruct Hin as (x & Hx & Hin). inversion Hx; subst x.
    apply in_app_or in Hin. destruct Hin as [Hin | Hin].
    - destruct Hin as [Hin | []]. exfalso. apply (Tee (mkEE (t_alpn s5) (t_early s5) (t_ext s5))).
      fold eem. rewrite Hin, Hf. apply T20.
    - apply in_app_or in Hin. destruct Hin as [Hin | Hin].
      + exfalso. rewrite Forall_forall in KA. apply (KA _ Hin). rewrite Hf. apply T20.
      + destruct Hin as [Hin | []]. symmetry. exact Hin. }
  rewrite Hf in Hfin. apply Hinj in Hfin.
  exists shv, rest. rewrite Hfin, KT.
  split; [reflexivity |]. split; [reflexivity |]. split; [unfold has_psk; subst shv; simpl; destruct psk; reflexivity |].
  destruct (f_reqcert c); inversion H; subst s' out; unfold server_expect_finished; fields; simpl; auto.
Qed.

Lemma server_hello_s5 : forall c s m s' out,
  t_resumed s = false ->
  server_handle_hello O c s m = (OOk, s', out) ->
  exists s5 sid suite comp sigalg version kex psk g pubk shared,
    server_flight O c s5 sid suite comp sigalg version kex psk g pubk shared = (OOk, s', out) /\
    k_tr (the_ks s5) = m /\ k_suite (the_ks s5) = suite /\ t_resumed s5 = psk.
Proof.
  intros c s m s' out Hr0 H. unfold server_handle_hello in H.
  apply with_parse_inv in H. destruct H as [(v & _ & H) | [_ X]]; [| congruence].
  destruct (negotiate memz (f_suites c) (ch_suites v)) as [suite |]; [| discriminate].
  destruct (negotiate memz (f_comp c) (ch_comp v)) as [comp |]; [| discriminate].
  destruct (negotiate_opt memz (f_key_sigalgs c) (ch_sigalgs v)) as [sigalg |]; [| discriminate].
  destruct (negotiate_opt memz (f_versions c) (ch_versions v)) as [version |]; [| discriminate].
  apply with_parse_inv in H. destruct H as [(alpn & _ & H) | [_ X]]; [| congruence].
  cbv zeta in H.
  destruct (f_alpn_cb c alpn (ch_other v)) as [code newext].
  destruct (negb (code =? 0)); [discriminate |].
  apply with_parse_inv in H. destruct H as [(pskst & Hpsk & H) | [_ X]]; [| congruence].
  apply with_parse_inv in H. destruct H as [(kx & _ & H) | [_ X]]; [| congruence].
  destruct kx as [[[g pubk] shared] |]; [| discriminate].
  do 11 eexists. split; [exact H |].
  destruct pskst as [x |].
  - apply server_select_psk_spec in Hpsk. destruct Hpsk as (A & B & C & D). exact (conj B (conj C D)).
  - cbv beta iota zeta delta [the_ks set_ks t_ks t_resumed k_tr k_suite ks_update ks_extract ks_new].
    split; [reflexivity | split; [reflexivity | exact Hr0]].
Qed.

End P5.

Section P5b.
Variable O : oracles.
Hypothesis Hhash : forall a x y, o_hash O a x = o_hash O a y -> x = y.
Hypothesis Hmac : forall a k m a' k' m', o_hmac O a k m = o_hmac O a' k' m' -> a = a' /\ k = k' /\ m = m'.
Hypothesis Hkdf : forall a s l h a' s' l' h',
  o_expand O a s l h = o_expand O a' s' l' h' -> a = a' /\ s = s' /\ l = l' /\ h = h'.
Hypothesis Hfin : forall vd, o_parse_fin O (o_build_fin O vd) = POk vd.
(* codecs (C17): round trips, framed outputs, message types *)
Hypothesis Hsh_rt : forall v, o_parse_sh O (o_build_sh O v) = POk v.
Hypothesis Hee_rt : forall v, o_parse_ee O (o_build_ee O v) = POk v.
Hypothesis Hsh_fr : forall v, framed (o_build_sh O v).
Hypothesis Hee_fr : forall v, framed (o_build_ee O v).
Hypothesis T20 : forall x, msg_type (o_build_fin O x) = 20.
Hypothesis Tee : forall v, msg_type (o_build_ee O v) <> 20.
Hypothesis Tcr : forall v, msg_type (o_build_cr O v) <> 20.
Hypothesis Tct : forall v, msg_type (o_build_ct O v) <> 20.
Hypothesis Tcv : forall v, msg_type (o_build_cv O v) <> 20.

Lemma build_fin_binds : forall k e k' e',
  o_build_fin O (ks_finished O k e) = o_build_fin O (ks_finished O k' e') -> k_tr k = k_tr k'.
Proof.
  intros k e k' e' H. apply (f_equal (o_parse_fin O)) in H. rewrite !Hfin in H. inversion H as [H1].
  apply (finished_binds_transcript_lemma O Hhash Hmac Hkdf) in H1. tauto.
Qed.

(* An honest server (not yet resumed) processed a framed ClientHello chm and emitted its flight.  Any client - any
   configuration, any earlier message sequence - that awaits the server Finished, whose own hello bytes are one
   framed message, and that accepts the Finished of that flight: sent exactly chm, and reports the same cipher suite,
   resumption flag, ALPN protocol and early-data flag as the server. *)
Lemma parameters_agreement_lemma : forall sc ss chm ss' outS,
  t_resumed ss = false -> framed chm ->
  server_handle_hello O sc ss chm = (OOk, ss', outS) ->
  exists finm, In (EP_HANDSHAKE, finm) outS /\
    forall cc ms cs' outC,
      let cs := run O cc (client_started O cc) ms in
      t_state cs = CLIENT_EXPECT_FINISHED ->
      framed (client_hello_tr O cc (t_resumed cs)) ->
      client_handle_finished O cc cs finm = (OOk, cs', outC) ->
      chm = client_hello_tr O cc (t_resumed cs) /\
      k_suite (the_ks cs) = k_suite (the_ks ss') /\ t_resumed cs = t_resumed ss' /\
      t_alpn cs = t_alpn ss' /\ t_early cs = t_early ss'.
Proof.
  intros sc ss chm ss' outS Hr0 Fch H.
  destruct (server_hello_s5 O sc ss chm ss' outS Hr0 H)
    as (s5 & sid & suite & comp & sigalg & version & kex & psk & g & pubk & shared & Hfl & T5 & S5 & R5).
  destruct (server_flight_spec O _ _ _ _ _ _ _ _ _ _ _ _ _ _ Hfl) as (kF & eS & cS & finm & A & B & C & D & E).
  destruct (server_flight_tr O _ _ _ _ _ _ _ _ _ _ _ _ _ _ kF eS finm Hfl A B build_fin_binds T20 Tee Tcr Tct Tcv)
    as (shv & rest & TF & Ssu & Spsk & Ks & Rs & As & Es).
  exists finm. split; [exact A |].
  intros cc ms cs' outC cs Hs Fcc Hc.
  destruct (transcript_agreement_client_lemma O Hhash Hmac Hkdf Hfin cc cs finm cs' outC kF eS Hc B) as (T1 & _).
  pose proof (cinv3_run O cc ms _ (cinv3_started O cc)) as I. fold cs in I.
  assert (Hps : post_sh (t_state cs) = true) by (rewrite Hs; reflexivity).
  destruct (c3_shape O cc cs I Hps) as (sh & v & rest0 & T & Fr & P & S & R & _ & Ee).
  assert (Hpe : post_ee (t_state cs) = true) by (rewrite Hs; reflexivity).
  destruct (Ee Hpe) as (ee & e & rest' & E1 & E2 & E3 & E4 & E5).
  rewrite T, TF, T5, E1 in T1.
  apply framed_prefix_eq in T1; [| exact Fcc | exact Fch]. destruct T1 as [Q1 T1].
  apply framed_prefix_eq in T1; [| exact Fr | apply Hsh_fr]. destruct T1 as [Q2 T1].
  apply framed_prefix_eq in T1; [| exact E2 | apply Hee_fr]. destruct T1 as [Q3 _].
  subst sh ee. rewrite Hsh_rt in P. inversion P; subst v. rewrite Hee_rt in E3. inversion E3; subst e.
  split; [symmetry; exact Q1 |].
  split; [rewrite S, Ks, S5; exact Ssu |].
  split; [rewrite R, Rs, R5; exact Spsk |].
  split; [rewrite E4, As; reflexivity | rewrite E5, Es; reflexivity].
Qed.

End P5b.
