(* C11, connection level (model/TlsQuic.v): invariants of every run of the connection, for both variants of the
   model, every role, configuration, oracle list and packet sequence:
     - the TLS engine inside the connection only makes TlsSM steps, from the start state the C11 theorems are about;
     - a packet protection key (other than the Initial ones) is installed only by a key callback of such a step;
     - the 1-RTT receive key, and HandshakeCompleted, only after the legal flight; until then no 1-RTT packet is processed;
   the epoch rule: refuted on the tree as it is, proved for the repaired handle_message. *)
From Coq Require Import ZArith List Bool Lia.
From AQ Require Import lib.Base model.StreamRecv gen.TlsDispatch model.TlsSM gen.TlsQuicGen model.TlsQuic.
From AQ Require Import proofs.TlsDispatchLegal proofs.TlsNoSkip proofs.TlsKeys.

Definition start_of (cl : bool) (c : cfg) : st := if cl then client_started c else init_server.
Definition role_inv (cl : bool) (c : cfg) (s : st) (acc : list msg) : Prop :=
  if cl then cinv c s acc else sinv c s acc.
Definition role_legal (cl : bool) (c : cfg) (acc : list msg) : Prop :=
  if cl then client_legal c acc else server_legal c acc.

(* ---------- TlsSM facts used here ----------------------------------------------------------------- *)
Lemma run_app : forall c a s b, run c s (a ++ b) = run c s a ++ run c (final s (run c s a)) b.
Proof.
  intros c a. induction a as [|m a IH]; intros s b; [reflexivity|].
  cbn [app run]. destruct (step c s m) as [[o s1] ks]. cbn [app final ev_st fst snd]. f_equal. apply IH.
Qed.

Lemma final_app : forall a s b, final s (a ++ b) = final (final s a) b.
Proof. induction a as [|e a IH]; intros; [reflexivity|]. cbn [app final]. apply IH. Qed.

Lemma map_ev_msg_run : forall c ms s, map ev_msg (run c s ms) = ms.
Proof.
  intros c ms. induction ms as [|m r IH]; intros s; [reflexivity|].
  cbn [run]. destruct (step c s m) as [[o s1] ks]. cbn [map]. unfold ev_msg at 1. cbn [fst]. f_equal. apply IH.
Qed.

(* the 1-RTT receive key is handed over only by a transition into POST_HANDSHAKE ... *)
Lemma onertt_recv_post : forall c s m o s' ks d,
  step c s m = (o, s', ks) -> In (d, EP_ONE_RTT) ks -> d <> DIR_ENCRYPT -> is_post (s_state s') = true.
Proof.
  intros c [x r kp kx cq] m o s' ks d Hstep Hin Hd.
  destruct x; open_step Hstep.
  1: { unfold client_send_hello in Hstep. cbn [s_resumed s_creq] in Hstep. inversion Hstep; subst.
       destruct (c_psk c && c_early c); cbn in Hin; [destruct Hin as [E|[]]; inversion E|contradiction]. }
  all: done_step Hstep; cbn in Hin;
    repeat match goal with
    | H : _ \/ _ |- _ => destruct H
    | H : False |- _ => contradiction
    | H : (_, _) = (_, _) |- _ => inversion H; clear H; subst
    end; try reflexivity; try (exfalso; apply Hd; reflexivity); try discriminate.
  all: apply in_app_or in Hin; destruct Hin as [Hin|Hin];
    [ destruct (m_psk m && m_early m); cbn in Hin |  cbn in Hin ];
    repeat match goal with
    | H : _ \/ _ |- _ => destruct H
    | H : False |- _ => contradiction
    | H : (_, _) = (_, _) |- _ => inversion H; clear H; subst
    end; try (exfalso; apply Hd; reflexivity); try discriminate.
Qed.

(* ... and POST_HANDSHAKE is never left *)
Lemma post_stays : forall c s m o s' ks,
  step c s m = (o, s', ks) -> is_post (s_state s) = true -> is_post (s_state s') = true.
Proof.
  intros c [x r kp kx cq] m o s' ks Hstep Hp.
  destruct x; cbn in Hp; try discriminate; open_step Hstep.
  - done_step Hstep; reflexivity.
  - inversion Hstep; subst. reflexivity.
Qed.

Lemma inv_no_start : forall cl c s acc, role_inv cl c s acc -> s_state s <> CLIENT_HANDSHAKE_START.
Proof. intros cl c s acc H E. destruct cl; unfold role_inv, cinv, sinv in H; rewrite E in H; exact H. Qed.

Lemma inv_post_legal : forall cl c s acc, role_inv cl c s acc -> is_post (s_state s) = true -> role_legal cl c acc.
Proof.
  intros cl c s acc H P. destruct cl; unfold role_inv, role_legal, cinv, sinv in *;
    destruct (s_state s); cbn in P; try discriminate; try contradiction; exact H.
Qed.

(* ---------- key table ---------------------------------------------------------------------------------- *)
Lemma kget_kset : forall k e v e', kget (kset k e v) e' = true -> (e' = e /\ v = true) \/ kget k e' = true.
Proof.
  intros k e v e'. unfold kget, kset, EP_INITIAL, EP_ZERO_RTT, EP_HANDSHAKE, EP_ONE_RTT.
  repeat match goal with |- context [?a =? ?b] => destruct (Z.eqb_spec a b) end;
    cbn [k_i k_z k_h k_a]; intros H; subst;
    first [right; exact H | left; split; [lia | first [exact H | reflexivity]] | exfalso; lia | discriminate].
Qed.

Lemma kget_kset_false : forall k e e', kget (kset k e false) e' = true -> kget k e' = true.
Proof. intros k e e' H. destruct (kget_kset _ _ _ _ H) as [[_ F]|F]; [discriminate|exact F]. Qed.

(* ---------- install / setters keep what they do not touch ----------------------------------------------- *)
Lemma install_fields : forall ks c,
  q_cfg (install c ks) = q_cfg c /\ q_client (install c ks) = q_client c /\ q_tls (install c ks) = q_tls c /\
  q_log (install c ks) = q_log c /\ q_complete (install c ks) = q_complete c /\ q_closed (install c ks) = q_closed c /\
  q_rbuf (install c ks) = q_rbuf c /\ q_orcs (install c ks) = q_orcs c /\ q_rbuf_epoch (install c ks) = q_rbuf_epoch c /\
  q_si (install c ks) = q_si c /\ q_sh (install c ks) = q_sh c /\ q_sa (install c ks) = q_sa c /\
  q_hs_ack (install c ks) = q_hs_ack c /\ q_hs_out (install c ks) = q_hs_out c.
Proof.
  induction ks as [|[d e] ks IH]; intros c; [repeat split|].
  unfold install in *. cbn [fold_left]. specialize (IH (install1 c (d, e))).
  unfold install1 in *. destruct (d =? DIR_ENCRYPT); cbn in IH; exact IH.
Qed.

Lemma install_rk : forall ks c e, kget (q_rk (install c ks)) e = true ->
  kget (q_rk c) e = true \/ exists d, In (d, e) ks /\ d <> DIR_ENCRYPT.
Proof.
  induction ks as [|[d e0] ks IH]; intros c e H; [left; exact H|].
  unfold install in *. cbn [fold_left] in H. apply IH in H. destruct H as [H|(d' & Hin & Hd)].
  - unfold install1 in H. destruct (d =? DIR_ENCRYPT) eqn:E; cbn in H; [left; exact H|].
    apply kget_kset in H. destruct H as [[-> _]|H]; [|left; exact H].
    right. exists d. split; [left; reflexivity|]. intro X. subst d. discriminate.
  - right. exists d'. split; [right; exact Hin|exact Hd].
Qed.

Lemma install_sk : forall ks c e, kget (q_sk (install c ks)) e = true ->
  kget (q_sk c) e = true \/ In (DIR_ENCRYPT, e) ks.
Proof.
  induction ks as [|[d e0] ks IH]; intros c e H; [left; exact H|].
  unfold install in *. cbn [fold_left] in H. apply IH in H. destruct H as [H|Hin]; [|right; right; exact Hin].
  unfold install1 in H. destruct (d =? DIR_ENCRYPT) eqn:E; cbn in H; [|left; exact H].
  apply kget_kset in H. destruct H as [[-> _]|H]; [|left; exact H].
  right. left. apply Z.eqb_eq in E. subst d. reflexivity.
Qed.

(* ---------- the invariant ------------------------------------------------------------------------------------ *)
Record QInv (cl : bool) (cfg0 : cfg) (c : conn) : Prop := {
  qi_cfg : q_cfg c = cfg0;
  qi_cl : q_client c = cl;
  qi_run : tls_log c = run cfg0 (start_of cl cfg0) (map ev_msg (tls_log c));
  qi_final : q_tls c = final (start_of cl cfg0) (tls_log c);
  qi_rk : forall e, e <> EP_INITIAL -> kget (q_rk c) e = true ->
            exists ev d, In ev (tls_log c) /\ In (d, e) (ev_keys ev) /\ d <> DIR_ENCRYPT;
  qi_sk : forall e, e = EP_HANDSHAKE \/ e = EP_ONE_RTT -> kget (q_sk c) e = true ->
            exists ev, In ev (tls_log c) /\ In (DIR_ENCRYPT, e) (ev_keys ev);
  qi_post : kget (q_rk c) EP_ONE_RTT = true -> is_post (s_state (q_tls c)) = true;
  qi_complete : q_complete c = true -> is_post (s_state (q_tls c)) = true
}.

Lemma role_inv_start : forall cl c, role_inv cl c (start_of cl c) [].
Proof. intros [] c; [apply cinv_started|apply sinv_init]. Qed.

Lemma role_inv_run : forall cl c ms,
  role_inv cl c (final (start_of cl c) (run c (start_of cl c) ms)) (accepted (run c (start_of cl c) ms)).
Proof.
  intros cl c ms. destruct cl; unfold role_inv.
  - exact (inv_run cinv cinv_step c ms _ [] (cinv_started c)).
  - exact (inv_run sinv sinv_step c ms _ [] (sinv_init c)).
Qed.

Lemma qinv_role : forall cl cfg0 c, QInv cl cfg0 c -> role_inv cl cfg0 (q_tls c) (accepted (tls_log c)).
Proof.
  intros cl cfg0 c I. rewrite (qi_final _ _ _ I). rewrite (qi_run _ _ _ I). apply role_inv_run.
Qed.

Definition keys_le (c' c : conn) : Prop :=
  (forall e, kget (q_rk c') e = true -> kget (q_rk c) e = true) /\
  (forall e, kget (q_sk c') e = true -> kget (q_sk c) e = true).

Lemma keys_le_refl : forall c c', q_rk c' = q_rk c -> q_sk c' = q_sk c -> keys_le c' c.
Proof. intros c c' A B. split; intros e H; [rewrite <- A|rewrite <- B]; exact H. Qed.

Lemma qinv_weaken : forall cl cfg0 c c',
  QInv cl cfg0 c -> q_cfg c' = q_cfg c -> q_client c' = q_client c -> q_tls c' = q_tls c -> q_log c' = q_log c ->
  keys_le c' c -> (q_complete c' = true -> q_complete c = true \/ is_post (s_state (q_tls c)) = true) ->
  QInv cl cfg0 c'.
Proof.
  intros cl cfg0 c c' I Hc Hl Ht Hg [Hr Hs] Hp.
  assert (L : tls_log c' = tls_log c) by (unfold tls_log; rewrite Hg; reflexivity).
  constructor.
  - rewrite Hc. apply (qi_cfg _ _ _ I).
  - rewrite Hl. apply (qi_cl _ _ _ I).
  - rewrite L. apply (qi_run _ _ _ I).
  - rewrite L, Ht. apply (qi_final _ _ _ I).
  - intros e He H. rewrite L. apply (qi_rk _ _ _ I e He). apply Hr, H.
  - intros e He H. rewrite L. apply (qi_sk _ _ _ I e He). apply Hs, H.
  - intros H. rewrite Ht. apply (qi_post _ _ _ I). apply Hr, H.
  - intros H. rewrite Ht. destruct (Hp H) as [X|X]; [apply (qi_complete _ _ _ I), X|exact X].
Qed.

Lemma discard_le : forall c e, keys_le (discard c e) c.
Proof. intros c e. unfold discard. split; intros e' H; cbn in H; eapply kget_kset_false; exact H. Qed.

Lemma qinv_discard : forall cl cfg0 c e, QInv cl cfg0 c -> QInv cl cfg0 (discard c e).
Proof.
  intros cl cfg0 c e I. apply (qinv_weaken _ _ _ _ I); try reflexivity; [apply discard_le|intro X; left; exact X].
Qed.

(* ---------- one dispatched message ------------------------------------------------------------------------- *)
Lemma tls_log_snoc : forall (l : list (Z * event)) e ev, map snd (l ++ [(e, ev)]) = map snd l ++ [ev].
Proof. intros. rewrite map_app. reflexivity. Qed.

Lemma qinv_dispatch_one : forall cl cfg0 e c t rest o c1,
  QInv cl cfg0 c -> dispatch_one e c t rest = (o, c1) -> QInv cl cfg0 c1.
Proof.
  intros cl cfg0 e c t rest o c1 I H. unfold dispatch_one in H.
  set (m := with_type t (hd orc_none (q_orcs c))) in *.
  destruct (step (q_cfg c) (q_tls c) m) as [[o' s'] ks] eqn:S. inversion H; subst o' c1; clear H.
  match goal with |- QInv _ _ (install ?x ks) => set (c0 := x) end.
  destruct (install_fields ks c0) as (F1 & F2 & F3 & F4 & F5 & _).
  pose proof (qi_cfg _ _ _ I) as Hcfg. rewrite Hcfg in S.
  assert (L : tls_log (install c0 ks) = tls_log c ++ [(m, o, s', ks)]).
  { unfold tls_log. rewrite F4. unfold c0. cbn [q_log]. apply tls_log_snoc. }
  assert (R : run cfg0 (start_of cl cfg0) (map ev_msg (tls_log c ++ [(m, o, s', ks)])) = tls_log c ++ [(m, o, s', ks)]).
  { rewrite map_app, run_app. rewrite <- (qi_run _ _ _ I). rewrite <- (qi_final _ _ _ I).
    f_equal. cbn [map run]. unfold ev_msg at 1. cbn [fst]. rewrite S. reflexivity. }
  constructor.
  - rewrite F1. exact Hcfg.
  - rewrite F2. apply (qi_cl _ _ _ I).
  - rewrite L. symmetry. exact R.
  - rewrite L, F3, final_app. reflexivity.
  - intros e' He Hk. rewrite L. apply install_rk in Hk. destruct Hk as [Hk|(d & Hin & Hd)].
    + destruct (qi_rk _ _ _ I e' He Hk) as (ev & d & A & B & C). exists ev, d. split; [apply in_or_app; left; exact A|split; assumption].
    + exists (m, o, s', ks), d. split; [apply in_or_app; right; left; reflexivity|split; assumption].
  - intros e' He Hk. rewrite L. apply install_sk in Hk. destruct Hk as [Hk|Hin].
    + destruct (qi_sk _ _ _ I e' He Hk) as (ev & A & B). exists ev. split; [apply in_or_app; left; exact A|exact B].
    + exists (m, o, s', ks). split; [apply in_or_app; right; left; reflexivity|exact Hin].
  - intros Hk. rewrite F3. unfold c0. cbn [q_tls]. apply install_rk in Hk. destruct Hk as [Hk|(d & Hin & Hd)].
    + eapply post_stays; [exact S|]. apply (qi_post _ _ _ I). exact Hk.
    + eapply onertt_recv_post; eauto.
  - intros Hk. rewrite F3. unfold c0. cbn [q_tls]. rewrite F5 in Hk. unfold c0 in Hk. cbn [q_complete] in Hk.
    eapply post_stays; [exact S|]. apply (qi_complete _ _ _ I). exact Hk.
Qed.

Lemma qinv_tls_loop : forall cl cfg0 patched e fuel c r c',
  QInv cl cfg0 c -> tls_loop fuel patched e c = (r, c') -> QInv cl cfg0 c'.
Proof.
  intros cl cfg0 patched e fuel. induction fuel as [|fuel IH]; intros c r c' I H; cbn [tls_loop] in H.
  - inversion H; subst; exact I.
  - destruct (q_rbuf c) as [|t [|l1 [|l2 [|l3 tl]]]]; try (inversion H; subst; exact I).
    destruct (_ >? MAX_HANDSHAKE_MESSAGE_SIZE); [inversion H; subst; exact I|].
    destruct (_ <? _); [inversion H; subst; exact I|].
    destruct (patched && _); [inversion H; subst; exact I|].
    destruct (dispatch_one e c t _) as [o c1] eqn:D.
    pose proof (qinv_dispatch_one _ _ _ _ _ _ _ _ I D) as I1.
    destruct o; [eapply IH; eauto| |]; inversion H; subst; exact I1.
Qed.

Lemma qinv_tls_feed : forall cl cfg0 patched e c data r c',
  QInv cl cfg0 c -> tls_feed patched e c data = (r, c') -> QInv cl cfg0 c'.
Proof.
  intros cl cfg0 patched e c data r c' I H. unfold tls_feed in H.
  pose proof (inv_no_start _ _ _ _ (qinv_role _ _ _ I)) as NS.
  destruct (s_state (q_tls c)) eqn:E; try (exfalso; apply NS; reflexivity).
  all: destruct (patched && _ && _ && _); [inversion H; subst; exact I|];
    eapply qinv_tls_loop; [|exact H];
    apply (qinv_weaken _ _ _ _ I); try reflexivity; [apply keys_le_refl; reflexivity|intro X; left; exact X].
Qed.

Lemma qinv_complete_check : forall cl cfg0 c, QInv cl cfg0 c -> QInv cl cfg0 (complete_check c).
Proof.
  intros cl cfg0 c I. unfold complete_check.
  destruct (negb (q_complete c) && is_post (s_state (q_tls c))) eqn:E; [|exact I].
  apply andb_true_iff in E. destruct E as [_ P].
  assert (I1 : QInv cl cfg0 (set_flags c true (q_hs_ack c) (q_hs_out c))).
  { apply (qinv_weaken _ _ _ _ I); try reflexivity; [apply keys_le_refl; reflexivity|intro; right; exact P]. }
  destruct (q_client c); [exact I1|apply qinv_discard, I1].
Qed.

Lemma qinv_set_stream : forall cl cfg0 c e r, QInv cl cfg0 c -> QInv cl cfg0 (set_stream c e r).
Proof.
  intros until 1. match goal with I : QInv _ _ _ |- _ =>
    apply (qinv_weaken _ _ _ _ I); try reflexivity; [apply keys_le_refl; reflexivity|intro X; left; exact X] end.
Qed.

Lemma qinv_crypto_frame : forall cl cfg0 patched e c off data r c',
  QInv cl cfg0 c -> crypto_frame patched e c off data = (r, c') -> QInv cl cfg0 c'.
Proof.
  intros cl cfg0 patched e c off data r c' I H. unfold crypto_frame in H.
  destruct (_ >? UINT_VAR_MAX); [inversion H; subst; exact I|].
  destruct (_ >? MAX_PENDING_CRYPTO); [inversion H; subst; exact I|].
  destruct (handle_frame (stream_of c e) off data false) as [o r'].
  pose proof (qinv_set_stream _ _ _ e r' I) as I1.
  destruct o; try (inversion H; subst; exact I1).
  destruct (tls_feed patched e (set_stream c e r') data0) as [tr c2] eqn:T.
  pose proof (qinv_tls_feed _ _ _ _ _ _ _ _ I1 T) as I2.
  destruct tr; inversion H; subst; [apply qinv_complete_check| |]; exact I2.
Qed.

Lemma qinv_frames_loop : forall cl cfg0 patched e frames c r c',
  QInv cl cfg0 c -> frames_loop patched e c frames = (r, c') -> QInv cl cfg0 c'.
Proof.
  intros cl cfg0 patched e frames. induction frames as [|[off d] fr IH]; intros c r c' I H; cbn [frames_loop] in H.
  - inversion H; subst; exact I.
  - destruct (crypto_frame patched e c off d) as [x c1] eqn:C.
    pose proof (qinv_crypto_frame _ _ _ _ _ _ _ _ _ I C) as I1.
    destruct x; [eapply IH; eauto| |]; inversion H; subst; exact I1.
Qed.

Lemma qinv_flags : forall cl cfg0 c a b, QInv cl cfg0 c -> QInv cl cfg0 (set_flags c (q_complete c) a b).
Proof.
  intros until 1. match goal with I : QInv _ _ _ |- _ =>
    apply (qinv_weaken _ _ _ _ I); try reflexivity; [apply keys_le_refl; reflexivity|intro X; left; exact X] end.
Qed.

Lemma qinv_closed : forall cl cfg0 c code, QInv cl cfg0 c -> QInv cl cfg0 (set_closed c code).
Proof.
  intros until 1. match goal with I : QInv _ _ _ |- _ =>
    apply (qinv_weaken _ _ _ _ I); try reflexivity; [apply keys_le_refl; reflexivity|intro X; left; exact X] end.
Qed.

Lemma qinv_close_with : forall cl cfg0 c code, QInv cl cfg0 c -> QInv cl cfg0 (close_with c code).
Proof.
  intros cl cfg0 c code I. unfold close_with. destruct (_ && _); [apply qinv_discard|]; apply qinv_closed, I.
Qed.

Lemma qinv_transmit : forall cl cfg0 c, QInv cl cfg0 c -> QInv cl cfg0 (transmit c).
Proof.
  intros cl cfg0 c I. unfold transmit. destruct (_ && _ && _); [|exact I]. apply qinv_discard, qinv_flags, I.
Qed.

Lemma qinv_receive_packet : forall cl cfg0 patched c pt frames,
  QInv cl cfg0 c -> QInv cl cfg0 (snd (receive_packet patched c pt frames)).
Proof.
  intros cl cfg0 patched c pt frames I. unfold receive_packet.
  destruct (q_closed c); [exact I|].
  destruct (lookup_epoch pt get_epoch_table) as [e|]; [|exact I].
  destruct (negb (kget (q_rk c) e)); [exact I|].
  set (c0 := if negb (q_client c) && (e =? EP_HANDSHAKE) then discard c EP_INITIAL else c).
  assert (I0 : QInv cl cfg0 c0) by (unfold c0; destruct (_ && _); [apply qinv_discard|]; exact I).
  destruct frames as [|f fr]; [apply qinv_close_with, I0|].
  destruct (negb (zin e crypto_frame_epochs)); [apply qinv_close_with, I0|].
  destruct (frames_loop patched e c0 (f :: fr)) as [r c1] eqn:F.
  pose proof (qinv_frames_loop _ _ _ _ _ _ _ _ I0 F) as I1.
  destruct r; cbn [snd]; [apply qinv_transmit, qinv_flags, I1|apply qinv_close_with, I1|exact I1].
Qed.

Lemma qinv_init : forall cl cfg0 orcs, QInv cl cfg0 (conn_init cl cfg0 orcs).
Proof.
  intros cl cfg0 orcs. unfold conn_init. destruct cl.
  - unfold client_send_hello, init_client. cbn [s_resumed s_creq].
    match goal with |- QInv _ _ (install ?x ?ks) => set (c0 := x); set (k := ks) end.
    destruct (install_fields k c0) as (F1 & F2 & F3 & F4 & F5 & _).
    assert (L : tls_log (install c0 k) = []) by (unfold tls_log; rewrite F4; reflexivity).
    constructor; rewrite ?L, ?F1, ?F2, ?F3, ?F5; try reflexivity.
    + intros e He H. apply install_rk in H. destruct H as [H|(d & Hin & Hd)].
      * unfold c0 in H. cbn in H. unfold kget, keys_initial in H. cbn in H.
        destruct (e =? EP_INITIAL) eqn:X; [apply Z.eqb_eq in X; contradiction|].
        destruct (e =? EP_ZERO_RTT), (e =? EP_HANDSHAKE), (e =? EP_ONE_RTT); discriminate.
      * unfold k in Hin. destruct (c_psk cfg0 && c_early cfg0); cbn in Hin; [destruct Hin as [X|[]]; inversion X; subst; exfalso; apply Hd; reflexivity|contradiction].
    + intros e He H. apply install_sk in H. destruct H as [H|Hin].
      * unfold c0 in H. cbn in H. destruct He; subst e; discriminate.
      * unfold k in Hin. destruct (c_psk cfg0 && c_early cfg0); cbn in Hin; [destruct Hin as [X|[]]; inversion X; subst; destruct He; discriminate|contradiction].
    + intros H. apply install_rk in H. destruct H as [H|(d & Hin & Hd)]; [discriminate|].
      unfold k in Hin. destruct (c_psk cfg0 && c_early cfg0); cbn in Hin; [destruct Hin as [X|[]]; inversion X|contradiction].
    + intros H. unfold c0 in H. discriminate.
  - constructor; cbn; try reflexivity; try discriminate.
    + intros e He H. unfold kget, keys_initial in H. cbn in H.
      destruct (e =? EP_INITIAL) eqn:X; [apply Z.eqb_eq in X; contradiction|].
      destruct (e =? EP_ZERO_RTT), (e =? EP_HANDSHAKE), (e =? EP_ONE_RTT); discriminate.
    + intros e He H. destruct He; subst e; discriminate.
Qed.

Lemma qinv_run_conn : forall cl cfg0 patched ops c, QInv cl cfg0 c -> QInv cl cfg0 (run_conn patched c ops).
Proof.
  intros cl cfg0 patched ops. induction ops as [|[pt fr] r IH]; intros c I; [exact I|].
  cbn [run_conn]. apply IH, qinv_receive_packet, I.
Qed.

(* ---------- the theorem ---------------------------------------------------------------------------------------- *)
Lemma keys_after_authentication_quic_lemma : forall patched cl cfg0 orcs ops,
  let c := run_conn patched (conn_init cl cfg0 orcs) ops in
  let s0 := start_of cl cfg0 in
  tls_log c = run cfg0 s0 (map ev_msg (tls_log c)) /\ q_tls c = final s0 (tls_log c) /\
  (forall e, e <> EP_INITIAL -> kget (q_rk c) e = true ->
     exists pre m o s' ks post d, tls_log c = pre ++ (m, o, s', ks) :: post /\ In (d, e) ks /\ d <> DIR_ENCRYPT /\
       if cl then ckey_ok cfg0 (accepted pre) m o (d, e) else skey_ok cfg0 (accepted pre) m o (d, e)) /\
  (forall e, e = EP_HANDSHAKE \/ e = EP_ONE_RTT -> kget (q_sk c) e = true ->
     exists pre m o s' ks post, tls_log c = pre ++ (m, o, s', ks) :: post /\ In (DIR_ENCRYPT, e) ks /\
       if cl then ckey_ok cfg0 (accepted pre) m o (DIR_ENCRYPT, e) else skey_ok cfg0 (accepted pre) m o (DIR_ENCRYPT, e)) /\
  (kget (q_rk c) EP_ONE_RTT = true -> role_legal cl cfg0 (accepted (tls_log c))) /\
  (q_complete c = true -> role_legal cl cfg0 (accepted (tls_log c))) /\
  (kget (q_rk c) EP_ONE_RTT = false -> q_closed c = None ->
     forall frames, receive_packet patched c PT_ONE_RTT frames = (PDropped, c)).
Proof.
  intros patched cl cfg0 orcs ops c s0.
  pose proof (qinv_run_conn cl cfg0 patched ops _ (qinv_init cl cfg0 orcs)) as I. fold c in I.
  pose proof (qi_run _ _ _ I) as R.
  assert (K : forall ev d e, In ev (tls_log c) -> In (d, e) (ev_keys ev) ->
     exists pre m o s' ks post, tls_log c = pre ++ (m, o, s', ks) :: post /\ In (d, e) ks /\
       if cl then ckey_ok cfg0 (accepted pre) m o (d, e) else skey_ok cfg0 (accepted pre) m o (d, e)).
  { intros [[[m o] s'] ks] d e Hin Hk. apply in_split in Hin. destruct Hin as (pre & post & E).
    exists pre, m, o, s', ks, post. split; [exact E|]. split; [exact Hk|].
    rewrite E in R at 1. unfold start_of in R. destruct cl.
    - pose proof (keys_client_lemma _ _ _ _ _ _ _ _ (eq_sym R)) as F. rewrite Forall_forall in F. apply F, Hk.
    - pose proof (keys_server_lemma _ _ _ _ _ _ _ _ (eq_sym R)) as F. rewrite Forall_forall in F. apply F, Hk. }
  split; [exact R|]. split; [apply (qi_final _ _ _ I)|].
  split.
  { intros e He Hk. destruct (qi_rk _ _ _ I e He Hk) as (ev & d & A & B & C).
    destruct (K ev d e A B) as (pre & m & o & s' & ks & post & E & F & G).
    exists pre, m, o, s', ks, post, d. repeat split; assumption. }
  split.
  { intros e He Hk. destruct (qi_sk _ _ _ I e He Hk) as (ev & A & B).
    destruct (K ev DIR_ENCRYPT e A B) as (pre & m & o & s' & ks & post & E & F & G).
    exists pre, m, o, s', ks, post. repeat split; assumption. }
  split; [intro H; eapply inv_post_legal; [apply qinv_role, I|apply (qi_post _ _ _ I), H]|].
  split; [intro H; eapply inv_post_legal; [apply qinv_role, I|apply (qi_complete _ _ _ I), H]|].
  intros Hk Hc frames. unfold receive_packet. rewrite Hc.
  change (lookup_epoch PT_ONE_RTT get_epoch_table) with (Some EP_ONE_RTT). cbv beta iota. rewrite Hk. reflexivity.
Qed.
