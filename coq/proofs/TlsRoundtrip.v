(* Round trips of the TLS 1.3 handshake messages of model/TlsCodec.v:
     enc_seq (tree_X m) = Ok bytes  ->  pull_X (bytes ++ rest) = Ok (dump_X m, rest)
   for every message value whose integer fields are in range (X_wf).  The lengths of byte strings
   and lists are NOT in X_wf: they are guarded by the encoder itself (push_block raises
   OverflowError when a body does not fit its length prefix), i.e. by the hypothesis that the
   encoder succeeded. *)
From AQ Require Import lib.Base model.Codec model.TlsCodec proofs.CodecProofs proofs.HeaderProofs
  proofs.TlsCodecProofs proofs.TlsListProofs.
From Coq Require Import ZifyBool.

(* ---- message frame: handshake type byte + 3-byte block ---------------------------------------- *)
Lemma pull_block_tv {A} cap (body : Z -> list Z -> Res (A * list Z)) items v rest :
  fits_tv (TBlock cap items) = true ->
  body (Zlen (flat_seq items)) (flat_seq items ++ rest) = Ok (v, rest) ->
  pull_block cap body (flat_tv (TBlock cap items) ++ rest) = Ok (v, rest).
Proof.
  rewrite fits_block, flat_block, <- app_assoc. intros W B. apply andb_prop in W as [_ W].
  apply pull_block_enc; [lia|exact B].
Qed.

Lemma flat_int w v : flat_tv (TInt w v) = be_enc w v.
Proof. reflexivity. Qed.
Lemma flat_bytes b : flat_tv (TBytes b) = b.
Proof. reflexivity. Qed.
Lemma flat_seq_nil : flat_seq [] = [].
Proof. reflexivity. Qed.
Lemma fits_int w v : fits_tv (TInt w v) = true.
Proof. reflexivity. Qed.
Lemma fits_bytes b : fits_tv (TBytes b) = true.
Proof. reflexivity. Qed.
Lemma fits_seq_nil : fits_seq [] = true.
Proof. reflexivity. Qed.

Lemma message_enc {A} kind (body : list Z -> Res (A * list Z)) items v rest :
  0 <= kind < 256 -> fits_seq [TInt 1 kind; TBlock 3 items] = true ->
  body (flat_seq items ++ rest) = Ok (v, rest) ->
  ('(_, b0) <- pull_handshake_type kind (flat_seq [TInt 1 kind; TBlock 3 items] ++ rest) ;;
   pull_block 3 (fun _ b => body b) b0) = Ok (v, rest).
Proof.
  intros Hk W B. rewrite !fits_seq_cons in W. change (fits_tv (TInt 1 kind)) with true in W.
  change (fits_seq []) with true in W. rewrite andb_true_r in W. cbn [andb] in W.
  rewrite !flat_seq_cons, flat_seq_nil, app_nil_r, flat_int, <- app_assoc.
  unfold pull_handshake_type, pull_uint8. rewrite pull_be_roundtrip by exact Hk. cbn [bind].
  rewrite Z.eqb_refl. cbn [bind].
  apply pull_block_tv; [exact W|exact B].
Qed.

Definition u8b (v : Z) : bool := (0 <=? v) && (v <? 256).
Definition u16b (v : Z) : bool := (0 <=? v) && (v <? 65536).
Definition u32b (v : Z) : bool := (0 <=? v) && (v <? 2 ^ 32).

(* ================= CertificateVerify ================================================================= *)
Definition certificate_verify_wf (m : certificate_verify) : bool := u16b (cv_algorithm m).

Theorem certificate_verify_roundtrip m bytes rest : certificate_verify_wf m = true ->
  enc_seq (tree_certificate_verify m) = Ok bytes ->
  pull_certificate_verify (bytes ++ rest) = Ok (dump_certificate_verify m, rest).
Proof.
  intros Wf E. apply enc_seq_ok in E as [W ->]. destruct m as [alg sig].
  unfold certificate_verify_wf, u16b in Wf. cbn [cv_algorithm cv_signature] in *.
  unfold pull_certificate_verify, tree_certificate_verify, dump_certificate_verify in *.
  cbn [cv_algorithm cv_signature] in *.
  apply (message_enc 15 (fun b => '(alg, b1) <- pull_uint16 b ;; '(sig, b2) <- pull_opaque 2 b1 ;; Ok (alg :: out_bytes sig, b2)));
    [lia|exact W|].
  cbn [fits_seq forallb] in W. rewrite fits_block in W. cbn [fits_seq forallb] in W.
  change (fits_tv (TInt 1 15)) with true in W. change (fits_tv (TInt 2 alg)) with true in W.
  rewrite !flat_seq_cons, flat_seq_nil, app_nil_r, flat_int, <- app_assoc.
  unfold pull_uint16. rewrite pull_be_roundtrip by (change (256 ^ Z.of_nat 2) with 65536; lia). cbn [bind].
  rewrite pull_opaque_tv by lia. reflexivity.
Qed.

Example certificate_verify_example :
  certificate_verify_wf (mkCV 0x0804 (repeat 7 256)) = true /\
  exists bytes, enc_seq (tree_certificate_verify (mkCV 0x0804 (repeat 7 256))) = Ok bytes /\ Zlen bytes = 264.
Proof. split; [reflexivity|]. eexists. split; vm_compute; reflexivity. Qed.

(* ================= Certificate ========================================================================== *)
Theorem certificate_roundtrip m bytes rest :
  enc_seq (tree_certificate m) = Ok bytes ->
  pull_certificate (bytes ++ rest) = Ok (dump_certificate m, rest).
Proof.
  intros E. apply enc_seq_ok in E as [W ->]. destruct m as [ctx certs].
  unfold pull_certificate, tree_certificate, dump_certificate in *. cbn [cert_request_context cert_certificates] in *.
  apply (message_enc 11 (fun b => '(ctx, b1) <- pull_opaque 1 b ;; '(certs, b2) <- list_toks 3 item_certificate_entry b1 ;;
                                  Ok (out_bytes ctx ++ certs, b2))); [lia|exact W|].
  cbn [fits_seq forallb] in W. rewrite fits_block in W. cbn [fits_seq forallb] in W.
  change (fits_tv (TInt 1 11)) with true in W.
  rewrite !flat_seq_cons, flat_seq_nil, app_nil_r, <- app_assoc.
  rewrite pull_opaque_tv by lia. cbn [bind].
  rewrite cert_entries_enc by lia. reflexivity.
Qed.

Example certificate_example :
  exists bytes, enc_seq (tree_certificate (mkCert [1; 2] [(repeat 48 300, []); ([], [0; 5; 0; 0])])) = Ok bytes /\
                Zlen bytes = 324.
Proof. eexists. split; vm_compute; reflexivity. Qed.

(* ================= the extension loop on an encoded extension list ================================== *)
(* an extension as pushed: a known one (its body tree and the dump of the attribute it sets) or an
   entry of other_extensions *)
Inductive xspec :=
| XKnown (ty : Z) (body : list tv) (toks : list Z)
| XOther (ty : Z) (d : list Z).

Definition x_tree (x : xspec) : list tv :=
  match x with XKnown ty body _ => t_ext ty body | XOther ty d => t_ext ty [TBytes d] end.

Definition is41 (x : xspec) : bool := match x with XKnown ty _ _ => ty =? 41 | XOther _ _ => false end.

Definition x_step (ch : bool) (st : est) (x : xspec) : est :=
  match x with
  | XKnown ty _ toks => mkEst (known_set ty toks (e_known st)) (e_other st) (e_psk st || (ch && (ty =? 41)))
  | XOther ty d => mkEst (e_known st) (acc_add (e_other st) (ty :: out_bytes d)) (e_psk st)
  end.

Definition x_ok (parse : Z -> Z -> list Z -> option (Res (list Z * list Z))) (x : xspec) : Prop :=
  match x with
  | XKnown ty body toks =>
      0 <= ty < 65536 /\
      (fits_seq body = true -> forall len rest, parse ty len (flat_seq body ++ rest) = Some (Ok (toks, rest)))
  | XOther ty d => 0 <= ty < 65536 /\ forall len b, parse ty len b = None
  end.

Lemma flat_ext ty items : flat_seq (t_ext ty items) = be_enc 2 ty ++ be_enc 2 (Zlen (flat_seq items)) ++ flat_seq items.
Proof. unfold t_ext. now rewrite !flat_seq_cons, flat_seq_nil, app_nil_r, flat_int, flat_block. Qed.

Lemma fits_ext ty items : fits_seq (t_ext ty items) = fits_seq items && (Zlen (flat_seq items) <? 65536).
Proof. unfold t_ext. rewrite !fits_seq_cons, fits_block. cbn [fits_tv fits_seq forallb andb]. now rewrite andb_true_r. Qed.

Lemma ext_item_enc parse ch st x rest :
  x_ok parse x -> fits_seq (x_tree x) = true -> ch && e_psk st = false ->
  ext_item parse ch st (flat_seq (x_tree x) ++ rest) = Ok (x_step ch st x, rest).
Proof.
  intros Ok W P. unfold ext_item. rewrite P.
  destruct x as [ty body toks|ty d]; cbn [x_tree x_ok x_step] in *; rewrite fits_ext in W; rewrite flat_ext;
    apply andb_prop in W as [W1 W2]; destruct Ok as [Hty Hp]; repeat rewrite <- app_assoc; unfold pull_uint16.
  - pose proof (Zlen_nonneg (flat_seq body)) as Hb.
    rewrite pull_be_roundtrip by exact Hty. cbn [bind].
    rewrite pull_be_roundtrip by (change (256 ^ Z.of_nat 2) with 65536; lia). cbn [bind].
    rewrite (Hp W1). reflexivity.
  - rewrite flat_single, flat_bytes in *. pose proof (Zlen_nonneg d) as Hb.
    rewrite pull_be_roundtrip by exact Hty. cbn [bind].
    rewrite pull_be_roundtrip by (change (256 ^ Z.of_nat 2) with 65536; lia). cbn [bind].
    rewrite Hp. rewrite pull_bytes_app. reflexivity.
Qed.

(* pre_shared_key must be the last extension of a ClientHello *)
Fixpoint psk_order (ch p : bool) (xs : list xspec) : bool :=
  match xs with
  | [] => true
  | x :: t => negb (ch && p) && psk_order ch (p || (ch && is41 x)) t
  end.

Lemma x_step_psk ch st x : e_psk (x_step ch st x) = e_psk st || (ch && is41 x).
Proof. destruct x; cbn [x_step e_psk is41]; [reflexivity|]. now rewrite andb_false_r, orb_false_r. Qed.

Definition x_item_ok parse ch (st : est) (x : xspec) : Prop :=
  x_ok parse x /\ fits_seq (x_tree x) = true /\ ch && e_psk st = false.

Lemma ext_chain parse ch xs : Forall (x_ok parse) xs -> forallb (fun x => fits_seq (x_tree x)) xs = true ->
  forall st, psk_order ch (e_psk st) xs = true ->
  chain (x_step ch) (x_item_ok parse ch) st xs.
Proof.
  induction 1 as [|x t Hx _ IH]; intros W st P; cbn [chain]; [exact I|].
  cbn [forallb psk_order] in *. apply andb_prop in W as [W1 W2]. apply andb_prop in P as [P1 P2].
  split; [split; [exact Hx|split; [exact W1|]]|].
  - destruct (ch && e_psk st); [discriminate|reflexivity].
  - apply IH; [exact W2|]. rewrite x_step_psk. exact P2.
Qed.

Lemma x_tree_nonempty x : (1 <= length (flat_seq (x_tree x)))%nat.
Proof. destruct x; cbn [x_tree]; rewrite flat_ext, app_length, be_enc_length; lia. Qed.

Theorem pull_extensions_enc parse ch xs rest :
  Forall (x_ok parse) xs -> psk_order ch false xs = true ->
  fits_tv (TBlock 2 (flat_map x_tree xs)) = true ->
  pull_extensions parse ch (flat_tv (TBlock 2 (flat_map x_tree xs)) ++ rest)
  = Ok (fold_left (x_step ch) xs est0, rest).
Proof.
  intros F P W. rewrite fits_block in W. apply andb_prop in W as [W1 W2].
  rewrite fits_seq_flat_map in W1. rewrite flat_block, flat_seq_flat_map in *.
  unfold pull_extensions. rewrite <- app_assoc.
  apply (pull_list_enc (ext_item parse ch) (fun x => flat_seq (x_tree x)) (x_step ch) (x_item_ok parse ch)).
  - intros st x r (H1 & H2 & H3). now apply ext_item_enc.
  - intros st x _. apply x_tree_nonempty.
  - apply ext_chain; assumption.
  - lia.
Qed.

Lemma psk_order_false p xs : psk_order false p xs = true.
Proof. revert p. induction xs as [|x t IH]; intros p; cbn [psk_order andb negb]; auto. Qed.

(* ---- other_extensions ----------------------------------------------------------------------------- *)
Definition x_others (l : list ext) : list xspec := map (fun e => XOther (fst e) (snd e)) l.

Lemma x_tree_others l : flat_map x_tree (x_others l) = t_others l.
Proof.
  induction l as [|e t IH]; [reflexivity|]. unfold x_others, t_others in *. cbn [map flat_map x_tree]. now rewrite IH.
Qed.

Lemma fold_others ch l : forall st,
  fold_left (x_step ch) (x_others l) st =
  mkEst (e_known st) (fst (e_other st) + Zlen l, snd (e_other st) ++ flat_map dump_ext l) (e_psk st).
Proof.
  induction l as [|e t IH]; intros [k [n toks] p]; cbn [x_others map fold_left e_known e_other e_psk fst snd flat_map].
  - change (Zlen (@nil ext)) with 0. now rewrite Z.add_0_r, app_nil_r.
  - fold (x_others t). rewrite IH. cbn [x_step e_known e_other e_psk acc_add fst snd dump_ext].
    rewrite Zlen_cons, <- app_assoc. f_equal. f_equal. lia.
Qed.

Lemma psk_order_others ch p l : ch && p = false -> psk_order ch p (x_others l) = true.
Proof.
  intros H. induction l as [|e t IH]; [reflexivity|]. cbn [x_others map psk_order is41].
  rewrite H, andb_false_r, orb_false_r. exact IH.
Qed.

(* an other_extensions entry: 16-bit type that no known-extension branch of the decoder takes *)
Definition ext_wf (known : list Z) (e : ext) : bool :=
  u16b (fst e) && negb (existsb (Z.eqb (fst e)) known).

Lemma others_ok parse known l :
  (forall ty len b, existsb (Z.eqb ty) known = false -> parse ty len b = None) ->
  forallb (ext_wf known) l = true -> Forall (x_ok parse) (x_others l).
Proof.
  intros Hp W. induction l as [|e t IH]; [constructor|].
  cbn [forallb] in W. apply andb_prop in W as [We Wt]. unfold ext_wf, u16b in We.
  apply andb_prop in We as [We1 We2].
  constructor; [|exact (IH Wt)]. cbn [x_ok]. split; [lia|].
  intros len b. apply Hp. destruct (existsb (Z.eqb (fst e)) known); [discriminate We2|reflexivity].
Qed.

Definition xo {A} (f : A -> xspec) (o : option A) : list xspec := match o with Some a => [f a] | None => [] end.

Lemma Forall_xo {A} (P : xspec -> Prop) (f : A -> xspec) o :
  (forall a, o = Some a -> P (f a)) -> Forall P (xo f o).
Proof. destruct o as [a|]; cbn [xo]; [constructor; [auto|constructor]|constructor]. Qed.

Definition opt_b {A} (f : A -> bool) (o : option A) : bool := match o with Some a => f a | None => true end.

Ltac u16_bound := change (256 ^ Z.of_nat 2) with 65536; lia.
Ltac u8_bound := change (256 ^ Z.of_nat 1) with 256; lia.
Ltac u32_bound := change (256 ^ Z.of_nat 4) with (2 ^ 32); lia.

(* legacy_version, random, legacy_session_id: common to both hellos *)
Lemma hello_prefix_enc random sid rest : Zlen random = 32 -> fits_tv (t_opaque 1 sid) = true ->
  hello_prefix (be_enc 2 0x0303 ++ random ++ flat_tv (t_opaque 1 sid) ++ rest)
  = Ok (out_bytes random ++ out_bytes sid, rest).
Proof.
  intros Hr W. unfold hello_prefix, pull_uint16.
  rewrite pull_be_roundtrip by u16_bound. cbn [bind Z.eqb Pos.eqb negb].
  rewrite <- Hr. rewrite pull_bytes_app. cbn [bind].
  rewrite pull_opaque_tv by exact W. reflexivity.
Qed.

(* ================= ServerHello =========================================================================== *)
Definition sh_xs (m : server_hello) : list xspec :=
  xo (fun v => XKnown 43 [TInt 2 v] [v]) (sh_supported_version m) ++
  xo (fun k => XKnown 51 (t_ks k) (dump_ext k)) (sh_key_share m) ++
  xo (fun v => XKnown 41 [TInt 2 v] [v]) (sh_pre_shared_key m) ++
  x_others (sh_other_extensions m).

Lemma sh_exts_xs m : sh_exts m = flat_map x_tree (sh_xs m).
Proof.
  unfold sh_exts, sh_xs. rewrite !flat_map_app, x_tree_others.
  destruct (sh_supported_version m), (sh_key_share m), (sh_pre_shared_key m); reflexivity.
Qed.

(* integer fields in range, 32-byte random, other_extensions do not reuse a type the decoder knows *)
Definition server_hello_wf (m : server_hello) : bool :=
  (Zlen (sh_random m) =? 32) && u16b (sh_cipher_suite m) && u8b (sh_compression_method m) &&
  opt_b u16b (sh_supported_version m) && opt_b (fun k => u16b (fst k)) (sh_key_share m) &&
  opt_b u16b (sh_pre_shared_key m) && forallb (ext_wf [43; 51; 41]) (sh_other_extensions m).

Lemma sh_uint16_ext ty v : (ty = 43 \/ ty = 41) -> 0 <= v < 65536 ->
  x_ok parse_server_hello_ext (XKnown ty [TInt 2 v] [v]).
Proof.
  intros Hty Hv. cbn [x_ok]. split; [lia|]. intros _ len rest.
  rewrite flat_single, flat_int. unfold parse_server_hello_ext, pull_uint16.
  destruct Hty as [-> | ->]; cbn [Z.eqb Pos.eqb]; rewrite pull_be_roundtrip by u16_bound; reflexivity.
Qed.

Lemma sh_xs_ok m : server_hello_wf m = true -> Forall (x_ok parse_server_hello_ext) (sh_xs m).
Proof.
  intros Wf. unfold server_hello_wf, u16b, u8b in Wf. unfold sh_xs.
  repeat (apply Forall_app; split).
  - apply Forall_xo. intros v Hv. rewrite Hv in Wf. cbn [opt_b] in Wf. apply sh_uint16_ext; lia.
  - apply Forall_xo. intros k Hk. rewrite Hk in Wf. cbn [opt_b] in Wf. cbn [x_ok]. split; [lia|].
    intros Wk len rest. unfold parse_server_hello_ext. cbn [Z.eqb Pos.eqb].
    rewrite pull_key_share_enc; [reflexivity|unfold ks_ok; lia|exact Wk].
  - apply Forall_xo. intros v Hv. rewrite Hv in Wf. cbn [opt_b] in Wf. apply sh_uint16_ext; lia.
  - apply (others_ok _ [43; 51; 41]); [|lia].
    intros ty len b H. cbn [existsb] in H. unfold parse_server_hello_ext.
    destruct (ty =? 43); [discriminate H|]. destruct (ty =? 51); [discriminate H|].
    destruct (ty =? 41); [discriminate H|]. reflexivity.
Qed.

Lemma sh_out_est m :
  out_est SH_ORDER (fold_left (x_step false) (sh_xs m) est0) =
  dump_opt (fun v => [v]) (sh_supported_version m) ++ dump_opt dump_ext (sh_key_share m) ++
  dump_opt (fun v => [v]) (sh_pre_shared_key m) ++ dump_list dump_ext (sh_other_extensions m).
Proof.
  unfold sh_xs. rewrite !fold_left_app, fold_others.
  destruct (sh_supported_version m), (sh_key_share m), (sh_pre_shared_key m);
    cbn; repeat rewrite <- app_assoc; reflexivity.
Qed.

Theorem server_hello_roundtrip m bytes rest : server_hello_wf m = true ->
  enc_seq (tree_server_hello m) = Ok bytes ->
  pull_server_hello (bytes ++ rest) = Ok (dump_server_hello m, rest).
Proof.
  intros Wf E. apply enc_seq_ok in E as [W ->].
  pose proof (sh_xs_ok m Wf) as Hxs. pose proof (sh_out_est m) as Hout.
  unfold server_hello_wf, u16b, u8b in Wf.
  unfold pull_server_hello, tree_server_hello, dump_server_hello in *.
  apply (message_enc 2 (fun b =>
           '(pre, b1) <- hello_prefix b ;; '(cs, b2) <- pull_uint16 b1 ;; '(cm, b3) <- pull_uint8 b2 ;;
           '(st, b4) <- pull_extensions parse_server_hello_ext false b3 ;;
           Ok (pre ++ [cs; cm] ++ out_est SH_ORDER st, b4))); [lia|exact W|].
  rewrite !fits_seq_cons, fits_block, !fits_seq_cons, !fits_int, fits_bytes, fits_seq_nil in W.
  rewrite !flat_seq_cons, flat_seq_nil, !flat_int, flat_bytes, app_nil_r. repeat rewrite <- app_assoc.
  rewrite hello_prefix_enc by lia. cbn [bind].
  unfold pull_uint16, pull_uint8.
  rewrite pull_be_roundtrip by u16_bound. cbn [bind].
  rewrite pull_be_roundtrip by u8_bound. cbn [bind].
  rewrite sh_exts_xs in *.
  rewrite pull_extensions_enc; [|exact Hxs|apply psk_order_false|lia].
  cbn [bind]. rewrite Hout. repeat rewrite <- app_assoc. reflexivity.
Qed.

Example server_hello_example :
  let m := mkSH (repeat 7 32) (repeat 9 32) 0x1301 0 (Some 0x0304) (Some (0x001D, repeat 1 32)) (Some 0)
                [(0xFFA5, [1; 2; 3])] in
  server_hello_wf m = true /\ exists bytes, enc_seq (tree_server_hello m) = Ok bytes /\ Zlen bytes = 135.
Proof. split; [reflexivity|]. eexists. split; vm_compute; reflexivity. Qed.

Ltac none_by_known H :=
  cbn [existsb] in H;
  repeat match goal with |- context [if ?c then _ else _] => destruct c; [discriminate H|] end;
  reflexivity.

Lemma Forall_u16 l : forallb u16b l = true -> Forall (u_ok 2) l.
Proof.
  intros H. apply Forall_forall. intros v Hv. rewrite forallb_forall in H. specialize (H v Hv).
  unfold u16b in H. unfold u_ok. u16_bound.
Qed.

Lemma Forall_u8 l : forallb u8b l = true -> Forall (u_ok 1) l.
Proof.
  intros H. apply Forall_forall. intros v Hv. rewrite forallb_forall in H. specialize (H v Hv).
  unfold u8b in H. unfold u_ok. u8_bound.
Qed.

(* ================= NewSessionTicket ========================================================================= *)
Definition nst_xs (m : new_session_ticket) : list xspec :=
  xo (fun v => XKnown 42 [TInt 4 v] [v]) (nst_max_early_data_size m) ++ x_others (nst_other_extensions m).

Lemma nst_exts_xs m : nst_exts m = flat_map x_tree (nst_xs m).
Proof.
  unfold nst_exts, nst_xs. rewrite !flat_map_app, x_tree_others.
  destruct (nst_max_early_data_size m); reflexivity.
Qed.

Definition new_session_ticket_wf (m : new_session_ticket) : bool :=
  u32b (nst_lifetime m) && u32b (nst_age_add m) && opt_b u32b (nst_max_early_data_size m) &&
  forallb (ext_wf [42]) (nst_other_extensions m).

Lemma nst_xs_ok m : new_session_ticket_wf m = true -> Forall (x_ok parse_nst_ext) (nst_xs m).
Proof.
  intros Wf. unfold new_session_ticket_wf, u32b in Wf. unfold nst_xs.
  repeat (apply Forall_app; split).
  - apply Forall_xo. intros v Hv. rewrite Hv in Wf. cbn [opt_b] in Wf. cbn [x_ok]. split; [lia|].
    intros _ len rest. rewrite flat_single, flat_int. unfold parse_nst_ext, pull_uint32. cbn [Z.eqb Pos.eqb].
    rewrite pull_be_roundtrip by u32_bound. reflexivity.
  - apply (others_ok _ [42]); [|lia].
    intros ty len b H. unfold parse_nst_ext. none_by_known H.
Qed.

Lemma nst_out_est m :
  out_est NST_ORDER (fold_left (x_step false) (nst_xs m) est0) =
  dump_opt (fun v => [v]) (nst_max_early_data_size m) ++ dump_list dump_ext (nst_other_extensions m).
Proof.
  unfold nst_xs. rewrite !fold_left_app, fold_others.
  destruct (nst_max_early_data_size m); cbn; repeat rewrite <- app_assoc; reflexivity.
Qed.

Theorem new_session_ticket_roundtrip m bytes rest : new_session_ticket_wf m = true ->
  enc_seq (tree_new_session_ticket m) = Ok bytes ->
  pull_new_session_ticket (bytes ++ rest) = Ok (dump_new_session_ticket m, rest).
Proof.
  intros Wf E. apply enc_seq_ok in E as [W ->].
  pose proof (nst_xs_ok m Wf) as Hxs. pose proof (nst_out_est m) as Hout.
  unfold new_session_ticket_wf, u32b in Wf.
  unfold pull_new_session_ticket, tree_new_session_ticket, dump_new_session_ticket in *.
  apply (message_enc 4 (fun b =>
           '(lt, b1) <- pull_uint32 b ;; '(aa, b2) <- pull_uint32 b1 ;; '(nonce, b3) <- pull_opaque 1 b2 ;;
           '(ticket, b4) <- pull_opaque 2 b3 ;; '(st, b5) <- pull_extensions parse_nst_ext false b4 ;;
           Ok ([lt; aa] ++ out_bytes nonce ++ out_bytes ticket ++ out_est NST_ORDER st, b5))); [lia|exact W|].
  rewrite !fits_seq_cons, fits_block, !fits_seq_cons, !fits_int, fits_seq_nil in W.
  rewrite !flat_seq_cons, flat_seq_nil, !flat_int, app_nil_r. repeat rewrite <- app_assoc.
  unfold pull_uint32.
  rewrite pull_be_roundtrip by u32_bound. cbn [bind].
  rewrite pull_be_roundtrip by u32_bound. cbn [bind].
  rewrite pull_opaque_tv by lia. cbn [bind].
  rewrite pull_opaque_tv by lia. cbn [bind].
  rewrite nst_exts_xs in *.
  rewrite pull_extensions_enc; [|exact Hxs|apply psk_order_false|lia].
  cbn [bind]. rewrite Hout. repeat rewrite <- app_assoc. reflexivity.
Qed.

Example new_session_ticket_example :
  let m := mkNST 86400 4294967295 [1; 2; 3; 4; 5; 6; 7; 8] (repeat 90 700) (Some 4294967295) [(57, [0; 1])] in
  new_session_ticket_wf m = true /\ exists bytes, enc_seq (tree_new_session_ticket m) = Ok bytes /\ Zlen bytes = 739.
Proof. split; [reflexivity|]. eexists. split; vm_compute; reflexivity. Qed.

(* ================= CertificateRequest =========================================================================== *)
Definition cr_xs (m : certificate_request) : list xspec :=
  [XKnown 13 [t_uints 2 2 (cr_signature_algorithms m)] (dump_ints (cr_signature_algorithms m))] ++
  x_others (cr_other_extensions m).

Lemma cr_exts_xs m : cr_exts m = flat_map x_tree (cr_xs m).
Proof. unfold cr_exts, cr_xs. rewrite !flat_map_app, x_tree_others. reflexivity. Qed.

Definition certificate_request_wf (m : certificate_request) : bool :=
  forallb u16b (cr_signature_algorithms m) && forallb (ext_wf [13]) (cr_other_extensions m).

Lemma cr_xs_ok m : certificate_request_wf m = true -> Forall (x_ok parse_cr_ext) (cr_xs m).
Proof.
  intros Wf. unfold certificate_request_wf in Wf. apply andb_prop in Wf as [W1 W2]. unfold cr_xs.
  apply Forall_app; split.
  - constructor; [|constructor]. cbn [x_ok]. split; [lia|].
    intros Wk len rest. rewrite flat_single. rewrite fits_single in Wk.
    unfold parse_cr_ext. cbn [Z.eqb Pos.eqb].
    rewrite uints_enc; [reflexivity|lia|now apply Forall_u16|exact Wk].
  - apply (others_ok _ [13]); [|exact W2].
    intros ty len b H. unfold parse_cr_ext. none_by_known H.
Qed.

Lemma cr_out_est m :
  out_est CR_ORDER (fold_left (x_step false) (cr_xs m) est0) =
  (1 :: dump_ints (cr_signature_algorithms m)) ++ dump_list dump_ext (cr_other_extensions m).
Proof.
  unfold cr_xs. rewrite !fold_left_app, fold_others. cbn. repeat rewrite <- app_assoc. reflexivity.
Qed.

Theorem certificate_request_roundtrip m bytes rest : certificate_request_wf m = true ->
  enc_seq (tree_certificate_request m) = Ok bytes ->
  pull_certificate_request (bytes ++ rest) = Ok (dump_certificate_request m, rest).
Proof.
  intros Wf E. apply enc_seq_ok in E as [W ->].
  pose proof (cr_xs_ok m Wf) as Hxs. pose proof (cr_out_est m) as Hout.
  unfold pull_certificate_request, tree_certificate_request, dump_certificate_request in *.
  apply (message_enc 13 (fun b =>
           '(ctx, b1) <- pull_opaque 1 b ;; '(st, b2) <- pull_extensions parse_cr_ext false b1 ;;
           Ok (out_bytes ctx ++ out_est CR_ORDER st, b2))); [lia|exact W|].
  rewrite !fits_seq_cons, fits_block, !fits_seq_cons, !fits_int, fits_seq_nil in W.
  rewrite !flat_seq_cons, flat_seq_nil, app_nil_r. repeat rewrite <- app_assoc.
  rewrite pull_opaque_tv by lia. cbn [bind].
  rewrite cr_exts_xs in *.
  rewrite pull_extensions_enc; [|exact Hxs|apply psk_order_false|lia].
  cbn [bind]. rewrite Hout. repeat rewrite <- app_assoc. reflexivity.
Qed.

Example certificate_request_example :
  let m := mkCR [1; 2; 3; 4] [0x0403; 0x0804; 0x0401] [(27, [2; 0; 2])] in
  certificate_request_wf m = true /\ exists bytes, enc_seq (tree_certificate_request m) = Ok bytes /\ Zlen bytes = 30.
Proof. split; [reflexivity|]. eexists. split; vm_compute; reflexivity. Qed.

(* ================= EncryptedExtensions ============================================================================ *)
Definition ee_xs (m : encrypted_extensions) : list xspec :=
  xo (fun a => XKnown 16 [t_opaques 2 1 [a]] (out_bytes a)) (ee_alpn_protocol m) ++
  (if ee_early_data m then [XKnown 42 [] []] else []) ++ x_others (ee_other_extensions m).

Lemma ee_exts_xs m : ee_exts m = flat_map x_tree (ee_xs m).
Proof.
  unfold ee_exts, ee_xs. rewrite !flat_map_app, x_tree_others.
  destruct (ee_alpn_protocol m), (ee_early_data m); reflexivity.
Qed.

(* the ALPN protocol name is ASCII (push: str.encode("ascii")) *)
Definition encrypted_extensions_wf (m : encrypted_extensions) : bool :=
  opt_b is_ascii (ee_alpn_protocol m) && forallb (ext_wf [16; 42]) (ee_other_extensions m).

Lemma ztake_app_exact {A} (a b : list A) : ztake (Zlen a) (a ++ b) = a.
Proof. unfold ztake, Zlen. rewrite Nat2Z.id. apply firstn_app_exact. Qed.

Lemma ee_alpn_ext a : is_ascii a = true -> x_ok parse_ee_ext (XKnown 16 [t_opaques 2 1 [a]] (out_bytes a)).
Proof.
  intros Ha. cbn [x_ok]. split; [lia|]. intros Wk len rest.
  rewrite flat_single. rewrite fits_single in Wk.
  unfold parse_ee_ext. cbn [Z.eqb Pos.eqb].
  pose proof (alpns_enc [a] rest (Forall_cons a Ha (Forall_nil _)) Wk) as L.
  unfold list_toks in L.
  destruct (pull_list 2 item_alpn acc0 (flat_tv (t_opaques 2 1 [a]) ++ rest)) as [[[n toks] r]|k] eqn:E;
    cbn [bind] in L; [|discriminate L].
  injection L as -> -> ->. cbn [bind fst snd flat_map app].
  change (Zlen [a]) with 1. cbn [Z.eqb]. unfold out_bytes at 1. cbn [app].
  rewrite ztake_app_exact. reflexivity.
Qed.

Lemma ee_xs_ok m : encrypted_extensions_wf m = true -> Forall (x_ok parse_ee_ext) (ee_xs m).
Proof.
  intros Wf. unfold encrypted_extensions_wf in Wf. apply andb_prop in Wf as [W1 W2]. unfold ee_xs.
  repeat (apply Forall_app; split).
  - apply Forall_xo. intros a Ha. rewrite Ha in W1. cbn [opt_b] in W1. now apply ee_alpn_ext.
  - destruct (ee_early_data m); [|constructor]. constructor; [|constructor].
    cbn [x_ok]. split; [lia|]. intros _ len rest. reflexivity.
  - apply (others_ok _ [16; 42]); [|exact W2].
    intros ty len b H. unfold parse_ee_ext. none_by_known H.
Qed.

Lemma ee_out_est m :
  out_est EE_ORDER (fold_left (x_step false) (ee_xs m) est0) =
  dump_opt out_bytes (ee_alpn_protocol m) ++ dump_flag (ee_early_data m) ++ dump_list dump_ext (ee_other_extensions m).
Proof.
  unfold ee_xs. rewrite !fold_left_app, fold_others.
  destruct (ee_alpn_protocol m), (ee_early_data m); cbn; repeat rewrite <- app_assoc; reflexivity.
Qed.

Theorem encrypted_extensions_roundtrip m bytes rest : encrypted_extensions_wf m = true ->
  enc_seq (tree_encrypted_extensions m) = Ok bytes ->
  pull_encrypted_extensions (bytes ++ rest) = Ok (dump_encrypted_extensions m, rest).
Proof.
  intros Wf E. apply enc_seq_ok in E as [W ->].
  pose proof (ee_xs_ok m Wf) as Hxs. pose proof (ee_out_est m) as Hout.
  unfold pull_encrypted_extensions, tree_encrypted_extensions, dump_encrypted_extensions in *.
  apply (message_enc 8 (fun b =>
           '(st, b1) <- pull_extensions parse_ee_ext false b ;; Ok (out_est EE_ORDER st, b1))); [lia|exact W|].
  rewrite !fits_seq_cons, fits_block, !fits_seq_cons, !fits_int, fits_seq_nil in W.
  rewrite !flat_seq_cons, flat_seq_nil, app_nil_r.
  rewrite ee_exts_xs in *.
  rewrite pull_extensions_enc; [|exact Hxs|apply psk_order_false|lia].
  cbn [bind]. rewrite Hout. reflexivity.
Qed.

Example encrypted_extensions_example :
  let m := mkEE (Some [104; 51]) true [(57, repeat 3 40)] in
  encrypted_extensions_wf m = true /\ exists bytes, enc_seq (tree_encrypted_extensions m) = Ok bytes /\ Zlen bytes = 63.
Proof. split; [reflexivity|]. eexists. split; vm_compute; reflexivity. Qed.

(* ================= ClientHello ========================================================================================= *)
Definition dump_psks (p : list (list Z * Z) * list (list Z)) : list Z :=
  dump_list dump_psk_identity (fst p) ++ dump_list out_bytes (snd p).

Definition ch_xs (m : client_hello) : list xspec :=
  [XKnown 51 [TBlock 2 (flat_map t_ks (ch_key_share m))] (dump_list dump_ext (ch_key_share m));
   XKnown 43 [t_uints 1 2 (ch_supported_versions m)] (dump_ints (ch_supported_versions m));
   XKnown 13 [t_uints 2 2 (ch_signature_algorithms m)] (dump_ints (ch_signature_algorithms m));
   XKnown 10 [t_uints 2 2 (ch_supported_groups m)] (dump_ints (ch_supported_groups m))] ++
  xo (fun l => XKnown 45 [t_uints 1 1 l] (dump_ints l)) (ch_psk_key_exchange_modes m) ++
  xo (fun n => XKnown 0 [TBlock 2 [TInt 1 0; t_opaque 2 n]] (out_bytes n)) (ch_server_name m) ++
  xo (fun l => XKnown 16 [t_opaques 2 1 l] (dump_list out_bytes l)) (ch_alpn_protocols m) ++
  x_others (ch_other_extensions m) ++
  (if ch_early_data m then [XKnown 42 [] []] else []) ++
  xo (fun p => XKnown 41 (t_offered_psks p) (dump_psks p)) (ch_pre_shared_key m).

Lemma ch_exts_xs m : ch_exts m = flat_map x_tree (ch_xs m).
Proof.
  unfold ch_exts, ch_xs. rewrite !flat_map_app, x_tree_others.
  destruct (ch_psk_key_exchange_modes m), (ch_server_name m), (ch_alpn_protocols m), (ch_early_data m),
           (ch_pre_shared_key m); reflexivity.
Qed.

(* integer fields in range, 32-byte random, ASCII names, other_extensions do not reuse a known type *)
Definition client_hello_wf (m : client_hello) : bool :=
  (Zlen (ch_random m) =? 32) && forallb u16b (ch_cipher_suites m) && forallb u8b (ch_compression_methods m) &&
  forallb (fun k => u16b (fst k)) (ch_key_share m) && forallb u16b (ch_supported_versions m) &&
  forallb u16b (ch_signature_algorithms m) && forallb u16b (ch_supported_groups m) &&
  opt_b (forallb u8b) (ch_psk_key_exchange_modes m) && opt_b is_ascii (ch_server_name m) &&
  opt_b (forallb is_ascii) (ch_alpn_protocols m) &&
  opt_b (fun p => forallb (fun i => u32b (snd i)) (fst p)) (ch_pre_shared_key m) &&
  forallb (ext_wf CH_ORDER) (ch_other_extensions m).

Lemma pull_server_name_enc n rest : is_ascii n = true -> fits_tv (TBlock 2 [TInt 1 0; t_opaque 2 n]) = true ->
  pull_server_name (flat_tv (TBlock 2 [TInt 1 0; t_opaque 2 n]) ++ rest) = Ok (n, rest).
Proof.
  intros Ha W. unfold pull_server_name. apply pull_block_tv; [exact W|].
  rewrite fits_block, !fits_seq_cons, fits_int, fits_seq_nil in W.
  rewrite !flat_seq_cons, flat_seq_nil, flat_int, app_nil_r. repeat rewrite <- app_assoc.
  unfold pull_uint8. rewrite pull_be_roundtrip by u8_bound. cbn [bind Z.eqb negb].
  rewrite pull_opaque_tv by lia. cbn [bind]. now rewrite Ha.
Qed.

Lemma ch_uints_ext ty cap w l toks_ok :
  (forall len b, parse_client_hello_ext ty len b = Some (list_toks cap (item_uint w) b)) ->
  0 <= ty < 65536 -> (1 <= w)%nat -> Forall (u_ok w) l -> toks_ok = dump_ints l ->
  x_ok parse_client_hello_ext (XKnown ty [t_uints cap w l] toks_ok).
Proof.
  intros Hp Hty Hw F ->. cbn [x_ok]. split; [exact Hty|]. intros Wk len rest.
  rewrite flat_single. rewrite fits_single in Wk. rewrite Hp.
  rewrite uints_enc; [reflexivity|exact Hw|exact F|exact Wk].
Qed.

Lemma Forall_of_forallb {A} (f : A -> bool) (P : A -> Prop) l :
  (forall a, f a = true -> P a) -> forallb f l = true -> Forall P l.
Proof.
  intros H W. apply Forall_forall. intros a Ha. rewrite forallb_forall in W. auto.
Qed.

Lemma ch_wf_parts m : client_hello_wf m = true ->
  Zlen (ch_random m) = 32 /\ forallb u16b (ch_cipher_suites m) = true /\
  forallb u8b (ch_compression_methods m) = true /\
  forallb (fun k : ext => u16b (fst k)) (ch_key_share m) = true /\
  forallb u16b (ch_supported_versions m) = true /\ forallb u16b (ch_signature_algorithms m) = true /\
  forallb u16b (ch_supported_groups m) = true /\ opt_b (forallb u8b) (ch_psk_key_exchange_modes m) = true /\
  opt_b is_ascii (ch_server_name m) = true /\ opt_b (forallb is_ascii) (ch_alpn_protocols m) = true /\
  opt_b (fun p : list (list Z * Z) * list (list Z) => forallb (fun i => u32b (snd i)) (fst p)) (ch_pre_shared_key m) = true /\
  forallb (ext_wf CH_ORDER) (ch_other_extensions m) = true.
Proof.
  unfold client_hello_wf. rewrite !andb_true_iff, Z.eqb_eq. tauto.
Qed.

Lemma u16_lit ty : u16b ty = true -> 0 <= ty < 65536.
Proof. unfold u16b. lia. Qed.

Lemma ch_xs_ok m : client_hello_wf m = true -> Forall (x_ok parse_client_hello_ext) (ch_xs m).
Proof.
  intros Wf. destruct (ch_wf_parts m Wf) as (Hr & Hcs & Hcm & Hks & Hsv & Hsa & Hsg & Hmo & Hsn & Hal & Hpsk & Hot).
  clear Wf. unfold ch_xs. repeat (apply Forall_app; split).
  - constructor; [|constructor; [|constructor; [|constructor; [|constructor]]]].
    + cbn [x_ok]. split; [apply u16_lit; reflexivity|].
      intros Wk len rest. rewrite flat_single. rewrite fits_single in Wk.
      unfold parse_client_hello_ext. cbn [Z.eqb Pos.eqb].
      rewrite key_shares_enc; [reflexivity| |exact Wk].
      apply (Forall_of_forallb (fun k : ext => u16b (fst k)) ks_ok); [|exact Hks].
      intros k H. clear - H. unfold ks_ok, u16b in *. lia.
    + apply (ch_uints_ext 43 1 2); [reflexivity|apply u16_lit; reflexivity|apply le_S, le_n|now apply Forall_u16|reflexivity].
    + apply (ch_uints_ext 13 2 2); [reflexivity|apply u16_lit; reflexivity|apply le_S, le_n|now apply Forall_u16|reflexivity].
    + apply (ch_uints_ext 10 2 2); [reflexivity|apply u16_lit; reflexivity|apply le_S, le_n|now apply Forall_u16|reflexivity].
  - apply Forall_xo. intros l Hl. rewrite Hl in Hmo. cbn [opt_b] in Hmo.
    apply (ch_uints_ext 45 1 1); [reflexivity|apply u16_lit; reflexivity|apply le_n|now apply Forall_u8|reflexivity].
  - apply Forall_xo. intros n Hn. rewrite Hn in Hsn. cbn [opt_b] in Hsn.
    cbn [x_ok]. split; [apply u16_lit; reflexivity|].
    intros Wk len rest. rewrite flat_single. rewrite fits_single in Wk.
    unfold parse_client_hello_ext. cbn [Z.eqb Pos.eqb].
    rewrite pull_server_name_enc by assumption. reflexivity.
  - apply Forall_xo. intros l Hl. rewrite Hl in Hal. cbn [opt_b] in Hal.
    cbn [x_ok]. split; [apply u16_lit; reflexivity|].
    intros Wk len rest. rewrite flat_single. rewrite fits_single in Wk.
    unfold parse_client_hello_ext. cbn [Z.eqb Pos.eqb].
    rewrite alpns_enc; [reflexivity| |exact Wk].
    apply (Forall_of_forallb is_ascii alpn_ok); [|exact Hal]. intros d H. exact H.
  - apply (others_ok _ CH_ORDER); [|exact Hot].
    intros ty len b H. unfold CH_ORDER in H. unfold parse_client_hello_ext. none_by_known H.
  - destruct (ch_early_data m); [|constructor]. constructor; [|constructor].
    cbn [x_ok]. split; [apply u16_lit; reflexivity|]. intros _ len rest. reflexivity.
  - apply Forall_xo. intros p Hp. rewrite Hp in Hpsk. cbn [opt_b] in Hpsk.
    cbn [x_ok]. split; [apply u16_lit; reflexivity|].
    intros Wk len rest. unfold t_offered_psks in *.
    rewrite !fits_seq_cons, fits_seq_nil, andb_true_r in Wk. apply andb_prop in Wk as [Wk1 Wk2].
    rewrite !flat_seq_cons, flat_seq_nil, app_nil_r, <- app_assoc.
    unfold parse_client_hello_ext. cbn [Z.eqb Pos.eqb].
    rewrite psk_identities_enc; [| |exact Wk1].
    + cbn [bind]. rewrite opaques_enc; [reflexivity|apply le_n|exact Wk2].
    + apply (Forall_of_forallb (fun i : list Z * Z => u32b (snd i)) pskid_ok); [|exact Hpsk].
      intros i H. clear - H. unfold pskid_ok, u32b in *. lia.
Qed.

Lemma psk_order_app ch xs : forall p ys,
  psk_order ch p (xs ++ ys) = psk_order ch p xs && psk_order ch (p || (ch && existsb is41 xs)) ys.
Proof.
  induction xs as [|x t IH]; intros p ys; cbn [app psk_order existsb].
  - now rewrite andb_false_r, orb_false_r.
  - rewrite IH. rewrite <- andb_assoc. f_equal. f_equal. f_equal.
    destruct p, ch, (is41 x), (existsb is41 t); reflexivity.
Qed.

Lemma no41_others l : existsb is41 (x_others l) = false.
Proof. induction l as [|e t IH]; [reflexivity|]. cbn [x_others map existsb is41 orb]. exact IH. Qed.

Lemma ch_psk_order m : psk_order true false (ch_xs m) = true.
Proof.
  unfold ch_xs.
  destruct (ch_psk_key_exchange_modes m), (ch_server_name m), (ch_alpn_protocols m);
    cbn [xo app psk_order is41 Z.eqb Pos.eqb andb orb negb];
    rewrite psk_order_app, psk_order_others, no41_others by reflexivity;
    destruct (ch_early_data m), (ch_pre_shared_key m); reflexivity.
Qed.

Lemma ch_out_est m :
  out_est CH_ORDER (fold_left (x_step true) (ch_xs m) est0) =
  (1 :: dump_list dump_ext (ch_key_share m)) ++ (1 :: dump_ints (ch_supported_versions m)) ++
  (1 :: dump_ints (ch_signature_algorithms m)) ++ (1 :: dump_ints (ch_supported_groups m)) ++
  dump_opt dump_ints (ch_psk_key_exchange_modes m) ++ dump_opt out_bytes (ch_server_name m) ++
  dump_opt (dump_list out_bytes) (ch_alpn_protocols m) ++ dump_flag (ch_early_data m) ++
  dump_opt dump_psks (ch_pre_shared_key m) ++ dump_list dump_ext (ch_other_extensions m).
Proof.
  unfold ch_xs. rewrite !fold_left_app, fold_others.
  destruct (ch_psk_key_exchange_modes m), (ch_server_name m), (ch_alpn_protocols m), (ch_early_data m),
           (ch_pre_shared_key m); cbn; repeat (cbn [app]; rewrite <- app_assoc); cbn [app]; rewrite ?app_nil_r;
    reflexivity.
Qed.

Theorem client_hello_roundtrip m bytes rest : client_hello_wf m = true ->
  enc_seq (tree_client_hello m) = Ok bytes ->
  pull_client_hello (bytes ++ rest) = Ok (dump_client_hello m, rest).
Proof.
  intros Wf E. apply enc_seq_ok in E as [W ->].
  pose proof (ch_xs_ok m Wf) as Hxs. pose proof (ch_out_est m) as Hout. pose proof (ch_psk_order m) as Hpsk.
  destruct (ch_wf_parts m Wf) as (Hr & Hcs & Hcm & _). clear Wf.
  unfold pull_client_hello, tree_client_hello, dump_client_hello in *.
  apply (message_enc 1 (fun b =>
           '(pre, b1) <- hello_prefix b ;; '(cs, b2) <- list_toks 2 (item_uint 2) b1 ;;
           '(cm, b3) <- list_toks 1 (item_uint 1) b2 ;;
           '(st, b4) <- pull_extensions parse_client_hello_ext true b3 ;;
           Ok (pre ++ cs ++ cm ++ out_est CH_ORDER st, b4))); [lia|exact W|].
  rewrite !fits_seq_cons, fits_block, !fits_seq_cons, !fits_int, fits_bytes, fits_seq_nil in W.
  rewrite !flat_seq_cons, flat_seq_nil, !flat_int, flat_bytes, app_nil_r. repeat rewrite <- app_assoc.
  rewrite hello_prefix_enc by lia. cbn [bind].
  rewrite uints_enc; [|lia|now apply Forall_u16|lia]. cbn [bind].
  rewrite uints_enc; [|lia|now apply Forall_u8|lia]. cbn [bind].
  rewrite ch_exts_xs in *.
  rewrite pull_extensions_enc; [|exact Hxs|exact Hpsk|lia].
  cbn [bind]. rewrite Hout. unfold dump_psks. repeat rewrite <- app_assoc. reflexivity.
Qed.

Example client_hello_example :
  let m := mkCH (repeat 7 32) (repeat 9 32) [0x1301; 0x1302] [0] [(0x001D, repeat 1 32)] [0x0304] [0x0403; 0x0804] [0x001D; 0x0017]
                (Some [1]) (Some [97; 46; 98]) (Some [[104; 51]; [104; 113]]) true
                (Some ([([1; 2; 3], 4294967295)], [repeat 5 32])) [(57, repeat 3 40); (0xFFA5, [])] in
  client_hello_wf m = true /\ exists bytes, enc_seq (tree_client_hello m) = Ok bytes /\ Zlen bytes = 282.
Proof. split; [reflexivity|]. eexists. split; vm_compute; reflexivity. Qed.

(* ---- every item function handed to pull_list consumes at least one byte (fuel independence applies) ---- *)
Theorem tls_items_progress :
  (forall w, (1 <= w)%nat -> item_progress (item_uint w)) /\ item_progress item_key_share /\
  item_progress item_alpn /\ item_progress item_psk_identity /\
  (forall cap, (1 <= cap)%nat -> item_progress (item_opaque cap)) /\ item_progress item_certificate_entry /\
  item_progress (ext_item parse_client_hello_ext true) /\ item_progress (ext_item parse_server_hello_ext false) /\
  item_progress (ext_item parse_nst_ext false) /\ item_progress (ext_item parse_ee_ext false) /\
  item_progress (ext_item parse_cr_ext false).
Proof.
  repeat split.
  - exact item_uint_progress.
  - exact item_key_share_progress.
  - exact item_alpn_progress.
  - exact item_psk_identity_progress.
  - exact item_opaque_progress.
  - exact item_certificate_entry_progress.
  - apply ext_item_progress, parse_client_hello_ext_mono.
  - apply ext_item_progress, parse_server_hello_ext_mono.
  - apply ext_item_progress, parse_nst_ext_mono.
  - apply ext_item_progress, parse_ee_ext_mono.
  - apply ext_item_progress, parse_cr_ext_mono.
Qed.
