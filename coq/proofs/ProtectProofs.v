(* Proofs about the packet protection model (model/Protect.v): header protection round trip and
   frame, nonce injectivity, every header bit is authenticated, altered packets are rejected under
   an ideal-AEAD hypothesis, Retry tag binding. *)
From AQ Require Import lib.Base lib.Tok model.PacketNumber model.Protect proofs.PacketNumberProofs.

(* ---------------------------------------------------------------- list helpers *)
Lemma Zlen_app : forall A (a b : list A), Zlen (a ++ b) = Zlen a + Zlen b.
Proof. intros. unfold Zlen. rewrite app_length. lia. Qed.
Lemma Zlen_cons : forall A (x : A) l, Zlen (x :: l) = 1 + Zlen l.
Proof. intros. unfold Zlen. cbn [length]. lia. Qed.
Lemma Zlen_nonneg : forall A (l : list A), 0 <= Zlen l.
Proof. intros. unfold Zlen. lia. Qed.
Lemma Zlen_nil : forall A, Zlen (@nil A) = 0.
Proof. reflexivity. Qed.

Lemma ztake_app_more : forall A (a b : list A) n k, n = Zlen a + k -> 0 <= k ->
  ztake n (a ++ b) = a ++ ztake k b.
Proof.
  intros A a b n k -> Hk. unfold ztake, Zlen.
  rewrite Z2Nat.inj_add, Nat2Z.id by lia.
  rewrite firstn_app. replace (length a + Z.to_nat k - length a)%nat with (Z.to_nat k) by lia.
  rewrite firstn_all2 by lia. reflexivity.
Qed.
Lemma ztake_app_exact : forall A (a b : list A) n, n = Zlen a -> ztake n (a ++ b) = a.
Proof.
  intros. rewrite (ztake_app_more _ a b n 0) by lia. unfold ztake. cbn. apply app_nil_r.
Qed.
Lemma zdrop_app_more : forall A (a b : list A) n k, n = Zlen a + k -> 0 <= k ->
  zdrop n (a ++ b) = zdrop k b.
Proof.
  intros A a b n k -> Hk. unfold zdrop, Zlen.
  rewrite Z2Nat.inj_add, Nat2Z.id by lia.
  rewrite skipn_app. replace (length a + Z.to_nat k - length a)%nat with (Z.to_nat k) by lia.
  rewrite skipn_all2 by lia. reflexivity.
Qed.
Lemma zdrop_app_exact : forall A (a b : list A) n, n = Zlen a -> zdrop n (a ++ b) = b.
Proof. intros. rewrite (zdrop_app_more _ a b n 0) by lia. reflexivity. Qed.
Lemma ztake_zdrop : forall A (l : list A) n, ztake n l ++ zdrop n l = l.
Proof. intros. apply firstn_skipn. Qed.
Lemma Zlen_ztake : forall A (l : list A) n, 0 <= n <= Zlen l -> Zlen (ztake n l) = n.
Proof. intros A l n H. unfold Zlen, ztake in *. rewrite firstn_length. lia. Qed.
Lemma Zlen_zdrop : forall A (l : list A) n, 0 <= n <= Zlen l -> Zlen (zdrop n l) = Zlen l - n.
Proof. intros A l n H. unfold Zlen, zdrop in *. rewrite skipn_length. lia. Qed.

(* ---------------------------------------------------------------- xor on lists *)
Lemma xor_list_length : forall a m, length (xor_list a m) = length a.
Proof. induction a; destruct m; cbn; auto. Qed.
Lemma Zlen_xor_list : forall a m, Zlen (xor_list a m) = Zlen a.
Proof. intros. unfold Zlen. now rewrite xor_list_length. Qed.
Lemma xor_list_nil_r : forall a, xor_list a [] = a.
Proof. destruct a; reflexivity. Qed.
Lemma xor_list_app : forall a m r, length a = length m -> xor_list (a ++ r) m = xor_list a m ++ r.
Proof.
  induction a; destruct m; cbn; intros r H; try discriminate.
  - apply xor_list_nil_r.
  - f_equal. apply IHa. lia.
Qed.
Lemma xor_list_invol : forall a m, xor_list (xor_list a m) m = a.
Proof.
  induction a; destruct m; cbn; auto.
  rewrite Z.lxor_assoc, Z.lxor_nilpotent, Z.lxor_0_r. now rewrite IHa.
Qed.
Lemma xor_list_inj : forall a b m, xor_list a m = xor_list b m -> a = b.
Proof. intros a b m H. rewrite <- (xor_list_invol a m), H. apply xor_list_invol. Qed.

Lemma xor_at_head : forall b l m, xor_at (b :: l) 0 [m] = Z.lxor b m :: l.
Proof. intros. unfold xor_at, ztake, zdrop. cbn. now rewrite xor_list_nil_r. Qed.
Lemma xor_at_mid : forall a b c off m, off = Zlen a -> length b = length m ->
  xor_at (a ++ b ++ c) off m = a ++ xor_list b m ++ c.
Proof.
  intros. unfold xor_at. rewrite ztake_app_exact, zdrop_app_exact by assumption.
  now rewrite xor_list_app.
Qed.

(* ---------------------------------------------------------------- bit facts *)
Lemma land3_range : forall b, 0 <= Z.land b 3 <= 3.
Proof.
  intro b. change 3 with (Z.ones 2) at 1 2. rewrite Z.land_ones by lia.
  pose proof (Z.mod_pos_bound b (2 ^ 2) eq_refl). change (2 ^ 2) with 4 in *. lia.
Qed.

Lemma first_mask_cases : forall b, first_mask b = 31 \/ first_mask b = 15.
Proof. intro b. unfold first_mask. destruct (Z.land b 128 =? 0); auto. Qed.

Lemma land_lxor_distr_l : forall a b c, Z.land (Z.lxor a b) c = Z.lxor (Z.land a c) (Z.land b c).
Proof.
  intros. apply Z.bits_inj'. intros n Hn. rewrite !Z.land_spec, !Z.lxor_spec, !Z.land_spec.
  destruct (Z.testbit a n), (Z.testbit b n), (Z.testbit c n); reflexivity.
Qed.

(* the form bit (0x80) is never touched by the first-byte mask *)
Lemma form_bit_kept : forall b m, Z.land (Z.lxor b (Z.land m (first_mask b))) 128 = Z.land b 128.
Proof.
  intros b m. rewrite land_lxor_distr_l, <- Z.land_assoc.
  destruct (first_mask_cases b) as [-> | ->]; cbn [Z.land Pos.land]; rewrite Z.land_0_r; apply Z.lxor_0_r.
Qed.
Lemma first_mask_kept : forall b m, first_mask (Z.lxor b (Z.land m (first_mask b))) = first_mask b.
Proof. intros. unfold first_mask at 1 3. now rewrite form_bit_kept. Qed.
Lemma unmask_first : forall b m,
  let b' := Z.lxor b (Z.land m (first_mask b)) in Z.lxor b' (Z.land m (first_mask b')) = b.
Proof.
  intros b m b'. subst b'. rewrite first_mask_kept.
  now rewrite Z.lxor_assoc, Z.lxor_nilpotent, Z.lxor_0_r.
Qed.
(* bits outside the mask are kept *)
Lemma outside_mask_kept : forall b m,
  Z.land (Z.lxor b (Z.land m (first_mask b))) (Z.lnot (first_mask b)) = Z.land b (Z.lnot (first_mask b)).
Proof.
  intros. rewrite land_lxor_distr_l, <- Z.land_assoc, Z.land_lnot_diag, Z.land_0_r. apply Z.lxor_0_r.
Qed.

Lemma pn_mask_length : forall m pnl, 1 <= pnl <= 4 -> Zlen (pn_mask m pnl) = pnl.
Proof. intros. unfold pn_mask. apply Zlen_ztake. cbn. lia. Qed.

Lemma Zlen_eq_length : forall A B (a : list A) (b : list B), Zlen a = Zlen b -> length a = length b.
Proof. unfold Zlen. intros. lia. Qed.

(* ---------------------------------------------------------------- header protection *)
Section HP.
  Variable K : Type.
  Variable maskf : K -> list Z -> list Z.

  Definition the_mask (hp : K) (pnl : Z) (ct : list Z) : list Z := maskf hp (ztake 16 (zdrop (4 - pnl) ct)).

  (* shape of the protected packet: first byte masked, pn bytes masked, everything else verbatim *)
  Lemma hp_apply_shape : forall hp b0 mid pn payload, Zlen pn = Z.land b0 3 + 1 ->
    hp_apply K maskf hp (b0 :: mid ++ pn) payload =
      Z.lxor b0 (Z.land (byte_at (the_mask hp (Zlen pn) payload) 0) (first_mask b0))
      :: mid ++ xor_list pn (pn_mask (the_mask hp (Zlen pn) payload) (Zlen pn)) ++ payload.
  Proof.
    intros hp b0 mid pn payload Hpn. unfold hp_apply, the_mask.
    change (byte_at (b0 :: mid ++ pn) 0) with b0. rewrite <- Hpn.
    set (m := maskf hp _).
    change ((b0 :: mid ++ pn) ++ payload) with (b0 :: (mid ++ pn) ++ payload).
    change (byte_at (b0 :: (mid ++ pn) ++ payload) 0) with b0.
    rewrite xor_at_head, <- app_assoc.
    set (b0' := Z.lxor b0 _).
    change (b0' :: mid ++ pn ++ payload) with ((b0' :: mid) ++ pn ++ payload).
    pose proof (land3_range b0).
    rewrite xor_at_mid.
    - reflexivity.
    - rewrite !Zlen_cons, Zlen_app. lia.
    - apply Zlen_eq_length. rewrite pn_mask_length; lia.
  Qed.

  (* removal on a packet of that shape *)
  Lemma hp_remove_shape : forall hp b0' mid pn' rest,
    let m := the_mask hp (Zlen pn') rest in
    let b0 := Z.lxor b0' (Z.land (byte_at m 0) (first_mask b0')) in
    Zlen pn' = Z.land b0 3 + 1 ->
    hp_remove_raw K maskf hp (b0' :: mid ++ pn' ++ rest) (1 + Zlen mid) =
      (b0 :: mid ++ xor_list pn' (pn_mask m (Zlen pn')), be_int (xor_list pn' (pn_mask m (Zlen pn')))).
  Proof.
    intros hp b0' mid pn' rest m b0 Hpn.
    pose proof (land3_range b0) as Hr. pose proof (Zlen_nonneg _ mid).
    unfold hp_remove_raw.
    (* the sample *)
    assert (Hs : zdrop (1 + Zlen mid + 4) (b0' :: mid ++ pn' ++ rest) = zdrop (4 - Zlen pn') rest).
    { change (b0' :: mid ++ pn' ++ rest) with ((b0' :: mid) ++ pn' ++ rest).
      rewrite app_assoc. apply zdrop_app_more; [rewrite Zlen_app, Zlen_cons | ]; lia. }
    rewrite Hs. fold (the_mask hp (Zlen pn') rest). fold m.
    (* the working buffer *)
    assert (Hb : ztake (1 + Zlen mid + 4) (b0' :: mid ++ pn' ++ rest) = b0' :: mid ++ pn' ++ ztake (4 - Zlen pn') rest).
    { change (b0' :: mid ++ pn' ++ rest) with ((b0' :: mid) ++ pn' ++ rest).
      rewrite app_assoc, (ztake_app_more _ _ rest _ (4 - Zlen pn')); [| rewrite Zlen_app, Zlen_cons; lia | lia].
      now rewrite <- app_assoc. }
    rewrite Hb.
    change (byte_at (b0' :: mid ++ pn' ++ ztake (4 - Zlen pn') rest) 0) with b0'.
    rewrite xor_at_head. fold b0.
    change (byte_at (b0 :: mid ++ pn' ++ ztake (4 - Zlen pn') rest) 0) with b0.
    rewrite <- Hpn.
    change (b0 :: mid ++ pn' ++ ztake (4 - Zlen pn') rest) with ((b0 :: mid) ++ pn' ++ ztake (4 - Zlen pn') rest).
    rewrite xor_at_mid; [| rewrite Zlen_cons; lia | apply Zlen_eq_length; rewrite pn_mask_length; lia].
    set (pn := xor_list pn' _).
    assert (Hl : Zlen pn = Zlen pn') by apply Zlen_xor_list.
    f_equal.
    - rewrite app_assoc. rewrite ztake_app_exact; [now rewrite <- app_comm_cons |].
      rewrite Zlen_app, Zlen_cons. lia.
    - f_equal. rewrite zdrop_app_exact by (rewrite Zlen_cons; lia).
      apply ztake_app_exact. lia.
  Qed.

  (* hp_roundtrip, structural form: header = first byte, middle, pn field of the announced length *)
  Lemma hp_roundtrip_parts : forall hp b0 mid pn payload, Zlen pn = Z.land b0 3 + 1 ->
    hp_remove K maskf hp (hp_apply K maskf hp (b0 :: mid ++ pn) payload) (1 + Zlen mid)
      = (b0 :: mid ++ pn, as_c_int (be_int pn)).
  Proof.
    intros hp b0 mid pn payload Hpn. unfold hp_remove, hp_remove_conv.
    rewrite hp_apply_shape by assumption.
    set (m := the_mask hp (Zlen pn) payload).
    set (pn' := xor_list pn (pn_mask m (Zlen pn))).
    assert (Hl : Zlen pn' = Zlen pn) by apply Zlen_xor_list.
    pose proof (unmask_first b0 (byte_at m 0)) as Hu. cbv zeta in Hu.
    pose proof (hp_remove_shape hp (Z.lxor b0 (Z.land (byte_at m 0) (first_mask b0))) mid pn' payload) as Hrm.
    cbv zeta in Hrm. rewrite Hl in Hrm. fold m in Hrm. rewrite Hu in Hrm.
    rewrite Hrm by assumption.
    unfold pn'. rewrite xor_list_invol. reflexivity.
  Qed.

  (* every header with room for its packet number decomposes that way *)
  Lemma header_parts : forall hdr, let pnl := Z.land (byte_at hdr 0) 3 + 1 in pnl < Zlen hdr ->
    exists b0 mid pn, hdr = b0 :: mid ++ pn /\ Zlen pn = Z.land b0 3 + 1 /\ 1 + Zlen mid = Zlen hdr - pnl
                      /\ pn = zdrop (Zlen hdr - pnl) hdr.
  Proof.
    intros hdr pnl H. destruct hdr as [| b0 tl].
    { unfold pnl in H. pose proof (land3_range (byte_at [] 0)). rewrite Zlen_nil in H. lia. }
    change (byte_at (b0 :: tl) 0) with b0 in *. subst pnl. pose proof (land3_range b0) as Hr.
    rewrite Zlen_cons in *. pose proof (Zlen_nonneg _ tl).
    set (k := Zlen tl - (Z.land b0 3 + 1)) in *.
    exists b0, (ztake k tl), (zdrop k tl).
    split; [now rewrite ztake_zdrop |].
    split; [rewrite Zlen_zdrop by lia; lia |].
    split; [rewrite Zlen_ztake by lia; lia |].
    replace (1 + Zlen tl - (Z.land b0 3 + 1)) with (Zlen [b0] + k) by (unfold k; rewrite Zlen_cons, Zlen_nil; lia).
    symmetry. apply (zdrop_app_more _ [b0] tl); [reflexivity | lia].
  Qed.

  (* hp_roundtrip: for ALL headers (both forms), packet number lengths 1-4 (announced in the first
     byte), mask functions and ciphertexts.  The hypotheses are the domain in which _crypto.c is
     defined: the header has room for its pn field after the first byte, the 16-byte sample lies
     inside the packet and the packet fits the 1500-byte work buffer. *)
  Lemma hp_roundtrip_lemma : forall hp hdr ct,
    let pnl := Z.land (byte_at hdr 0) 3 + 1 in
    pnl < Zlen hdr -> 20 <= pnl + Zlen ct -> Zlen hdr + Zlen ct <= 1500 ->
    hp_remove K maskf hp (hp_apply K maskf hp hdr ct) (Zlen hdr - pnl)
      = (hdr, as_c_int (be_int (zdrop (Zlen hdr - pnl) hdr))).
  Proof.
    intros hp hdr ct pnl H _ _. subst pnl. destruct (header_parts hdr H) as (b0 & mid & pn & Hh & Hpn & Hoff & Hz).
    cbv zeta in *. rewrite <- Hz, <- Hoff, Hh. now apply hp_roundtrip_parts.
  Qed.

  (* frame: only the low bits of the first byte (0x1F short / 0x0F long) and the pn field change *)
  Lemma hp_apply_frame_lemma : forall hp b0 mid pn ct, Zlen pn = Z.land b0 3 + 1 ->
    exists b0' pn', hp_apply K maskf hp (b0 :: mid ++ pn) ct = b0' :: mid ++ pn' ++ ct /\
      Zlen pn' = Zlen pn /\
      Z.land b0' (Z.lnot (first_mask b0)) = Z.land b0 (Z.lnot (first_mask b0)) /\
      Z.land b0' 128 = Z.land b0 128.
  Proof.
    intros. rewrite hp_apply_shape by assumption. eexists _, _. split; [reflexivity |].
    split; [apply Zlen_xor_list |]. split; [apply outside_mask_kept | apply form_bit_kept].
  Qed.
End HP.

Example hp_roundtrip_example :
  hp_remove Z (fun _ s => map (fun x => x + 1) s) 0
    (hp_apply Z (fun _ s => map (fun x => x + 1) s) 0 [0x43; 7; 8; 0x80; 0; 0; 5] [1;2;3;4;5;6;7;8;9;10;11;12;13;14;15;16;17]) 3
  = ([0x43; 7; 8; 0x80; 0; 0; 5], -2147483643).
Proof. vm_compute. reflexivity. Qed.

(* ---------------------------------------------------------------- nonce *)
Lemma lxor_cancel_l : forall x a b, Z.lxor x a = Z.lxor x b -> a = b.
Proof.
  intros x a b H. rewrite <- (Z.lxor_0_l a), <- (Z.lxor_nilpotent x), Z.lxor_assoc, H.
  now rewrite <- Z.lxor_assoc, Z.lxor_nilpotent, Z.lxor_0_l.
Qed.

Lemma xor_list_inj_r : forall a m1 m2, length m1 = length m2 -> (length m1 <= length a)%nat ->
  xor_list a m1 = xor_list a m2 -> m1 = m2.
Proof.
  induction a; intros m1 m2 Hl Hle H; destruct m1, m2; cbn in *; try lia; auto.
  injection H as H1 H2. apply lxor_cancel_l in H1. subst. f_equal. apply IHa; auto; lia.
Qed.

Lemma byte_of : forall x i, 0 <= i -> Z.land (Z.shiftr x (8 * i)) 255 = (x / 2 ^ (8 * i)) mod 256.
Proof.
  intros. change 255 with (Z.ones 8). rewrite Z.land_ones, Z.shiftr_div_pow2 by lia. reflexivity.
Qed.

(* base-256 digits determine a number below 2^64 *)
Lemma digits64 : forall x, 0 <= x < 2 ^ 64 ->
  x = (x / 2 ^ (8 * 0)) mod 256 + 256 * ((x / 2 ^ (8 * 1)) mod 256 + 256 * ((x / 2 ^ (8 * 2)) mod 256
      + 256 * ((x / 2 ^ (8 * 3)) mod 256 + 256 * ((x / 2 ^ (8 * 4)) mod 256 + 256 * ((x / 2 ^ (8 * 5)) mod 256
      + 256 * ((x / 2 ^ (8 * 6)) mod 256 + 256 * ((x / 2 ^ (8 * 7)) mod 256))))))).
Proof.
  intros x Hx.
  assert (D : forall a b, 0 <= a -> b = a + 8 -> x / 2 ^ b = x / 2 ^ a / 256).
  { intros a b Ha ->. rewrite Z.div_div by (try apply Z.pow_pos_nonneg; lia).
    f_equal. rewrite Z.pow_add_r by lia. reflexivity. }
  pose proof (D 0 8 ltac:(lia) eq_refl) as D0. pose proof (D 8 16 ltac:(lia) eq_refl) as D1.
  pose proof (D 16 24 ltac:(lia) eq_refl) as D2. pose proof (D 24 32 ltac:(lia) eq_refl) as D3.
  pose proof (D 32 40 ltac:(lia) eq_refl) as D4. pose proof (D 40 48 ltac:(lia) eq_refl) as D5.
  pose proof (D 48 56 ltac:(lia) eq_refl) as D6. pose proof (D 56 64 ltac:(lia) eq_refl) as D7. clear D.
  change (8 * 0) with 0. change (8 * 1) with 8. change (8 * 2) with 16. change (8 * 3) with 24.
  change (8 * 4) with 32. change (8 * 5) with 40. change (8 * 6) with 48. change (8 * 7) with 56.
  assert (E : x / 2 ^ 64 = 0) by (apply Z.div_small; lia).
  change (2 ^ 0) with 1 in *. rewrite Z.div_1_r in *.
  set (q1 := x / 2 ^ 8) in *. set (q2 := x / 2 ^ 16) in *. set (q3 := x / 2 ^ 24) in *. set (q4 := x / 2 ^ 32) in *.
  set (q5 := x / 2 ^ 40) in *. set (q6 := x / 2 ^ 48) in *. set (q7 := x / 2 ^ 56) in *. set (q8 := x / 2 ^ 64) in *.
  pose proof (Z.div_mod x 256 ltac:(lia)). pose proof (Z.div_mod q1 256 ltac:(lia)). pose proof (Z.div_mod q2 256 ltac:(lia)).
  pose proof (Z.div_mod q3 256 ltac:(lia)). pose proof (Z.div_mod q4 256 ltac:(lia)). pose proof (Z.div_mod q5 256 ltac:(lia)).
  pose proof (Z.div_mod q6 256 ltac:(lia)). pose proof (Z.div_mod q7 256 ltac:(lia)).
  lia.
Qed.

Lemma pn_bytes8_inj : forall x y, 0 <= x < 2 ^ 64 -> 0 <= y < 2 ^ 64 -> pn_bytes8 x = pn_bytes8 y -> x = y.
Proof.
  intros x y Hx Hy H. unfold pn_bytes8 in H. cbn [map] in H.
  change 18446744073709551616 with (2 ^ 64) in H. rewrite !Z.mod_small in H by assumption.
  rewrite !byte_of in H by lia.
  injection H as H7 H6 H5 H4 H3 H2 H1 H0.
  change (Z.pow_pos 2 56) with (2 ^ (8 * 7)) in H7. change (Z.pow_pos 2 48) with (2 ^ (8 * 6)) in H6.
  change (Z.pow_pos 2 40) with (2 ^ (8 * 5)) in H5. change (Z.pow_pos 2 32) with (2 ^ (8 * 4)) in H4.
  change (Z.pow_pos 2 24) with (2 ^ (8 * 3)) in H3. change (Z.pow_pos 2 16) with (2 ^ (8 * 2)) in H2.
  change (Z.pow_pos 2 8) with (2 ^ (8 * 1)) in H1. change (x / 1) with (x / 2 ^ (8 * 0)) in H0.
  change (y / 1) with (y / 2 ^ (8 * 0)) in H0.
  rewrite (digits64 x Hx), (digits64 y Hy). rewrite H0, H1, H2, H3, H4, H5, H6, H7. reflexivity.
Qed.

(* nonce_injective: for a 12-byte IV two packet numbers below 2^62 (indeed below 2^64) never share a nonce *)
Lemma nonce_injective_lemma : forall iv pn1 pn2, Zlen iv = 12 -> 0 <= pn1 < 2 ^ 62 -> 0 <= pn2 < 2 ^ 62 ->
  nonce iv pn1 = nonce iv pn2 -> pn1 = pn2.
Proof.
  intros iv pn1 pn2 Hiv H1 H2 H. unfold nonce, xor_at in H.
  apply app_inv_head in H.
  apply xor_list_inj_r in H.
  - apply pn_bytes8_inj in H; auto; change (2 ^ 64) with 18446744073709551616; change (2 ^ 62) with 4611686018427387904 in *; lia.
  - reflexivity.
  - unfold pn_bytes8. cbn [map length]. unfold zdrop. rewrite skipn_length. unfold Zlen in Hiv. lia.
Qed.

Example nonce_example : nonce [0xfa;0x04;0x4b;0x2f;0x42;0xa3;0xfd;0x3b;0x46;0xfb;0x25;0x5c] 2
                        = [0xfa;0x04;0x4b;0x2f;0x42;0xa3;0xfd;0x3b;0x46;0xfb;0x25;0x5e].
Proof. reflexivity. Qed.

(* ---------------------------------------------------------------- every header bit is authenticated *)
Lemma split_packet : forall (l : list Z) off n, 1 <= off -> 0 <= n -> off + n <= Zlen l ->
  exists b mid x rest, l = b :: mid ++ x ++ rest /\ 1 + Zlen mid = off /\ Zlen x = n.
Proof.
  intros l off n Ho Hn Hl. destruct l as [| b tl]; [rewrite Zlen_nil in Hl; lia |].
  rewrite Zlen_cons in Hl.
  exists b, (ztake (off - 1) tl), (ztake n (zdrop (off - 1) tl)), (zdrop n (zdrop (off - 1) tl)).
  rewrite !ztake_zdrop. split; [reflexivity |].
  split; [rewrite Zlen_ztake by lia; lia |].
  rewrite Zlen_ztake; [lia |]. rewrite Zlen_zdrop by lia. lia.
Qed.

Section AUTH.
  Variable K : Type.
  Variable maskf : K -> list Z -> list Z.

  (* what the AEAD sees of a packet: (associated data, ciphertext) *)
  Definition aead_view (hp : K) (pkt : list Z) (off : Z) : list Z * list Z :=
    let h := fst (hp_remove_raw K maskf hp pkt off) in (h, zdrop (Zlen h) pkt).

  (* Re-applying header protection to the AEAD's view gives back the packet: the view determines
     every bit of the protected packet. *)
  Lemma reprotect : forall hp pkt off, 1 <= off -> off + 4 <= Zlen pkt ->
    hp_apply K maskf hp (fst (aead_view hp pkt off)) (snd (aead_view hp pkt off)) = pkt.
  Proof.
    intros hp pkt off Ho Hl. unfold aead_view. cbn [fst snd].
    set (m := maskf hp (ztake 16 (zdrop (off + 4) pkt))).
    set (b0' := byte_at pkt 0).
    set (b0 := Z.lxor b0' (Z.land (byte_at m 0) (first_mask b0'))).
    pose proof (land3_range b0) as Hr.
    destruct (split_packet pkt off (Z.land b0 3 + 1) Ho ltac:(lia) ltac:(lia)) as (b & mid & pn' & rest & Hp & Hoff & Hpn).
    assert (Hb : b = b0') by (unfold b0'; rewrite Hp; reflexivity). subst b.
    assert (Hm : the_mask K maskf hp (Zlen pn') rest = m).
    { unfold the_mask, m. f_equal. f_equal. rewrite Hp.
      change (b0' :: mid ++ pn' ++ rest) with ((b0' :: mid) ++ pn' ++ rest).
      rewrite app_assoc. symmetry. apply zdrop_app_more; [rewrite Zlen_app, Zlen_cons |]; lia. }
    pose proof (hp_remove_shape K maskf hp b0' mid pn' rest) as Hs. cbv zeta in Hs.
    rewrite Hm in Hs. fold b0 in Hs. specialize (Hs Hpn).
    rewrite <- Hoff. rewrite Hp at 1 2. rewrite Hs. cbn [fst].
    set (pn := xor_list pn' (pn_mask m (Zlen pn'))).
    assert (Hlp : Zlen pn = Zlen pn') by apply Zlen_xor_list.
    assert (Hz : zdrop (Zlen (b0 :: mid ++ pn)) pkt = rest).
    { rewrite Hp. change (b0' :: mid ++ pn' ++ rest) with ((b0' :: mid) ++ pn' ++ rest).
      rewrite app_assoc. apply zdrop_app_exact. rewrite !Zlen_cons, !Zlen_app, Zlen_cons. lia. }
    rewrite Hz. rewrite hp_apply_shape by lia.
    rewrite Hlp, Hm. unfold pn. rewrite xor_list_invol.
    rewrite Hp. f_equal.
    unfold b0. rewrite first_mask_kept. now rewrite Z.lxor_assoc, Z.lxor_nilpotent, Z.lxor_0_r.
  Qed.

  (* header_fully_authenticated: for a fixed key the map  protected packet -> (associated data,
     ciphertext)  is injective, so ANY changed bit of the protected header (first byte, version,
     connection ids, length, packet number) or of the ciphertext changes the AEAD's inputs. *)
  Lemma header_fully_authenticated_lemma : forall hp pkt1 pkt2 off, 1 <= off ->
    off + 4 <= Zlen pkt1 -> off + 4 <= Zlen pkt2 ->
    aead_view hp pkt1 off = aead_view hp pkt2 off -> pkt1 = pkt2.
  Proof.
    intros hp pkt1 pkt2 off Ho H1 H2 Hv.
    rewrite <- (reprotect hp pkt1 off Ho H1), <- (reprotect hp pkt2 off Ho H2), Hv. reflexivity.
  Qed.
End AUTH.

(* ---------------------------------------------------------------- ideal AEAD *)
Section IDEAL.
  Variable K : Type.
  Variable maskf : K -> list Z -> list Z.
  Variable seal : K -> list Z -> list Z -> list Z -> list Z.
  Variable open_ : K -> list Z -> list Z -> list Z -> option (list Z).
  Variable next_ctx : cctx K -> cctx K.
  (* H-AEAD: exactly the honestly sealed ciphertexts open (idealisation: forgery probability 0) *)
  Hypothesis open_sound : forall k n a c p, open_ k n a c = Some p -> c = seal k n a p.
  Hypothesis open_seal : forall k n a p, open_ k n a (seal k n a p) = Some p.

  Definition sealed_by (cx cr : cctx K) (hdr p : list Z) (pn : Z) : list Z :=
    hp_apply K maskf (c_hp K cx) hdr (seal (c_key K cr) (nonce (c_iv K cr) pn) hdr p).

  (* Whatever decrypt_packet accepts IS an honestly protected packet: header protection with the
     receiver's hp key applied to the AEAD sealing -- under the current or the next key phase -- of
     exactly the header, payload and packet number that decrypt_packet returns. *)
  Lemma accepted_is_honest : forall cx pkt off e hdr p pn upd, 1 <= off -> off + 4 <= Zlen pkt ->
    decrypt_packet K maskf open_ next_ctx cx pkt off e = Some (hdr, p, pn, upd) ->
    exists cr, (cr = cx \/ cr = next_ctx cx) /\ pkt = sealed_by cx cr hdr p pn.
  Proof.
    intros cx pkt off e hdr p pn upd Ho Hl H. unfold decrypt_packet, decrypt_packet_conv, hp_remove_conv in H.
    destruct (hp_remove_raw K maskf (c_hp K cx) pkt off) as [h t] eqn:Er.
    destruct (select_ctx K next_ctx cx (byte_at h 0)) as [cr u] eqn:Es.
    unfold aead_decrypt in H.
    destruct ((Zlen (zdrop (Zlen h) pkt) <? AEAD_TAG_LENGTH) || (Zlen (zdrop (Zlen h) pkt) >? PACKET_LENGTH_MAX)); [discriminate |].
    destruct (open_ (c_key K cr) _ h (zdrop (Zlen h) pkt)) as [q |] eqn:Eo; [| discriminate].
    injection H as <- <- <- <-.
    exists cr. split.
    - unfold select_ctx in Es. destruct (negb _); [injection Es as <- _; auto |].
      destruct (_ =? _); injection Es as <- _; auto.
    - apply open_sound in Eo. unfold sealed_by. rewrite <- Eo.
      pose proof (reprotect K maskf (c_hp K cx) pkt off Ho Hl) as Hre. unfold aead_view in Hre.
      rewrite Er in Hre. cbn [fst snd] in Hre. now rewrite Hre.
  Qed.

  (* altered_rejected: a packet that differs from every honest protection (under the receiver's
     current and next keys) of any header / payload / packet number is rejected. *)
  Lemma altered_rejected_lemma : forall cx pkt' off e, 1 <= off -> off + 4 <= Zlen pkt' ->
    (forall cr hdr p pn, cr = cx \/ cr = next_ctx cx -> pkt' <> sealed_by cx cr hdr p pn) ->
    decrypt_packet K maskf open_ next_ctx cx pkt' off e = None.
  Proof.
    intros cx pkt' off e Ho Hl Hne.
    destruct (decrypt_packet K maskf open_ next_ctx cx pkt' off e) as [[[[h p] pn] u] |] eqn:E; [| reflexivity].
    destruct (accepted_is_honest _ _ _ _ _ _ _ _ Ho Hl E) as (cr & Hcr & Hp). exfalso. exact (Hne cr h p pn Hcr Hp).
  Qed.

  (* round trip of a whole packet.  The premise Hpn is "the packet number is recovered from the
     pn field as it leaves HeaderProtection_remove"; see pn_field_recovery_refuted for where it fails. *)
  Lemma protect_unprotect_lemma : forall cx hdr p pn e,
    let pnl := Z.land (byte_at hdr 0) 3 + 1 in
    pnl < Zlen hdr -> 4 <= pnl + Zlen p -> Zlen hdr + Zlen p + 16 <= 1500 ->
    (forall k n a, Zlen (seal k n a p) = Zlen p + 16) ->
    (Z.land (byte_at hdr 0) 128 <> 0 \/ Z.shiftr (Z.land (byte_at hdr 0) 4) 2 = c_phase K cx) ->
    decode_packet_number (as_c_int (be_int (zdrop (Zlen hdr - pnl) hdr))) (pnl * 8) e = pn ->
    forall pkt, encrypt_packet K maskf seal cx hdr p pn = Some pkt ->
    decrypt_packet K maskf open_ next_ctx cx pkt (Zlen hdr - pnl) e = Some (hdr, p, pn, false).
  Proof.
    intros cx hdr p pn e pnl Hh Hmin Hp Hlen Hph Hpn pkt He.
    unfold encrypt_packet, aead_encrypt in He.
    destruct (Zlen p >? PACKET_LENGTH_MAX) eqn:Eg; [discriminate |]. injection He as <-.
    set (ct := seal (c_key K cx) (nonce (c_iv K cx) pn) hdr p).
    assert (Hct : Zlen ct = Zlen p + 16) by apply Hlen.
    pose proof (Zlen_nonneg _ p). pose proof (Zlen_nonneg _ hdr).
    unfold decrypt_packet, decrypt_packet_conv. fold pnl. change (hp_remove_conv K maskf as_c_int) with (hp_remove K maskf).
    pose proof (land3_range (byte_at hdr 0)).
    rewrite hp_roundtrip_lemma; try (fold pnl; lia).
    fold pnl. rewrite Hpn.
    assert (Hsel : select_ctx K next_ctx cx (byte_at hdr 0) = (cx, false)).
    { unfold select_ctx. destruct Hph as [Hl | Hs].
      - destruct (Z.land (byte_at hdr 0) 128 =? 0) eqn:E; [apply Z.eqb_eq in E; contradiction | reflexivity].
      - destruct (negb _); [reflexivity |]. rewrite Hs, Z.eqb_refl. reflexivity. }
    rewrite Hsel.
    (* the ciphertext part of the protected packet *)
    destruct (header_parts hdr Hh) as (b0 & mid & pnf & Hhd & Hpf & Hoff & _).
    assert (Hz : zdrop (Zlen hdr) (hp_apply K maskf (c_hp K cx) hdr ct) = ct).
    { rewrite Hhd at 2. rewrite hp_apply_shape by assumption.
      match goal with |- zdrop _ (?b :: mid ++ ?x ++ ct) = ct => change (b :: mid ++ x ++ ct) with ((b :: mid) ++ x ++ ct); rewrite app_assoc end.
      apply zdrop_app_exact. rewrite Hhd, !Zlen_cons, !Zlen_app, Zlen_cons, Zlen_xor_list. lia. }
    rewrite Hz. unfold aead_decrypt. unfold AEAD_TAG_LENGTH, PACKET_LENGTH_MAX in *.
    assert (Hf : (Zlen ct <? 16) || (Zlen ct >? 1500) = false).
    { apply orb_false_iff. split; [apply Z.ltb_ge; lia | rewrite Z.gtb_ltb; apply Z.ltb_ge; lia]. }
    rewrite Hf.
    unfold ct. now rewrite open_seal.
  Qed.
End IDEAL.

(* ---------------------------------------------------------------- Retry *)
Lemma app_inv_len : forall (a b x y : list Z), length a = length b -> a ++ x = b ++ y -> a = b /\ x = y.
Proof.
  induction a; destruct b; cbn; intros x y Hl H; try discriminate; auto.
  injection H as -> H. destruct (IHa b x y ltac:(lia) H) as [-> ->]. auto.
Qed.

Lemma retry_pseudo_inj : forall o1 p1 o2 p2, retry_pseudo o1 p1 = retry_pseudo o2 p2 -> o1 = o2 /\ p1 = p2.
Proof.
  intros o1 p1 o2 p2 H. unfold retry_pseudo in H. injection H as Hl H.
  apply app_inv_len in H; [exact H | unfold Zlen in Hl; lia].
Qed.

(* retry_tag_binds.  The Retry tag is AEAD(K_retry, N_retry, ad = pseudo packet, pt = "") with PUBLIC
   constants, so it cannot stop an attacker who recomputes it; what it guarantees -- and what the
   property needs -- is that a Retry altered only in the packet-without-tag part or only in the tag
   (in particular in any single bit) is not accepted.  Ideal-MAC hypothesis: tags of different
   associated data differ. *)
Section RETRY.
  Variable tagf : list Z -> list Z.                  (* pseudo packet -> 16-byte tag *)
  Hypothesis tagf_inj : forall a b, tagf a = tagf b -> a = b.

  (* _receive_retry_packet's integrity condition *)
  Definition retry_accepts (odcid body tag : list Z) : Prop := tag = tagf (retry_pseudo odcid body).

  Lemma retry_tag_binds_lemma : forall odcid body tag body' tag',
    retry_accepts odcid body tag -> retry_accepts odcid body' tag' ->
    (body' = body \/ tag' = tag) -> body' = body /\ tag' = tag.
  Proof.
    unfold retry_accepts. intros odcid body tag body' tag' -> -> [-> | H]; [auto |].
    apply tagf_inj, retry_pseudo_inj in H. destruct H as [_ ->]. auto.
  Qed.

  (* the tag also binds the original destination connection id *)
  Lemma retry_tag_binds_odcid : forall o1 o2 body tag,
    retry_accepts o1 body tag -> retry_accepts o2 body tag -> o1 = o2.
  Proof.
    unfold retry_accepts. intros o1 o2 body tag -> H. apply tagf_inj, retry_pseudo_inj in H. now destruct H.
  Qed.
End RETRY.

(* ---------------------------------------------------------------- the pn field as decrypt_packet sees it *)
Lemma as_c_int_small : forall v, v < 2147483648 -> as_c_int v = v.
Proof. intros v H. unfold as_c_int. destruct (v >=? 2147483648) eqn:E; [apply Z.geb_le in E; lia | reflexivity]. Qed.

(* Recovery of the full packet number from the truncated value handed over by
   HeaderProtection_remove: holds for 1-3 byte encodings, and for 4-byte encodings whose top bit is clear. *)
Lemma pn_field_recovery_lemma : forall n e pn, valid_bits n -> 0 <= e < 2 ^ 62 -> 0 <= pn < 2 ^ 62 ->
  e - 2 ^ (n - 1) < pn <= e + 2 ^ (n - 1) -> (n < 32 \/ pn mod 2 ^ 32 < 2 ^ 31) ->
  decode_packet_number (as_c_int (pn mod 2 ^ n)) n e = pn.
Proof.
  intros n e pn Hn He Hp Hw Hs. rewrite as_c_int_small; [now apply pn_roundtrip_lemma |].
  destruct Hn as [-> | [-> | [-> | ->]]].
  - pose proof (Z.mod_pos_bound pn (2 ^ 8) eq_refl). change (2 ^ 8) with 256 in *. lia.
  - pose proof (Z.mod_pos_bound pn (2 ^ 16) eq_refl). change (2 ^ 16) with 65536 in *. lia.
  - pose proof (Z.mod_pos_bound pn (2 ^ 24) eq_refl). change (2 ^ 24) with 16777216 in *. lia.
  - destruct Hs as [Hs | Hs]; [lia | exact Hs].
Qed.

(* ... and FAILS for 4-byte encodings with the top bit set once expected >= 2^32: the signed
   conversion ("i" format of a uint32_t) makes decode_packet_number ignore the high bits of
   `expected`.  Witness: expected = pn = 0x1_8000_0005, inside the window (distance 0). *)
Lemma pn_field_recovery_refuted : exists e pn, 0 <= e < 2 ^ 62 /\ 0 <= pn < 2 ^ 62 /\
  e - 2 ^ 31 < pn <= e + 2 ^ 31 /\ decode_packet_number (as_c_int (pn mod 2 ^ 32)) 32 e <> pn /\
  decode_packet_number (pn mod 2 ^ 32) 32 e = pn.
Proof.
  exists 6442450949, 6442450949. repeat split; try (vm_compute; congruence); vm_compute; discriminate.
Qed.

(* the same defect makes a packet number far OUTSIDE the window decode to itself instead of to the
   closest candidate (expected 2^33, field 0x80000001: closest candidate is 2^33 + 2^31 + 1) *)
Lemma pn_field_not_closest_refuted : exists e t, 0 <= e < 2 ^ 62 /\ 0 <= t < 2 ^ 32 /\
  decode_packet_number (as_c_int t) 32 e = t /\ decode_packet_number t 32 e = e - 2 ^ 31 + 1 /\ t <> e - 2 ^ 31 + 1.
Proof. exists 8589934592, 2147483649. repeat split; vm_compute; congruence. Qed.

Example protect_unprotect_premises :
  let hdr := [0x43; 1; 2; 3; 4; 5; 6; 7; 8; 0; 0; 0; 77] in
  Z.land (byte_at hdr 0) 3 + 1 < Zlen hdr /\
  decode_packet_number (as_c_int (be_int (zdrop (Zlen hdr - 4) hdr))) (4 * 8) 70 = 77.
Proof. vm_compute. split; reflexivity. Qed.
