(* Proofs about the packet protection model (model/Protect.v): header protection round trip and
   frame, nonce injectivity, every header bit is authenticated, altered packets are rejected under
   an ideal-AEAD hypothesis, Retry tag binding. *)
From AQ Require Import lib.Base lib.Tok model.PacketNumber model.Protect proofs.PacketNumberProofs.

(* ---------------------------------------------------------------- list helpers *)
Lemma Zlen_app : forall A (a b : list A), Zlen (a ++ b) = Zlen a + Zlen b.
Proof. intros. unfold Zlen. rewrite app_length. lia. Qed.
Lemma Zlen_cons : forall A (x : A) l, Zlen (x :: l) = 1 + Zlen l.
Proof. intros. unfold Zlen. cbn [length]. lia. Qed.
Lemma Zlen_nonneg : forall A (l : list A), 0 <= Zlen l.
Proof. intros. unfold Zlen. lia. Qed.
Lemma Zlen_nil : forall A, Zlen (@nil A) = 0.
Proof. reflexivity. Qed.

Lemma ztake_app_more : forall A (a b : list A) n k, n = Zlen a + k -> 0 <= k ->
  ztake n (a ++ b) = a ++ ztake k b.
Proof.
  intros A a b n k -> Hk. unfold ztake, Zlen.
  rewrite Z2Nat.inj_add, Nat2Z.id by lia.
  rewrite firstn_app. replace (length a + Z.to_nat k - length a)%nat with (Z.to_nat k) by lia.
  rewrite firstn_all2 by lia. reflexivity.
Qed.
Lemma ztake_app_exact : forall A (a b : list A) n, n = Zlen a -> ztake n (a ++ b) = a.
Proof.
  intros. rewrite (ztake_app_more _ a b n 0) by lia. unfold ztake. cbn. apply app_nil_r.
Qed.
Lemma zdrop_app_more : forall A (a b : list A) n k, n = Zlen a + k -> 0 <= k ->
  zdrop n (a ++ b) = zdrop k b.
Proof.
  intros A a b n k -> Hk. unfold zdrop, Zlen.
  rewrite Z2Nat.inj_add, Nat2Z.id by lia.
  rewrite skipn_app. replace (length a + Z.to_nat k - length a)%nat with (Z.to_nat k) by lia.
  rewrite skipn_all2 by lia. reflexivity.
Qed.
Lemma zdrop_app_exact : forall A (a b : list A) n, n = Zlen a -> zdrop n (a ++ b) = b.
Proof. intros. rewrite (zdrop_app_more _ a b n 0) by lia. reflexivity. Qed.
Lemma ztake_zdrop : forall A (l : list A) n, ztake n l ++ zdrop n l = l.
Proof. intros. apply firstn_skipn. Qed.
Lemma Zlen_ztake : forall A (l : list A) n, 0 <= n <= Zlen l -> Zlen (ztake n l) = n.
Proof. intros A l n H. unfold Zlen, ztake in *. rewrite firstn_length. lia. Qed.
Lemma Zlen_zdrop : forall A (l : list A) n, 0 <= n <= Zlen l -> Zlen (zdrop n l) = Zlen l - n.
Proof. intros A l n H. unfold Zlen, zdrop in *. rewrite skipn_length. lia. Qed.

(* ---------------------------------------------------------------- xor on lists *)
Lemma xor_list_length : forall a m, length (xor_list a m) = length a.
Proof. induction a; destruct m; cbn; auto. Qed.
Lemma Zlen_xor_list : forall a m, Zlen (xor_list a m) = Zlen a.
Proof. intros. unfold Zlen. now rewrite xor_list_length. Qed.
Lemma xor_list_nil_r : forall a, xor_list a [] = a.
Proof. destruct a; reflexivity. Qed.
Lemma xor_list_app : forall a m r, length a = length m -> xor_list (a ++ r) m = xor_list a m ++ r.
Proof.
  induction a; destruct m; cbn; intros r H; try discriminate.
  - apply xor_list_nil_r.
  - f_equal. apply IHa. lia.
Qed.
Lemma xor_list_invol : forall a m, xor_list (xor_list a m) m = a.
Proof.
  induction a; destruct m; cbn; auto.
  rewrite Z.lxor_assoc, Z.lxor_nilpotent, Z.lxor_0_r. now rewrite IHa.
Qed.
Lemma xor_list_inj : forall a b m, xor_list a m = xor_list b m -> a = b.
Proof. intros a b m H. rewrite <- (xor_list_invol a m), H. apply xor_list_invol. Qed.

Lemma xor_at_head : forall b l m, xor_at (b :: l) 0 [m] = Z.lxor b m :: l.
Proof. intros. unfold xor_at, ztake, zdrop. cbn. now rewrite xor_list_nil_r. Qed.
Lemma xor_at_mid : forall a b c off m, off = Zlen a -> length b = length m ->
  xor_at (a ++ b ++ c) off m = a ++ xor_list b m ++ c.
Proof.
  intros. unfold xor_at. rewrite ztake_app_exact, zdrop_app_exact by assumption.
  now rewrite xor_list_app.
Qed.

(* ---------------------------------------------------------------- bit facts *)
Lemma land3_range : forall b, 0 <= Z.land b 3 <= 3.
Proof.
  intro b. change 3 with (Z.ones 2) at 1 2. rewrite Z.land_ones by lia.
  pose proof (Z.mod_pos_bound b (2 ^ 2) eq_refl). change (2 ^ 2) with 4 in *. lia.
Qed.

Lemma first_mask_cases : forall b, first_mask b = 31 \/ first_mask b = 15.
Proof. intro b. unfold first_mask. destruct (Z.land b 128 =? 0); auto. Qed.

Lemma land_lxor_distr_l : forall a b c, Z.land (Z.lxor a b) c = Z.lxor (Z.land a c) (Z.land b c).
Proof.
  intros. apply Z.bits_inj'. intros n Hn. rewrite !Z.land_spec, !Z.lxor_spec, !Z.land_spec.
  destruct (Z.testbit a n), (Z.testbit b n), (Z.testbit c n); reflexivity.
Qed.

(* the form bit (0x80) is never touched by the first-byte mask *)
Lemma form_bit_kept : forall b m, Z.land (Z.lxor b (Z.land m (first_mask b))) 128 = Z.land b 128.
Proof.
  intros b m. rewrite land_lxor_distr_l, <- Z.land_assoc.
  destruct (first_mask_cases b) as [-> | ->]; cbn [Z.land Pos.land]; rewrite Z.land_0_r; apply Z.lxor_0_r.
Qed.
Lemma first_mask_kept : forall b m, first_mask (Z.lxor b (Z.land m (first_mask b))) = first_mask b.
Proof. intros. unfold first_mask at 1 3. now rewrite form_bit_kept. Qed.
Lemma unmask_first : forall b m,
  let b' := Z.lxor b (Z.land m (first_mask b)) in Z.lxor b' (Z.land m (first_mask b')) = b.
Proof.
  intros b m b'. subst b'. rewrite first_mask_kept.
  now rewrite Z.lxor_assoc, Z.lxor_nilpotent, Z.lxor_0_r.
Qed.
(* bits outside the mask are kept *)
Lemma outside_mask_kept : forall b m,
  Z.land (Z.lxor b (Z.land m (first_mask b))) (Z.lnot (first_mask b)) = Z.land b (Z.lnot (first_mask b)).
Proof.
  intros. rewrite land_lxor_distr_l, <- Z.land_assoc, Z.land_lnot_diag, Z.land_0_r. apply Z.lxor_0_r.
Qed.

Lemma pn_mask_length : forall m pnl, 1 <= pnl <= 4 -> Zlen (pn_mask m pnl) = pnl.
Proof. intros. unfold pn_mask. apply Zlen_ztake. cbn. lia. Qed.

Lemma Zlen_eq_length : forall A B (a : list A) (b : list B), Zlen a = Zlen b -> length a = length b.
Proof. unfold Zlen. intros. lia. Qed.

(* ---------------------------------------------------------------- header protection *)
Section HP.
  Variable K : Type.
  Variable maskf : K -> list Z -> list Z.

  Definition the_mask (hp : K) (pnl : Z) (ct : list Z) : list Z := maskf hp (ztake 16 (zdrop (4 - pnl) ct)).

  (* shape of the protected packet: first byte masked, pn bytes masked, everything else verbatim *)
  Lemma hp_apply_shape : forall hp b0 mid pn payload, Zlen pn = Z.land b0 3 + 1 ->
    hp_apply K maskf hp (b0 :: mid ++ pn) payload =
      Z.lxor b0 (Z.land (byte_at (the_mask hp (Zlen pn) payload) 0) (first_mask b0))
      :: mid ++ xor_list pn (pn_mask (the_mask hp (Zlen pn) payload) (Zlen pn)) ++ payload.
  Proof.
    intros hp b0 mid pn payload Hpn. unfold hp_apply, the_mask.
    change (byte_at (b0 :: mid ++ pn) 0) with b0. rewrite <- Hpn.
    set (m := maskf hp _).
    change ((b0 :: mid ++ pn) ++ payload) with (b0 :: (mid ++ pn) ++ payload).
    change (byte_at (b0 :: (mid ++ pn) ++ payload) 0) with b0.
    rewrite xor_at_head, <- app_assoc.
    set (b0' := Z.lxor b0 _).
    change (b0' :: mid ++ pn ++ payload) with ((b0' :: mid) ++ pn ++ payload).
    pose proof (land3_range b0).
    rewrite xor_at_mid.
    - reflexivity.
    - rewrite !Zlen_cons, Zlen_app. lia.
    - apply Zlen_eq_length. rewrite pn_mask_length; lia.
  Qed.

  (* removal on a packet of that shape *)
  Lemma hp_remove_shape : forall hp b0' mid pn' rest,
    let m := the_mask hp (Zlen pn') rest in
    let b0 := Z.lxor b0' (Z.land (byte_at m 0) (first_mask b0')) in
    Zlen pn' = Z.land b0 3 + 1 ->
    hp_remove_raw K maskf hp (b0' :: mid ++ pn' ++ rest) (1 + Zlen mid) =
      (b0 :: mid ++ xor_list pn' (pn_mask m (Zlen pn')), be_int (xor_list pn' (pn_mask m (Zlen pn')))).
  Proof.
    intros hp b0' mid pn' rest m b0 Hpn.
    pose proof (land3_range b0) as Hr. pose proof (Zlen_nonneg _ mid).
    unfold hp_remove_raw.
    (* the sample *)
    assert (Hs : zdrop (1 + Zlen mid + 4) (b0' :: mid ++ pn' ++ rest) = zdrop (4 - Zlen pn') rest).
    { change (b0' :: mid ++ pn' ++ rest) with ((b0' :: mid) ++ pn' ++ rest).
      rewrite app_assoc. apply zdrop_app_more; [rewrite Zlen_app, Zlen_cons | ]; lia. }
    rewrite Hs. fold (the_mask hp (Zlen pn') rest). fold m.
    (* the working buffer *)
    assert (Hb : ztake (1 + Zlen mid + 4) (b0' :: mid ++ pn' ++ rest) = b0' :: mid ++ pn' ++ ztake (4 - Zlen pn') rest).
    { change (b0' :: mid ++ pn' ++ rest) with ((b0' :: mid) ++ pn' ++ rest).
      rewrite app_assoc, (ztake_app_more _ _ rest _ (4 - Zlen pn')); [| rewrite Zlen_app, Zlen_cons; lia | lia].
      now rewrite <- app_assoc. }
    rewrite Hb.
    change (byte_at (b0' :: mid ++ pn' ++ ztake (4 - Zlen pn') rest) 0) with b0'.
    rewrite xor_at_head. fold b0.
    change (byte_at (b0 :: mid ++ pn' ++ ztake (4 - Zlen pn') rest) 0) with b0.
    rewrite <- Hpn.
    change (b0 :: mid ++ pn' ++ ztake (4 - Zlen pn') rest) with ((b0 :: mid) ++ pn' ++ ztake (4 - Zlen pn') rest).
    rewrite xor_at_mid; [| rewrite Zlen_cons; lia | apply Zlen_eq_length; rewrite pn_mask_length; lia].
    set (pn := xor_list pn' _).
    assert (Hl : Zlen pn = Zlen pn') by apply Zlen_xor_list.
    f_equal.
    - rewrite app_assoc. rewrite ztake_app_exact; [now rewrite <- app_comm_cons |].
      rewrite Zlen_app, Zlen_cons. lia.
    - f_equal. rewrite zdrop_app_exact by (rewrite Zlen_cons; lia).
      apply ztake_app_exact. lia.
  Qed.

  (* hp_roundtrip, structural form: header = first byte, middle, pn field of the announced length *)
  Lemma hp_roundtrip_parts : forall hp b0 mid pn payload, Zlen pn = Z.land b0 3 + 1 ->
    hp_remove K maskf hp (hp_apply K maskf hp (b0 :: mid ++ pn) payload) (1 + Zlen mid)
      = (b0 :: mid ++ pn, as_c_int (be_int pn)).
  Proof.
    intros hp b0 mid pn payload Hpn. unfold hp_remove.
    rewrite hp_apply_shape by assumption.
    set (m := the_mask hp (Zlen pn) payload).
    set (pn' := xor_list pn (pn_mask m (Zlen pn))).
    assert (Hl : Zlen pn' = Zlen pn) by apply Zlen_xor_list.
    pose proof (unmask_first b0 (byte_at m 0)) as Hu. cbv zeta in Hu.
    pose proof (hp_remove_shape hp (Z.lxor b0 (Z.land (byte_at m 0) (first_mask b0))) mid pn' payload) as Hrm.
    cbv zeta in Hrm. rewrite Hl in Hrm. fold m in Hrm. rewrite Hu in Hrm.
    rewrite Hrm by assumption.
    unfold pn'. rewrite xor_list_invol. reflexivity.
  Qed.

  (* every header with room for its packet number decomposes that way *)
  Lemma header_parts : forall hdr, let pnl := Z.land (byte_at hdr 0) 3 + 1 in pnl < Zlen hdr ->
    exists b0 mid pn, hdr = b0 :: mid ++ pn /\ Zlen pn = Z.land b0 3 + 1 /\ 1 + Zlen mid = Zlen hdr - pnl
                      /\ pn = zdrop (Zlen hdr - pnl) hdr.
  Proof.
    intros hdr pnl H. destruct hdr as [| b0 tl].
    { unfold pnl in H. pose proof (land3_range (byte_at [] 0)). rewrite Zlen_nil in H. lia. }
    change (byte_at (b0 :: tl) 0) with b0 in *. subst pnl. pose proof (land3_range b0) as Hr.
    rewrite Zlen_cons in *. pose proof (Zlen_nonneg _ tl).
    set (k := Zlen tl - (Z.land b0 3 + 1)) in *.
    exists b0, (ztake k tl), (zdrop k tl).
    split; [now rewrite ztake_zdrop |].
    split; [rewrite Zlen_zdrop by lia; lia |].
    split; [rewrite Zlen_ztake by lia; lia |].
    replace (1 + Zlen tl - (Z.land b0 3 + 1)) with (Zlen [b0] + k) by (unfold k; rewrite Zlen_cons, Zlen_nil; lia).
    symmetry. apply (zdrop_app_more _ [b0] tl); [reflexivity | lia].
  Qed.

  (* hp_roundtrip: for ALL headers (both forms), packet number lengths 1-4 (announced in the first
     byte), mask functions and ciphertexts.  The hypotheses are the domain in which _crypto.c is
     defined: the header has room for its pn field after the first byte, the 16-byte sample lies
     inside the packet and the packet fits the 1500-byte work buffer. *)
  Lemma hp_roundtrip_lemma : forall hp hdr ct,
    let pnl := Z.land (byte_at hdr 0) 3 + 1 in
    pnl < Zlen hdr -> 20 <= pnl + Zlen ct -> Zlen hdr + Zlen ct <= 1500 ->
    hp_remove K maskf hp (hp_apply K maskf hp hdr ct) (Zlen hdr - pnl)
      = (hdr, as_c_int (be_int (zdrop (Zlen hdr - pnl) hdr))).
  Proof.
    intros hp hdr ct pnl H _ _. subst pnl. destruct (header_parts hdr H) as (b0 & mid & pn & Hh & Hpn & Hoff & Hz).
    cbv zeta in *. rewrite <- Hz, <- Hoff, Hh. now apply hp_roundtrip_parts.
  Qed.

  (* frame: only the low bits of the first byte (0x1F short / 0x0F long) and the pn field change *)
  Lemma hp_apply_frame_lemma : forall hp b0 mid pn ct, Zlen pn = Z.land b0 3 + 1 ->
    exists b0' pn', hp_apply K maskf hp (b0 :: mid ++ pn) ct = b0' :: mid ++ pn' ++ ct /\
      Zlen pn' = Zlen pn /\
      Z.land b0' (Z.lnot (first_mask b0)) = Z.land b0 (Z.lnot (first_mask b0)) /\
      Z.land b0' 128 = Z.land b0 128.
  Proof.
    intros. rewrite hp_apply_shape by assumption. eexists _, _. split; [reflexivity |].
    split; [apply Zlen_xor_list |]. split; [apply outside_mask_kept | apply form_bit_kept].
  Qed.
End HP.

Example hp_roundtrip_example :
  hp_remove Z (fun _ s => map (fun x => x + 1) s) 0
    (hp_apply Z (fun _ s => map (fun x => x + 1) s) 0 [0x43; 7; 8; 0x80; 0; 0; 5] [1;2;3;4;5;6;7;8;9;10;11;12;13;14;15;16;17]) 3
  = ([0x43; 7; 8; 0x80; 0; 0; 5], -2147483643).
Proof. vm_compute. reflexivity. Qed.
