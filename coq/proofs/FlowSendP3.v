(* Send-side flow control, part 3 (model/FlowSend.v):
   G. progress at full strength: the sender's buffer_is_empty flag is false whenever data or a FIN is waiting, so
      the guard of the stream loop never skips a stream that has something to send;
   H. the repaired _parse_transport_parameters ([OParamsP], repair of finding C06-F1): what it does when 0-RTT was
      accepted / not accepted, and that after handshake parameters that LOWER the remembered limits no STREAM
      frame exceeds the limits in force. *)
From Coq Require Import ZArith List Bool Lia ZifyBool.
From AQ Require Import lib.Base model.RangeSet model.StreamSend model.FlowSend
  proofs.RangeSetP proofs.ListZ proofs.StreamSendP proofs.FlowSendP proofs.FlowSendP2.

(* ================= G. buffer_is_empty and what is waiting ================= *)
(* something is waiting: a pending range (written and never sent, or declared lost) or a pending FIN *)
Definition has_work (st : send) : Prop := s_pending st <> [] \/ s_pending_eof st = true.
(* the flag the stream loop tests: while the stream is not reset, waiting work means buffer_is_empty = False *)
Definition flag_ok (st : send) : Prop := s_reset st = None -> has_work st -> s_empty st = false.

Lemma flag_init w : flag_ok (send_init w).
Proof. intros _ [H|H]; cbn in H; congruence. Qed.

(* every operation of the sender keeps it -- no legitimacy needed *)
Lemma flag_write st d f : flag_ok st -> flag_ok (snd (write st d f)).
Proof.
  intros H. unfold write. destruct (s_fin st); [exact H|]. destruct (s_reset st) eqn:Er; [exact H|].
  destruct (negb (Zlen d =? 0)), f; cbn [snd]; try (intros _ _; reflexivity).
  exact H.
Qed.

Lemma flag_get st ms mo : flag_ok st -> flag_ok (snd (get_frame st ms mo)).
Proof.
  intros H. unfold get_frame. destruct (s_reset st) eqn:Er; [exact H|].
  destruct (s_pending st) as [|[start rstop] rest] eqn:Ep.
  - destruct (s_pending_eof st) eqn:Ee; cbn [snd]; intros _ [X|X]; cbn in X; congruence.
  - cbv zeta.
    match goal with |- context [if ?b then (SNone, st) else _] => destruct b end; cbn [snd].
    + exact H.
    + assert (E : s_empty st = false) by (apply H; [exact Er|left; rewrite Ep; discriminate]).
      intros _ _. cbn [s_empty]. exact E.
Qed.

Lemma flag_get_reset st : flag_ok st -> flag_ok (snd (get_reset_frame st)).
Proof. intros H. exact H. Qed.

Lemma flag_reset_deliv st k : flag_ok st -> flag_ok (snd (on_reset_delivery st k)).
Proof. intros H. destruct k; exact H. Qed.

Lemma flag_reset st code : flag_ok st -> flag_ok (snd (reset st code)).
Proof. intros H. unfold reset. destruct (s_reset st); [exact H|]. cbn [snd]. intros X; cbn in X; discriminate. Qed.

Lemma flag_deliv st k a b f : flag_ok st -> flag_ok (snd (on_data_delivery st k a b f)).
Proof.
  intros H. unfold on_data_delivery.
  destruct (f && negb match s_fin st with Some f0 => b =? f0 | None => false end); [exact H|].
  destruct (s_reset st) eqn:Er; [exact H|]. destruct k.
  - assert (G : forall X Y Z W U, flag_ok (mkSend (s_empty st) (s_highest st) X (s_reset_pending st) Y Z W (s_fin st) U (s_stop st)
                 (s_pending st) (s_pending_eof st) None)) by (intros; intros _ Hw; apply H; [exact Er|exact Hw]).
    destruct (b >? a); [|cbn [snd]; apply G].
    destruct (add a b (s_acked st)) as [|[fs fe] rest]; [cbn [snd]; apply G|].
    destruct (fs =? s_start st); cbn [snd]; apply G.
  - destruct (b >? a), f; cbn [snd]; try (intros _ _; reflexivity). exact H.
Qed.

(* the legitimate sender histories of C10: additionally, reset_pending is raised only on a stream that was reset *)
Lemma reach_flag st g : reach st g -> flag_ok st.
Proof.
  induction 1 as [|st g op R IH L]; [apply flag_init|].
  destruct op; cbn [send_step]; auto using flag_write, flag_get, flag_get_reset, flag_deliv, flag_reset_deliv, flag_reset.
Qed.

Lemma reach_reset_pending st g : reach st g -> s_reset st = None -> s_reset_pending st = false.
Proof.
  induction 1 as [|st g op R IH L]; [reflexivity|].
  assert (K : forall st', s_reset st' = s_reset st -> s_reset_pending st' = s_reset_pending st ->
              s_reset st' = None -> s_reset_pending st' = false).
  { intros st' E1 E2 Hx. rewrite E2. apply IH. rewrite <- E1. exact Hx. }
  destruct op as [d f|ms mo| |k a b f|k|c]; cbn [send_step legit] in *.
  - unfold write. destruct (s_fin st); [apply K; reflexivity|]. destruct (s_reset st) eqn:Er; [apply K; [exact Er|reflexivity]|].
    destruct (negb (Zlen d =? 0)), f; cbn [snd]; apply K; try exact Er; reflexivity.
  - unfold get_frame. destruct (s_reset st) eqn:Er; [apply K; [exact Er|reflexivity]|]. destruct (s_pending st) as [|[s e] t].
    + destruct (s_pending_eof st); cbn [snd set_empty]; apply K; try exact Er; reflexivity.
    + cbv zeta. match goal with |- context [if ?b then (SNone, st) else _] => destruct b end; cbn [snd]; apply K; try exact Er; reflexivity.
  - cbn [get_reset_frame snd s_reset]. intros X. contradiction.
  - unfold on_data_delivery.
    destruct (f && negb match s_fin st with Some f0 => b =? f0 | None => false end); [apply K; reflexivity|].
    destruct (s_reset st) eqn:Er; [apply K; [exact Er|reflexivity]|]. destruct k.
    + destruct (b >? a); [|cbn [snd]; apply K; try exact Er; reflexivity].
      destruct (add a b (s_acked st)) as [|[fs fe] rest]; [cbn [snd]; apply K; try exact Er; reflexivity|].
      destruct (fs =? s_start st); cbn [snd]; apply K; try exact Er; reflexivity.
    + destruct (b >? a), f; cbn [snd]; apply K; try exact Er; reflexivity.
  - cbn [on_reset_delivery snd]. destruct k; cbn [s_reset]; intros X; contradiction.
  - unfold reset. destruct (s_reset st) eqn:Er; [apply K; [exact Er|reflexivity]|]. cbn [snd s_reset]. discriminate.
Qed.

(* the connection: the flag invariant holds for every stream after EVERY operation sequence (no guard at all) *)
Definition FL (c : conn) : Prop := Forall (fun t => flag_ok (t_send t)) (c_streams c).

Lemma Forall_upd_any (Q : strm -> Prop) sid f l : Forall Q l -> (forall x, Q x -> Q (f x)) -> Forall Q (upd_strm sid f l).
Proof.
  intros HF Hf. induction l as [|x l IH]; cbn [upd_strm]; [constructor|]. inversion HF; subst.
  destruct (t_id x =? sid); constructor; auto.
Qed.

Lemma for_send_FL c sid c1 t : FL c -> for_send c sid = Some (c1, t) -> FL c1 /\ flag_ok (t_send t).
Proof.
  unfold FL, for_send. intros V. destruct (negb (can_send c sid)); [discriminate|].
  destruct (find_strm sid (c_streams c)) as [t0|] eqn:Ef.
  - intros H; inversion H; subst. split; [exact V|]. rewrite Forall_forall in V. exact (V _ (find_in _ _ _ Ef)).
  - destruct (negb (Bool.eqb (sid_client sid) (c_client c))); [discriminate|]. intros H; inversion H; subst; clear H.
    cbn [c_streams t_send]. split; [|apply flag_init]. apply Forall_app. split; [exact V|]. constructor; [apply flag_init|constructor].
Qed.

Lemma from_peer_FL c sid c1 t : FL c -> from_peer c sid = Some (c1, t) -> FL c1 /\ flag_ok (t_send t).
Proof.
  unfold FL, from_peer. intros V.
  destruct (find_strm sid (c_streams c)) as [t0|] eqn:Ef.
  - intros H; inversion H; subst. split; [exact V|]. rewrite Forall_forall in V. exact (V _ (find_in _ _ _ Ef)).
  - destruct (Bool.eqb (sid_client sid) (c_client c)); [discriminate|]. intros H; inversion H; subst; clear H.
    cbn [with_streams c_streams t_send]. split; [|apply flag_init]. apply Forall_app. split; [exact V|]. constructor; [apply flag_init|constructor].
Qed.

Lemma unblock_loop_FL msd maxs blk : forall l, Forall (fun t => flag_ok (t_send t)) l ->
  Forall (fun t => flag_ok (t_send t)) (snd (unblock_loop msd maxs blk l)).
Proof.
  induction blk as [|sid rest IH]; intros l V; cbn [unblock_loop]; [exact V|].
  destruct (sid / 4 <? maxs); [|exact V]. apply IH. apply Forall_upd_any; [exact V|intros x Hx; exact Hx].
Qed.

Lemma unblock_FL c uni : FL c -> FL (unblock c uni).
Proof.
  unfold FL, unblock. intros V. destruct uni.
  - pose proof (unblock_loop_FL (c_msd_uni c) (c_ms_uni c) (c_blk_uni c) _ V) as H.
    destruct (unblock_loop (c_msd_uni c) (c_ms_uni c) (c_blk_uni c) (c_streams c)) as [blk l]. exact H.
  - pose proof (unblock_loop_FL (c_msd_br c) (c_ms_bidi c) (c_blk_bidi c) _ V) as H.
    destruct (unblock_loop (c_msd_br c) (c_ms_bidi c) (c_blk_bidi c) (c_streams c)) as [blk l]. exact H.
Qed.

Lemma upd_send_FL c sid s' : FL c -> flag_ok s' -> FL (upd_send c sid s').
Proof. unfold FL, upd_send, with_streams. cbn [c_streams]. intros V H. apply Forall_upd_any; [exact V|intros x _; exact H]. Qed.

Lemma fl_step c op : FL c -> FL (snd (fstep c op)).
Proof.
  intros V. destruct op as [sid d f|sid code|sid|v|sid v|uni v|md bl br un sb su| |sid ms|sid|sid k a b f|sid k|sid|sid|sid|sid k|buni|pm md bl br un sb su];
    cbn [fstep].
  - destruct (for_send c sid) as [[c1 t]|] eqn:E; [|exact V]. destruct (for_send_FL _ _ _ _ V E) as (V1 & F1).
    pose proof (flag_write (t_send t) d f F1) as W. destruct (write (t_send t) d f) as [o s']. cbn [snd] in *. apply upd_send_FL; assumption.
  - destruct (for_send c sid) as [[c1 t]|] eqn:E; [|exact V]. destruct (for_send_FL _ _ _ _ V E) as (V1 & F1).
    pose proof (flag_reset (t_send t) code F1) as W. destruct (reset (t_send t) code) as [o s']. cbn [snd] in *. apply upd_send_FL; assumption.
  - destruct (negb (can_send c sid)); [exact V|].
    destruct (from_peer c sid) as [[c1 t]|] eqn:E; [|exact V]. destruct (from_peer_FL _ _ _ _ V E) as (V1 & F1).
    pose proof (flag_reset (t_send t) 0 F1) as W. destruct (reset (t_send t) 0) as [o s']. cbn [snd] in *. apply upd_send_FL; assumption.
  - cbn [snd]. destruct (v >? c_max_data c); exact V.
  - destruct (negb (can_send c sid)); [exact V|].
    destruct (from_peer c sid) as [[c1 t]|] eqn:E; [|exact V]. destruct (from_peer_FL _ _ _ _ V E) as (V1 & F1). cbn [snd].
    destruct (v >? t_msdr t); [|exact V1]. unfold FL, with_streams. cbn [c_streams]. apply Forall_upd_any; [exact V1|intros x Hx; exact Hx].
  - destruct (v >? 1152921504606846976); [exact V|]. destruct uni.
    + destruct (v >? c_ms_uni c); [|exact V]. cbn [snd]. apply unblock_FL. exact V.
    + destruct (v >? c_ms_bidi c); [|exact V]. cbn [snd]. apply unblock_FL. exact V.
  - exact V.
  - cbn [snd]. apply unblock_FL, unblock_FL, V.
  - destruct (find_strm sid (c_streams c)) as [t|] eqn:Ef; [|exact V].
    destruct (s_reset_pending (t_send t) || t_blocked t || s_empty (t_send t)); [exact V|].
    assert (F1 : flag_ok (t_send t)) by (unfold FL in V; rewrite Forall_forall in V; exact (V _ (find_in _ _ _ Ef))).
    pose proof (flag_get (t_send t) ms (Some (max_offset c t)) F1) as W.
    destruct (get_frame (t_send t) ms (Some (max_offset c t))) as [o s']. cbn [snd] in *.
    unfold FL. cbn [c_streams]. apply Forall_upd_any; [exact V|intros x _; exact W].
  - destruct (find_strm sid (c_streams c)) as [t|] eqn:Ef; [|exact V].
    destruct (negb (s_reset_pending (t_send t)) || t_blocked t); [exact V|]. cbn [get_reset_frame snd].
    assert (F1 : flag_ok (t_send t)) by (unfold FL in V; rewrite Forall_forall in V; exact (V _ (find_in _ _ _ Ef))).
    apply upd_send_FL; [exact V|exact F1].
  - destruct (find_strm sid (c_streams c)) as [t|] eqn:Ef; [|exact V].
    assert (F1 : flag_ok (t_send t)) by (unfold FL in V; rewrite Forall_forall in V; exact (V _ (find_in _ _ _ Ef))).
    pose proof (flag_deliv (t_send t) k a b f F1) as W. destruct (on_data_delivery (t_send t) k a b f) as [o s']. cbn [snd] in *.
    apply upd_send_FL; assumption.
  - destruct (find_strm sid (c_streams c)) as [t|] eqn:Ef; [|exact V].
    assert (F1 : flag_ok (t_send t)) by (unfold FL in V; rewrite Forall_forall in V; exact (V _ (find_in _ _ _ Ef))).
    pose proof (flag_reset_deliv (t_send t) k F1) as W. destruct (on_reset_delivery (t_send t) k) as [o s']. cbn [snd] in *.
    apply upd_send_FL; assumption.
  - destruct (from_peer c sid) as [[c1 t]|] eqn:E; [|exact V]. exact (proj1 (from_peer_FL _ _ _ _ V E)).
  - destruct (negb (can_receive c sid)); [exact V|]. destruct (find_strm sid (c_streams c)); [|exact V]. cbn [snd].
    unfold FL, with_streams. cbn [c_streams]. apply Forall_upd_any; [exact V|intros x Hx; exact Hx].
  - destruct (find_strm sid (c_streams c)) as [t|]; [|exact V]. destruct (negb (t_stop t) || t_blocked t); [exact V|]. cbn [snd].
    unfold FL, with_streams. cbn [c_streams]. apply Forall_upd_any; [exact V|intros x Hx; exact Hx].
  - destruct (find_strm sid (c_streams c)) as [t|]; [|exact V]. cbn [snd]. destruct k; [exact V|].
    unfold FL, with_streams. cbn [c_streams]. apply Forall_upd_any; [exact V|intros x Hx; exact Hx].
  - exact V.
  - destruct (store_limits_keep (match pm with PAccepted => true | _ => false end) c
                (orz md 0) (orz bl 0) (orz br 0) (orz un 0) (orz sb 0) (orz su 0)) as (_ & _ & K & _).
    unfold FL in *. destruct pm; cbn [snd reblock c_streams]; rewrite K; try exact V.
    apply Forall_map. eapply Forall_impl; [|exact V]. intros t Ht. exact Ht.
Qed.

Lemma fl_run ops : forall c, FL c -> FL (frun c ops).
Proof. induction ops as [|op r IH]; intros c V; cbn [frun fold_left]; [exact V|]. apply IH, fl_step, V. Qed.

(* after ANY operation sequence from a fresh connection (no parameter guard, no legitimacy of delivery outcomes):
   a stream that is not reset and has a pending range or a pending FIN has buffer_is_empty = False *)
Lemma flag_always cl ops t : In t (c_streams (frun (conn_init cl) ops)) ->
  s_reset (t_send t) = None -> has_work (t_send t) -> s_empty (t_send t) = false.
Proof.
  intros Hin. assert (V : FL (frun (conn_init cl) ops)) by (apply fl_run; constructor).
  unfold FL in V. rewrite Forall_forall in V. exact (V t Hin).
Qed.

(* ---------- progress, full strength ----------
   A stream whose sender has a legitimate history (C10 [reach]), that is not held back by the stream-count limit,
   was not reset, and has something waiting -- a pending range whose first offset lies below BOTH the stream limit
   and the connection credit (max_offset), or, with no range pending, a pending FIN -- gets a frame from the next
   _write_stream_frame call with a positive size budget: the loop's guard lets it through (buffer_is_empty is
   False, reset_pending is False), the frame starts at the sender's next offset, carries at least one byte when a
   range was pending, and is the FIN when only the FIN was. *)
Lemma unblocked_progress_full c sid ms t g :
  find_strm sid (c_streams c) = Some t -> reach (t_send t) g ->
  t_blocked t = false -> s_reset (t_send t) = None -> 0 < ms ->
  has_work (t_send t) ->
  (forall start rstop rest, s_pending (t_send t) = (start, rstop) :: rest -> start < max_offset c t) ->
  exists data fin c',
    fstep c (OGet sid ms) = (FGet (max_offset c t) (SFrame (next_offset (t_send t)) data fin), c') /\
    (s_pending (t_send t) <> [] -> data <> [] /\ next_offset (t_send t) + Zlen data <= max_offset c t) /\
    (s_pending (t_send t) = [] -> data = [] /\ fin = true).
Proof.
  intros Hf R Hb Hr Hms Hw Hroom.
  pose proof (reach_flag _ _ R Hr Hw) as He. pose proof (reach_reset_pending _ _ R Hr) as Hrp.
  pose proof (reach_inv _ _ R) as V.
  cbn [fstep]. rewrite Hf, Hb, Hrp, He. cbn [orb].
  destruct (get_frame (t_send t) ms (Some (max_offset c t))) as [o s'] eqn:Eg.
  unfold next_offset. destruct (s_pending (t_send t)) as [|[start rstop] rest] eqn:Ep.
  - destruct Hw as [Hw|Hw]; [congruence|].
    unfold get_frame in Eg. rewrite Hr, Ep, Hw in Eg.
    destruct (s_fin (t_send t)) as [f0|] eqn:EF; [|destruct (v_fin_none _ _ V EF) as (X & _); congruence].
    destruct (v_fin_some _ _ V f0 EF) as (Hf0 & _). inversion Eg; subst. eexists _, _, _. split; [reflexivity|].
    split; [intros X; congruence|intros _; split; reflexivity].
  - specialize (Hroom _ _ _ eq_refl).
    pose proof (v_pwf _ _ V) as W. rewrite Ep in W. cbn [wf_from] in W. destruct W as (W1 & W2 & W3).
    assert (E : exists data fin, o = SFrame start data fin).
    { unfold get_frame in Eg. rewrite Hr, Ep in Eg. cbv zeta in Eg.
      assert (E1 : (if Z.min rstop (start + ms) >? max_offset c t then max_offset c t else Z.min rstop (start + ms)) <=? start = false)
        by (destruct (Z.min rstop (start + ms) >? max_offset c t) eqn:E1; lia).
      rewrite E1 in Eg. inversion Eg. eauto. }
    destruct E as (data & fin & ->). eexists _, _, _. split; [reflexivity|]. split; [|intros X; discriminate].
    intros _.
    destruct (send_frames_exact _ _ _ _ _ _ _ _ R Hr Eg) as (_ & _ & _ & Hd & _).
    assert (Hne : data <> []).
    { unfold get_frame in Eg. rewrite Hr, Ep in Eg. cbv zeta in Eg.
      set (stop := if Z.min rstop (start + ms) >? max_offset c t then max_offset c t else Z.min rstop (start + ms)) in Eg.
      assert (Hstop : start < stop <= rstop) by (unfold stop; destruct (Z.min rstop (start + ms) >? max_offset c t) eqn:E1; lia).
      assert (E1 : stop <=? start = false) by lia. rewrite E1 in Eg.
      assert (Hrs : rstop <= s_stop (t_send t)).
      { pose proof (v_pmax _ _ V (rstop - 1)) as P. rewrite Ep in P. cbn [mem] in P.
        assert (Hq : start <= rstop - 1 < rstop) by lia. specialize (P (or_introl Hq)). lia. }
      pose proof (v_start _ _ V) as Hst.
      destruct (buf_slice (t_send t) g start stop V ltac:(lia) ltac:(lia) ltac:(lia)) as (Hdata & Hlen).
      rewrite Hdata in Eg. inversion Eg; subst data. intros Hnil. rewrite Hnil, Zlen_nil in Hlen. lia. }
    split; [exact Hne|]. destruct (Hd Hne) as (_ & Hm). apply Hm. reflexivity.
Qed.

(* the hypotheses of unblocked_progress_full are satisfiable by a non-trivial state: stream 0 of the straddle history
   (40 bytes sent and lost, 40 more written: pending [0,80), highest 40, MAX_DATA 200 with 40 used) *)
Example unblocked_progress_example :
  let c := frun (conn_init true) ops_straddle_pre in
  exists t g, find_strm 0 (c_streams c) = Some t /\ reach (t_send t) g /\ t_blocked t = false /\
    s_reset (t_send t) = None /\ has_work (t_send t) /\ max_offset c t = 200 /\
    (forall start rstop rest, s_pending (t_send t) = (start, rstop) :: rest -> start < max_offset c t).
Proof.
  cbv zeta. eexists. exists (snd (srun (send_init true) ghost_init sops_straddle)).
  split; [vm_compute; reflexivity|]. split.
  - change (reach (fst (srun (send_init true) ghost_init sops_straddle)) (snd (srun (send_init true) ghost_init sops_straddle))).
    apply reach_srun; [constructor|]. vm_compute. repeat split; auto.
  - split; [reflexivity|]. split; [reflexivity|]. split; [left; vm_compute; discriminate|]. split; [vm_compute; reflexivity|].
    intros start rstop rest H. vm_compute in H. inversion H; subst. vm_compute. reflexivity.
Qed.

(* ================= H. the repaired _parse_transport_parameters =================
   [freach] (FlowSendP.v) contains [OParamsP]: restoring from a ticket is guarded like [OParams]; with 0-RTT accepted
   there is NO guard on the values; with 0-RTT not accepted the values may be LOWER than those held (guard: varints,
   and every stream existing at that moment was opened locally). *)

(* 0-RTT accepted, in ANY state and for ANY values: the function either stores all six values, none of them below
   the value held, or stops with PROTOCOL_VIOLATION; in both cases no limit of the connection is lowered and nothing
   but the limits changes *)
Lemma accepted_never_lowers_l c md bl br un sb su :
  let r := fstep c (OParamsP PAccepted md bl br un sb su) in
  (fst r = FOk \/ fst r = FQErr PROTOCOL_VIOLATION) /\
  sc_le c (snd r) /\ c_max_data c <= c_max_data (snd r) /\
  c_streams (snd r) = c_streams c /\ c_used (snd r) = c_used c /\
  (fst r = FOk -> snd r = with_limits c (orz md 0) (orz bl 0) (orz br 0) (orz un 0) (orz sb 0) (orz su 0)).
Proof.
  cbn [fstep]. cbv zeta.
  destruct (store_limits_keep true c (orz md 0) (orz bl 0) (orz br 0) (orz un 0) (orz sb 0) (orz su 0)) as (K1 & K2 & K3 & K4 & K5).
  destruct (store_limits_grow true c (orz md 0) (orz bl 0) (orz br 0) (orz un 0) (orz sb 0) (orz su 0) (or_introl eq_refl)) as (S1 & S2).
  split; [|split; [exact S1|split; [exact S2|split; [exact K3|split; [exact K2|]]]]].
  - unfold store_limits. repeat match goal with |- context [if ?b then _ else _] => destruct b end; cbn [fst]; auto.
  - intros H. exact (proj1 (store_limits_ok _ _ _ _ _ _ _ _ H)).
Qed.

(* 0-RTT not accepted, in ANY state: the six limits become exactly the received values (absent = 0), whatever was
   held; every stream is held back with highest_offset 0 and the credit counter is 0: what was sent under the
   remembered limits no longer counts (the peer has discarded it) and nothing is sent until _unblock_streams
   releases the streams under the new limits *)
Lemma rejected_forgets_l c md bl br un sb su :
  let r := fstep c (OParamsP PRejected md bl br un sb su) in
  fst r = FOk /\
  c_max_data (snd r) = orz md 0 /\ c_msd_bl (snd r) = orz bl 0 /\ c_msd_br (snd r) = orz br 0 /\
  c_msd_uni (snd r) = orz un 0 /\ c_ms_bidi (snd r) = orz sb 0 /\ c_ms_uni (snd r) = orz su 0 /\
  c_used (snd r) = 0 /\
  map t_id (c_streams (snd r)) = map t_id (c_streams c) /\
  (forall t, In t (c_streams (snd r)) -> t_blocked t = true /\ s_highest (t_send t) = 0) /\
  (forall sid ms, silent (fst (fstep (snd r) (OGet sid ms)))).
Proof.
  cbn [fstep]. cbv zeta.
  destruct (store_limits_ok false c (orz md 0) (orz bl 0) (orz br 0) (orz un 0) (orz sb 0) (orz su 0)) as (Hs & _).
  { unfold store_limits. cbn [andb]. reflexivity. }
  cbn [fst snd]. rewrite Hs.
  assert (Hall : forall t, In t (map blocked_again (c_streams c)) -> t_blocked t = true /\ s_highest (t_send t) = 0).
  { intros t Hin. apply in_map_iff in Hin. destruct Hin as (x & <- & _). split; reflexivity. }
  split; [unfold store_limits; cbn [andb]; reflexivity|].
  cbn [reblock with_limits c_max_data c_msd_bl c_msd_br c_msd_uni c_ms_bidi c_ms_uni c_used c_streams].
  repeat (split; [reflexivity|]). split; [rewrite map_map; reflexivity|]. split; [exact Hall|].
  intros sid ms. cbn [fstep c_streams].
  destruct (find_strm sid (map blocked_again (c_streams c))) as [t|] eqn:Ef; [|right; reflexivity].
  destruct (Hall t (find_in _ _ _ Ef)) as (Hb & _). rewrite Hb, orb_true_r. left; reflexivity.
Qed.

(* get_frame does not look at highest_offset: the frame it cuts is the same whatever that field holds *)
Lemma get_frame_forget st ms mo : fst (get_frame (forget st) ms mo) = fst (get_frame st ms mo).
Proof.
  unfold get_frame. cbn [forget s_reset s_pending s_pending_eof s_fin s_buf s_start s_highest].
  destruct (s_reset st); [reflexivity|]. destruct (s_pending st) as [|[a b] r]; [destruct (s_pending_eof st); reflexivity|].
  cbv zeta. match goal with |- context [if ?c then (SNone, _) else _] => destruct c end; reflexivity.
Qed.

(* a sender whose history is legitimate in the sense of C10 up to a forgotten highest_offset *)
Definition reach_upto_forget (st : send) (g : ghost) : Prop :=
  reach st g \/ exists st0, reach st0 g /\ forall ms mo, fst (get_frame st ms mo) = fst (get_frame st0 ms mo).

(* every _write_stream_frame call the loop makes in a reachable state -- also after handshake parameters LOWERED
   the remembered limits -- is for a stream inside the stream-count limit in force, with a max_offset that is
   within the stream's limit, which is covered by what the peer granted under the parameters in force, and within
   the connection credit, where the credit counter is the sum of the highest offsets and within MAX_DATA; a frame
   that carries data ends at or below max_offset *)
Lemma latest_limits_respected_l c gm sid ms mo o c' t :
  freach c gm -> find_strm sid (c_streams c) = Some t ->
  fstep c (OGet sid ms) = (FGet mo o, c') ->
  mo <= t_msdr t /\ t_msdr t <= granted c gm sid /\
  mo <= s_highest (t_send t) + c_max_data c - c_used c /\
  c_used c = sum_high (c_streams c) /\ c_used c' = sum_high (c_streams c') /\ c_used c' <= c_max_data c' /\
  (is_local c sid = true -> sid / 4 < ms_for c sid) /\
  (forall g off data fin, reach_upto_forget (t_send t) g -> o = SFrame off data fin -> data <> [] -> off + Zlen data <= mo).
Proof.
  intros R Hf H. pose proof (freach_inv _ _ R) as V.
  assert (R' : freach c' gm).
  { change gm with (gstep gm (OGet sid ms)). replace c' with (snd (fstep c (OGet sid ms))) by (rewrite H; reflexivity).
    apply freach_step; [exact R|exact Logic.I]. }
  pose proof (freach_inv _ _ R') as V'.
  cbn [fstep] in H. rewrite Hf in H.
  destruct (s_reset_pending (t_send t) || t_blocked t || s_empty (t_send t)) eqn:Eg; [discriminate|].
  assert (Hb : t_blocked t = false) by (destruct (t_blocked t); [rewrite orb_true_r in Eg; discriminate|reflexivity]).
  assert (He : s_empty (t_send t) = false) by (destruct (s_empty (t_send t)); [rewrite orb_true_r in Eg; discriminate|reflexivity]).
  pose proof (i_streams _ _ V) as F. rewrite Forall_forall in F. destruct (F t (find_in _ _ _ Hf)) as (_ & A & _ & B).
  rewrite (find_id _ _ _ Hf) in A, B.
  destruct (get_frame (t_send t) ms (Some (max_offset c t))) as [o' s'] eqn:Ew. inversion H; subst mo o' c'.
  unfold max_offset.
  split; [lia|]. split; [exact (A Hb)|]. split; [lia|]. split; [symmetry; exact (i_sum _ _ V)|].
  split; [symmetry; exact (i_sum _ _ V')|]. split; [exact (i_used _ _ V')|].
  split; [intros Hl; exact (B Hl Hb)|].
  intros g off data fin RS -> Hne.
  assert (K : forall st0, reach st0 g -> fst (get_frame st0 ms (Some (max_offset c t))) = SFrame off data fin ->
              off + Zlen data <= max_offset c t).
  { intros st0 R0 E0. destruct (get_frame st0 ms (Some (max_offset c t))) as [o0 s0] eqn:Ew0. cbn [fst] in E0. subst o0.
    assert (Hr : s_reset st0 = None).
    { destruct (s_reset st0) eqn:Er; [|reflexivity]. unfold get_frame in Ew0. rewrite Er in Ew0. discriminate. }
    destruct (send_frames_exact _ _ _ _ _ _ _ _ R0 Hr Ew0) as (_ & _ & _ & Hd & _).
    destruct (Hd Hne) as (_ & Hm). apply Hm. reflexivity. }
  destruct RS as [RS|(st0 & R0 & E0)].
  - apply (K _ RS). rewrite Ew. reflexivity.
  - apply (K _ R0). rewrite <- E0, Ew. reflexivity.
Qed.

Lemma reach_upto_forget_forget st g : reach st g -> reach_upto_forget (forget st) g.
Proof. intros R. right. exists st. split; [exact R|]. intros. apply get_frame_forget. Qed.

(* the scenario of finding C06-F1 under the repaired function: remembered limit 100, 20 bytes sent in 0-RTT, 0-RTT
   not accepted and the handshake grants 50: the stream is forgotten and held back, then released with limit 50; the
   lost 20 bytes and 60 new ones are cut into ONE frame that stops at 50 and is charged 50 (highest_offset restarted
   from 0); the next call yields nothing; with 0-RTT accepted the same parameters are refused *)
Definition ops_f1_repaired : list fop :=
  [OParamsP PTicket (Some 1000) (Some 100) (Some 100) (Some 100) (Some 4) (Some 4); OSend 0 (zeros 20) false; OGet 0 1000;
   OParamsP PRejected (Some 1000) (Some 50) (Some 50) (Some 50) (Some 4) (Some 4); OHandshakeDone;
   ODeliv 0 false 0 20 false; OSend 0 (zeros 60) false].

Lemma repaired_witness_l :
  let c := frun (conn_init true) ops_f1_repaired in
  guards (conn_init true) ops_f1_repaired /\
  (exists t, find_strm 0 (c_streams c) = Some t /\ t_blocked t = false /\ t_msdr t = 50 /\ s_highest (t_send t) = 0) /\ c_used c = 0 /\
  (exists c1, fstep c (OGet 0 1000) = (FGet 50 (SFrame 0 (zeros 50) false), c1) /\ c_used c1 = 50 /\
              fst (fstep c1 (OGet 0 1000)) = FGet 50 SNone) /\
  fst (fstep (frun (conn_init true) (firstn 3 ops_f1_repaired))
             (OParamsP PAccepted (Some 1000) (Some 50) (Some 50) (Some 50) (Some 4) (Some 4))) = FQErr PROTOCOL_VIOLATION.
Proof.
  cbv zeta. split.
  - cbn [guards ops_f1_repaired]. repeat split; try exact I; try (cbv; intros; discriminate); try (cbn; lia).
    vm_compute. repeat constructor.
  - split; [eexists; vm_compute; repeat split|]. split; [vm_compute; reflexivity|].
    split; [eexists; split; [vm_compute; reflexivity|split; vm_compute; reflexivity]|vm_compute; reflexivity].
Qed.

(* ================= I. STREAMS_BLOCKED =================
   aioquic sends no DATA_BLOCKED and no STREAM_DATA_BLOCKED frame; STREAMS_BLOCKED is written by _write_application
   (once the handshake is complete and _streams_blocked_pending is set) for each kind whose blocked list is not
   empty, with limit = the current _remote_max_streams_*.  The frame is right -- some locally opened stream of that
   kind is held back and its index is at or above the limit carried -- in every state in which _unblock_streams has run
   since max_streams last changed ([settled]): that is the case from handshake completion on, because afterwards
   only MAX_STREAMS changes the limit and its handler calls _unblock_streams. *)
Definition blk_of (c : conn) (uni : bool) : list Z := if uni then c_blk_uni c else c_blk_bidi c.
Definition ms_of (c : conn) (uni : bool) : Z := if uni then c_ms_uni c else c_ms_bidi c.
Definition head_blocked (c : conn) (uni : bool) : Prop :=
  match blk_of c uni with sid :: _ => ms_of c uni <= sid / 4 | [] => True end.
Definition settled (c : conn) : Prop := head_blocked c false /\ head_blocked c true.
Definition params_op (op : fop) : bool :=
  match op with OParams _ _ _ _ _ _ | OParamsP _ _ _ _ _ _ _ => true | _ => false end.

Lemma unblock_loop_head msd maxs blk : forall l,
  match fst (unblock_loop msd maxs blk l) with sid :: _ => maxs <= sid / 4 | [] => True end.
Proof.
  induction blk as [|sid rest IH]; intros l; cbn [unblock_loop]; [exact I|].
  destruct (sid / 4 <? maxs) eqn:E; [apply IH|]. cbn [fst]. lia.
Qed.

Lemma unblock_head c uni : head_blocked (unblock c uni) uni.
Proof.
  unfold head_blocked, unblock, blk_of, ms_of. destruct uni.
  - pose proof (unblock_loop_head (c_msd_uni c) (c_ms_uni c) (c_blk_uni c) (c_streams c)) as H.
    destruct (unblock_loop (c_msd_uni c) (c_ms_uni c) (c_blk_uni c) (c_streams c)) as [blk l]. exact H.
  - pose proof (unblock_loop_head (c_msd_br c) (c_ms_bidi c) (c_blk_bidi c) (c_streams c)) as H.
    destruct (unblock_loop (c_msd_br c) (c_ms_bidi c) (c_blk_bidi c) (c_streams c)) as [blk l]. exact H.
Qed.

Lemma unblock_other c uni : blk_of (unblock c uni) (negb uni) = blk_of c (negb uni) /\ ms_of (unblock c uni) (negb uni) = ms_of c (negb uni).
Proof.
  unfold unblock, blk_of, ms_of. destruct uni; cbn [negb].
  - destruct (unblock_loop (c_msd_uni c) (c_ms_uni c) (c_blk_uni c) (c_streams c)) as [blk l]. split; reflexivity.
  - destruct (unblock_loop (c_msd_br c) (c_ms_bidi c) (c_blk_bidi c) (c_streams c)) as [blk l]. split; reflexivity.
Qed.

Lemma head_blocked_other c uni : head_blocked c (negb uni) -> head_blocked (unblock c uni) (negb uni).
Proof. unfold head_blocked. destruct (unblock_other c uni) as (A & B). rewrite A, B. auto. Qed.

(* handshake completion settles both lists, whatever the state before *)
Lemma settled_after_handshake_l c : settled (snd (fstep c OHandshakeDone)).
Proof.
  cbn [fstep snd]. split.
  - apply (head_blocked_other (unblock c false) true). apply unblock_head.
  - apply unblock_head.
Qed.

Lemma head_blocked_same c c' uni : blk_of c' uni = blk_of c uni -> ms_of c' uni = ms_of c uni -> head_blocked c uni -> head_blocked c' uni.
Proof. unfold head_blocked. intros -> ->. auto. Qed.

Lemma settled_same c c' : c_blk_bidi c' = c_blk_bidi c -> c_blk_uni c' = c_blk_uni c -> c_ms_bidi c' = c_ms_bidi c -> c_ms_uni c' = c_ms_uni c ->
  settled c -> settled c'.
Proof.
  intros E1 E2 E3 E4 (A & B). split; [apply (head_blocked_same c c' false)|apply (head_blocked_same c c' true)]; assumption.
Qed.

Lemma for_send_settled c sid c1 t : settled c -> for_send c sid = Some (c1, t) -> settled c1.
Proof.
  intros S. unfold for_send. destruct (negb (can_send c sid)); [discriminate|].
  destruct (find_strm sid (c_streams c)); [intros H; inversion H; subst; exact S|].
  destruct (negb (Bool.eqb (sid_client sid) (c_client c))); [discriminate|].
  intros H; inversion H; subst; clear H. destruct S as (A & B). unfold settled, head_blocked, blk_of, ms_of in *.
  cbn [c_blk_bidi c_blk_uni c_ms_bidi c_ms_uni]. destruct (sid_uni sid); cbn [negb andb]; rewrite ?andb_false_r, ?andb_true_r.
  - split; [exact A|]. destruct (sid / 4 >=? c_ms_uni c) eqn:E; [|exact B].
    destruct (c_blk_uni c); cbn [app]; [lia|exact B].
  - split; [|exact B]. destruct (sid / 4 >=? c_ms_bidi c) eqn:E; [|exact A].
    destruct (c_blk_bidi c); cbn [app]; [lia|exact A].
Qed.

Lemma from_peer_settled c sid c1 t : settled c -> from_peer c sid = Some (c1, t) -> settled c1.
Proof.
  intros S. unfold from_peer. destruct (find_strm sid (c_streams c)); [intros H; inversion H; subst; exact S|].
  destruct (Bool.eqb (sid_client sid) (c_client c)); [discriminate|]. intros H; inversion H; subst. exact S.
Qed.

(* every operation other than the processing of transport parameters keeps both lists settled *)
Lemma settled_step c op : settled c -> params_op op = false -> settled (snd (fstep c op)).
Proof.
  intros S Hp. destruct op as [sid d f|sid code|sid|v|sid v|uni v|md bl br un sb su| |sid ms|sid|sid k a b f|sid k|sid|sid|sid|sid k|buni|pm md bl br un sb su];
    cbn [fstep]; try discriminate.
  - destruct (for_send c sid) as [[c1 t]|] eqn:E; [|exact S]. pose proof (for_send_settled _ _ _ _ S E) as S1.
    destruct (write (t_send t) d f) as [o s']. cbn [snd]. revert S1. apply settled_same; reflexivity.
  - destruct (for_send c sid) as [[c1 t]|] eqn:E; [|exact S]. pose proof (for_send_settled _ _ _ _ S E) as S1.
    destruct (reset (t_send t) code) as [o s']. cbn [snd]. revert S1. apply settled_same; reflexivity.
  - destruct (negb (can_send c sid)); [exact S|].
    destruct (from_peer c sid) as [[c1 t]|] eqn:E; [|exact S]. pose proof (from_peer_settled _ _ _ _ S E) as S1.
    destruct (reset (t_send t) 0) as [o s']. cbn [snd]. revert S1. apply settled_same; reflexivity.
  - cbn [snd]. destruct (v >? c_max_data c); [|exact S]. revert S. apply settled_same; reflexivity.
  - destruct (negb (can_send c sid)); [exact S|].
    destruct (from_peer c sid) as [[c1 t]|] eqn:E; [|exact S]. pose proof (from_peer_settled _ _ _ _ S E) as S1. cbn [snd].
    destruct (v >? t_msdr t); [|exact S1]. revert S1. apply settled_same; reflexivity.
  - destruct (v >? 1152921504606846976); [exact S|]. destruct S as (A & B). destruct uni.
    + destruct (v >? c_ms_uni c); [|split; assumption]. cbn [snd]. split; [|apply unblock_head].
      apply (head_blocked_other _ true). revert A. apply head_blocked_same; reflexivity.
    + destruct (v >? c_ms_bidi c); [|split; assumption]. cbn [snd]. split; [apply unblock_head|].
      apply (head_blocked_other _ false). revert B. apply head_blocked_same; reflexivity.
  - apply settled_after_handshake_l.
  - destruct (find_strm sid (c_streams c)) as [t|]; [|exact S].
    destruct (s_reset_pending (t_send t) || t_blocked t || s_empty (t_send t)); [exact S|].
    destruct (get_frame (t_send t) ms (Some (max_offset c t))) as [o s']. cbn [snd]. revert S. apply settled_same; reflexivity.
  - destruct (find_strm sid (c_streams c)) as [t|]; [|exact S].
    destruct (negb (s_reset_pending (t_send t)) || t_blocked t); [exact S|]. cbn [get_reset_frame snd]. revert S. apply settled_same; reflexivity.
  - destruct (find_strm sid (c_streams c)) as [t|]; [|exact S].
    destruct (on_data_delivery (t_send t) k a b f) as [o s']. cbn [snd]. revert S. apply settled_same; reflexivity.
  - destruct (find_strm sid (c_streams c)) as [t|]; [|exact S].
    destruct (on_reset_delivery (t_send t) k) as [o s']. cbn [snd]. revert S. apply settled_same; reflexivity.
  - destruct (from_peer c sid) as [[c1 t]|] eqn:E; [|exact S]. exact (from_peer_settled _ _ _ _ S E).
  - destruct (negb (can_receive c sid)); [exact S|]. destruct (find_strm sid (c_streams c)); [|exact S]. cbn [snd].
    revert S. apply settled_same; reflexivity.
  - destruct (find_strm sid (c_streams c)) as [t|]; [|exact S]. destruct (negb (t_stop t) || t_blocked t); [exact S|]. cbn [snd].
    revert S. apply settled_same; reflexivity.
  - destruct (find_strm sid (c_streams c)) as [t|]; [|exact S]. cbn [snd]. destruct k; [exact S|].
    revert S. apply settled_same; reflexivity.
  - exact S.
Qed.

(* a STREAMS_BLOCKED frame is written only for a kind that has a held-back stream; it carries the current limit; in a
   settled reachable state the first stream of the list is locally opened, of that kind, held back, and its index is
   at or above the limit carried: the sender really is blocked at that limit *)
Lemma streams_blocked_frame_correct_l c gm uni l c' :
  freach c gm -> settled c -> fstep c (OBlockedFrame uni) = (FBlocked (Some l), c') ->
  c' = c /\ l = ms_of c uni /\
  exists sid t, In sid (blk_of c uni) /\ find_strm sid (c_streams c) = Some t /\ t_blocked t = true /\
    is_local c sid = true /\ sid_uni sid = uni /\ l <= sid / 4.
Proof.
  intros R S H. pose proof (freach_inv _ _ R) as V. cbn [fstep] in H.
  assert (B : BL c (c_streams c) uni (blk_of c uni)) by (unfold blk_of; destruct uni; [exact (i_blk_uni _ _ V)|exact (i_blk_bidi _ _ V)]).
  assert (Hh : head_blocked c uni) by (destruct S; destruct uni; assumption).
  unfold head_blocked in Hh. fold (blk_of c uni) in H. fold (ms_of c uni) in H.
  destruct (blk_of c uni) as [|sid rest] eqn:Eb; [discriminate|]. inversion H; subst. split; [reflexivity|]. split; [reflexivity|].
  destruct B as (_ & HB). destruct (HB sid (or_introl eq_refl)) as (Hu & Hl & t & Ft & Bt).
  exists sid, t. repeat split; try assumption. left; reflexivity.
Qed.

(* and no frame is written for a kind whose list is empty *)
Lemma streams_blocked_frame_none c uni : blk_of c uni = [] -> fst (fstep c (OBlockedFrame uni)) = FBlocked None.
Proof. unfold blk_of. cbn [fstep fst]. destruct uni; intros ->; reflexivity. Qed.

(* non-vacuity: max_streams_bidi 1; streams 4 and 8 are held back: STREAMS_BLOCKED carries 1; after MAX_STREAMS 2 stream 4
   is released and the frame carries 2 (stream 8 is still held back); after MAX_STREAMS 3 nothing is written *)
Definition ops_sb : list fop :=
  [OParams (Some 1000) (Some 100) (Some 100) (Some 100) (Some 1) (Some 1); OHandshakeDone; OSend 4 [1] false; OSend 8 [1] false].

Lemma streams_blocked_witness_l :
  let c := frun (conn_init true) ops_sb in
  guards (conn_init true) ops_sb /\ settled c /\
  fst (fstep c (OBlockedFrame false)) = FBlocked (Some 1) /\ fst (fstep c (OBlockedFrame true)) = FBlocked None /\
  fst (fstep (snd (fstep c (OMaxStreams false 2))) (OBlockedFrame false)) = FBlocked (Some 2) /\
  fst (fstep (snd (fstep c (OMaxStreams false 3))) (OBlockedFrame false)) = FBlocked None.
Proof.
  cbv zeta. split; [cbv; repeat split; discriminate|]. split; [vm_compute; split; [discriminate|exact I]|].
  vm_compute. auto.
Qed.

(* ================= J. the order in which the stream loop serves the streams =================
   _write_application iterates _streams_queue (streams in creation order at first).  After the loop the queue becomes
       [s for s in queue if not (s in discarded or s in sent)] + list(sent)
   where `sent` is the SET of streams whose STREAM frame consumed connection credit in this packet (`used > 0`: a frame
   that only re-sends lost bytes, or a bare FIN, does not put the stream into `sent`) and `discarded` the finished
   streams; new streams are appended at the back.  [requeue q gone served]: [gone] = discarded + sent, [served] = the
   sent streams in whatever order the set yields them.  [ahead s q] = the streams the loop visits before s. *)
Definition memz (x : Z) (l : list Z) : bool := existsb (Z.eqb x) l.
Definition requeue (q gone served : list Z) : list Z := filter (fun x => negb (memz x gone)) q ++ served.
Fixpoint ahead (s : Z) (q : list Z) : list Z :=
  match q with [] => [] | x :: r => if x =? s then [] else x :: ahead s r end.

Lemma ahead_app s q r : In s q -> ahead s (q ++ r) = ahead s q.
Proof.
  induction q as [|x q IH]; [intros []|]. intros Hin. cbn [app ahead]. destruct (x =? s) eqn:E; [reflexivity|].
  destruct Hin as [->|Hin]; [lia|]. rewrite (IH Hin). reflexivity.
Qed.

Lemma ahead_requeue q gone served s : In s q -> memz s gone = false ->
  ahead s (requeue q gone served) = filter (fun x => negb (memz x gone)) (ahead s q).
Proof.
  unfold requeue. intros Hin Hs. induction q as [|x q IH]; [destruct Hin|].
  cbn [filter ahead]. destruct (x =? s) eqn:E.
  - assert (x = s) by lia. subst x. rewrite Hs. cbn [negb app ahead]. rewrite E. reflexivity.
  - destruct Hin as [->|Hin]; [lia|]. specialize (IH Hin).
    cbn [filter]. destruct (memz x gone) eqn:Ex; cbn [negb].
    + exact IH.
    + cbn [app ahead]. rewrite E, IH. reflexivity.
Qed.

Lemma filter_length_le {A} (p : A -> bool) l : (length (filter p l) <= length l)%nat.
Proof. induction l as [|x l IH]; cbn [filter length]; [auto|]. destruct (p x); cbn [length]; lia. Qed.

Lemma filter_length_lt {A} (p : A -> bool) l x : In x l -> p x = false -> (length (filter p l) < length l)%nat.
Proof.
  induction l as [|y l IH]; [intros []|]. intros [->|Hin] Hp; cbn [filter length].
  - rewrite Hp. pose proof (filter_length_le p l). lia.
  - specialize (IH Hin Hp). destruct (p y); cbn [length]; lia.
Qed.

(* a stream s that stays in the queue (it was neither served with new data nor discarded) is never overtaken: the
   streams visited before it after the requeueing are exactly those visited before it earlier, minus the ones that
   were served or discarded; their number does not grow, and it shrinks whenever one of them was served; a stream
   appended to the queue does not get ahead of s *)
Lemma queue_rotation_fair_l q gone served s : In s q -> memz s gone = false ->
  ahead s (requeue q gone served) = filter (fun x => negb (memz x gone)) (ahead s q) /\
  (length (ahead s (requeue q gone served)) <= length (ahead s q))%nat /\
  (forall x, In x (ahead s q) -> memz x gone = true ->
     (length (ahead s (requeue q gone served)) < length (ahead s q))%nat) /\
  (forall n, ahead s (q ++ [n]) = ahead s q).
Proof.
  intros Hin Hs. pose proof (ahead_requeue q gone served s Hin Hs) as E. rewrite E.
  split; [reflexivity|]. split; [apply filter_length_le|]. split.
  - intros x Hx Hg. apply (filter_length_lt _ _ x Hx). rewrite Hg. reflexivity.
  - intros n. apply ahead_app. exact Hin.
Qed.

(* ================= K. progress for a whole pass of the stream loop ================= *)
(* everything unblocked_progress needs to know about stream s in state c *)
Definition waiting (c : conn) (s : Z) (t : strm) (g : ghost) : Prop :=
  find_strm s (c_streams c) = Some t /\ reach (t_send t) g /\ t_blocked t = false /\ s_reset (t_send t) = None /\
  has_work (t_send t) /\
  (forall start rstop rest, s_pending (t_send t) = (start, rstop) :: rest -> start < max_offset c t).

Definition same_view (c c' : conn) (s : Z) (t : strm) : Prop :=
  c_used c' = c_used c /\ c_max_data c' = c_max_data c /\
  exists t', find_strm s (c_streams c') = Some t' /\ t_send t' = t_send t /\ t_blocked t' = t_blocked t /\ t_msdr t' = t_msdr t.

Lemma waiting_transfer c c' s t g : waiting c s t g -> same_view c c' s t -> exists t', waiting c' s t' g.
Proof.
  intros (Hf & R & Hb & Hr & Hw & Hroom) (U & M & t' & Hf' & Es & Eb & Em). exists t'.
  unfold waiting. rewrite Es, Eb. repeat split; try assumption.
  intros a b r Hp. specialize (Hroom a b r Hp). unfold max_offset in *. rewrite Es, Em, U, M. exact Hroom.
Qed.

Lemma same_view_refl c s t : find_strm s (c_streams c) = Some t -> same_view c c s t.
Proof. intros H. split; [reflexivity|]. split; [reflexivity|]. exists t. auto. Qed.

Lemma same_view_trans c c1 c2 s t t1 : same_view c c1 s t -> find_strm s (c_streams c1) = Some t1 -> same_view c1 c2 s t1 -> same_view c c2 s t.
Proof.
  intros (U & M & t' & Hf' & Es & Eb & Em) Hf1 (U2 & M2 & t2 & Hf2 & Es2 & Eb2 & Em2).
  assert (t' = t1) by congruence. subst t'.
  split; [congruence|]. split; [congruence|]. exists t2. repeat split; congruence.
Qed.

(* a get_frame call that cuts no frame leaves highest_offset alone *)
Lemma get_no_frame_highest st ms mo : (forall off d f, fst (get_frame st ms mo) <> SFrame off d f) ->
  s_highest (snd (get_frame st ms mo)) = s_highest st.
Proof.
  unfold get_frame. destruct (s_reset st); [reflexivity|]. destruct (s_pending st) as [|[a b] r].
  - destruct (s_pending_eof st); [intros H; exfalso; eapply H; reflexivity|reflexivity].
  - cbv zeta. match goal with |- context [if ?c then (SNone, st) else _] => destruct c end; [reflexivity|].
    intros H; exfalso; eapply H; reflexivity.
Qed.

(* the three calls the loop makes for a stream x: they keep the view of another stream s, unless a STREAM frame is cut *)
Lemma stop_call_view c x s t : find_strm s (c_streams c) = Some t ->
  same_view c (snd (fstep c (OGetStop x))) s t.
Proof.
  intros Hf. cbn [fstep]. destruct (find_strm x (c_streams c)) as [tx|] eqn:Ex; [|apply same_view_refl; exact Hf].
  destruct (negb (t_stop tx) || t_blocked tx); [apply same_view_refl; exact Hf|]. cbn [snd].
  split; [reflexivity|]. split; [reflexivity|]. cbn [with_streams c_streams].
  destruct (Z.eq_dec s x) as [->|Hne].
  - exists (set_stop false t). rewrite (find_upd_same x (set_stop false) _ t (fun _ => eq_refl) Hf). auto.
  - exists t. rewrite find_upd_other; [auto|reflexivity|exact Hne].
Qed.

Lemma reset_call_view c x s t : find_strm s (c_streams c) = Some t -> s <> x ->
  same_view c (snd (fstep c (OGetReset x))) s t.
Proof.
  intros Hf Hne. cbn [fstep]. destruct (find_strm x (c_streams c)) as [tx|] eqn:Ex; [|apply same_view_refl; exact Hf].
  destruct (negb (s_reset_pending (t_send tx)) || t_blocked tx); [apply same_view_refl; exact Hf|]. cbn [get_reset_frame snd].
  split; [reflexivity|]. split; [reflexivity|]. unfold upd_send, with_streams. cbn [c_streams].
  exists t. rewrite find_upd_other; [auto|reflexivity|exact Hne].
Qed.

Lemma get_call_view c x ms s t : find_strm s (c_streams c) = Some t -> s <> x ->
  (forall mo off d f, fst (fstep c (OGet x ms)) <> FGet mo (SFrame off d f)) ->
  same_view c (snd (fstep c (OGet x ms))) s t.
Proof.
  intros Hf Hne Hno. cbn [fstep] in *. destruct (find_strm x (c_streams c)) as [tx|] eqn:Ex; [|apply same_view_refl; exact Hf].
  destruct (s_reset_pending (t_send tx) || t_blocked tx || s_empty (t_send tx)); [apply same_view_refl; exact Hf|].
  pose proof (get_no_frame_highest (t_send tx) ms (Some (max_offset c tx))) as Hh.
  destruct (get_frame (t_send tx) ms (Some (max_offset c tx))) as [o s'] eqn:Eg. cbn [fst snd] in *.
  assert (E : s_highest s' = s_highest (t_send tx)).
  { apply Hh. intros off d f Ho. subst o. eapply Hno. reflexivity. }
  split; [cbn [c_used]; lia|]. split; [reflexivity|]. cbn [c_streams].
  exists t. rewrite find_upd_other; [auto|reflexivity|exact Hne].
Qed.

(* a frame for stream x in the outputs of one loop step *)
Definition frame_in (o : list fout) : Prop := exists mo off d f, In (FGet mo (SFrame off d f)) o.

Lemma loop_step_other c x ms s t : find_strm s (c_streams c) = Some t -> s <> x ->
  frame_in (fst (loop_step c x ms)) \/ same_view c (snd (loop_step c x ms)) s t.
Proof.
  intros Hf Hne. unfold loop_step. cbv zeta.
  pose proof (stop_call_view c x s t Hf) as V1. set (c1 := snd (fstep c (OGetStop x))) in *.
  destruct V1 as (U1 & M1 & t1 & Hf1 & Es1 & Eb1 & Em1).
  assert (V1 : same_view c c1 s t) by (split; [exact U1|split; [exact M1|exists t1; auto]]).
  destruct (match find_strm x (c_streams c1) with Some t0 => s_reset_pending (t_send t0) && negb (t_blocked t0) | None => false end).
  - right. cbn [snd]. apply (same_view_trans c c1 _ s t t1 V1 Hf1). apply reset_call_view; assumption.
  - cbn [fst snd].
    destruct (fst (fstep c1 (OGet x ms))) as [| |mo o| | | | | |] eqn:Eo;
      try (right; apply (same_view_trans c c1 _ s t t1 V1 Hf1); apply get_call_view; [assumption|assumption|intros; rewrite Eo; discriminate]).
    destruct o as [|off d f| |];
      try (right; apply (same_view_trans c c1 _ s t t1 V1 Hf1); apply get_call_view; [assumption|assumption|intros; rewrite Eo; discriminate]).
    left. exists mo, off, d, f. right. left. reflexivity.
Qed.

Lemma loop_step_self c s ms t g : waiting c s t g -> 0 < ms -> frame_in (fst (loop_step c s ms)).
Proof.
  intros W Hms. pose proof W as (Hf & _). unfold loop_step. cbv zeta.
  pose proof (stop_call_view c s s t Hf) as V1. set (c1 := snd (fstep c (OGetStop s))) in *.
  destruct (waiting_transfer c c1 s t g W V1) as (t1 & Hf1 & R1 & Hb1 & Hr1 & Hw1 & Hroom1).
  rewrite Hf1, (reach_reset_pending _ _ R1 Hr1). cbn [andb fst].
  destruct (unblocked_progress_full c1 s ms t1 g Hf1 R1 Hb1 Hr1 Hms Hw1 Hroom1) as (d & f & c' & E & _).
  rewrite E. cbn [fst]. exists (max_offset c1 t1), (next_offset (t_send t1)), d, f. right. left. reflexivity.
Qed.

(* one pass of the stream loop in which every _write_stream_frame call up to and including the one for s is offered a
   positive budget: if s is waiting (not held back, not reset, data or FIN pending below both limits, legitimate
   sender), a STREAM frame is cut for s or for a stream visited before s *)
Lemma loop_progress_l q : forall c budgets s t g,
  In s q -> (length (ahead s q) < length budgets)%nat -> Forall (fun ms => 0 < ms) budgets ->
  waiting c s t g ->
  exists x o, In (x, o) (fst (stream_loop c q budgets)) /\ frame_in o /\ (x = s \/ In x (ahead s q)).
Proof.
  induction q as [|x q IH]; intros c budgets s t g Hin Hlen Hpos W; [destruct Hin|].
  destruct budgets as [|ms b]; [cbn in Hlen; lia|]. inversion Hpos as [|? ? Hms Hpos']; subst.
  cbn [stream_loop fst ahead]. destruct (x =? s) eqn:E.
  - assert (x = s) by lia. subst x. exists s, (fst (loop_step c s ms)). split; [left; reflexivity|]. split; [|left; reflexivity].
    exact (loop_step_self c s ms t g W Hms).
  - assert (Hne : s <> x) by lia. destruct Hin as [->|Hin]; [lia|].
    pose proof W as (Hf & _).
    destruct (loop_step_other c x ms s t Hf Hne) as [Hfr|V].
    + exists x, (fst (loop_step c x ms)). split; [left; reflexivity|]. split; [exact Hfr|right; left; reflexivity].
    + destruct (waiting_transfer _ _ _ _ _ W V) as (t' & W').
      cbn [ahead length] in Hlen. rewrite E in Hlen. cbn [length] in Hlen.
      destruct (IH (snd (loop_step c x ms)) b s t' g Hin ltac:(lia) Hpos' W') as (y & o & Hy & Hfr & Hwho).
      exists y, o. split; [right; exact Hy|]. split; [exact Hfr|]. destruct Hwho as [->|Hy']; [left; reflexivity|right; right; exact Hy'].
Qed.
