(* Send-side flow control, part 3 (model/FlowSend.v):
   G. progress at full strength: the sender's buffer_is_empty flag is false whenever data or a FIN is waiting, so
      the guard of the stream loop never skips a stream that has something to send;
   H. the repaired _parse_transport_parameters ([OParamsP], repair of finding C06-F1): after handshake parameters
      that LOWER the remembered limits (0-RTT not accepted) no STREAM frame exceeds the limits in force. *)
From Coq Require Import ZArith List Bool Lia ZifyBool.
From AQ Require Import lib.Base model.RangeSet model.StreamSend model.FlowSend
  proofs.RangeSetP proofs.ListZ proofs.StreamSendP proofs.FlowSendP.

(* ================= G. buffer_is_empty and what is waiting ================= *)
(* something is waiting: a pending range (written and never sent, or declared lost) or a pending FIN *)
Definition has_work (st : send) : Prop := s_pending st <> [] \/ s_pending_eof st = true.
(* the flag the stream loop tests: while the stream is not reset, waiting work means buffer_is_empty = False *)
Definition flag_ok (st : send) : Prop := s_reset st = None -> has_work st -> s_empty st = false.

Lemma flag_init w : flag_ok (send_init w).
Proof. intros _ [H|H]; cbn in H; congruence. Qed.

(* every operation of the sender keeps it -- no legitimacy needed *)
Lemma flag_write st d f : flag_ok st -> flag_ok (snd (write st d f)).
Proof.
  intros H. unfold write. destruct (s_fin st); [exact H|]. destruct (s_reset st) eqn:Er; [exact H|].
  destruct (negb (Zlen d =? 0)), f; cbn [snd]; try (intros _ _; reflexivity).
  exact H.
Qed.

Lemma flag_get st ms mo : flag_ok st -> flag_ok (snd (get_frame st ms mo)).
Proof.
  intros H. unfold get_frame. destruct (s_reset st) eqn:Er; [exact H|].
  destruct (s_pending st) as [|[start rstop] rest] eqn:Ep.
  - destruct (s_pending_eof st) eqn:Ee; cbn [snd]; intros _ [X|X]; cbn in X; congruence.
  - cbv zeta.
    match goal with |- context [if ?b then (SNone, st) else _] => destruct b end; cbn [snd].
    + exact H.
    + assert (E : s_empty st = false) by (apply H; [exact Er|left; rewrite Ep; discriminate]).
      intros _ _. cbn [s_empty]. exact E.
Qed.

Lemma flag_get_reset st : flag_ok st -> flag_ok (snd (get_reset_frame st)).
Proof. intros H. exact H. Qed.

Lemma flag_reset_deliv st k : flag_ok st -> flag_ok (snd (on_reset_delivery st k)).
Proof. intros H. destruct k; exact H. Qed.

Lemma flag_reset st code : flag_ok st -> flag_ok (snd (reset st code)).
Proof. intros H. unfold reset. destruct (s_reset st); [exact H|]. cbn [snd]. intros X; cbn in X; discriminate. Qed.

Lemma flag_deliv st k a b f : flag_ok st -> flag_ok (snd (on_data_delivery st k a b f)).
Proof.
  intros H. unfold on_data_delivery.
  destruct (f && negb match s_fin st with Some f0 => b =? f0 | None => false end); [exact H|].
  destruct (s_reset st) eqn:Er; [exact H|]. destruct k.
  - assert (G : forall X Y Z W U, flag_ok (mkSend (s_empty st) (s_highest st) X (s_reset_pending st) Y Z W (s_fin st) U (s_stop st)
                 (s_pending st) (s_pending_eof st) None)) by (intros; intros _ Hw; apply H; [exact Er|exact Hw]).
    destruct (b >? a); [|cbn [snd]; apply G].
    destruct (add a b (s_acked st)) as [|[fs fe] rest]; [cbn [snd]; apply G|].
    destruct (fs =? s_start st); cbn [snd]; apply G.
  - destruct (b >? a), f; cbn [snd]; try (intros _ _; reflexivity). exact H.
Qed.

(* the legitimate sender histories of C10: additionally, reset_pending is raised only on a stream that was reset *)
Lemma reach_flag st g : reach st g -> flag_ok st.
Proof.
  induction 1 as [|st g op R IH L]; [apply flag_init|].
  destruct op; cbn [send_step]; auto using flag_write, flag_get, flag_get_reset, flag_deliv, flag_reset_deliv, flag_reset.
Qed.

Lemma reach_reset_pending st g : reach st g -> s_reset st = None -> s_reset_pending st = false.
Proof.
  induction 1 as [|st g op R IH L]; [reflexivity|].
  assert (K : forall st', s_reset st' = s_reset st -> s_reset_pending st' = s_reset_pending st ->
              s_reset st' = None -> s_reset_pending st' = false).
  { intros st' E1 E2 Hx. rewrite E2. apply IH. rewrite <- E1. exact Hx. }
  destruct op as [d f|ms mo| |k a b f|k|c]; cbn [send_step legit] in *.
  - unfold write. destruct (s_fin st); [apply K; reflexivity|]. destruct (s_reset st) eqn:Er; [apply K; [exact Er|reflexivity]|].
    destruct (negb (Zlen d =? 0)), f; cbn [snd]; apply K; try exact Er; reflexivity.
  - unfold get_frame. destruct (s_reset st) eqn:Er; [apply K; [exact Er|reflexivity]|]. destruct (s_pending st) as [|[s e] t].
    + destruct (s_pending_eof st); cbn [snd set_empty]; apply K; try exact Er; reflexivity.
    + cbv zeta. match goal with |- context [if ?b then (SNone, st) else _] => destruct b end; cbn [snd]; apply K; try exact Er; reflexivity.
  - cbn [get_reset_frame snd s_reset]. intros X. contradiction.
  - unfold on_data_delivery.
    destruct (f && negb match s_fin st with Some f0 => b =? f0 | None => false end); [apply K; reflexivity|].
    destruct (s_reset st) eqn:Er; [apply K; [exact Er|reflexivity]|]. destruct k.
    + destruct (b >? a); [|cbn [snd]; apply K; try exact Er; reflexivity].
      destruct (add a b (s_acked st)) as [|[fs fe] rest]; [cbn [snd]; apply K; try exact Er; reflexivity|].
      destruct (fs =? s_start st); cbn [snd]; apply K; try exact Er; reflexivity.
    + destruct (b >? a), f; cbn [snd]; apply K; try exact Er; reflexivity.
  - cbn [on_reset_delivery snd]. destruct k; cbn [s_reset]; intros X; contradiction.
  - unfold reset. destruct (s_reset st) eqn:Er; [apply K; [exact Er|reflexivity]|]. cbn [snd s_reset]. discriminate.
Qed.

(* the connection: the flag invariant holds for every stream after EVERY operation sequence (no guard at all) *)
Definition FL (c : conn) : Prop := Forall (fun t => flag_ok (t_send t)) (c_streams c).

Lemma Forall_upd_any (Q : strm -> Prop) sid f l : Forall Q l -> (forall x, Q x -> Q (f x)) -> Forall Q (upd_strm sid f l).
Proof.
  intros HF Hf. induction l as [|x l IH]; cbn [upd_strm]; [constructor|]. inversion HF; subst.
  destruct (t_id x =? sid); constructor; auto.
Qed.

Lemma for_send_FL c sid c1 t : FL c -> for_send c sid = Some (c1, t) -> FL c1 /\ flag_ok (t_send t).
Proof.
  unfold FL, for_send. intros V. destruct (negb (can_send c sid)); [discriminate|].
  destruct (find_strm sid (c_streams c)) as [t0|] eqn:Ef.
  - intros H; inversion H; subst. split; [exact V|]. rewrite Forall_forall in V. exact (V _ (find_in _ _ _ Ef)).
  - destruct (negb (Bool.eqb (sid_client sid) (c_client c))); [discriminate|]. intros H; inversion H; subst; clear H.
    cbn [c_streams t_send]. split; [|apply flag_init]. apply Forall_app. split; [exact V|]. constructor; [apply flag_init|constructor].
Qed.

Lemma from_peer_FL c sid c1 t : FL c -> from_peer c sid = Some (c1, t) -> FL c1 /\ flag_ok (t_send t).
Proof.
  unfold FL, from_peer. intros V.
  destruct (find_strm sid (c_streams c)) as [t0|] eqn:Ef.
  - intros H; inversion H; subst. split; [exact V|]. rewrite Forall_forall in V. exact (V _ (find_in _ _ _ Ef)).
  - destruct (Bool.eqb (sid_client sid) (c_client c)); [discriminate|]. intros H; inversion H; subst; clear H.
    cbn [with_streams c_streams t_send]. split; [|apply flag_init]. apply Forall_app. split; [exact V|]. constructor; [apply flag_init|constructor].
Qed.

Lemma unblock_loop_FL msd maxs blk : forall l, Forall (fun t => flag_ok (t_send t)) l ->
  Forall (fun t => flag_ok (t_send t)) (snd (unblock_loop msd maxs blk l)).
Proof.
  induction blk as [|sid rest IH]; intros l V; cbn [unblock_loop]; [exact V|].
  destruct (sid / 4 <? maxs); [|exact V]. apply IH. apply Forall_upd_any; [exact V|intros x Hx; exact Hx].
Qed.

Lemma unblock_FL c uni : FL c -> FL (unblock c uni).
Proof.
  unfold FL, unblock. intros V. destruct uni.
  - pose proof (unblock_loop_FL (c_msd_uni c) (c_ms_uni c) (c_blk_uni c) _ V) as H.
    destruct (unblock_loop (c_msd_uni c) (c_ms_uni c) (c_blk_uni c) (c_streams c)) as [blk l]. exact H.
  - pose proof (unblock_loop_FL (c_msd_br c) (c_ms_bidi c) (c_blk_bidi c) _ V) as H.
    destruct (unblock_loop (c_msd_br c) (c_ms_bidi c) (c_blk_bidi c) (c_streams c)) as [blk l]. exact H.
Qed.

Lemma upd_send_FL c sid s' : FL c -> flag_ok s' -> FL (upd_send c sid s').
Proof. unfold FL, upd_send, with_streams. cbn [c_streams]. intros V H. apply Forall_upd_any; [exact V|intros x _; exact H]. Qed.

Lemma fl_step c op : FL c -> FL (snd (fstep c op)).
Proof.
  intros V. destruct op as [sid d f|sid code|sid|v|sid v|uni v|md bl br un sb su| |sid ms|sid|sid k a b f|sid k|sid|sid|sid|sid k|pm md bl br un sb su];
    cbn [fstep].
  - destruct (for_send c sid) as [[c1 t]|] eqn:E; [|exact V]. destruct (for_send_FL _ _ _ _ V E) as (V1 & F1).
    pose proof (flag_write (t_send t) d f F1) as W. destruct (write (t_send t) d f) as [o s']. cbn [snd] in *. apply upd_send_FL; assumption.
  - destruct (for_send c sid) as [[c1 t]|] eqn:E; [|exact V]. destruct (for_send_FL _ _ _ _ V E) as (V1 & F1).
    pose proof (flag_reset (t_send t) code F1) as W. destruct (reset (t_send t) code) as [o s']. cbn [snd] in *. apply upd_send_FL; assumption.
  - destruct (negb (can_send c sid)); [exact V|].
    destruct (from_peer c sid) as [[c1 t]|] eqn:E; [|exact V]. destruct (from_peer_FL _ _ _ _ V E) as (V1 & F1).
    pose proof (flag_reset (t_send t) 0 F1) as W. destruct (reset (t_send t) 0) as [o s']. cbn [snd] in *. apply upd_send_FL; assumption.
  - cbn [snd]. destruct (v >? c_max_data c); exact V.
  - destruct (negb (can_send c sid)); [exact V|].
    destruct (from_peer c sid) as [[c1 t]|] eqn:E; [|exact V]. destruct (from_peer_FL _ _ _ _ V E) as (V1 & F1). cbn [snd].
    destruct (v >? t_msdr t); [|exact V1]. unfold FL, with_streams. cbn [c_streams]. apply Forall_upd_any; [exact V1|intros x Hx; exact Hx].
  - destruct (v >? 1152921504606846976); [exact V|]. destruct uni.
    + destruct (v >? c_ms_uni c); [|exact V]. cbn [snd]. apply unblock_FL. exact V.
    + destruct (v >? c_ms_bidi c); [|exact V]. cbn [snd]. apply unblock_FL. exact V.
  - exact V.
  - cbn [snd]. apply unblock_FL, unblock_FL, V.
  - destruct (find_strm sid (c_streams c)) as [t|] eqn:Ef; [|exact V].
    destruct (s_reset_pending (t_send t) || t_blocked t || s_empty (t_send t)); [exact V|].
    assert (F1 : flag_ok (t_send t)) by (unfold FL in V; rewrite Forall_forall in V; exact (V _ (find_in _ _ _ Ef))).
    pose proof (flag_get (t_send t) ms (Some (max_offset c t)) F1) as W.
    destruct (get_frame (t_send t) ms (Some (max_offset c t))) as [o s']. cbn [snd] in *.
    unfold FL. cbn [c_streams]. apply Forall_upd_any; [exact V|intros x _; exact W].
  - destruct (find_strm sid (c_streams c)) as [t|] eqn:Ef; [|exact V].
    destruct (negb (s_reset_pending (t_send t)) || t_blocked t); [exact V|]. cbn [get_reset_frame snd].
    assert (F1 : flag_ok (t_send t)) by (unfold FL in V; rewrite Forall_forall in V; exact (V _ (find_in _ _ _ Ef))).
    apply upd_send_FL; [exact V|exact F1].
  - destruct (find_strm sid (c_streams c)) as [t|] eqn:Ef; [|exact V].
    assert (F1 : flag_ok (t_send t)) by (unfold FL in V; rewrite Forall_forall in V; exact (V _ (find_in _ _ _ Ef))).
    pose proof (flag_deliv (t_send t) k a b f F1) as W. destruct (on_data_delivery (t_send t) k a b f) as [o s']. cbn [snd] in *.
    apply upd_send_FL; assumption.
  - destruct (find_strm sid (c_streams c)) as [t|] eqn:Ef; [|exact V].
    assert (F1 : flag_ok (t_send t)) by (unfold FL in V; rewrite Forall_forall in V; exact (V _ (find_in _ _ _ Ef))).
    pose proof (flag_reset_deliv (t_send t) k F1) as W. destruct (on_reset_delivery (t_send t) k) as [o s']. cbn [snd] in *.
    apply upd_send_FL; assumption.
  - destruct (from_peer c sid) as [[c1 t]|] eqn:E; [|exact V]. exact (proj1 (from_peer_FL _ _ _ _ V E)).
  - destruct (negb (can_receive c sid)); [exact V|]. destruct (find_strm sid (c_streams c)); [|exact V]. cbn [snd].
    unfold FL, with_streams. cbn [c_streams]. apply Forall_upd_any; [exact V|intros x Hx; exact Hx].
  - destruct (find_strm sid (c_streams c)) as [t|]; [|exact V]. destruct (negb (t_stop t) || t_blocked t); [exact V|]. cbn [snd].
    unfold FL, with_streams. cbn [c_streams]. apply Forall_upd_any; [exact V|intros x Hx; exact Hx].
  - destruct (find_strm sid (c_streams c)) as [t|]; [|exact V]. cbn [snd]. destruct k; [exact V|].
    unfold FL, with_streams. cbn [c_streams]. apply Forall_upd_any; [exact V|intros x Hx; exact Hx].
  - destruct (store_limits_keep (match pm with PAccepted => true | _ => false end) c
                (orz md 0) (orz bl 0) (orz br 0) (orz un 0) (orz sb 0) (orz su 0)) as (_ & _ & K & _).
    unfold FL in *. destruct pm; cbn [snd reblock c_streams]; rewrite K; try exact V.
    apply Forall_map. cbn [blocked_again t_send]. exact V.
Qed.

Lemma fl_run ops : forall c, FL c -> FL (frun c ops).
Proof. induction ops as [|op r IH]; intros c V; cbn [frun fold_left]; [exact V|]. apply IH, fl_step, V. Qed.

(* after ANY operation sequence from a fresh connection (no parameter guard, no legitimacy of delivery outcomes):
   a stream that is not reset and has a pending range or a pending FIN has buffer_is_empty = False *)
Lemma flag_always cl ops t : In t (c_streams (frun (conn_init cl) ops)) ->
  s_reset (t_send t) = None -> has_work (t_send t) -> s_empty (t_send t) = false.
Proof.
  intros Hin. assert (V : FL (frun (conn_init cl) ops)) by (apply fl_run; constructor).
  unfold FL in V. rewrite Forall_forall in V. exact (V t Hin).
Qed.

(* ---------- progress, full strength ----------
   A stream whose sender has a legitimate history (C10 [reach]), that is not held back by the stream-count limit,
   was not reset, and has something waiting -- a pending range whose first offset lies below BOTH the stream limit
   and the connection credit (max_offset), or, with no range pending, a pending FIN -- gets a frame from the next
   _write_stream_frame call with a positive size budget: the loop's guard lets it through (buffer_is_empty is
   False, reset_pending is False), the frame starts at the sender's next offset, carries at least one byte when a
   range was pending, and is the FIN when only the FIN was. *)
Lemma unblocked_progress_full c sid ms t g :
  find_strm sid (c_streams c) = Some t -> reach (t_send t) g ->
  t_blocked t = false -> s_reset (t_send t) = None -> 0 < ms ->
  has_work (t_send t) ->
  (forall start rstop rest, s_pending (t_send t) = (start, rstop) :: rest -> start < max_offset c t) ->
  exists data fin c',
    fstep c (OGet sid ms) = (FGet (max_offset c t) (SFrame (next_offset (t_send t)) data fin), c') /\
    (s_pending (t_send t) <> [] -> data <> [] /\ next_offset (t_send t) + Zlen data <= max_offset c t) /\
    (s_pending (t_send t) = [] -> data = [] /\ fin = true).
Proof.
  intros Hf R Hb Hr Hms Hw Hroom.
  pose proof (reach_flag _ _ R Hr Hw) as He. pose proof (reach_reset_pending _ _ R Hr) as Hrp.
  pose proof (reach_inv _ _ R) as V.
  cbn [fstep]. rewrite Hf, Hb, Hrp, He. cbn [orb].
  destruct (get_frame (t_send t) ms (Some (max_offset c t))) as [o s'] eqn:Eg.
  unfold next_offset. destruct (s_pending (t_send t)) as [|[start rstop] rest] eqn:Ep.
  - destruct Hw as [Hw|Hw]; [congruence|].
    unfold get_frame in Eg. rewrite Hr, Ep, Hw in Eg.
    destruct (s_fin (t_send t)) as [f0|] eqn:EF; [|destruct (v_fin_none _ _ V EF) as (X & _); congruence].
    destruct (v_fin_some _ _ V f0 EF) as (Hf0 & _). inversion Eg; subst. eexists _, _, _. split; [reflexivity|].
    split; [intros X; congruence|intros _; split; reflexivity].
  - specialize (Hroom _ _ _ eq_refl).
    pose proof (v_pwf _ _ V) as W. rewrite Ep in W. cbn [wf_from] in W. destruct W as (W1 & W2 & W3).
    assert (E : exists data fin, o = SFrame start data fin).
    { unfold get_frame in Eg. rewrite Hr, Ep in Eg. cbv zeta in Eg.
      assert (E1 : (if Z.min rstop (start + ms) >? max_offset c t then max_offset c t else Z.min rstop (start + ms)) <=? start = false)
        by (destruct (Z.min rstop (start + ms) >? max_offset c t) eqn:E1; lia).
      rewrite E1 in Eg. inversion Eg. eauto. }
    destruct E as (data & fin & ->). eexists _, _, _. split; [reflexivity|]. split; [|intros X; discriminate].
    intros _.
    destruct (send_frames_exact _ _ _ _ _ _ _ _ R Hr Eg) as (_ & _ & _ & Hd & _).
    assert (Hne : data <> []).
    { unfold get_frame in Eg. rewrite Hr, Ep in Eg. cbv zeta in Eg.
      set (stop := if Z.min rstop (start + ms) >? max_offset c t then max_offset c t else Z.min rstop (start + ms)) in Eg.
      assert (Hstop : start < stop <= rstop) by (unfold stop; destruct (Z.min rstop (start + ms) >? max_offset c t) eqn:E1; lia).
      assert (E1 : stop <=? start = false) by lia. rewrite E1 in Eg.
      assert (Hrs : rstop <= s_stop (t_send t)).
      { pose proof (v_pmax _ _ V (rstop - 1)) as P. rewrite Ep in P. cbn [mem] in P.
        assert (Hq : start <= rstop - 1 < rstop) by lia. specialize (P (or_introl Hq)). lia. }
      pose proof (v_start _ _ V) as Hst.
      destruct (buf_slice (t_send t) g start stop V ltac:(lia) ltac:(lia) ltac:(lia)) as (Hdata & Hlen).
      rewrite Hdata in Eg. inversion Eg; subst data. intros Hnil. rewrite Hnil, Zlen_nil in Hlen. lia. }
    split; [exact Hne|]. destruct (Hd Hne) as (_ & Hm). apply Hm. reflexivity.
Qed.

(* ================= H. the repaired _parse_transport_parameters, 0-RTT not accepted =================
   [preach]: like [freach], plus handshake parameters processed with 0-RTT NOT accepted ([OParamsP PRejected]), whose
   values may be LOWER than the remembered ones.  Guard of that operation: the values are varints (>= 0) and every
   stream the connection holds at that moment was opened locally (the handshake parameters are processed while the
   EncryptedExtensions message is handled, before any 1-RTT key exists, so no peer frame can have created a stream;
   the tie checks this on every scenario).
   What survives a lowering is not "highest_offset <= limit" (highest_offset still counts the bytes of the discarded
   0-RTT packets) but the wire statement: every STREAM frame cut afterwards lies within the limits in force. *)
Definition nn (o : option Z) : Prop := match o with Some v => 0 <= v | None => True end.

Definition pguard2 (c : conn) (op : fop) : Prop :=
  match op with
  | OParamsP PRejected md bl br un sb su =>
      nn md /\ nn bl /\ nn br /\ nn un /\ nn sb /\ nn su /\
      Forall (fun t => is_local c (t_id t) = true) (c_streams c)
  | _ => pguard c op
  end.

Inductive preach : conn -> (Z -> Z) -> Prop :=
| preach_init cl : preach (conn_init cl) (fun _ => 0)
| preach_step c gm op : preach c gm -> pguard2 c op -> preach (snd (fstep c op)) (gstep gm op).

Lemma freach_preach c gm : freach c gm -> preach c gm.
Proof.
  induction 1 as [|c gm op R IH G]; [constructor|]. apply preach_step; [exact IH|].
  destruct op; try exact G. destruct m; try exact G. destruct G.
Qed.

(* a stream that is not held back has a limit the peer granted under the parameters in force, and lies inside the
   stream-count limit in force *)
Definition SQ2 (c : conn) (gm : Z -> Z) (t : strm) : Prop :=
  (t_blocked t = false -> t_msdr t <= granted c gm (t_id t)) /\
  (is_local c (t_id t) = true -> t_blocked t = false -> t_id t / 4 < ms_for c (t_id t)).

Record PInv (c : conn) (gm : Z -> Z) : Prop := {
  p_bl : 0 <= c_msd_bl c;
  p_streams : Forall (SQ2 c gm) (c_streams c);
  p_nodup : NoDup (map t_id (c_streams c));
  p_blk_bidi : BL c (c_streams c) false (c_blk_bidi c);
  p_blk_uni : BL c (c_streams c) true (c_blk_uni c)
}.

Lemma SQ2_mono c c' gm gm' t : sc_le c c' -> (forall s, gm s <= gm' s) -> SQ2 c gm t -> SQ2 c' gm' t.
Proof.
  intros (Hc & H1 & H2 & H3 & H4 & H5) Hg (A & B).
  assert (L : forall s, is_local c' s = is_local c s) by (intros s; unfold is_local; rewrite Hc; reflexivity).
  split.
  - intros Hb. specialize (A Hb). unfold granted, initial_for in *. rewrite L. specialize (Hg (t_id t)).
    destruct (is_local c (t_id t)); [destruct (sid_uni (t_id t))|]; lia.
  - intros Hl Hb. rewrite L in Hl. specialize (B Hl Hb). unfold ms_for in *. destruct (sid_uni (t_id t)); lia.
Qed.

Lemma pinv_init cl : PInv (conn_init cl) (fun _ => 0).
Proof.
  constructor; cbn; try lia; try (constructor; fail).
  - split; [constructor|intros sid []].
  - split; [constructor|intros sid []].
Qed.

Lemma PInv_grow c c' gm gm' :
  sc_le c c' -> (forall s, gm s <= gm' s) ->
  c_streams c' = c_streams c -> c_blk_bidi c' = c_blk_bidi c -> c_blk_uni c' = c_blk_uni c ->
  PInv c gm -> PInv c' gm'.
Proof.
  intros Hs Hg E1 E2 E3 V. pose proof Hs as (Hc & H1 & H2 & H3 & H4 & H5).
  constructor; rewrite ?E1, ?E2, ?E3.
  - pose proof (p_bl _ _ V); lia.
  - eapply Forall_impl; [|exact (p_streams _ _ V)]. intros t. apply SQ2_mono; assumption.
  - exact (p_nodup _ _ V).
  - eapply BL_mono; [exact Hc|exact (p_blk_bidi _ _ V)].
  - eapply BL_mono; [exact Hc|exact (p_blk_uni _ _ V)].
Qed.

Lemma map_id_upd sid f l : (forall x, t_id (f x) = t_id x) -> map t_id (upd_strm sid f l) = map t_id l.
Proof.
  intros Hf. induction l as [|x l IH]; cbn [upd_strm map]; [reflexivity|].
  destruct (t_id x =? sid); cbn [map]; [rewrite Hf|rewrite IH]; reflexivity.
Qed.

(* an update of one stream that keeps id and is_blocked, with SQ2 for the new value *)
Lemma PInv_upd c gm sid f t used' :
  PInv c gm -> find_strm sid (c_streams c) = Some t ->
  (forall x, t_id (f x) = t_id x) -> (forall x, t_blocked (f x) = t_blocked x) ->
  SQ2 c gm (f t) ->
  PInv (mkConn (c_client c) (c_max_data c) used' (c_msd_bl c) (c_msd_br c) (c_msd_uni c) (c_ms_bidi c) (c_ms_uni c)
               (upd_strm sid f (c_streams c)) (c_blk_bidi c) (c_blk_uni c)) gm.
Proof.
  intros V Hf Hi Hb Hq.
  set (c' := mkConn _ _ _ _ _ _ _ _ _ _ _).
  assert (S : sc_le c c') by (unfold sc_le, c'; cbn [c_client c_msd_bl c_msd_br c_msd_uni c_ms_bidi c_ms_uni]; repeat split; try reflexivity; lia).
  constructor; unfold c'; cbn [c_msd_bl c_streams c_blk_bidi c_blk_uni].
  - exact (p_bl _ _ V).
  - apply (Forall_upd _ sid f _ t).
    + eapply Forall_impl; [|exact (p_streams _ _ V)]. intros x. apply SQ2_mono; [exact S|intros; lia].
    + exact Hf.
    + apply (SQ2_mono c c' gm gm); [exact S|intros; lia|exact Hq].
  - rewrite map_id_upd by exact Hi. exact (p_nodup _ _ V).
  - eapply BL_mono; [reflexivity|]. apply BL_upd; [exact Hi|exact Hb|exact (p_blk_bidi _ _ V)].
  - eapply BL_mono; [reflexivity|]. apply BL_upd; [exact Hi|exact Hb|exact (p_blk_uni _ _ V)].
Qed.

(* SQ2 does not look at the sender or at stop_pending *)
Lemma PInv_upd_send c gm sid t s' : PInv c gm -> find_strm sid (c_streams c) = Some t -> PInv (upd_send c sid s') gm.
Proof.
  intros V Hf. unfold upd_send, with_streams.
  apply (PInv_upd c gm sid (set_send s') t (c_used c) V Hf); try (intros; reflexivity).
  pose proof (p_streams _ _ V) as F. rewrite Forall_forall in F. exact (F t (find_in _ _ _ Hf)).
Qed.

Lemma PInv_upd_stop c gm sid t b : PInv c gm -> find_strm sid (c_streams c) = Some t ->
  PInv (with_streams c (upd_strm sid (set_stop b) (c_streams c))) gm.
Proof.
  intros V Hf. unfold with_streams.
  apply (PInv_upd c gm sid (set_stop b) t (c_used c) V Hf); try (intros; reflexivity).
  pose proof (p_streams _ _ V) as F. rewrite Forall_forall in F. exact (F t (find_in _ _ _ Hf)).
Qed.

Lemma find_none_notin sid l : find_strm sid l = None -> ~ In sid (map t_id l).
Proof.
  induction l as [|x l IH]; cbn [find_strm map]; [intros _ []|]. destruct (t_id x =? sid) eqn:E; [discriminate|].
  intros H [Hx|Hx]; [lia|exact (IH H Hx)].
Qed.

Lemma NoDup_ids_snoc l t : NoDup (map t_id l) -> find_strm (t_id t) l = None -> NoDup (map t_id (l ++ [t])).
Proof. intros N Hf. rewrite map_app. cbn [map]. apply NoDup_snoc; [exact N|apply find_none_notin; exact Hf]. Qed.

Lemma for_send_pinv c gm sid c1 t : PInv c gm -> for_send c sid = Some (c1, t) ->
  PInv c1 gm /\ find_strm sid (c_streams c1) = Some t.
Proof.
  intros V. unfold for_send. destruct (negb (can_send c sid)); [discriminate|].
  destruct (find_strm sid (c_streams c)) as [t0|] eqn:Ef.
  { intros H; inversion H; subst. split; assumption. }
  destruct (negb (Bool.eqb (sid_client sid) (c_client c))) eqn:El; [discriminate|].
  assert (Hloc : is_local c sid = true) by (unfold is_local; destruct (Bool.eqb (sid_client sid) (c_client c)); [reflexivity|discriminate]).
  intros H; inversion H; subst c1 t; clear H.
  set (msd := if sid_uni sid then c_msd_uni c else c_msd_br c).
  set (maxs := if sid_uni sid then c_ms_uni c else c_ms_bidi c).
  set (blocked := sid / 4 >=? maxs).
  set (t := mkStrm sid blocked msd (send_init true) false).
  set (c1 := mkConn _ _ _ _ _ _ _ _ _ _ _).
  assert (S : sc_le c c1) by (unfold sc_le, c1; cbn [c_client c_msd_bl c_msd_br c_msd_uni c_ms_bidi c_ms_uni]; repeat split; try reflexivity; lia).
  assert (Hfind : find_strm sid (c_streams c ++ [t]) = Some t).
  { rewrite (find_app_none _ _ _ Ef). cbn [t_id t]. assert (E : sid =? sid = true) by lia. rewrite E. reflexivity. }
  split; [|exact Hfind].
  constructor; unfold c1; cbn [c_msd_bl c_streams c_blk_bidi c_blk_uni].
  - exact (p_bl _ _ V).
  - apply Forall_app. split.
    + eapply Forall_impl; [|exact (p_streams _ _ V)]. intros x. apply SQ2_mono; [exact S|intros; lia].
    + constructor; [|constructor]. apply (SQ2_mono c c1 gm gm); [exact S|intros; lia|].
      unfold SQ2, t. cbn [t_msdr t_id t_blocked]. split.
      * intros _. unfold granted, initial_for. rewrite Hloc. fold msd. lia.
      * intros _ Hb. unfold ms_for. fold maxs. unfold blocked in Hb. lia.
  - apply NoDup_ids_snoc; [exact (p_nodup _ _ V)|exact Ef].
  - eapply BL_mono; [reflexivity|]. pose proof (p_blk_bidi _ _ V) as B.
    destruct (blocked && negb (sid_uni sid)) eqn:Eb; [|apply BL_app; exact B].
    apply andb_true_iff in Eb. destruct Eb as (Eb1 & Eb2).
    pose proof (BL_not_in _ _ _ _ _ B Ef) as Hni. destruct (BL_app _ _ _ _ t B) as (N & HB).
    split; [apply NoDup_snoc; assumption|]. intros s Hin. apply in_app_or in Hin. destruct Hin as [Hin|[Hin|[]]]; [exact (HB s Hin)|].
    subst s. repeat split; [destruct (sid_uni sid); [discriminate|reflexivity]|exact Hloc|]. exists t. split; [exact Hfind|exact Eb1].
  - eapply BL_mono; [reflexivity|]. pose proof (p_blk_uni _ _ V) as B.
    destruct (blocked && sid_uni sid) eqn:Eb; [|apply BL_app; exact B].
    apply andb_true_iff in Eb. destruct Eb as (Eb1 & Eb2).
    pose proof (BL_not_in _ _ _ _ _ B Ef) as Hni. destruct (BL_app _ _ _ _ t B) as (N & HB).
    split; [apply NoDup_snoc; assumption|]. intros s Hin. apply in_app_or in Hin. destruct Hin as [Hin|[Hin|[]]]; [exact (HB s Hin)|].
    subst s. repeat split; [exact Eb2|exact Hloc|]. exists t. split; [exact Hfind|exact Eb1].
Qed.

Lemma from_peer_pinv c gm sid c1 t : PInv c gm -> (forall s, 0 <= gm s) -> from_peer c sid = Some (c1, t) ->
  PInv c1 gm /\ find_strm sid (c_streams c1) = Some t.
Proof.
  intros V Hgm. unfold from_peer.
  destruct (find_strm sid (c_streams c)) as [t0|] eqn:Ef.
  { intros H; inversion H; subst. split; assumption. }
  destruct (Bool.eqb (sid_client sid) (c_client c)) eqn:El; [discriminate|].
  assert (Hloc : is_local c sid = false) by exact El.
  intros H; inversion H; subst c1 t; clear H.
  set (t := mkStrm sid false (if sid_uni sid then 0 else c_msd_bl c) (send_init (negb (sid_uni sid))) false).
  assert (Hfind : find_strm sid (c_streams c ++ [t]) = Some t).
  { rewrite (find_app_none _ _ _ Ef). cbn [t_id t]. assert (E : sid =? sid = true) by lia. rewrite E. reflexivity. }
  split; [|exact Hfind]. unfold with_streams.
  set (c1 := mkConn _ _ _ _ _ _ _ _ _ _ _).
  assert (S : sc_le c c1) by (unfold sc_le, c1; cbn [c_client c_msd_bl c_msd_br c_msd_uni c_ms_bidi c_ms_uni]; repeat split; try reflexivity; lia).
  constructor; unfold c1; cbn [c_msd_bl c_streams c_blk_bidi c_blk_uni].
  - exact (p_bl _ _ V).
  - apply Forall_app. split.
    + eapply Forall_impl; [|exact (p_streams _ _ V)]. intros x. apply SQ2_mono; [exact S|intros; lia].
    + constructor; [|constructor]. apply (SQ2_mono c c1 gm gm); [exact S|intros; lia|].
      pose proof (p_bl _ _ V). specialize (Hgm sid).
      unfold SQ2, granted, initial_for, t. cbn [t_msdr t_id t_blocked]. rewrite Hloc.
      split; [intros _; destruct (sid_uni sid); lia|intros X; discriminate].
  - apply NoDup_ids_snoc; [exact (p_nodup _ _ V)|exact Ef].
  - eapply BL_mono; [reflexivity|]. apply BL_app. exact (p_blk_bidi _ _ V).
  - eapply BL_mono; [reflexivity|]. apply BL_app. exact (p_blk_uni _ _ V).
Qed.

Lemma unblock_loop_pinv (c : conn) (gm : Z -> Z) (uni : bool) :
  forall blk l other blk' l',
  Forall (SQ2 c gm) l -> BL c l uni blk -> BL c l (negb uni) other ->
  unblock_loop (if uni then c_msd_uni c else c_msd_br c) (if uni then c_ms_uni c else c_ms_bidi c) blk l = (blk', l') ->
  Forall (SQ2 c gm) l' /\ map t_id l' = map t_id l /\ BL c l' uni blk' /\ BL c l' (negb uni) other.
Proof.
  set (msd := if uni then c_msd_uni c else c_msd_br c). set (maxs := if uni then c_ms_uni c else c_ms_bidi c).
  intros blk. induction blk as [|sid rest IH]; intros l other blk' l' F B O; cbn [unblock_loop].
  - intros H; inversion H; subst. auto.
  - destruct (sid / 4 <? maxs) eqn:E.
    2:{ intros H; inversion H; subst. auto. }
    destruct B as (N & HB). inversion N as [|? ? Hni N']; subst.
    destruct (HB sid (or_introl eq_refl)) as (Hu & Hl & t & Ft & Bt).
    assert (Hid : forall x, t_id (unblocked msd x) = t_id x) by reflexivity.
    pose proof (find_id _ _ _ Ft) as Hidt.
    assert (Q : SQ2 c gm (unblocked msd t)).
    { unfold SQ2, unblocked, granted, initial_for, ms_for. cbn [t_msdr t_id t_blocked]. rewrite Hidt, Hl, Hu.
      fold msd maxs. split; intros; lia. }
    intros H. apply (IH (upd_strm sid (unblocked msd) l) other blk' l') in H.
    + destruct H as (R1 & R2 & R3 & R4). split; [exact R1|]. split; [|split; assumption].
      rewrite R2. apply map_id_upd. exact Hid.
    + apply (Forall_upd _ sid _ _ t); assumption.
    + split; [exact N'|]. intros s Hin. destruct (HB s (or_intror Hin)) as (X1 & X2 & t' & Ft' & Bt').
      repeat split; try assumption. exists t'. split; [|exact Bt'].
      rewrite find_upd_other; [exact Ft'|exact Hid|]. intros ->. contradiction.
    + destruct O as (NO & HO). split; [exact NO|]. intros s Hin. destruct (HO s Hin) as (X1 & X2 & t' & Ft' & Bt').
      repeat split; try assumption. exists t'. split; [|exact Bt'].
      rewrite find_upd_other; [exact Ft'|exact Hid|]. intros ->. rewrite Hu in X1. destruct uni; discriminate.
Qed.

Lemma unblock_pinv c gm uni : PInv c gm -> PInv (unblock c uni) gm.
Proof.
  intros V. unfold unblock. destruct uni.
  - destruct (unblock_loop (c_msd_uni c) (c_ms_uni c) (c_blk_uni c) (c_streams c)) as [blk l] eqn:E.
    destruct (unblock_loop_pinv c gm true _ _ (c_blk_bidi c) _ _ (p_streams _ _ V) (p_blk_uni _ _ V) (p_blk_bidi _ _ V) E)
      as (R1 & R2 & R3 & R4).
    set (c' := mkConn _ _ _ _ _ _ _ _ _ _ _).
    assert (S : sc_le c c') by (unfold sc_le, c'; cbn [c_client c_msd_bl c_msd_br c_msd_uni c_ms_bidi c_ms_uni]; repeat split; try reflexivity; lia).
    constructor; unfold c'; cbn [c_msd_bl c_streams c_blk_bidi c_blk_uni].
    + exact (p_bl _ _ V).
    + eapply Forall_impl; [|exact R1]. intros x. apply SQ2_mono; [exact S|intros; lia].
    + rewrite R2. exact (p_nodup _ _ V).
    + eapply BL_mono; [reflexivity|exact R4].
    + eapply BL_mono; [reflexivity|exact R3].
  - destruct (unblock_loop (c_msd_br c) (c_ms_bidi c) (c_blk_bidi c) (c_streams c)) as [blk l] eqn:E.
    destruct (unblock_loop_pinv c gm false _ _ (c_blk_uni c) _ _ (p_streams _ _ V) (p_blk_bidi _ _ V) (p_blk_uni _ _ V) E)
      as (R1 & R2 & R3 & R4).
    set (c' := mkConn _ _ _ _ _ _ _ _ _ _ _).
    assert (S : sc_le c c') by (unfold sc_le, c'; cbn [c_client c_msd_bl c_msd_br c_msd_uni c_ms_bidi c_ms_uni]; repeat split; try reflexivity; lia).
    constructor; unfold c'; cbn [c_msd_bl c_streams c_blk_bidi c_blk_uni].
    + exact (p_bl _ _ V).
    + eapply Forall_impl; [|exact R1]. intros x. apply SQ2_mono; [exact S|intros; lia].
    + rewrite R2. exact (p_nodup _ _ V).
    + eapply BL_mono; [reflexivity|exact R3].
    + eapply BL_mono; [reflexivity|exact R4].
Qed.

(* the repaired function with 0-RTT accepted, in ANY state: it either stores all six values, none of them below the
   value held, or stops with PROTOCOL_VIOLATION; in both cases no limit of the connection is lowered and nothing but
   the limits changes *)
Lemma accepted_never_lowers_l c md bl br un sb su :
  let r := fstep c (OParamsP PAccepted md bl br un sb su) in
  (fst r = FOk \/ fst r = FQErr PROTOCOL_VIOLATION) /\
  sc_le c (snd r) /\ c_max_data c <= c_max_data (snd r) /\
  c_streams (snd r) = c_streams c /\ c_used (snd r) = c_used c /\
  (fst r = FOk -> snd r = with_limits c (orz md 0) (orz bl 0) (orz br 0) (orz un 0) (orz sb 0) (orz su 0)).
Proof.
  cbn [fstep]. cbv zeta.
  destruct (store_limits_keep true c (orz md 0) (orz bl 0) (orz br 0) (orz un 0) (orz sb 0) (orz su 0)) as (K1 & K2 & K3 & K4 & K5).
  destruct (store_limits_grow true c (orz md 0) (orz bl 0) (orz br 0) (orz un 0) (orz sb 0) (orz su 0) (or_introl eq_refl)) as (S1 & S2).
  split; [|split; [exact S1|split; [exact S2|split; [exact K3|split; [exact K2|]]]]].
  - unfold store_limits. repeat match goal with |- context [if ?b then _ else _] => destruct b end; cbn [fst]; auto.
  - intros H. exact (proj1 (store_limits_ok _ _ _ _ _ _ _ _ H)).
Qed.

(* ---------- the blocked lists rebuilt by the repaired function ---------- *)
Lemma find_map_blocked sid l : find_strm sid (map blocked_again l) = option_map blocked_again (find_strm sid l).
Proof.
  induction l as [|x l IH]; cbn [map find_strm option_map]; [reflexivity|]. cbn [blocked_again t_id].
  destruct (t_id x =? sid); [reflexivity|exact IH].
Qed.

Lemma in_find t l : In t l -> exists t', find_strm (t_id t) l = Some t'.
Proof.
  induction l as [|x l IH]; [intros []|]. intros [->|H]; cbn [find_strm].
  - assert (E : t_id t =? t_id t = true) by lia. rewrite E. eauto.
  - destruct (t_id x =? t_id t); [eauto|exact (IH H)].
Qed.

Lemma NoDup_map_filter (p : strm -> bool) l : NoDup (map t_id l) -> NoDup (map t_id (filter p l)).
Proof.
  induction l as [|x l IH]; cbn [map filter]; [auto|]. intros N. inversion N as [|? ? Hni N']; subst.
  destruct (p x); [|exact (IH N')]. cbn [map]. constructor; [|exact (IH N')].
  intros Hin. apply Hni. apply in_map_iff in Hin. destruct Hin as (y & Hy & Hin). apply filter_In in Hin.
  apply in_map_iff. exists y. tauto.
Qed.

Lemma BL_rebuilt c c' uni :
  c_client c' = c_client c -> NoDup (map t_id (c_streams c)) ->
  Forall (fun t => is_local c (t_id t) = true) (c_streams c) ->
  BL c' (map blocked_again (c_streams c)) uni
     (map t_id (filter (fun t => if uni then sid_uni (t_id t) else negb (sid_uni (t_id t))) (c_streams c))).
Proof.
  intros Hc N L. split; [apply NoDup_map_filter; exact N|].
  intros sid Hin. apply in_map_iff in Hin. destruct Hin as (t & <- & Hin). apply filter_In in Hin. destruct Hin as (Hin & Hp).
  rewrite Forall_forall in L. split; [destruct uni, (sid_uni (t_id t)); try reflexivity; discriminate|].
  split; [unfold is_local; rewrite Hc; exact (L t Hin)|].
  destruct (in_find t _ Hin) as (t' & Ft). exists (blocked_again t'). split; [rewrite find_map_blocked, Ft; reflexivity|reflexivity].
Qed.

Lemma gm_nonneg_step gm op : (forall s, 0 <= gm s) -> forall s, 0 <= gstep gm op s.
Proof. intros H s. pose proof (gstep_ge gm op s). specialize (H s). lia. Qed.

Lemma pstep_inv c gm op : PInv c gm -> (forall s, 0 <= gm s) -> pguard2 c op -> PInv (snd (fstep c op)) (gstep gm op).
Proof.
  intros V Hgm G. destruct op as [sid d f|sid code|sid|v|sid v|uni v|md bl br un sb su| |sid ms|sid|sid k a b f|sid k|sid|sid|sid|sid k|pm md bl br un sb su];
    cbn [fstep]; try (change (gstep gm _) with gm).
  - destruct (for_send c sid) as [[c1 t]|] eqn:E; [|exact V]. destruct (for_send_pinv _ _ _ _ _ V E) as (V1 & F1).
    destruct (write (t_send t) d f) as [o s']. cbn [snd]. exact (PInv_upd_send c1 gm sid t s' V1 F1).
  - destruct (for_send c sid) as [[c1 t]|] eqn:E; [|exact V]. destruct (for_send_pinv _ _ _ _ _ V E) as (V1 & F1).
    destruct (reset (t_send t) code) as [o s']. cbn [snd]. exact (PInv_upd_send c1 gm sid t s' V1 F1).
  - destruct (negb (can_send c sid)); [exact V|].
    destruct (from_peer c sid) as [[c1 t]|] eqn:E; [|exact V]. destruct (from_peer_pinv _ _ _ _ _ V Hgm E) as (V1 & F1).
    destruct (reset (t_send t) 0) as [o s']. cbn [snd]. exact (PInv_upd_send c1 gm sid t s' V1 F1).
  - cbn [snd]. destruct (v >? c_max_data c) eqn:E; [|exact V].
    apply (PInv_grow c _ gm gm); [sc_solve|intros; lia|reflexivity|reflexivity|reflexivity|exact V].
  - assert (Hg : forall s, gm s <= gstep gm (OMaxStreamData sid v) s) by (intros s; apply gstep_ge).
    assert (W : forall c0, PInv c0 gm -> PInv c0 (gstep gm (OMaxStreamData sid v)))
      by (intros c0; apply PInv_grow; try reflexivity; [apply sc_le_refl|exact Hg]).
    destruct (negb (can_send c sid)); [exact (W _ V)|].
    destruct (from_peer c sid) as [[c1 t]|] eqn:E; [|exact (W _ V)].
    destruct (from_peer_pinv _ _ _ _ _ V Hgm E) as (V1 & F1). cbn [snd].
    pose proof (W _ V1) as V2.
    destruct (v >? t_msdr t) eqn:Ev; [|exact V2]. unfold with_streams.
    apply (PInv_upd c1 _ sid (set_msdr v) t (c_used c1) V2 F1); try (intros; reflexivity).
    pose proof (p_streams _ _ V2) as F. rewrite Forall_forall in F. specialize (F t (find_in _ _ _ F1)).
    destruct F as (A & B). unfold SQ2, set_msdr. cbn [t_msdr t_id t_blocked]. split; [|exact B].
    intros _. unfold granted. rewrite (find_id _ _ _ F1). cbn [gstep]. assert (Es : sid =? sid = true) by lia. rewrite Es. lia.
  - destruct (v >? 1152921504606846976); [exact V|]. destruct uni.
    + destruct (v >? c_ms_uni c) eqn:E; [|exact V]. cbn [snd]. apply unblock_pinv.
      apply (PInv_grow c _ gm gm); [sc_solve|intros; lia|reflexivity|reflexivity|reflexivity|exact V].
    + destruct (v >? c_ms_bidi c) eqn:E; [|exact V]. cbn [snd]. apply unblock_pinv.
      apply (PInv_grow c _ gm gm); [sc_solve|intros; lia|reflexivity|reflexivity|reflexivity|exact V].
  - cbn [snd]. cbn [pguard2 pguard] in G. destruct G as (G1 & G2 & G3 & G4 & G5 & G6).
    pose proof (orz_le _ _ G1). pose proof (orz_le _ _ G2). pose proof (orz_le _ _ G3).
    pose proof (orz_le _ _ G4). pose proof (orz_le _ _ G5). pose proof (orz_le _ _ G6).
    apply (PInv_grow c _ gm gm); [sc_solve|intros; lia|reflexivity|reflexivity|reflexivity|exact V].
  - cbn [snd]. apply unblock_pinv, unblock_pinv, V.
  - destruct (find_strm sid (c_streams c)) as [t|] eqn:Ef; [|exact V].
    destruct (s_reset_pending (t_send t) || t_blocked t || s_empty (t_send t)); [exact V|].
    destruct (get_frame (t_send t) ms (Some (max_offset c t))) as [o s']. cbn [snd].
    apply (PInv_upd c gm sid (set_send s') t _ V Ef); try (intros; reflexivity).
    pose proof (p_streams _ _ V) as F. rewrite Forall_forall in F. exact (F t (find_in _ _ _ Ef)).
  - destruct (find_strm sid (c_streams c)) as [t|] eqn:Ef; [|exact V].
    destruct (negb (s_reset_pending (t_send t)) || t_blocked t); [exact V|].
    cbn [get_reset_frame snd]. exact (PInv_upd_send c gm sid t _ V Ef).
  - destruct (find_strm sid (c_streams c)) as [t|] eqn:Ef; [|exact V].
    destruct (on_data_delivery (t_send t) k a b f) as [o s']. cbn [snd]. exact (PInv_upd_send c gm sid t s' V Ef).
  - destruct (find_strm sid (c_streams c)) as [t|] eqn:Ef; [|exact V].
    destruct (on_reset_delivery (t_send t) k) as [o s']. cbn [snd]. exact (PInv_upd_send c gm sid t s' V Ef).
  - destruct (from_peer c sid) as [[c1 t]|] eqn:E; [|exact V]. exact (proj1 (from_peer_pinv _ _ _ _ _ V Hgm E)).
  - destruct (negb (can_receive c sid)); [exact V|].
    destruct (find_strm sid (c_streams c)) as [t|] eqn:Ef; [|exact V]. cbn [snd]. exact (PInv_upd_stop _ _ _ _ _ V Ef).
  - destruct (find_strm sid (c_streams c)) as [t|] eqn:Ef; [|exact V].
    destruct (negb (t_stop t) || t_blocked t); [exact V|]. cbn [snd]. exact (PInv_upd_stop _ _ _ _ _ V Ef).
  - destruct (find_strm sid (c_streams c)) as [t|] eqn:Ef; [|exact V]. cbn [snd].
    destruct k; [exact V|exact (PInv_upd_stop _ _ _ _ _ V Ef)].
  - (* the repaired function *)
    destruct pm; cbn [pguard2 pguard] in G; cbn [snd fst].
    + destruct (store_limits_keep false c (orz md 0) (orz bl 0) (orz br 0) (orz un 0) (orz sb 0) (orz su 0)) as (K1 & K2 & K3 & K4 & K5).
      destruct (store_limits_grow false c (orz md 0) (orz bl 0) (orz br 0) (orz un 0) (orz sb 0) (orz su 0) (or_intror G)) as (S1 & S2).
      apply (PInv_grow c _ gm gm); [exact S1|intros; lia|exact K3|exact K4|exact K5|exact V].
    + destruct (store_limits_keep true c (orz md 0) (orz bl 0) (orz br 0) (orz un 0) (orz sb 0) (orz su 0)) as (K1 & K2 & K3 & K4 & K5).
      destruct (store_limits_grow true c (orz md 0) (orz bl 0) (orz br 0) (orz un 0) (orz sb 0) (orz su 0) (or_introl eq_refl)) as (S1 & S2).
      apply (PInv_grow c _ gm gm); [exact S1|intros; lia|exact K3|exact K4|exact K5|exact V].
    + (* 0-RTT not accepted: limits overwritten (possibly lowered), every stream blocked again, lists rebuilt *)
      destruct G as (N1 & N2 & N3 & N4 & N5 & N6 & L).
      destruct (store_limits_keep false c (orz md 0) (orz bl 0) (orz br 0) (orz un 0) (orz sb 0) (orz su 0)) as (K1 & K2 & K3 & K4 & K5).
      destruct (store_limits_ok false c (orz md 0) (orz bl 0) (orz br 0) (orz un 0) (orz sb 0) (orz su 0)) as (Hs & _).
      { unfold store_limits. cbn [andb]. reflexivity. }
      set (c1 := snd (store_limits false c (orz md 0) (orz bl 0) (orz br 0) (orz un 0) (orz sb 0) (orz su 0))) in *.
      constructor; unfold reblock; cbn [c_msd_bl c_streams c_blk_bidi c_blk_uni]; rewrite ?K3.
      * rewrite Hs. cbn [with_limits c_msd_bl]. destruct bl; cbn [orz nn] in *; lia.
      * apply Forall_map. apply Forall_forall. intros t _. split; cbn [blocked_again t_blocked]; intros; discriminate.
      * rewrite map_map. cbn [blocked_again t_id]. exact (p_nodup _ _ V).
      * apply (BL_rebuilt c _ false); [reflexivity|exact (p_nodup _ _ V)|exact L].
      * apply (BL_rebuilt c _ true); [reflexivity|exact (p_nodup _ _ V)|exact L].
Qed.

Lemma preach_inv c gm : preach c gm -> PInv c gm /\ forall s, 0 <= gm s.
Proof.
  induction 1 as [|c gm op R (V & Hg) G]; [split; [apply pinv_init|intros; lia]|].
  split; [apply pstep_inv; assumption|apply gm_nonneg_step; exact Hg].
Qed.

(* every _write_stream_frame call the loop makes -- also after handshake parameters LOWERED the remembered limits --
   is for a stream inside the stream-count limit in force, with a max_offset within the stream's limit, which is
   covered by what the peer granted under the parameters in force; a data frame ends at or below max_offset *)
Lemma latest_limits_respected_l c gm sid ms mo o c' t :
  preach c gm -> find_strm sid (c_streams c) = Some t ->
  fstep c (OGet sid ms) = (FGet mo o, c') ->
  mo <= t_msdr t /\ t_msdr t <= granted c gm sid /\
  mo <= s_highest (t_send t) + c_max_data c - c_used c /\
  (is_local c sid = true -> sid / 4 < ms_for c sid) /\
  (forall g off data fin, reach (t_send t) g -> o = SFrame off data fin -> data <> [] -> off + Zlen data <= mo).
Proof.
  intros R Hf H. destruct (preach_inv _ _ R) as (V & _).
  cbn [fstep] in H. rewrite Hf in H.
  destruct (s_reset_pending (t_send t) || t_blocked t || s_empty (t_send t)) eqn:Eg; [discriminate|].
  assert (Hb : t_blocked t = false) by (destruct (t_blocked t); [rewrite orb_true_r in Eg; discriminate|reflexivity]).
  assert (He : s_empty (t_send t) = false) by (destruct (s_empty (t_send t)); [rewrite orb_true_r in Eg; discriminate|reflexivity]).
  pose proof (p_streams _ _ V) as F. rewrite Forall_forall in F. destruct (F t (find_in _ _ _ Hf)) as (A & B).
  rewrite (find_id _ _ _ Hf) in A, B.
  destruct (get_frame (t_send t) ms (Some (max_offset c t))) as [o' s'] eqn:Ew. inversion H; subst mo o' c'. clear H.
  unfold max_offset.
  split; [lia|]. split; [exact (A Hb)|]. split; [lia|]. split; [intros Hl; exact (B Hl Hb)|].
  intros g off data fin RS -> Hne.
    assert (Hr : s_reset (t_send t) = None).
    { destruct (s_reset (t_send t)) eqn:Er; [|reflexivity]. pose proof (v_reset_empty _ _ (reach_inv _ _ RS)) as X.
      rewrite Er in X. rewrite X in He; [discriminate|discriminate]. }
    destruct (send_frames_exact _ _ _ _ _ _ _ _ RS Hr Ew) as (_ & _ & _ & Hd & _).
  destruct (Hd Hne) as (_ & Hm). apply Hm. reflexivity.
Qed.

(* non-vacuity, and the scenario of finding C06-F1 under the repaired function: remembered limit 100, 20 bytes sent in
   0-RTT, 0-RTT not accepted and the handshake grants 50: after the handshake the stream carries the new limit; with 80
   bytes written the lost bytes are re-sent and the next frame stops at 50; with 0-RTT accepted the same parameters
   are refused with PROTOCOL_VIOLATION *)
Definition ops_f1_repaired : list fop :=
  [OParamsP PTicket (Some 1000) (Some 100) (Some 100) (Some 100) (Some 4) (Some 4); OSend 0 (zeros 20) false; OGet 0 1000;
   OParamsP PRejected (Some 1000) (Some 50) (Some 50) (Some 50) (Some 4) (Some 4); OHandshakeDone;
   ODeliv 0 false 0 20 false; OSend 0 (zeros 60) false].

Fixpoint guards2 (c : conn) (ops : list fop) : Prop :=
  match ops with [] => True | op :: r => pguard2 c op /\ guards2 (snd (fstep c op)) r end.

Lemma preach_run ops : forall c gm, preach c gm -> guards2 c ops -> preach (frun c ops) (grun gm ops).
Proof.
  induction ops as [|op r IH]; intros c gm R G; cbn [frun grun fold_left]; [exact R|].
  destruct G as (G1 & G2). apply IH; [apply preach_step; assumption|exact G2].
Qed.

Lemma repaired_witness_l :
  let c := frun (conn_init true) ops_f1_repaired in
  guards2 (conn_init true) ops_f1_repaired /\
  (exists t, find_strm 0 (c_streams c) = Some t /\ t_blocked t = false /\ t_msdr t = 50 /\ s_highest (t_send t) = 20) /\
  (exists c1, fstep c (OGet 0 1000) = (FGet 50 (SFrame 0 (zeros 50) false), c1) /\
              fst (fstep c1 (OGet 0 1000)) = FGet 50 SNone) /\
  fst (fstep (frun (conn_init true) (firstn 3 ops_f1_repaired))
             (OParamsP PAccepted (Some 1000) (Some 50) (Some 50) (Some 50) (Some 4) (Some 4))) = FQErr PROTOCOL_VIOLATION.
Proof.
  cbv zeta. split.
  - cbn [guards2 ops_f1_repaired]. repeat split; try exact I; try (cbv; intros; discriminate); try (cbn; lia).
    vm_compute. repeat constructor.
  - split; [eexists; vm_compute; repeat split|]. split; [eexists; split; vm_compute; reflexivity|vm_compute; reflexivity].
Qed.
