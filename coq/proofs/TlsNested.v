(* C17: "never reading past the declared length of an enclosing field" for the TLS decoders.

   1. model/TlsCodec.v's pull_block / pull_fold are the functions built from the two comparisons read from
      src/aioquic/tls.py (gen/C17Blocks.v): pull_block_matches_source, list_continue_matches_source.
   2. [local f]: a successful decode depends only on the bytes it consumed (frame property).  Every item, body,
      extension parser and message decoder of TlsCodec.v is local (tls_bodies_local).
   3. pull_block_nested: for a local body, a block that decodes successfully has the layout
      header ++ window ++ rest with |window| = the declared length, and the body run on the window ALONE
      succeeds with the same value and consumes all of it: no read of the body went past the declared length
      (else pull_block raises AlertDecodeError: pull_block_overrun_rejected).
   4. the places where the code does NOT enforce it: the bodies of known extensions (F13), one witness per
      decoder (known_ext_body_not_nested_refuted); unknown extensions are exact (other_ext_body_exact). *)
From Coq Require Import ZArith List Bool Lia ZifyBool.
From AQ Require Import lib.Base lib.Tok model.Codec model.TlsCodec gen.C17Blocks.
From AQ Require Import proofs.CodecProofs proofs.TlsCodecProofs proofs.TlsListProofs.

(* ================= 1. the source comparisons ====================================================== *)
(* pull_block with absolute positions (tell = bytes consumed since the start of [bs]) and the end check as
   the source writes it *)
Definition pull_block_src {A} (cap : nat) (body : Z -> list Z -> Res (A * list Z)) (bs : list Z)
  : Res (A * list Z) :=
  '(len, b1) <- pull_be cap bs ;;
  '(v, b2) <- body len b1 ;;
  if src_block_end_bad (Zlen bs - Zlen b2) ((Zlen bs - Zlen b1) + len) then Err src_block_error else Ok (v, b2).

Theorem pull_block_matches_source {A} cap (body : Z -> list Z -> Res (A * list Z)) bs :
  pull_block cap body bs = pull_block_src cap body bs.
Proof.
  unfold pull_block, pull_block_src.
  destruct (pull_be cap bs) as [[len b1]|k]; cbn [bind]; [|reflexivity].
  destruct (body len b1) as [[v b2]|k]; cbn [bind]; [|reflexivity].
  unfold src_block_end_bad, src_block_error.
  destruct (Zlen b1 - Zlen b2 =? len) eqn:E;
    destruct (negb (Zlen bs - Zlen b2 =? Zlen bs - Zlen b1 + len)) eqn:F; try reflexivity; lia.
Qed.

(* pull_fold's `remaining <= 0` is the negation of the loop condition `tell < end` *)
Theorem list_continue_matches_source tell end_ : src_list_continue tell end_ = negb (end_ - tell <=? 0).
Proof. unfold src_list_continue. lia. Qed.

(* ================= 2. locality ===================================================================== *)
Definition local {A} (f : list Z -> Res (A * list Z)) : Prop :=
  forall bs v r, f bs = Ok (v, r) -> exists u, bs = u ++ r /\ forall r', f (u ++ r') = Ok (v, r').

Lemma Zlen_app' {A} (a b : list A) : Zlen (a ++ b) = Zlen a + Zlen b.
Proof. unfold Zlen. rewrite app_length. lia. Qed.

Lemma local_ret {A} (v : A) : local (fun bs => Ok (v, bs)).
Proof. intros bs v' r H. injection H as <- <-. exists []. split; [reflexivity|]. intros; reflexivity. Qed.

Lemma local_err {A} k : local (fun _ : list Z => @Err (A * list Z) k).
Proof. intros bs v r H. discriminate. Qed.

Lemma local_be n : local (pull_be n).
Proof.
  intros bs v r H. unfold pull_be in H. destruct (Zlen bs <? Z.of_nat n) eqn:E; [discriminate|].
  injection H as <- <-. exists (firstn n bs). split; [symmetry; apply firstn_skipn|].
  intros r'. unfold pull_be.
  assert (L : length (firstn n bs) = n) by (rewrite firstn_length; unfold Zlen in E; lia).
  rewrite Zlen_app'. unfold Zlen at 1. rewrite L.
  destruct (Z.of_nat n + Zlen r' <? Z.of_nat n) eqn:F; [unfold Zlen in F; lia|].
  rewrite firstn_app_len, skipn_app_len by exact L. reflexivity.
Qed.

Lemma local_bytes k : local (pull_bytes k).
Proof.
  intros bs v r H. unfold pull_bytes in H. destruct ((k <? 0) || (Zlen bs <? k)) eqn:E; [discriminate|].
  injection H as <- <-. exists (ztake k bs). split; [symmetry; apply firstn_skipn|].
  intros r'. unfold pull_bytes, ztake, zdrop.
  assert (L : length (firstn (Z.to_nat k) bs) = Z.to_nat k) by (rewrite firstn_length; unfold Zlen in E; lia).
  rewrite Zlen_app'. unfold Zlen at 1. rewrite L.
  destruct ((k <? 0) || (Z.of_nat (Z.to_nat k) + Zlen r' <? k)) eqn:F; [unfold Zlen in F; lia|].
  rewrite firstn_app_len, skipn_app_len by exact L. reflexivity.
Qed.

Lemma local_bind {A B} (f : list Z -> Res (A * list Z)) (k : A * list Z -> Res (B * list Z)) :
  local f -> (forall a, local (fun b => k (a, b))) -> local (fun bs => bind (f bs) k).
Proof.
  intros Lf Lk bs v r H. cbv beta in H. destruct (f bs) as [[a b1]|e] eqn:E; cbn [bind] in H; [|discriminate].
  destruct (Lf _ _ _ E) as (u1 & -> & F1). destruct (Lk a _ _ _ H) as (u2 & -> & F2).
  exists (u1 ++ u2). split; [apply app_assoc|]. intros r'. cbv beta. rewrite <- app_assoc, F1. cbn [bind]. apply F2.
Qed.

Lemma local_if {A} (c : bool) (f g : list Z -> Res (A * list Z)) :
  local f -> local g -> local (fun bs => if c then f bs else g bs).
Proof. intros Lf Lg. destruct c; assumption. Qed.

Lemma local_ext {A} (f g : list Z -> Res (A * list Z)) : (forall bs, f bs = g bs) -> local g -> local f.
Proof.
  intros E L bs v r H. rewrite E in H. destruct (L _ _ _ H) as (u & -> & F). exists u. split; [reflexivity|].
  intros r'. rewrite E. apply F.
Qed.

Lemma local_block {A} cap (body : Z -> list Z -> Res (A * list Z)) :
  (forall len, local (body len)) -> local (pull_block cap body).
Proof.
  intros Lb bs v r H. unfold pull_block in H.
  destruct (pull_be cap bs) as [[len b1]|e] eqn:E; cbn [bind] in H; [|discriminate].
  destruct (body len b1) as [[v' b2]|e] eqn:E2; cbn [bind] in H; [|discriminate].
  destruct (Zlen b1 - Zlen b2 =? len) eqn:C; [|discriminate]. injection H as <- <-.
  destruct (local_be cap _ _ _ E) as (u1 & -> & F1). destruct (Lb len _ _ _ E2) as (u2 & -> & F2).
  exists (u1 ++ u2). split; [apply app_assoc|]. intros r'. unfold pull_block.
  rewrite <- app_assoc, F1. cbn [bind]. rewrite F2. cbn [bind].
  rewrite Zlen_app' in *. destruct (Zlen u2 + Zlen r' - Zlen r' =? len) eqn:C'; [reflexivity|lia].
Qed.

Lemma local_opaque cap : local (pull_opaque cap).
Proof. apply local_block. intros len. apply local_bytes. Qed.

(* the item loop: any sufficient fuel *)
Lemma local_fold_gen {S} (item : S -> list Z -> Res (S * list Z)) :
  item_progress item -> (forall st, local (item st)) ->
  forall fuel rem st bs v r, pull_fold item fuel rem st bs = Ok (v, r) ->
  exists u, bs = u ++ r /\
    forall r' fuel', (length (u ++ r') <= fuel')%nat -> pull_fold item fuel' rem st (u ++ r') = Ok (v, r').
Proof.
  intros P L. induction fuel as [|f IH]; intros rem st bs v r H; cbn [pull_fold] in H.
  - destruct (rem <=? 0) eqn:R.
    + injection H as <- <-. exists []. split; [reflexivity|]. intros r' fuel' _.
      destruct fuel'; cbn [pull_fold app]; rewrite R; reflexivity.
    + destruct (item st bs) as [[? ?]|?]; cbn [bind] in H; discriminate.
  - destruct (rem <=? 0) eqn:R.
    + injection H as <- <-. exists []. split; [reflexivity|]. intros r' fuel' _.
      destruct fuel'; cbn [pull_fold app]; rewrite R; reflexivity.
    + destruct (item st bs) as [[st1 b1]|e] eqn:E; cbn [bind] in H; [|discriminate].
      pose proof (P _ _ _ _ E) as Pr.
      destruct (L st _ _ _ E) as (u1 & -> & F1). destruct (IH _ _ _ _ _ H) as (u2 & -> & F2).
      exists (u1 ++ u2). split; [apply app_assoc|]. intros r' fuel' Hf.
      rewrite !app_length in *. destruct fuel' as [|f']; [lia|].
      cbn [pull_fold]. rewrite R. rewrite <- app_assoc, F1. cbn [bind].
      rewrite !Zlen_app' in *.
      replace (rem - (Zlen u1 + (Zlen u2 + Zlen r') - (Zlen u2 + Zlen r')))
        with (rem - (Zlen u1 + (Zlen u2 + Zlen r) - (Zlen u2 + Zlen r))) by lia.
      apply F2. rewrite app_length. lia.
Qed.

Lemma local_list {S} cap (item : S -> list Z -> Res (S * list Z)) st :
  item_progress item -> (forall st, local (item st)) -> local (pull_list cap item st).
Proof.
  intros P L. unfold pull_list. apply local_block. intros len bs v r H.
  destruct (local_fold_gen item P L _ _ _ _ _ _ H) as (u & -> & F). exists u. split; [reflexivity|].
  intros r'. apply F. lia.
Qed.

Lemma local_list_toks cap item : item_progress item -> (forall st, local (item st)) -> local (list_toks cap item).
Proof.
  intros P L. unfold list_toks. apply local_bind; [apply local_list; assumption|]. intros a. apply local_ret.
Qed.

Ltac loc :=
  repeat first
    [ apply local_ret | apply local_err | apply local_be | apply local_bytes | apply local_opaque
    | apply local_block; intros ?
    | apply local_if
    | apply local_bind; [|intros [? ?]; cbn beta iota]
    | apply local_bind; [|intros ?; cbn beta iota] ].

Lemma local_item_uint w a : local (item_uint w a).
Proof. unfold item_uint. loc. Qed.

Lemma local_item_key_share a : local (item_key_share a).
Proof. unfold item_key_share, pull_uint16. loc. Qed.

Lemma local_item_alpn a : local (item_alpn a).
Proof. unfold item_alpn. loc. Qed.

Lemma local_item_psk_identity a : local (item_psk_identity a).
Proof. unfold item_psk_identity, pull_uint32. loc. Qed.

Lemma local_item_opaque cap a : local (item_opaque cap a).
Proof. unfold item_opaque. loc. Qed.

Lemma local_item_certificate_entry a : local (item_certificate_entry a).
Proof. unfold item_certificate_entry. loc. Qed.

Lemma local_server_name : local pull_server_name.
Proof. unfold pull_server_name, pull_uint8. loc. Qed.

Lemma local_uints cap w : (1 <= w)%nat -> local (list_toks cap (item_uint w)).
Proof. intros. apply local_list_toks; [apply item_uint_progress; assumption|intros; apply local_item_uint]. Qed.

(* extension parsers: whether a type is known does not depend on the bytes; a known parser is local *)
Definition parse_local (parse : Z -> Z -> list Z -> option (Res (list Z * list Z))) : Prop :=
  forall ty len, (exists f, local f /\ forall b, parse ty len b = Some (f b)) \/ (forall b, parse ty len b = None).

Ltac known f := left; exists f; split; [|intros; reflexivity].

Lemma parse_local_sh : parse_local parse_server_hello_ext.
Proof.
  intros ty len. unfold parse_server_hello_ext.
  destruct (ty =? 43); [known (fun b => '(v, r) <- pull_uint16 b ;; Ok ([v], r)); unfold pull_uint16; loc|].
  destruct (ty =? 51);
    [known (fun b => '(g, b1) <- pull_uint16 b ;; '(d, b2) <- pull_opaque 2 b1 ;; Ok (g :: out_bytes d, b2));
     unfold pull_uint16; loc|].
  destruct (ty =? 41); [known (fun b => '(v, r) <- pull_uint16 b ;; Ok ([v], r)); unfold pull_uint16; loc|].
  right; reflexivity.
Qed.

Lemma parse_local_nst : parse_local parse_nst_ext.
Proof.
  intros ty len. unfold parse_nst_ext.
  destruct (ty =? 42); [known (fun b => '(v, r) <- pull_uint32 b ;; Ok ([v], r)); unfold pull_uint32; loc|].
  right; reflexivity.
Qed.

Lemma parse_local_cr : parse_local parse_cr_ext.
Proof.
  intros ty len. unfold parse_cr_ext.
  destruct (ty =? 13); [known (list_toks 2 (item_uint 2)); apply local_uints; lia|]. right; reflexivity.
Qed.

Lemma local_ee_alpn :
  local (fun b => '(a, r) <- pull_list 2 item_alpn acc0 b ;;
                  if fst a =? 0 then Err E_ALERT_DECODE
                  else match snd a with n :: t => Ok (n :: ztake n t, r) | [] => Err E_ALERT_DECODE end).
Proof.
  apply local_bind; [apply local_list; [apply item_alpn_progress|intros; apply local_item_alpn]|].
  intros a. cbn beta iota. apply local_if; [apply local_err|]. destruct (snd a); [apply local_err|apply local_ret].
Qed.

Lemma parse_local_ee : parse_local parse_ee_ext.
Proof.
  intros ty len. unfold parse_ee_ext.
  destruct (ty =? 16); [left; eexists; split; [apply local_ee_alpn|intros; reflexivity]|].
  destruct (ty =? 42); [known (fun b : list Z => Ok (@nil Z, b)); loc|]. right; reflexivity.
Qed.

Lemma parse_local_ch : parse_local parse_client_hello_ext.
Proof.
  intros ty len. unfold parse_client_hello_ext.
  destruct (ty =? 51);
    [known (list_toks 2 item_key_share); apply local_list_toks; [apply item_key_share_progress|intros; apply local_item_key_share]|].
  destruct (ty =? 43); [known (list_toks 1 (item_uint 2)); apply local_uints; lia|].
  destruct (ty =? 13); [known (list_toks 2 (item_uint 2)); apply local_uints; lia|].
  destruct (ty =? 10); [known (list_toks 2 (item_uint 2)); apply local_uints; lia|].
  destruct (ty =? 45); [known (list_toks 1 (item_uint 1)); apply local_uints; lia|].
  destruct (ty =? 0);
    [known (fun b => '(d, r) <- pull_server_name b ;; Ok (out_bytes d, r));
     apply local_bind; [apply local_server_name|intros; apply local_ret]|].
  destruct (ty =? 16);
    [known (list_toks 2 item_alpn); apply local_list_toks; [apply item_alpn_progress|intros; apply local_item_alpn]|].
  destruct (ty =? 42); [known (fun b : list Z => Ok (@nil Z, b)); loc|].
  destruct (ty =? 41).
  - known (fun b => '(ids, b1) <- list_toks 2 item_psk_identity b ;;
                    '(bd, b2) <- list_toks 2 (item_opaque 1) b1 ;; Ok (ids ++ bd, b2)).
    apply local_bind; [apply local_list_toks; [apply item_psk_identity_progress|intros; apply local_item_psk_identity]|].
    intros ids. cbn beta iota.
    apply local_bind; [apply local_list_toks; [apply item_opaque_progress; lia|intros; apply local_item_opaque]|].
    intros bd. apply local_ret.
  - right; reflexivity.
Qed.

Lemma local_ext_item parse ch st : parse_local parse -> local (ext_item parse ch st).
Proof.
  intros PL. unfold ext_item, pull_uint16. apply local_if; [apply local_err|].
  apply local_bind; [apply local_be|]. intros ty. cbn beta iota.
  apply local_bind; [apply local_be|]. intros len. cbn beta iota.
  destruct (PL ty len) as [(f & Lf & E)|E].
  - eapply local_ext; [intros b; rewrite E; reflexivity|].
    apply local_bind; [exact Lf|]. intros toks. apply local_ret.
  - eapply local_ext; [intros b; rewrite E; reflexivity|].
    apply local_bind; [apply local_bytes|]. intros d. apply local_ret.
Qed.

Lemma local_extensions parse ch : parse_mono parse -> parse_local parse -> local (pull_extensions parse ch).
Proof.
  intros PM PL. unfold pull_extensions. apply local_list; [apply ext_item_progress; exact PM|].
  intros st. apply local_ext_item. exact PL.
Qed.

Lemma local_handshake_type k : local (pull_handshake_type k).
Proof. unfold pull_handshake_type, pull_uint8. loc. Qed.

Lemma local_hello_prefix : local hello_prefix.
Proof. unfold hello_prefix, pull_uint16. loc. Qed.

Lemma local_msg {A} kind (body : Z -> list Z -> Res (A * list Z)) :
  (forall len, local (body len)) ->
  local (fun bs => '(_, b0) <- pull_handshake_type kind bs ;; pull_block 3 body b0).
Proof.
  intros L. apply local_bind; [apply local_handshake_type|]. intros u. apply local_block. exact L.
Qed.

Lemma local_client_hello : local pull_client_hello.
Proof.
  apply local_msg. intros len. apply local_bind; [apply local_hello_prefix|]. intros pre. cbn beta iota.
  apply local_bind; [apply local_uints; lia|]. intros cs. cbn beta iota.
  apply local_bind; [apply local_uints; lia|]. intros cm. cbn beta iota.
  apply local_bind; [apply local_extensions; [apply parse_client_hello_ext_mono|apply parse_local_ch]|].
  intros st. apply local_ret.
Qed.

Lemma local_server_hello : local pull_server_hello.
Proof.
  apply local_msg. intros len. apply local_bind; [apply local_hello_prefix|]. intros pre. cbn beta iota.
  apply local_bind; [apply local_be|]. intros cs. cbn beta iota.
  apply local_bind; [apply local_be|]. intros cm. cbn beta iota.
  apply local_bind; [apply local_extensions; [apply parse_server_hello_ext_mono|apply parse_local_sh]|].
  intros st. apply local_ret.
Qed.

Lemma local_new_session_ticket : local pull_new_session_ticket.
Proof.
  apply local_msg. intros len. apply local_bind; [apply local_be|]. intros lt. cbn beta iota.
  apply local_bind; [apply local_be|]. intros aa. cbn beta iota.
  apply local_bind; [apply local_opaque|]. intros nonce. cbn beta iota.
  apply local_bind; [apply local_opaque|]. intros ticket. cbn beta iota.
  apply local_bind; [apply local_extensions; [apply parse_nst_ext_mono|apply parse_local_nst]|].
  intros st. apply local_ret.
Qed.

Lemma local_encrypted_extensions : local pull_encrypted_extensions.
Proof.
  apply local_msg. intros len.
  apply local_bind; [apply local_extensions; [apply parse_ee_ext_mono|apply parse_local_ee]|].
  intros st. apply local_ret.
Qed.

Lemma local_certificate : local pull_certificate.
Proof.
  apply local_msg. intros len. apply local_bind; [apply local_opaque|]. intros ctx. cbn beta iota.
  apply local_bind; [apply local_list_toks; [apply item_certificate_entry_progress|intros; apply local_item_certificate_entry]|].
  intros certs. apply local_ret.
Qed.

Lemma local_certificate_request : local pull_certificate_request.
Proof.
  apply local_msg. intros len. apply local_bind; [apply local_opaque|]. intros ctx. cbn beta iota.
  apply local_bind; [apply local_extensions; [apply parse_cr_ext_mono|apply parse_local_cr]|].
  intros st. apply local_ret.
Qed.

Lemma local_certificate_verify : local pull_certificate_verify.
Proof.
  apply local_msg. intros len. apply local_bind; [apply local_be|]. intros alg. cbn beta iota.
  apply local_bind; [apply local_opaque|]. intros sig. apply local_ret.
Qed.

Lemma local_finished : local pull_finished.
Proof.
  unfold pull_finished. apply local_bind; [apply local_handshake_type|]. intros u. cbn beta iota.
  apply local_bind; [apply local_opaque|]. intros d. apply local_ret.
Qed.

Theorem tls_bodies_local :
  (forall w a, local (item_uint w a)) /\ (forall a, local (item_key_share a)) /\ (forall a, local (item_alpn a)) /\
  (forall a, local (item_psk_identity a)) /\ (forall cap a, local (item_opaque cap a)) /\
  (forall a, local (item_certificate_entry a)) /\ local pull_server_name /\ local hello_prefix /\
  (forall cap, local (pull_opaque cap)) /\
  parse_local parse_client_hello_ext /\ parse_local parse_server_hello_ext /\ parse_local parse_nst_ext /\
  parse_local parse_ee_ext /\ parse_local parse_cr_ext /\
  local pull_client_hello /\ local pull_server_hello /\ local pull_new_session_ticket /\
  local pull_encrypted_extensions /\ local pull_certificate /\ local pull_certificate_request /\
  local pull_certificate_verify /\ local pull_finished.
Proof.
  repeat split;
    first [ exact local_item_uint | exact local_item_key_share | exact local_item_alpn | exact local_item_psk_identity
          | exact local_item_opaque | exact local_item_certificate_entry | exact local_server_name
          | exact local_hello_prefix | exact local_opaque
          | exact parse_local_ch | exact parse_local_sh | exact parse_local_nst | exact parse_local_ee | exact parse_local_cr
          | exact local_client_hello | exact local_server_hello | exact local_new_session_ticket
          | exact local_encrypted_extensions | exact local_certificate | exact local_certificate_request
          | exact local_certificate_verify | exact local_finished ].
Qed.

(* ================= 3. nesting ===================================================================== *)
(* A block that decodes: header ++ window ++ rest, |window| = declared length, and the body confined to the
   window decodes the same value, consuming the window exactly. *)
Theorem pull_block_nested {A} cap (body : Z -> list Z -> Res (A * list Z)) bs v rest :
  (forall len, local (body len)) -> pull_block cap body bs = Ok (v, rest) ->
  exists hdr window,
    bs = hdr ++ window ++ rest /\ length hdr = cap /\ Zlen window = be_dec 0 hdr /\
    body (Zlen window) window = Ok (v, []) /\
    forall rest', pull_block cap body (hdr ++ window ++ rest') = Ok (v, rest').
Proof.
  intros Lb H. pose proof (local_block cap body Lb _ _ _ H) as (u & Hu & F).
  unfold pull_block in H.
  destruct (pull_be cap bs) as [[len b1]|e] eqn:E; cbn [bind] in H; [|discriminate].
  destruct (body len b1) as [[v' b2]|e] eqn:E2; cbn [bind] in H; [|discriminate].
  destruct (Zlen b1 - Zlen b2 =? len) eqn:C; [|discriminate]. injection H as <- <-.
  destruct (local_be cap _ _ _ E) as (hdr & -> & F1). destruct (Lb len _ _ _ E2) as (w & -> & F2).
  assert (Lh : length hdr = cap).
  { apply pull_be_len in E. rewrite app_length in E. lia. }
  assert (Hlen : len = be_dec 0 hdr).
  { unfold pull_be in E. destruct (Zlen (hdr ++ w ++ b2) <? Z.of_nat cap); [discriminate|].
    rewrite firstn_app_len in E by exact Lh. injection E as E _. symmetry; exact E. }
  exists hdr, w. rewrite Zlen_app' in C. assert (Zlen w = len) by lia.
  repeat split; try assumption; try lia.
  - replace (Zlen w) with len by lia. specialize (F2 []). rewrite app_nil_r in F2. exact F2.
  - intros rest'. rewrite app_assoc in Hu. apply app_inv_tail in Hu. rewrite app_assoc, Hu. apply F.
Qed.

(* an over-run (or under-run) of the declared length is rejected with AlertDecodeError *)
Theorem pull_block_overrun_rejected {A} cap (body : Z -> list Z -> Res (A * list Z)) bs len b1 v b2 :
  pull_be cap bs = Ok (len, b1) -> body len b1 = Ok (v, b2) -> Zlen b1 - Zlen b2 <> len ->
  pull_block cap body bs = Err E_ALERT_DECODE.
Proof. apply pull_block_mismatch. Qed.

(* the whole message: type byte, 3-byte length, exactly that many bytes; the result does not depend on what follows *)
Definition msg_nested (pull : list Z -> Res (list Z * list Z)) : Prop :=
  forall bs d rest, pull bs = Ok (d, rest) ->
  exists t hdr window,
    bs = t :: hdr ++ window ++ rest /\ length hdr = 3%nat /\ Zlen window = be_dec 0 hdr /\
    forall rest', pull (t :: hdr ++ window ++ rest') = Ok (d, rest').

Lemma msg_nested_of {A} kind (body : Z -> list Z -> Res (A * list Z)) (fin : A -> list Z) pull :
  (forall len, local (body len)) ->
  (forall bs, pull bs = '(_, b0) <- pull_handshake_type kind bs ;; '(a, r) <- pull_block 3 body b0 ;; Ok (fin a, r)) ->
  msg_nested pull.
Proof.
  intros Lb Hp bs d rest H. rewrite Hp in H.
  destruct (pull_handshake_type kind bs) as [[[] b0]|e] eqn:E; cbn [bind] in H; [|discriminate].
  destruct (pull_block 3 body b0) as [[a r]|e] eqn:E2; cbn [bind] in H; [|discriminate].
  injection H as <- <-.
  destruct (pull_block_nested 3 body b0 a r Lb E2) as (hdr & w & -> & Lh & Lw & _ & F).
  unfold pull_handshake_type, pull_uint8, pull_be in E.
  destruct bs as [|t bs']; [cbn in E; discriminate|].
  destruct (Zlen (t :: bs') <? Z.of_nat 1); [discriminate|]. cbn [firstn skipn be_dec bind] in E.
  destruct (0 * 256 + t =? kind) eqn:K; [|discriminate]. injection E as ->.
  exists t, hdr, w. repeat split; try assumption.
  intros rest'. rewrite Hp. unfold pull_handshake_type, pull_uint8, pull_be.
  destruct (Zlen (t :: hdr ++ w ++ rest') <? Z.of_nat 1) eqn:Z1; [unfold Zlen in Z1; cbn [length] in Z1; lia|].
  cbn [firstn skipn be_dec bind]. rewrite K. cbn [bind]. rewrite F. reflexivity.
Qed.

Ltac msg_of kind body :=
  apply (msg_nested_of kind body (fun x => x));
    [|intros bs0; cbv delta [pull_client_hello pull_server_hello pull_new_session_ticket pull_encrypted_extensions
                              pull_certificate pull_certificate_request pull_certificate_verify] beta;
      destruct (pull_handshake_type kind bs0) as [[[] ?b0]|?]; cbn [bind]; [|reflexivity];
      match goal with |- ?x = _ => destruct x as [[? ?]|?]; reflexivity end].

Theorem tls_messages_nested :
  msg_nested pull_client_hello /\ msg_nested pull_server_hello /\ msg_nested pull_new_session_ticket /\
  msg_nested pull_encrypted_extensions /\ msg_nested pull_certificate /\ msg_nested pull_certificate_request /\
  msg_nested pull_certificate_verify /\ msg_nested pull_finished.
Proof.
  repeat split.
  - msg_of 1 (fun (_ : Z) b => '(pre, b1) <- hello_prefix b ;; '(cs, b2) <- list_toks 2 (item_uint 2) b1 ;;
             '(cm, b3) <- list_toks 1 (item_uint 1) b2 ;; '(st, b4) <- pull_extensions parse_client_hello_ext true b3 ;;
             Ok (pre ++ cs ++ cm ++ out_est CH_ORDER st, b4)).
    intros len. apply local_bind; [apply local_hello_prefix|]. intros pre. cbn beta iota.
    apply local_bind; [apply local_uints; lia|]. intros cs. cbn beta iota.
    apply local_bind; [apply local_uints; lia|]. intros cm. cbn beta iota.
    apply local_bind; [apply local_extensions; [apply parse_client_hello_ext_mono|apply parse_local_ch]|].
    intros st. apply local_ret.
  - msg_of 2 (fun (_ : Z) b => '(pre, b1) <- hello_prefix b ;; '(cs, b2) <- pull_uint16 b1 ;; '(cm, b3) <- pull_uint8 b2 ;;
             '(st, b4) <- pull_extensions parse_server_hello_ext false b3 ;;
             Ok (pre ++ [cs; cm] ++ out_est SH_ORDER st, b4)).
    intros len. apply local_bind; [apply local_hello_prefix|]. intros pre. cbn beta iota.
    apply local_bind; [apply local_be|]. intros cs. cbn beta iota.
    apply local_bind; [apply local_be|]. intros cm. cbn beta iota.
    apply local_bind; [apply local_extensions; [apply parse_server_hello_ext_mono|apply parse_local_sh]|].
    intros st. apply local_ret.
  - msg_of 4 (fun (_ : Z) b => '(lt, b1) <- pull_uint32 b ;; '(aa, b2) <- pull_uint32 b1 ;; '(nonce, b3) <- pull_opaque 1 b2 ;;
             '(ticket, b4) <- pull_opaque 2 b3 ;; '(st, b5) <- pull_extensions parse_nst_ext false b4 ;;
             Ok ([lt; aa] ++ out_bytes nonce ++ out_bytes ticket ++ out_est NST_ORDER st, b5)).
    intros len. apply local_bind; [apply local_be|]. intros lt. cbn beta iota.
    apply local_bind; [apply local_be|]. intros aa. cbn beta iota.
    apply local_bind; [apply local_opaque|]. intros nonce. cbn beta iota.
    apply local_bind; [apply local_opaque|]. intros ticket. cbn beta iota.
    apply local_bind; [apply local_extensions; [apply parse_nst_ext_mono|apply parse_local_nst]|].
    intros st. apply local_ret.
  - msg_of 8 (fun (_ : Z) b => '(st, b1) <- pull_extensions parse_ee_ext false b ;; Ok (out_est EE_ORDER st, b1)).
    intros len. apply local_bind; [apply local_extensions; [apply parse_ee_ext_mono|apply parse_local_ee]|].
    intros st. apply local_ret.
  - msg_of 11 (fun (_ : Z) b => '(ctx, b1) <- pull_opaque 1 b ;; '(certs, b2) <- list_toks 3 item_certificate_entry b1 ;;
             Ok (out_bytes ctx ++ certs, b2)).
    intros len. apply local_bind; [apply local_opaque|]. intros ctx. cbn beta iota.
    apply local_bind; [apply local_list_toks; [apply item_certificate_entry_progress|intros; apply local_item_certificate_entry]|].
    intros certs. apply local_ret.
  - msg_of 13 (fun (_ : Z) b => '(ctx, b1) <- pull_opaque 1 b ;; '(st, b2) <- pull_extensions parse_cr_ext false b1 ;;
             Ok (out_bytes ctx ++ out_est CR_ORDER st, b2)).
    intros len. apply local_bind; [apply local_opaque|]. intros ctx. cbn beta iota.
    apply local_bind; [apply local_extensions; [apply parse_cr_ext_mono|apply parse_local_cr]|].
    intros st. apply local_ret.
  - msg_of 15 (fun (_ : Z) b => '(alg, b1) <- pull_uint16 b ;; '(sig, b2) <- pull_opaque 2 b1 ;; Ok (alg :: out_bytes sig, b2)).
    intros len. apply local_bind; [apply local_be|]. intros alg. cbn beta iota.
    apply local_bind; [apply local_opaque|]. intros sig. apply local_ret.
  - eapply (msg_nested_of 20 (fun len b => pull_bytes len b) out_bytes).
    + intros len. apply local_bytes.
    + intros bs0. reflexivity.
Qed.

(* ================= 4. where the code does NOT enforce nesting ======================================== *)
(* unknown extensions: the body is pull_bytes(extension_length): exact *)
Theorem other_ext_body_exact parse ch st ty len b b3 st' :
  parse ty len b = None ->
  ext_item parse ch st (be_enc 2 ty ++ be_enc 2 len ++ b) = Ok (st', b3) ->
  0 <= ty < 65536 -> 0 <= len < 65536 -> Zlen b - Zlen b3 = len.
Proof.
  intros PN H Hty Hlen. unfold ext_item in H. destruct (ch && e_psk st); [discriminate|].
  unfold pull_uint16 in H. rewrite pull_be_roundtrip in H by (change (256 ^ Z.of_nat 2) with 65536; lia). cbn [bind] in H.
  rewrite pull_be_roundtrip in H by (change (256 ^ Z.of_nat 2) with 65536; lia). cbn [bind] in H.
  rewrite PN in H. destruct (pull_bytes len b) as [[d b3']|e] eqn:E; cbn [bind] in H; [|discriminate].
  injection H as _ <-. apply pull_bytes_len in E. unfold Zlen. lia.
Qed.

(* known extensions (F13): the parser runs on the rest of the buffer and the declared extension_length is
   never compared with what it consumed.  One accepted witness per decoder: declared length 0, body read anyway
   (ServerHello supported_versions, ClientHello supported_versions, EncryptedExtensions ALPN,
   NewSessionTicket early_data, CertificateRequest signature_algorithms). *)
Definition consumed_by (r : option (Res (list Z * list Z))) (b : list Z) : Z :=
  match r with Some (Ok (_, b')) => Zlen b - Zlen b' | _ => -1 end.

Theorem known_ext_body_not_nested_refuted :
  consumed_by (parse_server_hello_ext 43 0 [3; 4]) [3; 4] = 2 /\
  consumed_by (parse_client_hello_ext 43 0 [2; 3; 4]) [2; 3; 4] = 3 /\
  consumed_by (parse_ee_ext 16 0 [0; 3; 2; 104; 51]) [0; 3; 2; 104; 51] = 5 /\
  consumed_by (parse_nst_ext 42 0 [0; 0; 16; 0]) [0; 0; 16; 0] = 4 /\
  consumed_by (parse_cr_ext 13 0 [0; 2; 8; 4]) [0; 2; 8; 4] = 4 /\
  (* and whole messages that are accepted although the extension body lies outside its declared length *)
  (exists d, pull_server_hello sh_lying_extension = Ok (d, [])) /\
  (exists d, pull_encrypted_extensions [8; 0; 0; 11; 0; 9; 0; 16; 0; 0; 0; 3; 2; 104; 51] = Ok (d, [])) /\
  (exists d, pull_new_session_ticket [4; 0; 0; 22; 0; 0; 0; 1; 0; 0; 0; 2; 0; 0; 1; 7; 0; 8; 0; 42; 0; 0; 0; 0; 16; 0] = Ok (d, [])) /\
  (exists d, pull_certificate_request [13; 0; 0; 11; 0; 0; 8; 0; 13; 0; 0; 0; 2; 8; 4] = Ok (d, [])).
Proof.
  repeat split; try (vm_compute; reflexivity); eexists; vm_compute; reflexivity.
Qed.
