(* C07: the verdict on a peer frame depends on the credit granted (Limit.value / .used, max_stream_data_local, the
   receivers), never on the bookkeeping of what was last put on the wire (Limit.sent, max_stream_data_local_sent).
   Consequently the delivery outcome (ACKED / LOST) of a packet that advertised a limit changes no verdict: a lost
   MAX_DATA / MAX_STREAMS / MAX_STREAM_DATA frame only resets the "sent" field (limit_lost / stream_limit_lost). *)
From Coq Require Import ZArith List Bool Lia ZifyBool.
From AQ Require Import lib.Base model.RangeSet model.StreamRecv model.ConnLimits gen.C07Consts.

(* ---- the tree under test reads the granted value in each of the five checks, and a LOST callback touches only the
        bookkeeping field (probed with ast by tools/gen/c07_consts.py; 0 = value / max_stream_data_local) ---- *)
Lemma checks_read_granted :
  CHECK_FIELD_CONN_STREAM = 0 /\ CHECK_FIELD_CONN_RESET = 0 /\ CHECK_FIELD_MSD_STREAM = 0 /\ CHECK_FIELD_MSD_RESET = 0 /\
  CHECK_FIELD_COUNT = 0 /\ LOST_LIMIT_TOUCHES_ONLY_SENT = true.
Proof. repeat split; reflexivity. Qed.

(* ---- states that differ only in the "sent" bookkeeping ---- *)
Definition lim_eq (a b : limit) : Prop := l_value a = l_value b /\ l_used a = l_used b.
Definition strm_eq (s s' : strm) : Prop := sm_msd s = sm_msd s' /\ sm_sendfin s = sm_sendfin s' /\ sm_recv s = sm_recv s'.
Inductive streams_eq : list (Z * strm) -> list (Z * strm) -> Prop :=
| se_nil : streams_eq [] []
| se_cons k s s' t t' : strm_eq s s' -> streams_eq t t' -> streams_eq ((k, s) :: t) ((k, s') :: t').
Definition credit_eq (c c' : conn) : Prop :=
  c_client c = c_client c' /\ c_msd c = c_msd c' /\
  lim_eq (c_data c) (c_data c') /\ lim_eq (c_bidi c) (c_bidi c') /\ lim_eq (c_uni c) (c_uni c') /\
  streams_eq (c_streams c) (c_streams c') /\ c_done c = c_done c'.

(* the frames that are subject to the receive-side limits *)
Definition limited_frame (o : op) : bool :=
  match o with StreamFrame _ _ _ _ | ResetStream _ _ | Touch _ _ => true | _ => false end.

Lemma lim_eq_refl l : lim_eq l l.
Proof. split; reflexivity. Qed.
Lemma strm_eq_refl s : strm_eq s s.
Proof. repeat split; reflexivity. Qed.
Lemma streams_eq_refl l : streams_eq l l.
Proof. induction l as [|[k s] t IH]; constructor; [apply strm_eq_refl|exact IH]. Qed.

Lemma sget_eq sid l l' : streams_eq l l' ->
  match sget sid l, sget sid l' with
  | Some s, Some s' => strm_eq s s'
  | None, None => True
  | _, _ => False
  end.
Proof.
  induction 1 as [|k s s' t t' E _ IH]; cbn; [exact I|].
  destruct (k =? sid); [exact E|exact IH].
Qed.

(* what the handlers read from the result of _get_or_create_stream *)
Definition gres_eq (g g' : gres) : Prop :=
  match g, g' with
  | GStream s c1, GStream s' c1' => strm_eq s s' /\ lim_eq (c_data c1) (c_data c1')
  | GFinished, GFinished => True
  | GErr a, GErr b => a = b
  | _, _ => False
  end.

Lemma goc_eq c c' sid : credit_eq c c' -> gres_eq (get_or_create c sid) (get_or_create c' sid).
Proof.
  intros (Hc & Hm & Hd & Hb & Hu & Hs & Hdn). unfold get_or_create.
  rewrite <- Hdn, <- Hc, <- Hm.
  destruct (existsb (Z.eqb sid) (c_done c)); [exact I|].
  pose proof (sget_eq sid _ _ Hs) as G.
  destruct (sget sid (c_streams c)) as [s|], (sget sid (c_streams c')) as [s'|]; try contradiction.
  - split; assumption.
  - destruct (Bool.eqb (client_initiated sid) (c_client c)); [reflexivity|].
    destruct Hb as (Hb1 & Hb2), Hu as (Hu1 & Hu2).
    destruct (unidirectional sid); cbn.
    + rewrite <- Hu1. destruct (sid / 4 + 1 >? l_value (c_uni c)); [reflexivity|].
      split; [apply strm_eq_refl|]. cbn. exact Hd.
    + rewrite <- Hb1. destruct (sid / 4 + 1 >? l_value (c_bidi c)); [reflexivity|].
      split; [apply strm_eq_refl|]. cbn. exact Hd.
Qed.

Lemma can_receive_eq c c' sid : c_client c = c_client c' -> can_receive c sid = can_receive c' sid.
Proof. intros H. unfold can_receive. rewrite H. reflexivity. Qed.
Lemma can_send_eq c c' sid : c_client c = c_client c' -> can_send c sid = can_send c' sid.
Proof. intros H. unfold can_send. rewrite H. reflexivity. Qed.

Lemma handle_stream_eq c c' ft sid off data : credit_eq c c' ->
  fst (handle_stream c ft sid off data) = fst (handle_stream c' ft sid off data).
Proof.
  intros E. pose proof (goc_eq c c' sid E) as G. destruct E as (Hc & _).
  unfold handle_stream. rewrite <- (can_receive_eq c c' sid Hc).
  destruct (off + Zlen data >? UINT_VAR_MAX); [reflexivity|].
  destruct (negb (can_receive c sid)); [reflexivity|].
  destruct (get_or_create c sid) as [s c1| |a], (get_or_create c' sid) as [s' c1'| |b]; cbn in G; try contradiction;
    [|reflexivity|subst; reflexivity].
  destruct G as ((M & _ & R) & (V & U)). rewrite <- M, <- R, <- V, <- U.
  destruct (off + Zlen data >? sm_msd s); [reflexivity|].
  destruct (_ >? l_value (c_data c1)); [reflexivity|].
  destruct (handle_frame (sm_recv s) off data (Z.odd ft)) as [o r'].
  destruct o; reflexivity.
Qed.

Lemma handle_reset_stream_eq c c' sid fs : credit_eq c c' ->
  fst (handle_reset_stream c sid fs) = fst (handle_reset_stream c' sid fs).
Proof.
  intros E. pose proof (goc_eq c c' sid E) as G. destruct E as (Hc & _).
  unfold handle_reset_stream. rewrite <- (can_receive_eq c c' sid Hc).
  destruct (negb (can_receive c sid)); [reflexivity|].
  destruct (get_or_create c sid) as [s c1| |a], (get_or_create c' sid) as [s' c1'| |b]; cbn in G; try contradiction;
    [|reflexivity|subst; reflexivity].
  destruct G as ((M & _ & R) & (V & U)). rewrite <- M, <- R, <- V, <- U.
  destruct (fs >? sm_msd s); [reflexivity|].
  destruct (_ >? l_value (c_data c1)); [reflexivity|].
  destruct (handle_reset (sm_recv s) fs) as [o r'].
  destruct o; reflexivity.
Qed.

Lemma handle_touch_eq c c' ft sid : credit_eq c c' ->
  fst (handle_touch c ft sid) = fst (handle_touch c' ft sid).
Proof.
  intros E. pose proof (goc_eq c c' sid E) as G. destruct E as (Hc & _).
  unfold handle_touch. rewrite <- (can_receive_eq c c' sid Hc), <- (can_send_eq c c' sid Hc).
  destruct (negb _); [reflexivity|].
  destruct (get_or_create c sid) as [s c1| |a], (get_or_create c' sid) as [s' c1'| |b]; cbn in G; try contradiction;
    [reflexivity|reflexivity|subst; reflexivity].
Qed.

(* in EVERY pair of states that agree on the credit granted, every limited frame gets the same verdict *)
Lemma verdict_reads_credit_only c c' o : credit_eq c c' -> limited_frame o = true ->
  fst (step c o) = fst (step c' o).
Proof.
  intros E L. destruct o; try discriminate L; cbn [step].
  - apply handle_stream_eq, E.
  - apply handle_reset_stream_eq, E.
  - apply handle_touch_eq, E.
Qed.

(* a lost MAX_DATA / MAX_STREAMS frame: only .sent changes *)
Lemma limit_lost_credit c k : credit_eq c (limit_lost c k).
Proof.
  unfold limit_lost, credit_eq.
  destruct (k =? 0); [|destruct (k =? 1)]; cbn; repeat split; try reflexivity; apply streams_eq_refl.
Qed.

Lemma sset_eq sid s s' l : strm_eq s s' -> sget sid l = Some s -> streams_eq l (sset sid s' l).
Proof.
  intros E. induction l as [|[k s0] t IH]; cbn; [discriminate|].
  destruct (k =? sid).
  - intros H. inversion H; subst. constructor; [exact E|apply streams_eq_refl].
  - intros H. constructor; [apply strm_eq_refl|apply IH, H].
Qed.

(* a lost MAX_STREAM_DATA frame: only max_stream_data_local_sent changes *)
Lemma stream_limit_lost_credit c sid : credit_eq c (stream_limit_lost c sid).
Proof.
  unfold stream_limit_lost, credit_eq.
  destruct (sget sid (c_streams c)) as [s|] eqn:G; cbn; repeat split; try reflexivity; try apply streams_eq_refl.
  apply sset_eq with (s := s); [repeat split; reflexivity|exact G].
Qed.

Lemma lost_advertisement_no_verdict c o : limited_frame o = true ->
  (forall k, fst (step (limit_lost c k) o) = fst (step c o)) /\
  (forall sid, fst (step (stream_limit_lost c sid) o) = fst (step c o)).
Proof.
  intros L. split; intros x; symmetry; apply verdict_reads_credit_only; try exact L.
  - apply limit_lost_credit.
  - apply stream_limit_lost_credit.
Qed.

(* the hypotheses are satisfiable by a non-trivial pair: MAX_DATA raised to 4000 and its packet lost (sent = 0);
   the frame that fills the raised window is accepted in both states *)
Example credit_eq_example :
  let c := mkConn false 3000 (mkLimit 4000 1001 4000) (mkLimit 128 1 128) (mkLimit 128 0 128)
                  [(0, mkStrm 3000 3000 false (mkRecv 1001 false [] 1001 None []))] [] (recv_at 0) [] [] 0 [] [0] 0 [] 0 [] [] in
  credit_eq c (limit_lost c 0) /\ l_sent (c_data (limit_lost c 0)) = 0 /\
  fst (step (limit_lost c 0) (StreamFrame 14 2 2994 [1; 2; 3; 4; 5])) = OOk RNone /\
  fst (step (limit_lost c 0) (StreamFrame 14 2 2995 [1; 2; 3; 4; 5])) = OErr E_FLOW_CONTROL_ERROR 14.
Proof. cbv zeta. split; [apply limit_lost_credit|]. repeat split; vm_compute; reflexivity. Qed.
