(* C14: ANY NUMBER of request / response streams waiting for the QPACK encoder stream at once, resumed by one
   encoder-stream delivery in the decoder's order, versus the encoder stream delivered first (model of the patched code). *)
From AQ Require Import lib.Base lib.Tok model.H3Parse proofs.H3Chunk proofs.H3Split proofs.H3Loop proofs.H3Recv proofs.H3Fin
  proofs.H3Uni proofs.H3Table proofs.H3Push proofs.H3Hdr proofs.H3Conn proofs.H3Inter proofs.H3Two.
From Coq Require Import ZifyBool.

(* one waiting stream: id, the delivery (a HEADERS frame with block [block], then [rest]), FIN, and the events its own
   parser returns once the block can be decoded *)
Definition item := (Z * list Z * list Z * list Z * bool * list event)%type.
Definition i_sid (it : item) : Z := let '(s, _, _, _, _, _) := it in s.
Definition i_ev (it : item) : list event := let '(_, _, _, _, _, e) := it in e.
Definition dlv (O : oracle) (it : item) : qevent * oracle := let '(s, d, _, _, f, _) := it in (QStream s d f, O).

Section Many.
Variable fx : fixes.
Hypothesis Htr : fx_trunc fx = true.
Hypothesis Hem : fx_endmark fx = true.
Hypothesis Hpb : fx_pushblock fx = true.
Variable c0 : conn.
Variables OB O2 : oracle.

Definition item_ok (it : item) : Prop :=
  let '(s, d, block, rest, f, e) := it in
  is_uni s = false /\ hd_ready c0 s /\ frame_at d 1 block rest /\ o_dec OB s block = DBlocked /\
  o_resume O2 s = o_dec O2 s block /\
  exists s', hd_decoded fx O2 (c_client c0) (fst (get_or_create c0 s)) f rest (o_dec O2 s block) = RVal e s'.

Definition blocked_of (it : item) : hstream :=
  let '(s, _, _, rest, f, _) := it in
  set_buf (set_btype (set_blocked (hd_state (fst (get_or_create c0 s)) f) true) (Some 1)) rest.

Definition ids (L : list item) : list Z := map i_sid L.

(* schedule 1, first part: every stream is delivered and waits *)
Lemma all_blocked : forall L c tail,
  c_done c = false -> c_sent_end c = [] -> c_client c = c_client c0 ->
  NoDup (ids L) -> (forall x, In x (ids L) -> find_stream x (c_streams c) = find_stream x (c_streams c0)) ->
  Forall item_ok L ->
  exists c', run fx c (map (dlv OB) L ++ tail) = map (fun _ => Events []) L ++ run fx c' tail /\
    c_done c' = false /\ c_sent_end c' = [] /\ c_client c' = c_client c0 /\ c_qenc c' = c_qenc c /\
    (forall it, In it L -> find_stream (i_sid it) (c_streams c') = Some (blocked_of it)) /\
    (forall x, ~ In x (ids L) -> find_stream x (c_streams c') = find_stream x (c_streams c)).
Proof.
  induction L as [|it L IH]; intros c tail Hd Hs Hc Hnd Hsame Hall.
  - exists c. cbn. repeat split; auto. intros it [].
  - inversion Hall as [|x l Hit Hrest]; subst. inversion Hnd as [|x l Hnotin Hnd']; subst.
    destruct it as [[[[[s d] block] rest] f] e]. cbn [i_sid ids map] in *.
    destruct Hit as (Hu & Hr & Hf & Hb & _ & _).
    assert (Hr' : hd_ready c s) by (unfold hd_ready in *; rewrite Hsame by (left; reflexivity); assumption).
    destruct (blocked_delivery fx Htr Hem Hpb OB c s d block rest f Hd Hs Hu Hr' Hf Hb)
      as (c1 & E1 & D1 & S1 & C1 & Q1 & F1 & FO1).
    assert (G : fst (get_or_create c s) = fst (get_or_create c0 s)) by (apply goc_fst_ext; apply Hsame; left; reflexivity).
    rewrite G in F1.
    destruct (IH c1 tail D1 S1 ltac:(congruence) Hnd') as (c' & R & D' & S' & C' & Q' & FI & FO); [|assumption|].
    { intros x Hx. rewrite FO1 by (intros ->; contradiction). apply Hsame. right. assumption. }
    exists c'. split; [|repeat split; auto; try congruence].
    + cbn [map app run dlv]. rewrite E1. rewrite R. reflexivity.
    + intros it [<- | Hin].
      * cbn [i_sid blocked_of]. rewrite FO by assumption. exact F1.
      * apply FI. assumption.
    + intros x Hx. rewrite FO by (intros Hin; apply Hx; right; assumption).
      apply FO1. intros ->. apply Hx. left. reflexivity.
Qed.

(* schedule 1, second part: the resume pass over all of them, in the order the decoder reports *)
Lemma resume_all : forall L c evs,
  c_client c = c_client c0 -> NoDup (ids L) ->
  (forall it, In it L -> find_stream (i_sid it) (c_streams c) = Some (blocked_of it)) ->
  Forall item_ok L ->
  exists c', unblock fx O2 c (ids L) evs = SVal (evs ++ concat (map i_ev L)) c'.
Proof.
  induction L as [|it L IH]; intros c evs Hc Hnd Hfind Hall.
  - exists c. cbn. rewrite app_nil_r. reflexivity.
  - inversion Hall as [|x l Hit Hrest]; subst. inversion Hnd as [|x l Hnotin Hnd']; subst.
    pose proof (Hfind it (or_introl eq_refl)) as F0.
    destruct it as [[[[[s d] block] rest] f] e]. cbn [i_sid i_ev ids map blocked_of concat] in *.
    destruct Hit as (Hu & Hr & Hf & Hb & Hres & (s' & Hdec)).
    set (s0 := fst (get_or_create c0 s)) in *.
    assert (Hb0 : hd_boundary s0) by (apply hd_ready_goc; assumption).
    assert (Id0 : s_id s0 = s) by apply goc_id.
    change (s :: map i_sid L) with ([s] ++ map i_sid L). rewrite unblock_app.
    assert (U1 : unblock fx O2 c [s] [] = SVal e (set_streams c (put_stream s' (c_streams c)))).
    { rewrite <- Id0 at 1. rewrite (hd_unblock fx Htr Hem Hpb O2 c s0 rest f Hb0) by (rewrite Id0; exact F0).
      rewrite Id0, Hres, Hc, Hdec. reflexivity. }
    rewrite (unblock_one_acc fx O2 c s evs e _ U1).
    assert (Ids' : s_id s' = s) by (rewrite (hd_decoded_id fx _ _ _ _ _ _ _ _ Hdec); exact Id0).
    destruct (IH (set_streams c (put_stream s' (c_streams c))) (evs ++ e)) as (c' & R); try assumption.
    { intros it Hin. rewrite c_streams_ss.
      rewrite find_put_other; [apply Hfind; right; assumption|].
      rewrite Ids'. intros E. apply Hnotin. rewrite <- E. apply in_map. assumption. }
    exists c'. unfold ids in *. rewrite R. rewrite <- app_assoc. reflexivity.
Qed.

(* schedule 2: the streams are delivered after the encoder stream, nothing waits *)
Lemma all_direct : forall L c,
  c_done c = false -> c_sent_end c = [] -> c_client c = c_client c0 ->
  NoDup (ids L) -> (forall x, In x (ids L) -> find_stream x (c_streams c) = find_stream x (c_streams c0)) ->
  Forall item_ok L ->
  run fx c (map (dlv O2) L) = map (fun it => Events (i_ev it)) L.
Proof.
  induction L as [|it L IH]; intros c Hd Hs Hc Hnd Hsame Hall; [reflexivity|].
  inversion Hall as [|x l Hit Hrest]; subst. inversion Hnd as [|x l Hnotin Hnd']; subst.
  destruct it as [[[[[s d] block] rest] f] e]. cbn [i_sid i_ev ids map dlv] in *.
  destruct Hit as (Hu & Hr & Hf & Hb & Hres & (s' & Hdec)).
  set (s0 := fst (get_or_create c0 s)) in *.
  assert (Hb0 : hd_boundary s0) by (apply hd_ready_goc; assumption).
  assert (Id0 : s_id s0 = s) by apply goc_id.
  assert (G : fst (get_or_create c s) = s0) by (apply goc_fst_ext; apply Hsame; left; reflexivity).
  assert (ER : rq_recv fx O2 (c_client c) (fst (get_or_create c s)) d f = RVal e s').
  { rewrite G, Hc. rewrite (hd_recv fx Htr Hem Hpb O2 (c_client c0) s0 d block rest f Hb0 Hf). rewrite Id0.
    destruct (o_dec O2 s block) eqn:EA; try exact Hdec. cbn in Hdec. discriminate. }
  destruct (step_bidi_fwd fx O2 c s d f e s' Hd Hs Hu ER) as (c1 & HE).
  destruct (step_bidi fx O2 c s d f e c1 Hd Hs Hu HE) as (st2 & _ & D1 & S1 & C1 & _ & GO).
  cbn [run]. rewrite HE. f_equal.
  apply IH; try assumption; [congruence|].
  intros x Hx. assert (x <> s) by (intros ->; contradiction).
  (* the entry of x is untouched by the delivery on s *)
  rewrite (he_stream fx O2 c s d f Hd) in HE. unfold receive_stream_data in HE.
  rewrite (recv_bidi fx O2 c s d f Hu) in HE. rewrite ER in HE. cbn [to_rsd] in HE.
  rewrite pop_no_local_end in HE by (cbn [c_sent_end set_streams]; pose proof (goc_fields c s) as (_ & _ & _ & _ & _ & _ & _ & _ & K9);
                                     cbv zeta in K9; destruct (snd (get_or_create c s)); cbn in *; congruence).
  inversion HE; subst c1. rewrite c_streams_ss.
  assert (Ids' : s_id s' = s) by (rewrite (hd_decoded_id fx _ _ _ _ _ _ _ _ Hdec); exact Id0).
  rewrite find_put_other by (rewrite Ids'; assumption). rewrite goc_find_other by assumption. apply Hsame. right. assumption.
Qed.

(* ANY NUMBER OF BLOCKED STREAMS *)
Theorem many_blocked : forall L es encdata encpayload OA,
  c_done c0 = false -> c_sent_end c0 = [] -> is_uni es = true ->
  NoDup (ids L) -> Forall item_ok L -> enc_ready c0 es encdata encpayload ->
  o_enc OA encpayload = EUnblocked [] -> o_enc O2 encpayload = EUnblocked (ids L) ->
  run fx c0 (map (dlv OB) L ++ [(QStream es encdata false, O2)])
    = map (fun _ => Events []) L ++ [Events (concat (map i_ev L))] /\
  run fx c0 ((QStream es encdata false, OA) :: map (dlv O2) L)
    = Events [] :: map (fun it => Events (i_ev it)) L.
Proof.
  intros L es encdata encpayload OA Hd Hs Hue Hnd Hall Henc HoA Ho2.
  assert (Hes : ~ In es (ids L)).
  { intros Hin. unfold ids in Hin. apply in_map_iff in Hin. destruct Hin as (it & E & Hin).
    rewrite Forall_forall in Hall. specialize (Hall it Hin). destruct it as [[[[[s d] block] rest] f] e]. cbn in E. subst s.
    destruct Hall as (Hu & _). congruence. }
  split.
  - destruct (all_blocked L c0 [(QStream es encdata false, O2)] Hd Hs eq_refl Hnd (fun x _ => eq_refl) Hall)
      as (c1 & R & D1 & S1 & C1 & Q1 & FI & FO).
    rewrite R. f_equal. cbn [run].
    rewrite (he_stream fx O2 c1 es encdata false D1). unfold receive_stream_data.
    assert (Henc1 : enc_ready c1 es encdata encpayload).
    { apply (enc_ready_ext c0); [apply FO; assumption | assumption | assumption]. }
    destruct (enc_step fx Htr Hem Hpb O2 c1 es encdata encpayload (ids L) Hue Henc1 Ho2) as (c2 & E2 & C2 & D2 & SE2 & F2 & _).
    rewrite E2.
    destruct (resume_all L c2 []) as (c3 & R3); try assumption; [congruence | |].
    { intros it Hin. rewrite F2; [apply FI; assumption|]. intros E. apply Hes. rewrite <- E. apply in_map. assumption. }
    rewrite R3. reflexivity.
  - cbn [run]. rewrite (he_stream fx OA c0 es encdata false Hd). unfold receive_stream_data.
    destruct (enc_step fx Htr Hem Hpb OA c0 es encdata encpayload [] Hue Henc HoA) as (c1 & E1 & C1 & D1 & SE1 & F1 & (se' & G1 & G2)).
    rewrite E1. cbn [unblock]. rewrite (pop_not_ended c1 es se' G1 (is_ended_open _ _ G2)). f_equal.
    apply all_direct; try assumption; try congruence.
    intros x Hx. apply F1. intros ->. contradiction.
Qed.

End Many.

(* the hypotheses are satisfiable: two response streams (0 and 4) of a client, blocks decoded once the encoder data is there *)
Definition ex_OB : oracle :=
  mkO (fun _ _ => DBlocked) (fun _ => DFailed) (fun _ _ => (true, None)) (fun _ => EUnblocked []) (fun _ => true).
Definition ex_O2 : oracle :=
  mkO (fun _ _ => DHeaders 1) (fun _ => DHeaders 1) (fun _ _ => (true, None)) (fun _ => EUnblocked [0; 4]) (fun _ => true).
Definition ex_items : list item :=
  [(0, [1; 1; 0], [0], [], false, [EHeaders 0 None 1 false]); (4, [1; 1; 0; 0; 1; 97], [0], [0; 1; 97], true, [EHeaders 4 None 1 false; EData 4 None [97] true])].

Example many_blocked_example :
  NoDup (ids ex_items) /\ Forall (item_ok all_fixed (conn_init true true) ex_OB ex_O2) ex_items /\
  enc_ready (conn_init true true) 7 [2; 1] [1] /\ o_enc ex_O2 [1] = EUnblocked (ids ex_items).
Proof.
  split; [|split; [|split]].
  - repeat constructor; cbn; intuition congruence.
  - repeat constructor; cbn [item_ok]; repeat split; try reflexivity; try (cbn; exact I).
    + exists [1; 0]. split; reflexivity.
    + eexists. vm_compute. reflexivity.
    + exists [1; 0; 0; 1; 97]. split; reflexivity.
    + eexists. vm_compute. reflexivity.
  - vm_compute. split; reflexivity.
  - reflexivity.
Qed.
