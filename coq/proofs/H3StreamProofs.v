(* C15 (stretch): content-length bookkeeping of a request / push stream. *)
From Coq Require Import ZArith List Bool Lia ZifyBool.
From AQ Require Import lib.Base model.H3Validate proofs.H3ValidateSpec proofs.H3ValidateProofs gen.C15Tables.

Lemma parse_cl_py_int : forall v n, parse_content_length v = VOk n -> py_int_bytes v = VOk n.
Proof.
  intros v n H. unfold parse_content_length in H.
  destruct (py_int_bytes v) as [m| |k]; cbn [vbind] in H.
  - destruct (gen_cl_bad m); [|congruence].
    destruct (memz gen_cl_raised gen_cl_caught); discriminate.
  - discriminate.
  - destruct (memz k gen_cl_caught); discriminate.
Qed.

Lemma cl_key_is_spec : gen_key_content_length = b_content_length.
Proof. reflexivity. Qed.

Lemma cl_key_not_pseudo : ~ is_pseudo gen_key_content_length.
Proof. intros [t H]. discriminate. Qed.

(* every content-length header of an accepted list spells the number the loop ends with *)
Lemma vh_loop_cl : forall allowed us hs st st',
  vh_loop allowed us hs st = VOk st' ->
  (forall m, vs_cl st = Some m -> vs_cl st' = Some m)
  /\ (forall v, In (gen_key_content_length, v) hs -> exists n, parse_content_length v = VOk n /\ vs_cl st' = Some n)
  /\ (us = true -> vs_ecl st = vs_cl st -> vs_ecl st' = vs_cl st').
Proof.
  intros allowed us. induction hs as [|[key value] t IH]; intros st st' H.
  - cbn in H. inversion H; subst. split; [auto|]. split; [intros v []|auto].
  - cbn [vh_loop] in H.
    destruct (validate_header_name key) as [[]| |]; cbn [vbind] in H; try discriminate.
    destruct (validate_header_value value) as [[]| |]; cbn [vbind] in H; try discriminate.
    destruct (prefixb gen_pseudo_prefix key) eqn:EP.
    + apply pseudo_prefix_spec in EP.
      destruct (vs_after st); [discriminate|].
      destruct (negb (mem_bytes key allowed)); [discriminate|].
      destruct (mem_bytes key (vs_seen st)); [discriminate|].
      destruct (store_pseudo_fields st key value) as [_ [_ [F3 F4]]].
      apply IH in H. destruct H as [I1 [I2 I3]]. rewrite F3 in I1. rewrite F3, F4 in I3.
      split; [exact I1|]. split; [|exact I3].
      intros v [E|Hin]; [|apply I2; exact Hin].
      inversion E; subst. exfalso. apply cl_key_not_pseudo. exact EP.
    + destruct (bytes_eqb key gen_key_content_length) eqn:EK.
      * apply bytes_eqb_eq in EK. subst key.
        destruct (parse_content_length value) as [n| |] eqn:EPc; cbn [vbind] in H; try discriminate.
        cbn [set_after vs_cl] in H.
        destruct (match vs_cl st with Some m => gen_cl_conflict n m | None => false end) eqn:EC; [discriminate|].
        apply IH in H. destruct H as [I1 [I2 I3]]. cbn [store_cl vs_cl vs_ecl set_after] in I1, I3.
        specialize (I1 n eq_refl).
        split.
        { intros m Hm. rewrite Hm in EC. unfold gen_cl_conflict in EC. assert (n = m) by lia. subst. exact I1. }
        split.
        { intros v [E|Hin]; [|apply I2; exact Hin]. inversion E; subst. exists n. split; assumption. }
        { intros Hus _. apply I3; [exact Hus|]. rewrite Hus. reflexivity. }
      * assert (Hk : key <> gen_key_content_length).
        { intro E. subst. rewrite bytes_eqb_refl in EK. discriminate. }
        destruct (bytes_eqb key gen_key_transfer_encoding && negb (bytes_eqb value gen_te_value)); [discriminate|].
        apply IH in H. destruct H as [I1 [I2 I3]]. cbn [set_after vs_cl vs_ecl] in I1, I3.
        split; [exact I1|]. split; [|exact I3].
        intros v [E|Hin]; [|apply I2; exact Hin]. inversion E; subst. contradiction.
Qed.

(* requests and responses: the expected content length stored on the stream is the one every
   content-length header of the accepted block spells *)
Lemma validate_declares : forall c hs ecl n,
  validate (if c : bool then KResponse else KRequest) hs = VOk ecl -> declares hs n -> ecl = Some n.
Proof.
  intros c hs ecl n H [v [Hin Hv]].
  assert (G : forall allowed required, validate_headers allowed required true hs = VOk ecl -> ecl = Some n).
  { intros allowed required H0. unfold validate_headers in H0.
    destruct (vh_loop allowed true hs vstate_init) as [st| |] eqn:EL; cbn [vbind] in H0; try discriminate.
    apply vh_loop_cl in EL. destruct EL as [_ [I2 I3]].
    rewrite <- cl_key_is_spec in Hin. destruct (I2 v Hin) as [m [Em Es]].
    apply parse_cl_py_int in Em. rewrite Hv in Em. inversion Em; subst m.
    specialize (I3 eq_refl eq_refl). rewrite Es in I3.
    destruct (existsb _ required); [discriminate|].
    destruct (match vs_scheme st with Some s => mem_bytes s gen_schemes | None => false end).
    - destruct (opt_empty (vs_authority st)); [discriminate|].
      destruct (opt_empty (vs_path st)); [discriminate|]. inversion H0. congruence.
    - inversion H0. congruence. }
  destruct c; cbn [validate] in H; eapply G; exact H.
Qed.

(* ---------- the stream machine *)
Definition kind_of_side (c : bool) : kind := if c then KResponse else KRequest.

(* invariant tying the stream state to the events delivered so far *)
Definition inv (c : bool) (st : sstate) (evs : list sevent) : Prop :=
  s_cl st = body_bytes evs
  /\ match s_hstate st with
     | HInitial => first_headers evs = None /\ s_ecl st = None
     | _ => exists hs, first_headers evs = Some hs /\ validate (kind_of_side c) hs = VOk (s_ecl st)
     end.

Definition end_ok (st : sstate) : Prop := s_ecl st = None \/ s_ecl st = Some (s_cl st).

Lemma body_bytes_app : forall a b, body_bytes (a ++ b) = body_bytes a + body_bytes b.
Proof.
  induction a as [|e a IH]; intro b; [reflexivity|].
  cbn [app]. unfold body_bytes in *. cbn [fold_right]. rewrite IH. lia.
Qed.

Lemma first_headers_app_some : forall a b hs, first_headers a = Some hs -> first_headers (a ++ b) = Some hs.
Proof.
  induction a as [|e a IH]; intros b hs H; cbn in *; [discriminate|].
  destruct e; [exact H | apply IH; exact H].
Qed.

Lemma first_headers_app_none : forall a b, first_headers a = None -> first_headers (a ++ b) = first_headers b.
Proof.
  induction a as [|e a IH]; intros b H; cbn in *; [reflexivity|].
  destruct e; [discriminate | apply IH; exact H].
Qed.

Lemma check_cl_ok : forall A (st : sstate) (k r : vres A),
  check_content_length st k = r -> (exists a, r = VOk a) -> r = k /\ end_ok st.
Proof.
  intros A st k r H [a Ha]. unfold check_content_length in H. unfold end_ok.
  destruct (s_ecl st) as [e|].
  - destruct (negb (s_cl st =? e)) eqn:E.
    + subst. discriminate.
    + split; [congruence|]. right. f_equal. lia.
  - split; [congruence | left; reflexivity].
Qed.

(* what one step can do: at most one event; the invariant is kept; an event that ends the stream
   is only produced when the content-length check passed *)
Definition step_post (c : bool) (past evs : list sevent) (st' : sstate) : Prop :=
  inv c st' (past ++ evs)
  /\ (evs = [] \/ exists e, evs = [e] /\ (ev_ended e = true -> end_ok st')).

Lemma handle_data_post : forall c st n ended past evs st',
  inv c st past -> handle_data st n ended = VOk (evs, st') -> step_post c past evs st'.
Proof.
  intros c st n ended past evs st' [I1 I2] H. unfold handle_data in H.
  destruct (s_hstate st) eqn:EH; try discriminate.
  set (st1 := mkS HAfterHeaders (s_ecl st) (s_cl st + n) (s_remaining st) (s_ended st)) in *.
  assert (K : evs = (if ended || negb (n =? 0) then [EData n ended] else []) /\ st' = st1 /\ (ended = true -> end_ok st1)).
  { destruct ended.
    - apply check_cl_ok in H; [|eauto]. destruct H as [H E]. inversion H; subst. auto.
    - inversion H; subst. repeat split; discriminate. }
  destruct K as [Ke [Ks Kend]]. subst st'. unfold step_post, inv. subst st1. cbn [s_cl s_hstate s_ecl].
  split.
  - split.
    + rewrite body_bytes_app, I1. subst evs. destruct (ended || negb (n =? 0)) eqn:E; cbn; lia.
    + destruct I2 as [hs [F V]]. exists hs. split; [apply first_headers_app_some; exact F | exact V].
  - subst evs. destruct (ended || negb (n =? 0)); [right | left; reflexivity].
    eexists. split; [reflexivity|]. cbn. exact Kend.
Qed.

Lemma handle_headers_post : forall c st hs ended past evs st',
  inv c st past -> handle_headers c st hs ended = VOk (evs, st') -> step_post c past evs st'.
Proof.
  intros c st hs ended past evs st' [I1 I2] H. unfold handle_headers in H.
  destruct (s_hstate st) eqn:EH; try discriminate.
  - (* first header block *)
    destruct I2 as [F E0].
    destruct (validate (if c then KResponse else KRequest) hs) as [ecl| |] eqn:EV; cbn [vbind] in H; try discriminate.
    rewrite E0 in H.
    set (st1 := mkS HAfterHeaders (match ecl with Some n => Some n | None => None end) (s_cl st) (s_remaining st) (s_ended st)) in *.
    assert (K : evs = [EHeaders hs ended] /\ st' = st1 /\ (ended = true -> end_ok st1)).
    { destruct ended.
      - apply check_cl_ok in H; [|eauto]. destruct H as [H E]. inversion H; subst. auto.
      - inversion H; subst. repeat split; discriminate. }
    destruct K as [Ke [Ks Kend]]. subst st' evs. unfold step_post, inv. subst st1. cbn [s_cl s_hstate s_ecl]. split.
    + split; [rewrite body_bytes_app, I1; cbn; lia|].
      exists hs. split; [rewrite first_headers_app_none by exact F; reflexivity|].
      unfold kind_of_side. rewrite EV. destruct ecl; reflexivity.
    + right. eexists. split; [reflexivity|]. cbn. exact Kend.
  - (* trailers *)
    destruct (validate KTrailers hs) as [ecl| |]; cbn [vbind] in H; try discriminate.
    set (st1 := mkS HAfterTrailers (s_ecl st) (s_cl st) (s_remaining st) (s_ended st)) in *.
    assert (K : evs = [EHeaders hs ended] /\ st' = st1 /\ (ended = true -> end_ok st1)).
    { destruct ended.
      - apply check_cl_ok in H; [|eauto]. destruct H as [H E]. inversion H; subst. auto.
      - inversion H; subst. repeat split; discriminate. }
    destruct K as [Ke [Ks Kend]]. subst st' evs. unfold step_post, inv. subst st1. cbn [s_cl s_hstate s_ecl]. split.
    + split; [rewrite body_bytes_app, I1; cbn; lia|].
      destruct I2 as [hs0 [F V]]. exists hs0. split; [apply first_headers_app_some; exact F | exact V].
    + right. eexists. split; [reflexivity|]. cbn. exact Kend.
Qed.

Lemma inv_set_ended : forall c st fin evs, inv c st evs -> inv c (set_ended st fin) evs.
Proof. intros c st fin evs H. exact H. Qed.

Lemma inv_set_remaining : forall c st r evs, inv c st evs -> inv c (set_remaining st r) evs.
Proof. intros c st r evs H. exact H. Qed.

Lemma truncated_check_ok : forall A fin rem (r : vres A) x, truncated_check fin rem r = VOk x -> r = VOk x.
Proof.
  intros A fin rem r x H. unfold truncated_check in H. destruct r as [y| |]; try discriminate.
  destruct (fin && negb (is_none rem)); [discriminate | exact H].
Qed.

Lemma stream_step_post : forall c st op past evs st',
  inv c st past -> stream_step c st op = VOk (evs, st') -> step_post c past evs st'.
Proof.
  intros c st op past evs st' I H. destruct op as [hs fin|size avail fin|avail fin|]; cbn [stream_step] in H.
  - destruct (s_remaining (set_ended st fin)); [discriminate|].
    eapply handle_headers_post; [|exact H]. apply inv_set_ended. exact I.
  - destruct (s_remaining (set_ended st fin)); [discriminate|].
    apply truncated_check_ok in H.
    eapply handle_data_post; [|exact H]. apply inv_set_remaining. apply inv_set_ended. exact I.
  - destruct (s_remaining (set_ended st fin)) as [r|] eqn:ER; [|discriminate].
    destruct ((avail <? r) && negb fin).
    + inversion H; subst. destruct I as [I1 I2]. unfold step_post, inv. cbn [s_cl s_hstate s_ecl set_ended]. split.
      * split; [rewrite body_bytes_app, I1; cbn; lia|].
        destruct (s_hstate st); [destruct I2 as [F E]; split; [rewrite first_headers_app_none by exact F; reflexivity | exact E] | |];
          destruct I2 as [hs [F V]]; exists hs; (split; [apply first_headers_app_some; exact F | exact V]).
      * right. eexists. split; [reflexivity|]. cbn. discriminate.
    + destruct (avail =? 0); [discriminate|]. apply truncated_check_ok in H.
      eapply handle_data_post; [|exact H]. apply inv_set_remaining. apply inv_set_ended. exact I.
  - destruct (s_remaining (set_ended st true)) as [r|] eqn:ER.
    + discriminate.
    + apply check_cl_ok in H; [|eauto]. destruct H as [H E]. inversion H; subst.
      destruct I as [I1 I2]. unfold step_post, inv. cbn [s_cl s_hstate s_ecl set_ended]. split.
      * split; [rewrite body_bytes_app, I1; cbn; lia|].
        destruct (s_hstate st); [destruct I2 as [F E']; split; [rewrite first_headers_app_none by exact F; reflexivity | exact E'] | |];
          destruct I2 as [hs [F V]]; exists hs; (split; [apply first_headers_app_some; exact F | exact V]).
      * right. eexists. split; [reflexivity|]. intros _. exact E.
Qed.

(* an event list is good when the content-length declared by its first header block equals its body *)
Definition good (l : list sevent) : Prop :=
  forall hs n, first_headers l = Some hs -> declares hs n -> body_bytes l = n.

Lemma inv_end_good : forall c st l, inv c st l -> end_ok st -> good l.
Proof.
  intros c st l [I1 I2] E hs n F D.
  destruct (s_hstate st).
  - destruct I2 as [F0 _]. congruence.
  - destruct I2 as [hs0 [F0 V]]. rewrite F in F0. inversion F0; subst hs0.
    apply (validate_declares c hs _ n) in V; [|exact D].
    destruct E as [E|E]; rewrite V in E; [discriminate|]. inversion E. lia.
  - destruct I2 as [hs0 [F0 V]]. rewrite F in F0. inversion F0; subst hs0.
    apply (validate_declares c hs _ n) in V; [|exact D].
    destruct E as [E|E]; rewrite V in E; [discriminate|]. inversion E. lia.
Qed.

Lemma stream_run_good : forall c ops st past evs r,
  inv c st past -> stream_run c st ops = (evs, r) ->
  forall pre e post, evs = pre ++ e :: post -> ev_ended e = true -> good (past ++ pre ++ [e]).
Proof.
  intros c. induction ops as [|op t IH]; intros st past evs r I H pre e post E He.
  - cbn in H. injection H as H1 H2. subst evs. destruct pre; discriminate.
  - cbn [stream_run] in H.
    destruct (stream_step c st op) as [[evs1 st1]| |] eqn:ES.
    + destruct (stream_run c st1 t) as [evs2 r2] eqn:ER. injection H as H1 H2. subst evs r.
      pose proof (stream_step_post c st op past evs1 st1 I ES) as [I' Hev].
      destruct Hev as [Hn|[e1 [He1 Hend]]]; subst evs1.
      * cbn [app] in E. rewrite app_nil_r in I'. eapply IH; eauto.
      * destruct pre as [|p pre'].
        { cbn in E. inversion E; subst. cbn [app]. eapply inv_end_good; [exact I' | apply Hend; exact He]. }
        { cbn in E. inversion E; subst.
          replace (past ++ (p :: pre') ++ [e]) with ((past ++ [p]) ++ pre' ++ [e]) by (rewrite <- app_assoc; reflexivity).
          eapply IH; [exact I' | exact ER | reflexivity | exact He]. }
    + injection H as H1 H2. subst evs. destruct pre; discriminate.
    + injection H as H1 H2. subst evs. destruct pre; discriminate.
Qed.

Lemma inv_init : forall c, inv c sstate_init [].
Proof. intro c. split; [reflexivity|]. cbn. split; reflexivity. Qed.

(* T3: whatever the peer sends on a request stream (any sequence of whole HEADERS frames, DATA frames cut
   anywhere, FINs), every event that tells the application the stream ended comes after exactly the
   declared number of body bytes. *)
Lemma content_length_matches_proof : forall c ops evs r,
  stream_run c sstate_init ops = (evs, r) -> content_length_respected evs.
Proof.
  intros c ops evs r H pre e post E He hs n F D.
  exact (stream_run_good c ops sstate_init [] evs r (inv_init c) H pre e post E He hs n F D).
Qed.

(* ... and a mismatch at the end of the stream is H3_MESSAGE_ERROR: the end-of-stream check of a step
   either passes with equal sizes or yields the message error. *)
Lemma content_length_mismatch_is_message_error : forall A (st : sstate) (k : vres A) e,
  s_ecl st = Some e -> s_cl st <> e -> check_content_length st k = PErr H3_MESSAGE_ERROR.
Proof.
  intros A st k e H Hne. unfold check_content_length. rewrite H.
  destruct (negb (s_cl st =? e)) eqn:E; [reflexivity | lia].
Qed.

(* non-vacuity: a request declaring 3 bytes, body delivered as 1 + 2 bytes in a cut DATA frame, FIN *)
Example stream_example :
  let hs := [(b_method, [71]); (b_authority, [104]); (b_content_length, [51])] in
  stream_run false sstate_init [OHeaders hs false; ODataStart 3 1 false; ODataCont 2 true]
  = ([EHeaders hs false; EData 1 false; EData 2 true], None)
  /\ declares hs 3.
Proof.
  split; [reflexivity|]. exists [51]. split; [right; right; left; reflexivity | reflexivity].
Qed.

(* a wrong body size is refused with the message error instead of the end-of-stream event *)
Example stream_example_mismatch :
  let hs := [(b_method, [71]); (b_authority, [104]); (b_content_length, [51])] in
  stream_run false sstate_init [OHeaders hs false; ODataStart 2 2 true]
  = ([EHeaders hs false], Some (PErr H3_MESSAGE_ERROR)).
Proof. reflexivity. Qed.

(* the patched duplicate rule: conflicting declarations are refused, equal ones accepted *)
Example conflicting_content_length_refused :
  validate KRequest [(b_method, [71]); (b_authority, [104]); (b_content_length, [51]); (b_content_length, [55])]
  = PErr H3_MESSAGE_ERROR
  /\ validate KRequest [(b_method, [71]); (b_authority, [104]); (b_content_length, [51]); (b_content_length, [48; 51])]
  = VOk (Some 3).
Proof. split; reflexivity. Qed.

(* a stream that ends inside a DATA frame is a frame error (fix 802f530), with or without buffered bytes *)
Example stream_example_truncated :
  let hs := [(b_method, [71]); (b_authority, [104])] in
  stream_run false sstate_init [OHeaders hs false; ODataStart 1 0 false; ODataCont 0 true]
  = ([EHeaders hs false], Some (PErr H3_FRAME_ERROR_code))
  /\ stream_run false sstate_init [OHeaders hs false; ODataStart 3 1 true]
  = ([EHeaders hs false], Some (PErr H3_FRAME_ERROR_code))
  /\ stream_run false sstate_init [OHeaders hs false; ODataStart 3 1 false; OFin]
  = ([EHeaders hs false; EData 1 false], Some (PErr H3_FRAME_ERROR_code)).
Proof. repeat split; reflexivity. Qed.
