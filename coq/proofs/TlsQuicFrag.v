(* C11, connection level: the TLS outcome does not depend on how the CRYPTO stream bytes are cut into frames.
   Part 1 (this file, first half): tls.Context.handle_message fed chunk by chunk = fed the concatenation at once. *)
From Coq Require Import ZArith List Bool Lia.
From AQ Require Import lib.Base model.StreamRecv gen.TlsDispatch model.TlsSM gen.TlsQuicGen model.TlsQuic.
From AQ Require Import proofs.ListZ proofs.TlsQuicP.

Definition bytes_ok (l : list Z) : Prop := Forall (fun b => 0 <= b < 256) l.

Lemma bytes_ok_app : forall a b, bytes_ok a -> bytes_ok b -> bytes_ok (a ++ b).
Proof. intros. apply Forall_app. split; assumption. Qed.

Lemma bytes_ok_zdrop : forall n l, bytes_ok l -> bytes_ok (zdrop n l).
Proof.
  intros n l. unfold zdrop, bytes_ok. generalize (Z.to_nat n) as k. intros k. revert l.
  induction k as [|k IH]; intros l H; [exact H|]. destruct l as [|a l]; [exact H|]. cbn. apply IH. inversion H; assumption.
Qed.

Lemma zdrop_app_le : forall {A} n (l b : list A), 0 <= n <= Zlen l -> zdrop n (l ++ b) = zdrop n l ++ b.
Proof.
  intros A n l b H. unfold zdrop, Zlen in *. rewrite skipn_app.
  replace (Z.to_nat n - length l)%nat with O by lia. reflexivity.
Qed.

Lemma length_zdrop_lt : forall {A} n (l : list A), 4 <= n <= Zlen l -> (length (zdrop n l) + 4 <= length l)%nat.
Proof. intros A n l H. unfold zdrop, Zlen in *. rewrite skipn_length. lia. Qed.

Lemma install_set_rbuf : forall ks c b x, install (set_rbuf c b x) ks = set_rbuf (install c ks) b x.
Proof.
  induction ks as [|[d e] ks IH]; intros c b x; [reflexivity|].
  unfold install in *. cbn [fold_left]. rewrite <- IH. f_equal.
  unfold install1. destruct (d =? DIR_ENCRYPT); reflexivity.
Qed.

Lemma dispatch_one_rest : forall e c t r1 r2,
  dispatch_one e c t r1 = let '(o, c1) := dispatch_one e c t r2 in (o, set_rbuf c1 r1 (q_rbuf_epoch c)).
Proof.
  intros. unfold dispatch_one. destruct (step (q_cfg c) (q_tls c) _) as [[o s'] ks].
  f_equal. rewrite <- install_set_rbuf. reflexivity.
Qed.

Lemma dispatch_one_fields : forall e c t rest o c1, dispatch_one e c t rest = (o, c1) ->
  q_rbuf c1 = rest /\ q_rbuf_epoch c1 = q_rbuf_epoch c.
Proof.
  intros e c t rest o c1 H. unfold dispatch_one in H. destruct (step (q_cfg c) (q_tls c) _) as [[o' s'] ks].
  inversion H; subst.
  match goal with |- context [install ?x ks] => destruct (install_fields ks x) as (_ & _ & _ & _ & _ & _ & F7 & _ & F9 & _) end.
  rewrite F7, F9. split; reflexivity.
Qed.

Lemma set_rbuf_id : forall c, set_rbuf c (q_rbuf c) (q_rbuf_epoch c) = c.
Proof. intros []. reflexivity. Qed.

Lemma header_ge4 : forall l1 l2 l3, 0 <= l1 < 256 -> 0 <= l2 < 256 -> 0 <= l3 < 256 -> 4 <= 4 + (l1 * 65536 + l2 * 256 + l3).
Proof. intros. lia. Qed.

(* enough fuel is enough *)
Lemma tls_loop_fuel : forall p e n f1 f2 c,
  (length (q_rbuf c) <= n)%nat -> (n < f1)%nat -> (n < f2)%nat -> bytes_ok (q_rbuf c) ->
  tls_loop f1 p e c = tls_loop f2 p e c.
Proof.
  intros p e n. induction n as [n IH] using lt_wf_ind. intros f1 f2 c Hn H1 H2 Hb.
  destruct f1 as [|f1]; [lia|]. destruct f2 as [|f2]; [lia|]. cbn [tls_loop].
  destruct (q_rbuf c) as [|t [|l1 [|l2 [|l3 tl]]]] eqn:B; try reflexivity.
  set (mlen := 4 + (l1 * 65536 + l2 * 256 + l3)).
  destruct (mlen >? MAX_HANDSHAKE_MESSAGE_SIZE); [reflexivity|].
  destruct (Zlen (t :: l1 :: l2 :: l3 :: tl) <? mlen) eqn:Lt; [reflexivity|].
  destruct (p && _); [reflexivity|].
  destruct (dispatch_one e c t (zdrop mlen (t :: l1 :: l2 :: l3 :: tl))) as [o c1] eqn:D.
  destruct o; try reflexivity.
  destruct (dispatch_one_fields _ _ _ _ _ _ D) as [R _].
  assert (G : 4 <= mlen).
  { inversion Hb as [|? ? _ Hb1]; inversion Hb1 as [|? ? A1 Hb2]; inversion Hb2 as [|? ? A2 Hb3]; inversion Hb3 as [|? ? A3 _].
    apply header_ge4; assumption. }
  assert (Le : (length (q_rbuf c1) + 4 <= length (t :: l1 :: l2 :: l3 :: tl))%nat).
  { rewrite R. apply length_zdrop_lt. split; [exact G|]. apply Z.ltb_ge in Lt. exact Lt. }
  apply (IH (length (q_rbuf c1))); try lia.
  rewrite R. apply bytes_ok_zdrop. exact Hb.
Qed.

(* feeding buf ++ b = feeding buf, then (unless that failed) going on with b appended to what is left *)
Lemma tls_loop_app : forall p e x n c buf b f1 f2 f3,
  (length buf <= n)%nat -> bytes_ok buf -> bytes_ok b ->
  (length (buf ++ b) < f1)%nat -> (length buf < f2)%nat -> (length (buf ++ b) < f3)%nat ->
  match tls_loop f2 p e (set_rbuf c buf x) with
  | (TOk, c1) => tls_loop f1 p e (set_rbuf c (buf ++ b) x) = tls_loop f3 p e (set_rbuf c1 (q_rbuf c1 ++ b) x)
  | (r, c1) => tls_loop f1 p e (set_rbuf c (buf ++ b) x) = (r, set_rbuf c1 (q_rbuf c1 ++ b) x)
  end.
Proof.
  intros p e x n. induction n as [n IH] using lt_wf_ind. intros c buf b f1 f2 f3 Hn Hb Hbb H1 H2 H3.
  destruct f2 as [|f2]; [lia|]. cbn [tls_loop]. cbn [q_rbuf set_rbuf].
  assert (Short : forall c0, tls_loop f1 p e (set_rbuf c0 (buf ++ b) x) = tls_loop f3 p e (set_rbuf c0 (buf ++ b) x)).
  { intros c0. apply (tls_loop_fuel p e (length (buf ++ b))); cbn [q_rbuf set_rbuf]; try lia. apply bytes_ok_app; assumption. }
  destruct buf as [|t [|l1 [|l2 [|l3 tl]]]] eqn:B; try (rewrite (Short c); reflexivity).
  destruct f1 as [|f1]; [cbn in H1; lia|].
  cbn [tls_loop q_rbuf set_rbuf q_tls app].
  change (t :: l1 :: l2 :: l3 :: tl ++ b) with ((t :: l1 :: l2 :: l3 :: tl) ++ b).
  remember (4 + (l1 * 65536 + l2 * 256 + l3)) as mlen eqn:Hm.
  assert (G : 4 <= mlen).
  { inversion Hb as [|? ? _ Hb1]; inversion Hb1 as [|? ? A1 Hb2]; inversion Hb2 as [|? ? A2 Hb3]; inversion Hb3 as [|? ? A3 _].
    subst mlen. apply header_ge4; assumption. }
  remember (t :: l1 :: l2 :: l3 :: tl) as full eqn:Hf.
  assert (Hd : forall (z : list Z), match full ++ z with t' :: _ => t' = t | [] => False end) by (intro z; subst full; reflexivity).
  destruct (mlen >? MAX_HANDSHAKE_MESSAGE_SIZE) eqn:Big; [reflexivity|].
  destruct (Zlen full <? mlen) eqn:Lt.
  { (* incomplete in buf: nothing happened yet *)
    cbv beta iota.
    change (tls_loop f3 p e (set_rbuf (set_rbuf c full x) (q_rbuf (set_rbuf c full x) ++ b) x))
      with (tls_loop f3 p e (set_rbuf c (full ++ b) x)).
    rewrite <- (Short c). subst full. cbn [tls_loop q_rbuf set_rbuf q_tls app].
    change (t :: l1 :: l2 :: l3 :: tl ++ b) with ((t :: l1 :: l2 :: l3 :: tl) ++ b).
    rewrite <- Hm, Big. reflexivity. }
  assert (Lt' : Zlen (full ++ b) <? mlen = false).
  { apply Z.ltb_ge. apply Z.ltb_ge in Lt. rewrite Zlen_app. pose proof (Zlen_nonneg b). lia. }
  rewrite Lt'.
  destruct (p && negb (e =? expected_epoch (s_state (q_tls c)))); [reflexivity|].
  apply Z.ltb_ge in Lt.
  rewrite (zdrop_app_le mlen full b) by lia.
  rewrite (dispatch_one_rest e (set_rbuf c (full ++ b) x) t (zdrop mlen full ++ b) (zdrop mlen full)).
  change (dispatch_one e (set_rbuf c (full ++ b) x) t (zdrop mlen full))
    with (dispatch_one e (set_rbuf c full x) t (zdrop mlen full)).
  destruct (dispatch_one e (set_rbuf c full x) t (zdrop mlen full)) as [o c1] eqn:D.
  destruct (dispatch_one_fields _ _ _ _ _ _ D) as [R1 R2]. cbn [q_rbuf_epoch set_rbuf] in R2.
  cbn [q_rbuf_epoch set_rbuf].
  destruct o.
  - (* accepted: go on with the rest *)
    assert (Le : (length (zdrop mlen full) + 4 <= length full)%nat) by (apply length_zdrop_lt; lia).
    pose proof (IH (length (zdrop mlen full)) ltac:(lia) c1 (zdrop mlen full) b f1 f2 f3 (le_n _)
                   (bytes_ok_zdrop _ _ Hb) Hbb) as X.
    rewrite app_length in *.
    specialize (X ltac:(lia) ltac:(lia) ltac:(lia)).
    assert (E1 : set_rbuf c1 (zdrop mlen full) x = c1) by (rewrite <- R1, <- R2; apply set_rbuf_id).
    rewrite E1 in X. exact X.
  - rewrite R1. reflexivity.
  - rewrite R1. reflexivity.
Qed.


(* what the loop leaves of the connection, the receive buffer aside *)
Definition forget (c : conn) : conn := set_rbuf c [] 0.

Lemma tls_loop_after : forall p e f c r c1, bytes_ok (q_rbuf c) -> tls_loop f p e c = (r, c1) ->
  q_rbuf_epoch c1 = q_rbuf_epoch c /\ bytes_ok (q_rbuf c1) /\ (length (q_rbuf c1) <= length (q_rbuf c))%nat.
Proof.
  intros p e f. induction f as [|f IH]; intros c r c1 Hb H; cbn [tls_loop] in H.
  - inversion H; subst. repeat split; auto.
  - destruct (q_rbuf c) as [|t [|l1 [|l2 [|l3 tl]]]] eqn:B; try (inversion H; subst; rewrite B; repeat split; auto).
    remember (4 + (l1 * 65536 + l2 * 256 + l3)) as mlen.
    destruct (mlen >? MAX_HANDSHAKE_MESSAGE_SIZE); [inversion H; subst; rewrite B; repeat split; auto|].
    destruct (Zlen (t :: l1 :: l2 :: l3 :: tl) <? mlen) eqn:Lt; [inversion H; subst; rewrite B; repeat split; auto|].
    destruct (p && _); [inversion H; subst; rewrite B; repeat split; auto|].
    destruct (dispatch_one e c t _) as [o c2] eqn:D.
    destruct (dispatch_one_fields _ _ _ _ _ _ D) as [R1 R2].
    assert (Hb2 : bytes_ok (q_rbuf c2)) by (rewrite R1; apply bytes_ok_zdrop; exact Hb).
    assert (Le : (length (q_rbuf c2) <= length (t :: l1 :: l2 :: l3 :: tl))%nat).
    { rewrite R1. unfold zdrop. rewrite skipn_length. lia. }
    destruct o.
    + destruct (IH _ _ _ Hb2 H) as (A & B' & C). rewrite A, R2. repeat split; auto. lia.
    + inversion H; subst. rewrite R2. repeat split; auto.
    + inversion H; subst. rewrite R2. repeat split; auto.
Qed.

Definition entry_check (p : bool) (e : Z) (c : conn) (d : list Z) : bool :=
  p && negb (Zlen (q_rbuf c) =? 0) && negb (Zlen d =? 0) && negb (e =? q_rbuf_epoch c).

Lemma tls_feed_nostart : forall p e c d, s_state (q_tls c) <> CLIENT_HANDSHAKE_START ->
  tls_feed p e c d =
  if entry_check p e c d then (TAlert AD_unexpected_message, c)
  else tls_loop (S (length (q_rbuf c ++ d))) p e
         (set_rbuf c (q_rbuf c ++ d) (if Zlen d =? 0 then q_rbuf_epoch c else e)).
Proof. intros p e c d H. unfold tls_feed, entry_check. destruct (s_state (q_tls c)); try reflexivity. contradiction. Qed.

Lemma Zlen_eqb0 : forall {A} (l : list A), l <> [] -> (Zlen l =? 0) = false.
Proof. intros A [|a l] H; [contradiction|]. unfold Zlen. cbn [length]. apply Z.eqb_neq. lia. Qed.

(* two chunks: a then b  =  a ++ b at once *)
Lemma tls_feed_app : forall cl cfg0 p e c a b,
  QInv cl cfg0 c -> bytes_ok (q_rbuf c) -> bytes_ok a -> bytes_ok b -> a <> [] -> b <> [] ->
  match tls_feed p e c a with
  | (TOk, c1) => tls_feed p e c (a ++ b) = tls_feed p e c1 b
  | (r, c1) => fst (tls_feed p e c (a ++ b)) = r /\ forget (snd (tls_feed p e c (a ++ b))) = forget c1
  end.
Proof.
  intros cl cfg0 p e c a b I Hc Ha Hb Na Nb.
  pose proof (inv_no_start _ _ _ _ (qinv_role _ _ _ I)) as NS.
  assert (Nab : a ++ b <> []) by (destruct a; [contradiction|discriminate]).
  destruct (tls_feed p e c a) as [r c1] eqn:F.
  pose proof (qinv_tls_feed _ _ _ _ _ _ _ _ I F) as I1.
  pose proof (inv_no_start _ _ _ _ (qinv_role _ _ _ I1)) as NS1.
  rewrite (tls_feed_nostart p e c a NS) in F. rewrite (tls_feed_nostart p e c (a ++ b) NS).
  unfold entry_check in *. rewrite (Zlen_eqb0 a Na) in F. rewrite (Zlen_eqb0 (a ++ b) Nab).
  destruct (p && negb (Zlen (q_rbuf c) =? 0) && negb false && negb (e =? q_rbuf_epoch c)).
  { inversion F; subst. split; reflexivity. }
  rewrite app_assoc.
  pose proof (tls_loop_app p e e (length (q_rbuf c ++ a)) c (q_rbuf c ++ a) b
                (S (length ((q_rbuf c ++ a) ++ b))) (S (length (q_rbuf c ++ a))) (S (length ((q_rbuf c ++ a) ++ b)))
                (le_n _) (bytes_ok_app _ _ Hc Ha) Hb (Nat.lt_succ_diag_r _) (Nat.lt_succ_diag_r _) (Nat.lt_succ_diag_r _)) as X.
  rewrite F in X.
  assert (Hbuf : bytes_ok (q_rbuf (set_rbuf c (q_rbuf c ++ a) e))) by (cbn [q_rbuf set_rbuf]; apply bytes_ok_app; assumption).
  destruct (tls_loop_after _ _ _ _ _ _ Hbuf F) as (Ep & Hb1 & Le). cbn [q_rbuf_epoch q_rbuf set_rbuf] in Ep, Le.
  destruct r.
  - rewrite X. rewrite (tls_feed_nostart p e c1 b NS1). unfold entry_check. rewrite Ep, Z.eqb_refl.
    rewrite (Zlen_eqb0 b Nb). cbn [negb]. rewrite !andb_false_r.
    apply (tls_loop_fuel p e (length (q_rbuf c1 ++ b))); cbn [q_rbuf set_rbuf]; try lia.
    + rewrite !app_length in *. lia.
    + apply bytes_ok_app; assumption.
  - rewrite X. split; reflexivity.
  - rewrite X. split; reflexivity.
Qed.

(* ================= Part 2: from CRYPTO frames to the TLS outcome ========================================== *)
From AQ Require Import model.RangeSet model.StreamSpec proofs.RangeSetP proofs.StreamRecvP proofs.TlsQuicStream.

(* what TLS processing reads and writes of the connection *)
Definition tlsproj (c : conn) :=
  (q_client c, q_cfg c, q_tls c, q_rbuf c, q_rbuf_epoch c, q_orcs c, q_log c).

Lemma tlsproj_eq : forall c c', tlsproj c = tlsproj c' ->
  q_client c = q_client c' /\ q_cfg c = q_cfg c' /\ q_tls c = q_tls c' /\ q_rbuf c = q_rbuf c' /\
  q_rbuf_epoch c = q_rbuf_epoch c' /\ q_orcs c = q_orcs c' /\ q_log c = q_log c'.
Proof. intros c c' H. unfold tlsproj in H. inversion H. repeat split; assumption. Qed.

Lemma tlsproj_install : forall c ks, tlsproj (install c ks) = tlsproj c.
Proof.
  intros c ks. destruct (install_fields ks c) as (F1 & F2 & F3 & F4 & _ & _ & F7 & F8 & F9 & _).
  unfold tlsproj. rewrite F1, F2, F3, F4, F7, F8, F9. reflexivity.
Qed.

Lemma tlsproj_forget : forall c c', tlsproj c = tlsproj c' -> tlsproj (forget c) = tlsproj (forget c').
Proof.
  intros c c' H. destruct (tlsproj_eq _ _ H) as (A1 & A2 & A3 & A4 & A5 & A6 & A7).
  unfold tlsproj, forget. cbn. rewrite A1, A2, A3, A6, A7. reflexivity.
Qed.

Lemma dispatch_one_cong : forall e c c' t rest, tlsproj c = tlsproj c' ->
  fst (dispatch_one e c t rest) = fst (dispatch_one e c' t rest) /\
  tlsproj (snd (dispatch_one e c t rest)) = tlsproj (snd (dispatch_one e c' t rest)).
Proof.
  intros e c c' t rest H. destruct (tlsproj_eq _ _ H) as (A1 & A2 & A3 & A4 & A5 & A6 & A7).
  unfold dispatch_one. rewrite <- A1, <- A2, <- A3, <- A5, <- A6, <- A7.
  destruct (step (q_cfg c) (q_tls c) _) as [[o s'] ks]. cbn [fst snd]. split; [reflexivity|].
  rewrite !tlsproj_install. reflexivity.
Qed.

Lemma tls_loop_cong : forall p e fuel c c', tlsproj c = tlsproj c' ->
  fst (tls_loop fuel p e c) = fst (tls_loop fuel p e c') /\
  tlsproj (snd (tls_loop fuel p e c)) = tlsproj (snd (tls_loop fuel p e c')).
Proof.
  intros p e fuel. induction fuel as [|fuel IH]; intros c c' H; cbn [tls_loop]; [split; [reflexivity|exact H]|].
  destruct (tlsproj_eq _ _ H) as (A1 & A2 & A3 & A4 & A5 & A6 & A7).
  rewrite <- A4, <- A3.
  destruct (q_rbuf c) as [|t [|l1 [|l2 [|l3 tl]]]]; try (split; [reflexivity|exact H]).
  destruct (_ >? MAX_HANDSHAKE_MESSAGE_SIZE); [split; [reflexivity|exact H]|].
  destruct (_ <? _); [split; [reflexivity|exact H]|].
  destruct (p && _); [split; [reflexivity|exact H]|].
  destruct (dispatch_one_cong e c c' t (zdrop (4 + (l1 * 65536 + l2 * 256 + l3)) (t :: l1 :: l2 :: l3 :: tl)) H) as [D1 D2].
  destruct (dispatch_one e c t _) as [o c1]. destruct (dispatch_one e c' t _) as [o' c1']. cbn [fst snd] in D1, D2. subst o'.
  destruct o; [apply IH, D2| |]; split; [reflexivity|exact D2|reflexivity|exact D2].
Qed.

Lemma tls_feed_cong : forall p e c c' d, tlsproj c = tlsproj c' ->
  fst (tls_feed p e c d) = fst (tls_feed p e c' d) /\
  tlsproj (snd (tls_feed p e c d)) = tlsproj (snd (tls_feed p e c' d)).
Proof.
  intros p e c c' d H. destruct (tlsproj_eq _ _ H) as (A1 & A2 & A3 & A4 & A5 & A6 & A7).
  unfold tls_feed. rewrite <- A3, <- A4, <- A5, <- A2.
  assert (L : forall b x, fst (tls_loop (S (length b)) p e (set_rbuf c b x)) = fst (tls_loop (S (length b)) p e (set_rbuf c' b x)) /\
              tlsproj (snd (tls_loop (S (length b)) p e (set_rbuf c b x))) = tlsproj (snd (tls_loop (S (length b)) p e (set_rbuf c' b x)))).
  { intros b x. apply tls_loop_cong. unfold tlsproj. cbn. rewrite A1, A2, A3, A6, A7. reflexivity. }
  destruct (s_state (q_tls c));
    try (destruct (p && _ && _ && _); [split; [reflexivity|exact H]|apply L]).
  destruct (client_send_hello (q_cfg c) (q_tls c)) as [[o s'] ks]. cbn [fst snd]. split; [reflexivity|].
  rewrite !tlsproj_install. unfold tlsproj. cbn. rewrite A1, A6, A7. reflexivity.
Qed.

(* TLS processing does not touch the CRYPTO streams *)
Lemma dispatch_one_streams : forall e c t rest, let c1 := snd (dispatch_one e c t rest) in
  q_si c1 = q_si c /\ q_sh c1 = q_sh c /\ q_sa c1 = q_sa c.
Proof.
  intros e c t rest. unfold dispatch_one. destruct (step (q_cfg c) (q_tls c) _) as [[o s'] ks]. cbn [snd].
  match goal with |- context [install ?x ks] => destruct (install_fields ks x) as (_ & _ & _ & _ & _ & _ & _ & _ & _ & F10 & F11 & F12 & _) end.
  rewrite F10, F11, F12. repeat split; reflexivity.
Qed.

Lemma tls_loop_streams : forall p e fuel c, let c1 := snd (tls_loop fuel p e c) in
  q_si c1 = q_si c /\ q_sh c1 = q_sh c /\ q_sa c1 = q_sa c.
Proof.
  intros p e fuel. induction fuel as [|fuel IH]; intros c; cbn [tls_loop]; [repeat split|].
  destruct (q_rbuf c) as [|t [|l1 [|l2 [|l3 tl]]]]; try (repeat split; reflexivity).
  destruct (_ >? MAX_HANDSHAKE_MESSAGE_SIZE); [repeat split|].
  destruct (_ <? _); [repeat split|].
  destruct (p && _); [repeat split|].
  pose proof (dispatch_one_streams e c t (zdrop (4 + (l1 * 65536 + l2 * 256 + l3)) (t :: l1 :: l2 :: l3 :: tl))) as D.
  destruct (dispatch_one e c t _) as [o c1]. cbn [snd] in D. destruct D as (D1 & D2 & D3).
  destruct o; [|cbn [snd]; repeat split; assumption|cbn [snd]; repeat split; assumption].
  destruct (IH c1) as (E1 & E2 & E3). rewrite E1, E2, E3. repeat split; assumption.
Qed.

Lemma tls_feed_streams : forall p e c d e', stream_of (snd (tls_feed p e c d)) e' = stream_of c e'.
Proof.
  intros p e c d e'. unfold tls_feed.
  assert (L : forall b x, stream_of (snd (tls_loop (S (length b)) p e (set_rbuf c b x))) e' = stream_of c e').
  { intros b x. destruct (tls_loop_streams p e (S (length b)) (set_rbuf c b x)) as (E1 & E2 & E3).
    unfold stream_of. rewrite E1, E2, E3. reflexivity. }
  destruct (s_state (q_tls c)); try (destruct (p && _ && _ && _); [reflexivity|apply L]).
  destruct (client_send_hello (q_cfg c) (q_tls c)) as [[o s'] ks]. cbn [snd].
  match goal with |- context [install ?x ks] => destruct (install_fields ks x) as (_ & _ & _ & _ & _ & _ & _ & _ & _ & F10 & F11 & F12 & _) end.
  unfold stream_of. rewrite F10, F11, F12. reflexivity.
Qed.

Lemma complete_check_proj : forall c, tlsproj (complete_check c) = tlsproj c /\ forall e, stream_of (complete_check c) e = stream_of c e.
Proof. intros c. unfold complete_check. destruct (_ && _); [|split; reflexivity]. destruct (q_client c); split; reflexivity. Qed.

Lemma stream_of_set_stream : forall c e r, stream_of (set_stream c e r) e = r.
Proof. intros c e r. unfold stream_of, set_stream. cbn. destruct (e =? EP_INITIAL); [reflexivity|]. destruct (e =? EP_HANDSHAKE); reflexivity. Qed.

Lemma bytes_ok_ztake : forall n l, bytes_ok l -> bytes_ok (ztake n l).
Proof.
  intros n l. unfold ztake, bytes_ok. generalize (Z.to_nat n) as k. intros k. revert l.
  induction k as [|k IH]; intros l H; [constructor|]. destruct l as [|a l]; [constructor|]. cbn. inversion H; subst. constructor; [assumption|apply IH; assumption].
Qed.

Definition flat (base : Z) : recv := mkRecv base false [] base None [].

Lemma inv_flat : forall base, Inv true (flat base) (mkRSpec (fun _ => None) base None base false).
Proof. intros base. constructor; cbn; try tauto; try reflexivity; try lia. Qed.

Definition fres_of (r : tres) : fres :=
  match r with TOk => FOk | TAlert a => FClose (QEC_CRYPTO_ERROR + a) | TExn k => FExn k end.

(* the bytes delivered so far have been digested like one piece *)
Definition J (p : bool) (e : Z) (c0 c : conn) (acc : list Z) : Prop :=
  (acc = [] /\ tlsproj c = tlsproj c0) \/
  (acc <> [] /\ fst (tls_feed p e c0 acc) = TOk /\ tlsproj c = tlsproj (snd (tls_feed p e c0 acc))).

Definition covers (o : Z) (f : Z * list Z) : Prop := fst f <= o < fst f + Zlen (snd f).

Lemma frag_main : forall cl cfg0 p e B base c0,
  QInv cl cfg0 c0 -> bytes_ok (q_rbuf c0) -> bytes_ok B -> B <> [] -> 0 <= base ->
  base + Zlen B <= UINT_VAR_MAX -> Zlen B <= MAX_PENDING_CRYPTO ->
  forall fs c sp acc seen,
    Inv true (stream_of c e) sp -> SP B base seen sp acc ->
    Forall (fun f => slice_of B base (fst f) (snd f)) fs ->
    (forall o, base <= o < base + Zlen B -> seen o \/ Exists (covers o) fs) ->
    J p e c0 c acc ->
    let W := tls_feed p e c0 B in
    let R := frames_loop p e c fs in
    fst R = fres_of (fst W) /\
    tlsproj (match fst R with FOk => snd R | _ => forget (snd R) end) =
    tlsproj (match fst W with TOk => snd W | _ => forget (snd W) end).
Proof.
  intros cl cfg0 p e B base c0 I0 Hb0 HB NB Hbase Hmax Hpend.
  induction fs as [|[off d] fs IH]; intros c sp acc seen IV S Hsl Hcov HJ W R.
  - (* no frame left: everything has been covered *)
    assert (C : forall o, base <= o < base + Zlen B -> seen o).
    { intros o Ho. destruct (Hcov o Ho) as [X|X]; [exact X|inversion X]. }
    destruct (sp_complete _ _ _ _ _ S C) as [EA _]. subst acc.
    destruct HJ as [[X _]|(_ & J1 & J2)]; [contradiction|].
    unfold R, W. cbn [frames_loop fst snd]. rewrite J1. cbn [fres_of]. split; [reflexivity|exact J2].
  - inversion Hsl as [|? ? Hs Hsl']; subst. cbn [fst snd] in Hs.
    pose proof Hs as (Hs1 & Hs2 & Hs3).
    pose proof (frame_refines true _ _ off d false IV) as FR.
    pose proof (sp_step _ _ _ _ _ off d S Hs) as ST.
    unfold R. cbn [frames_loop]. unfold crypto_frame.
    pose proof (Zlen_nonneg d) as Dn.
    replace (off + Zlen d >? UINT_VAR_MAX) with false by lia.
    pose proof (i_start _ _ _ IV) as Est. pose proof (sp_range _ _ _ _ _ S) as Rg.
    replace (off + Zlen d - r_start (stream_of c e) >? MAX_PENDING_CRYPTO) with false by lia.
    destruct (handle_frame (stream_of c e) off d false) as [o r'].
    destruct (spec_frame sp off d false) as [o' sp'].
    destruct FR as (_ & Feq & IV'). specialize (Feq eq_refl). subst o'.
    destruct ST as (S' & Shape).
    set (cs := set_stream c e r').
    assert (Pcs : tlsproj cs = tlsproj c) by reflexivity.
    assert (Scs : stream_of cs e = r') by apply stream_of_set_stream.
    assert (Hcov' : forall o0, base <= o0 < base + Zlen B ->
               (seen o0 \/ off <= o0 < off + Zlen d) \/ Exists (covers o0) fs).
    { intros o0 Ho. destruct (Hcov o0 Ho) as [X|X]; [left; left; exact X|].
      apply Exists_cons in X. destruct X as [X|X]; [left; right; exact X|right; exact X]. }
    destruct Shape as [->|(dd & -> & Ndd)].
    + (* nothing new *)
      cbn [bytes_of] in S'. rewrite app_nil_r in S'.
      apply (IH cs sp' acc (fun x => seen x \/ off <= x < off + Zlen d));
        [rewrite Scs; exact IV' | exact S' | exact Hsl' | exact Hcov' | ].
      destruct HJ as [[X Y]|(X & Y & Z)]; [left; split; [exact X|rewrite Pcs; exact Y]|right; split; [exact X|split; [exact Y|rewrite Pcs; exact Z]]].
    + (* a new chunk for TLS *)
      cbn [bytes_of] in S'.
      set (acc' := acc ++ dd) in *.
      assert (Nacc' : acc' <> []) by (unfold acc'; destruct acc; [exact Ndd|discriminate]).
      pose proof (sp_acc _ _ _ _ _ S) as Eacc. pose proof (sp_acc _ _ _ _ _ S') as Eacc'.
      assert (Bacc : bytes_ok acc) by (rewrite Eacc; apply bytes_ok_ztake, HB).
      assert (Bacc' : bytes_ok acc') by (rewrite Eacc'; apply bytes_ok_ztake, HB).
      assert (Bdd : bytes_ok dd).
      { unfold acc' in Bacc'. unfold bytes_ok in *. apply Forall_app in Bacc'. apply Bacc'. }
      (* feeding dd here = feeding acc' to the connection we started from *)
      assert (K : fst (tls_feed p e cs dd) = fst (tls_feed p e c0 acc') /\
                  tlsproj (snd (tls_feed p e cs dd)) = tlsproj (snd (tls_feed p e c0 acc'))).
      { destruct HJ as [[X Y]|(X & Y & Z)].
        - unfold acc'. rewrite X. cbn [app]. apply tls_feed_cong. rewrite Pcs. exact Y.
        - pose proof (tls_feed_app cl cfg0 p e c0 acc dd I0 Hb0 Bacc Bdd X Ndd) as TA.
          destruct (tls_feed p e c0 acc) as [r0 cm]. cbn [fst snd] in Y, Z. subst r0.
          fold acc' in TA. rewrite TA. apply tls_feed_cong. rewrite Pcs. exact Z. }
      destruct K as [K1 K2].
      destruct (tls_feed p e cs dd) as [tr c2] eqn:TF. cbn [fst snd] in K1, K2.
      pose proof (tls_feed_streams p e cs dd e) as SS. rewrite TF in SS. cbn [snd] in SS.
      destruct tr.
      * (* accepted: go on *)
        destruct (complete_check_proj c2) as [CP1 CP2].
        apply (IH (complete_check c2) sp' acc' (fun x => seen x \/ off <= x < off + Zlen d));
          [rewrite CP2, SS, Scs; exact IV' | exact S' | exact Hsl' | exact Hcov' | ].
        right. split; [exact Nacc'|]. split; [symmetry; exact K1|rewrite CP1; exact K2].
      * (* refused: the whole of B is refused the same way *)
        cbn [fst snd]. pose proof (sp_prefix _ _ _ _ _ S') as PB. fold acc' in PB.
        set (Y := zdrop (sp_del sp' - base) B) in *.
        destruct Y as [|y Y'] eqn:EY.
        -- rewrite app_nil_r in PB. unfold W. rewrite PB, <- K1. cbn [fres_of]. split; [reflexivity|].
           apply tlsproj_forget. exact K2.
        -- assert (BY : bytes_ok (y :: Y')) by (rewrite <- EY; apply bytes_ok_zdrop, HB).
           pose proof (tls_feed_app cl cfg0 p e c0 acc' (y :: Y') I0 Hb0 Bacc' BY Nacc' ltac:(discriminate)) as TA.
           destruct (tls_feed p e c0 acc') as [r0 cx]. cbn [fst snd] in K1, K2. subst r0.
           destruct TA as [T1 T2]. unfold W. rewrite PB, T1. cbn [fres_of]. split; [reflexivity|].
           unfold forget in T2 |- *.
           transitivity (tlsproj (set_rbuf cx [] 0)); [apply (tlsproj_forget _ _ K2)|].
           unfold forget in T2. rewrite <- T2. reflexivity.
      * cbn [fst snd]. pose proof (sp_prefix _ _ _ _ _ S') as PB. fold acc' in PB.
        set (Y := zdrop (sp_del sp' - base) B) in *.
        destruct Y as [|y Y'] eqn:EY.
        -- rewrite app_nil_r in PB. unfold W. rewrite PB, <- K1. cbn [fres_of]. split; [reflexivity|].
           apply tlsproj_forget. exact K2.
        -- assert (BY : bytes_ok (y :: Y')) by (rewrite <- EY; apply bytes_ok_zdrop, HB).
           pose proof (tls_feed_app cl cfg0 p e c0 acc' (y :: Y') I0 Hb0 Bacc' BY Nacc' ltac:(discriminate)) as TA.
           destruct (tls_feed p e c0 acc') as [r0 cx]. cbn [fst snd] in K1, K2. subst r0.
           destruct TA as [T1 T2]. unfold W. rewrite PB, T1. cbn [fres_of]. split; [reflexivity|].
           transitivity (tlsproj (set_rbuf cx [] 0)); [apply (tlsproj_forget _ _ K2)|].
           unfold forget in T2. rewrite <- T2. reflexivity.
Qed.

(* result of a frame sequence as TLS sees it: the verdict, and what TLS processing reads and writes of the connection
   (Context.state, every dispatched message with its outcome and key callbacks, the oracle records consumed, pending
   output; the receive buffer only when the frames were accepted -- after a refusal the connection is closing and the
   unprocessed tail differs by construction) *)
Definition fview (x : fres * conn) :=
  (fst x, tlsproj (match fst x with FOk => snd x | _ => forget (snd x) end)).

Lemma slice_whole : forall B base, slice_of B base base B.
Proof.
  intros B base. unfold slice_of. split; [lia|]. split; [lia|].
  rewrite Z.sub_diag, zdrop_0 by lia. symmetry. apply ztake_all. lia.
Qed.

Lemma fragmentation_independent_lemma : forall patched cl cfg0 orcs ops e base B fs,
  let c := run_conn patched (conn_init cl cfg0 orcs) ops in
  bytes_ok (q_rbuf c) -> stream_of c e = flat base -> 0 <= base ->
  bytes_ok B -> B <> [] -> base + Zlen B <= UINT_VAR_MAX -> Zlen B <= MAX_PENDING_CRYPTO ->
  Forall (fun f => slice_of B base (fst f) (snd f)) fs ->
  (forall o, base <= o < base + Zlen B -> Exists (covers o) fs) ->
  fview (frames_loop patched e c fs) = fview (frames_loop patched e c [(base, B)]).
Proof.
  intros patched cl cfg0 orcs ops e base B fs c Hc Hst Hbase HB NB Hmax Hpend Hsl Hcov.
  pose proof (qinv_run_conn cl cfg0 patched ops _ (qinv_init cl cfg0 orcs)) as I. fold c in I.
  assert (IV : Inv true (stream_of c e) (mkRSpec (fun _ => None) base None base false)) by (rewrite Hst; apply inv_flat).
  assert (J0 : J patched e c c []) by (left; split; reflexivity).
  pose proof (frag_main cl cfg0 patched e B base c I Hc HB NB Hbase Hmax Hpend fs c _ [] _ IV (sp_init B base) Hsl
                (fun o Ho => or_intror (Hcov o Ho)) J0) as [A1 A2].
  assert (Hsl1 : Forall (fun f => slice_of B base (fst f) (snd f)) [(base, B)]) by (constructor; [apply slice_whole|constructor]).
  assert (Hcov1 : forall o, base <= o < base + Zlen B -> False \/ Exists (covers o) [(base, B)]).
  { intros o Ho. right. constructor. exact Ho. }
  pose proof (frag_main cl cfg0 patched e B base c I Hc HB NB Hbase Hmax Hpend [(base, B)] c _ [] _ IV (sp_init B base) Hsl1
                Hcov1 J0) as [B1 B2].
  unfold fview. rewrite A2, B2, A1, B1. reflexivity.
Qed.

(* the premises are satisfiable; a ServerHello header cut into three frames that arrive out of order, one of them twice *)
Example fragmentation_example :
  let c := conn_init true (mkCfg false false true false) [mkMsg 2 0 0 false true false true true true true 0 true] in
  let fs := [(2, [0; 0]); (2, [0; 0]); (0, [2]); (1, [0; 0])] in
  bytes_ok (q_rbuf c) /\ stream_of c EP_INITIAL = flat 0 /\
  Forall (fun f => slice_of [2; 0; 0; 0] 0 (fst f) (snd f)) fs /\
  fst (frames_loop false EP_INITIAL c fs) = FOk /\
  s_state (q_tls (snd (frames_loop false EP_INITIAL c fs))) = CLIENT_EXPECT_ENCRYPTED_EXTENSIONS.
Proof.
  cbv zeta. split; [constructor|]. split; [reflexivity|]. split.
  - repeat constructor; unfold slice_of; cbn; repeat split; try lia; reflexivity.
  - split; vm_compute; reflexivity.
Qed.

(* ================= Part 3: the same bytes cut over several PACKETS (client, Handshake packets) ================ *)

(* connections that neither TLS processing nor the CRYPTO stream receivers can tell apart *)
Definition teq (c c' : conn) : Prop :=
  tlsproj c = tlsproj c' /\ q_si c = q_si c' /\ q_sh c = q_sh c' /\ q_sa c = q_sa c'.

Lemma teq_refl : forall c, teq c c. Proof. intros c. repeat split. Qed.
Lemma teq_trans : forall a b c, teq a b -> teq b c -> teq a c.
Proof. intros a b c (A1 & A2 & A3 & A4) (B1 & B2 & B3 & B4). repeat split; congruence. Qed.
Lemma teq_sym : forall a b, teq a b -> teq b a.
Proof. intros a b (A1 & A2 & A3 & A4). repeat split; congruence. Qed.

Lemma teq_stream_of : forall c c' e, teq c c' -> stream_of c e = stream_of c' e.
Proof. intros c c' e (_ & A & B & C). unfold stream_of. rewrite A, B, C. reflexivity. Qed.

Lemma teq_set_stream : forall c c' e r, teq c c' -> teq (set_stream c e r) (set_stream c' e r).
Proof.
  intros c c' e r (T & A & B & C). destruct (tlsproj_eq _ _ T) as (A1 & A2 & A3 & A4 & A5 & A6 & A7).
  unfold teq, tlsproj, set_stream. cbn. rewrite A1, A2, A3, A4, A5, A6, A7, A, B, C. repeat split.
Qed.

Lemma tls_feed_teq : forall p e c c' d, teq c c' ->
  fst (tls_feed p e c d) = fst (tls_feed p e c' d) /\ teq (snd (tls_feed p e c d)) (snd (tls_feed p e c' d)).
Proof.
  intros p e c c' d T. destruct (tls_feed_cong p e c c' d (proj1 T)) as [F1 F2]. split; [exact F1|].
  pose proof (tls_feed_streams p e c d) as S1. pose proof (tls_feed_streams p e c' d) as S2.
  destruct T as (_ & A & B & C).
  split; [exact F2|].
  pose proof (S1 EP_INITIAL) as I1. pose proof (S2 EP_INITIAL) as I2.
  pose proof (S1 EP_HANDSHAKE) as H1. pose proof (S2 EP_HANDSHAKE) as H2.
  pose proof (S1 EP_ONE_RTT) as O1. pose proof (S2 EP_ONE_RTT) as O2.
  unfold stream_of in *. cbn in I1, I2, H1, H2, O1, O2. repeat split; congruence.
Qed.

Lemma complete_check_teq : forall c, teq (complete_check c) c.
Proof. intros c. unfold complete_check. destruct (_ && _); [|apply teq_refl]. destruct (q_client c); repeat split. Qed.

Lemma crypto_frame_teq : forall p e c c' off d, teq c c' ->
  fst (crypto_frame p e c off d) = fst (crypto_frame p e c' off d) /\
  teq (snd (crypto_frame p e c off d)) (snd (crypto_frame p e c' off d)).
Proof.
  intros p e c c' off d T. unfold crypto_frame. rewrite <- (teq_stream_of c c' e T).
  destruct (_ >? UINT_VAR_MAX); [split; [reflexivity|exact T]|].
  destruct (_ >? MAX_PENDING_CRYPTO); [split; [reflexivity|exact T]|].
  destruct (handle_frame (stream_of c e) off d false) as [o r'].
  pose proof (teq_set_stream c c' e r' T) as T1.
  destruct o; try (split; [reflexivity|exact T1]).
  destruct (tls_feed_teq p e _ _ data T1) as [F1 F2].
  destruct (tls_feed p e (set_stream c e r') data) as [tr c2]. destruct (tls_feed p e (set_stream c' e r') data) as [tr' c2'].
  cbn [fst snd] in F1, F2. subst tr'.
  destruct tr; cbn [fst snd]; (split; [reflexivity|]); try exact F2.
  eapply teq_trans; [apply complete_check_teq|]. eapply teq_trans; [exact F2|]. apply teq_sym, complete_check_teq.
Qed.

Lemma frames_loop_teq : forall p e fs c c', teq c c' ->
  fst (frames_loop p e c fs) = fst (frames_loop p e c' fs) /\ teq (snd (frames_loop p e c fs)) (snd (frames_loop p e c' fs)).
Proof.
  intros p e fs. induction fs as [|[off d] fs IH]; intros c c' T; cbn [frames_loop]; [split; [reflexivity|exact T]|].
  destruct (crypto_frame_teq p e c c' off d T) as [F1 F2].
  destruct (crypto_frame p e c off d) as [x c1]. destruct (crypto_frame p e c' off d) as [x' c1']. cbn [fst snd] in F1, F2. subst x'.
  destruct x; [apply IH, F2| |]; split; [reflexivity|exact F2|reflexivity|exact F2].
Qed.

Lemma frames_loop_app : forall p e a b c,
  frames_loop p e c (a ++ b) = match frames_loop p e c a with (FOk, c1) => frames_loop p e c1 b | x => x end.
Proof.
  intros p e a. induction a as [|[off d] a IH]; intros b c; cbn [app frames_loop]; [reflexivity|].
  destruct (crypto_frame p e c off d) as [x c1]. destruct x; [apply IH|reflexivity|reflexivity].
Qed.

(* what CRYPTO processing never takes away: the close state, the role, a client's Handshake receive key *)
Definition keeps (c c1 : conn) : Prop :=
  q_closed c1 = q_closed c /\ q_client c1 = q_client c /\
  (q_client c = true -> kget (q_rk c) EP_HANDSHAKE = true -> kget (q_rk c1) EP_HANDSHAKE = true).
Lemma keeps_refl : forall c, keeps c c. Proof. intros c. repeat split; auto. Qed.
Lemma keeps_trans : forall a b c, keeps a b -> keeps b c -> keeps a c.
Proof.
  intros a b c (A1 & A2 & A3) (B1 & B2 & B3). split; [congruence|]. split; [congruence|].
  intros H K. apply B3; [congruence|]. apply A3; assumption.
Qed.

Lemma kget_kset_true : forall k e e', kget k e' = true -> kget (kset k e true) e' = true.
Proof.
  intros k e e'. unfold kget, kset, EP_INITIAL, EP_ZERO_RTT, EP_HANDSHAKE, EP_ONE_RTT.
  repeat match goal with |- context [?a =? ?b] => destruct (Z.eqb_spec a b) end;
    cbn [k_i k_z k_h k_a]; intros H; subst; first [exact H | reflexivity | exfalso; lia | discriminate].
Qed.

Lemma install_keeps : forall ks c, keeps c (install c ks).
Proof.
  induction ks as [|[d e] ks IH]; intros c; [apply keeps_refl|].
  unfold install in *. cbn [fold_left]. eapply keeps_trans; [|apply IH].
  unfold install1. destruct (d =? DIR_ENCRYPT); (split; [reflexivity|split; [reflexivity|]]); intros _ K; cbn [q_rk set_keys]; [exact K|apply kget_kset_true, K].
Qed.

Lemma dispatch_one_keeps : forall e c t rest, keeps c (snd (dispatch_one e c t rest)).
Proof.
  intros e c t rest. unfold dispatch_one. destruct (step (q_cfg c) (q_tls c) _) as [[o s'] ks]. cbn [snd].
  eapply keeps_trans; [|apply install_keeps]. repeat split; auto.
Qed.

Lemma tls_loop_keeps : forall p e fuel c, keeps c (snd (tls_loop fuel p e c)).
Proof.
  intros p e fuel. induction fuel as [|fuel IH]; intros c; cbn [tls_loop]; [apply keeps_refl|].
  destruct (q_rbuf c) as [|t [|l1 [|l2 [|l3 tl]]]]; try apply keeps_refl.
  destruct (_ >? MAX_HANDSHAKE_MESSAGE_SIZE); [apply keeps_refl|].
  destruct (_ <? _); [apply keeps_refl|].
  destruct (p && _); [apply keeps_refl|].
  pose proof (dispatch_one_keeps e c t (zdrop (4 + (l1 * 65536 + l2 * 256 + l3)) (t :: l1 :: l2 :: l3 :: tl))) as D.
  destruct (dispatch_one e c t _) as [o c1]. cbn [snd] in D.
  destruct o; cbn [snd]; [eapply keeps_trans; [exact D|apply IH]|exact D|exact D].
Qed.

Lemma tls_feed_keeps : forall p e c d, keeps c (snd (tls_feed p e c d)).
Proof.
  intros p e c d. unfold tls_feed.
  assert (L : forall b x, keeps c (snd (tls_loop (S (length b)) p e (set_rbuf c b x)))).
  { intros b x. eapply keeps_trans; [|apply tls_loop_keeps]. repeat split; auto. }
  destruct (s_state (q_tls c)); try (destruct (p && _ && _ && _); [apply keeps_refl|apply L]).
  destruct (client_send_hello (q_cfg c) (q_tls c)) as [[o s'] ks]. cbn [snd].
  eapply keeps_trans; [|apply install_keeps]. repeat split; auto.
Qed.

Lemma complete_check_keeps : forall c, keeps c (complete_check c).
Proof.
  intros c. unfold complete_check. destruct (_ && _); [|apply keeps_refl].
  destruct (q_client c) eqn:E; (split; [reflexivity|split; [reflexivity|]]); intros H K; cbn; [exact K|congruence].
Qed.

Lemma crypto_frame_keeps : forall p e c off d, keeps c (snd (crypto_frame p e c off d)).
Proof.
  intros p e c off d. unfold crypto_frame.
  destruct (_ >? UINT_VAR_MAX); [apply keeps_refl|].
  destruct (_ >? MAX_PENDING_CRYPTO); [apply keeps_refl|].
  destruct (handle_frame (stream_of c e) off d false) as [o r'].
  assert (K0 : keeps c (set_stream c e r')) by (repeat split; auto).
  destruct o; try exact K0.
  pose proof (tls_feed_keeps p e (set_stream c e r') data) as K1.
  destruct (tls_feed p e (set_stream c e r') data) as [tr c2]. cbn [snd] in K1.
  destruct tr; cbn [snd]; try (eapply keeps_trans; [exact K0|exact K1]).
  eapply keeps_trans; [exact K0|]. eapply keeps_trans; [exact K1|apply complete_check_keeps].
Qed.

Lemma frames_loop_keeps : forall p e fs c, keeps c (snd (frames_loop p e c fs)).
Proof.
  intros p e fs. induction fs as [|[off d] fs IH]; intros c; cbn [frames_loop]; [apply keeps_refl|].
  pose proof (crypto_frame_keeps p e c off d) as K.
  destruct (crypto_frame p e c off d) as [x c1]. cbn [snd] in K.
  destruct x; cbn [snd]; [eapply keeps_trans; [exact K|apply IH]|exact K|exact K].
Qed.

(* a client receiving Handshake packets: packet after packet = all their frames in one packet *)
Lemma packets_flatten : forall p pkts c c',
  teq c c' -> q_client c = true -> q_closed c = None -> kget (q_rk c) EP_HANDSHAKE = true ->
  Forall (fun f : list (Z * list Z) => f <> []) pkts ->
  let R := frames_loop p EP_HANDSHAKE c' (concat pkts) in
  let cf := run_conn p c (map (fun f => (PT_HANDSHAKE, f)) pkts) in
  match fst R with
  | FOk => q_closed cf = None /\ teq cf (snd R)
  | FClose code => q_closed cf = Some code /\ teq cf (snd R)
  | FExn _ => True
  end.
Proof.
  intros p pkts. induction pkts as [|f pkts IH]; intros c c' T Hcl Hclosed Hk Hne R cf.
  - unfold R, cf. cbn. split; [exact Hclosed|exact T].
  - inversion Hne as [|? ? Nf Hne']; subst.
    unfold R, cf. cbn [concat map run_conn]. rewrite frames_loop_app.
    destruct (frames_loop_teq p EP_HANDSHAKE f c c' T) as [F1 F2].
    pose proof (frames_loop_keeps p EP_HANDSHAKE f c) as (K1 & K2 & K3).
    unfold receive_packet. rewrite Hclosed.
    change (lookup_epoch PT_HANDSHAKE get_epoch_table) with (Some EP_HANDSHAKE). cbv beta iota.
    rewrite Hk, Hcl. cbn [negb andb].
    destruct f as [|f0 fr]; [contradiction|].
    change (negb (zin EP_HANDSHAKE crypto_frame_epochs)) with false. cbv beta iota.
    destruct (frames_loop p EP_HANDSHAKE c (f0 :: fr)) as [x c1].
    destruct (frames_loop p EP_HANDSHAKE c' (f0 :: fr)) as [x' c1']. cbn [fst snd] in F1, F2, K1, K2, K3. subst x'.
    destruct x; cbn [snd fst].
    + (* processed: next packet *)
      set (c2 := transmit (set_flags c1 (q_complete c1) (q_hs_ack c1 || (EP_HANDSHAKE =? EP_HANDSHAKE)) (q_hs_out c1))).
      assert (T2 : teq c2 c1) by (unfold c2, transmit; destruct (_ && _ && _); repeat split).
      assert (Cl2 : q_client c2 = true) by (unfold c2, transmit; destruct (_ && _ && _); cbn; congruence).
      assert (Cd2 : q_closed c2 = None) by (unfold c2, transmit; destruct (_ && _ && _); cbn; congruence).
      assert (Kk2 : kget (q_rk c2) EP_HANDSHAKE = true).
      { specialize (K3 Hcl Hk). unfold c2, transmit. destruct (_ && _ && _); cbn; exact K3. }
      exact (IH c2 c1' (teq_trans _ _ _ T2 F2) Cl2 Cd2 Kk2 Hne').
    + (* closed: the remaining packets are ignored *)
      assert (Ign : forall l c3, q_closed c3 <> None -> run_conn p c3 l = c3).
      { induction l as [|[pt fr'] l IHl]; intros c3 N; [reflexivity|]. cbn [run_conn]. unfold receive_packet.
        destruct (q_closed c3) eqn:Q; [cbn [snd]; apply IHl; rewrite Q; discriminate|contradiction]. }
      rewrite Ign by (unfold close_with; destruct (_ && _); cbn; discriminate).
      split; [unfold close_with; destruct (_ && _); reflexivity|].
      eapply teq_trans; [|exact F2]. unfold close_with. destruct (_ && _); repeat split.
    + exact I.
Qed.

Lemma fragmentation_independent_packets_lemma : forall patched cfg0 orcs ops base B pkts,
  let c := run_conn patched (conn_init true cfg0 orcs) ops in
  q_closed c = None -> kget (q_rk c) EP_HANDSHAKE = true ->
  bytes_ok (q_rbuf c) -> stream_of c EP_HANDSHAKE = flat base -> 0 <= base ->
  bytes_ok B -> B <> [] -> base + Zlen B <= UINT_VAR_MAX -> Zlen B <= MAX_PENDING_CRYPTO ->
  Forall (fun f : list (Z * list Z) => f <> []) pkts ->
  Forall (fun f => slice_of B base (fst f) (snd f)) (concat pkts) ->
  (forall o, base <= o < base + Zlen B -> Exists (covers o) (concat pkts)) ->
  let W := frames_loop patched EP_HANDSHAKE c [(base, B)] in
  let cf := run_conn patched c (map (fun f => (PT_HANDSHAKE, f)) pkts) in
  match fst W with
  | FOk => q_closed cf = None /\ tlsproj cf = tlsproj (snd W)
  | FClose code => q_closed cf = Some code /\ tlsproj (forget cf) = tlsproj (forget (snd W))
  | FExn _ => True
  end.
Proof.
  intros patched cfg0 orcs ops base B pkts c Hclosed Hk Hc Hst Hbase HB NB Hmax Hpend Hne Hsl Hcov.
  pose proof (qinv_run_conn true cfg0 patched ops _ (qinv_init true cfg0 orcs)) as I. fold c in I.
  pose proof (fragmentation_independent_lemma patched true cfg0 orcs ops EP_HANDSHAKE base B (concat pkts)
                Hc Hst Hbase HB NB Hmax Hpend Hsl Hcov) as FI. fold c in FI.
  pose proof (packets_flatten patched pkts c c (teq_refl c) (qi_cl _ _ _ I) Hclosed Hk Hne) as PF.
  cbv zeta in PF |- *. unfold fview in FI.
  remember (frames_loop patched EP_HANDSHAKE c (concat pkts)) as R eqn:ER.
  remember (frames_loop patched EP_HANDSHAKE c [(base, B)]) as W eqn:EW.
  destruct R as [r cr]. destruct W as [w cw]. cbn [fst snd] in *.
  pose proof (f_equal fst FI) as E1. pose proof (f_equal snd FI) as E2. cbn [fst snd] in E1, E2. subst w.
  destruct r.
  - destruct PF as [P1 P2]. split; [exact P1|]. rewrite <- E2. exact (proj1 P2).
  - destruct PF as [P1 P2]. split; [exact P1|]. rewrite <- E2. apply tlsproj_forget. exact (proj1 P2).
  - exact Logic.I.
Qed.
