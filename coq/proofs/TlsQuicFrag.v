(* C11, connection level: the TLS outcome does not depend on how the CRYPTO stream bytes are cut into frames.
   Part 1 (this file, first half): tls.Context.handle_message fed chunk by chunk = fed the concatenation at once. *)
From Coq Require Import ZArith List Bool Lia.
From AQ Require Import lib.Base model.StreamRecv gen.TlsDispatch model.TlsSM gen.TlsQuicGen model.TlsQuic.
From AQ Require Import proofs.ListZ proofs.TlsQuicP.

Definition bytes_ok (l : list Z) : Prop := Forall (fun b => 0 <= b < 256) l.

Lemma bytes_ok_app : forall a b, bytes_ok a -> bytes_ok b -> bytes_ok (a ++ b).
Proof. intros. apply Forall_app. split; assumption. Qed.

Lemma bytes_ok_zdrop : forall n l, bytes_ok l -> bytes_ok (zdrop n l).
Proof.
  intros n l. unfold zdrop, bytes_ok. generalize (Z.to_nat n) as k. intros k. revert l.
  induction k as [|k IH]; intros l H; [exact H|]. destruct l as [|a l]; [exact H|]. cbn. apply IH. inversion H; assumption.
Qed.

Lemma zdrop_app_le : forall {A} n (l b : list A), 0 <= n <= Zlen l -> zdrop n (l ++ b) = zdrop n l ++ b.
Proof.
  intros A n l b H. unfold zdrop, Zlen in *. rewrite skipn_app.
  replace (Z.to_nat n - length l)%nat with O by lia. reflexivity.
Qed.

Lemma length_zdrop_lt : forall {A} n (l : list A), 4 <= n <= Zlen l -> (length (zdrop n l) + 4 <= length l)%nat.
Proof. intros A n l H. unfold zdrop, Zlen in *. rewrite skipn_length. lia. Qed.

Lemma install_set_rbuf : forall ks c b x, install (set_rbuf c b x) ks = set_rbuf (install c ks) b x.
Proof.
  induction ks as [|[d e] ks IH]; intros c b x; [reflexivity|].
  unfold install in *. cbn [fold_left]. rewrite <- IH. f_equal.
  unfold install1. destruct (d =? DIR_ENCRYPT); reflexivity.
Qed.

Lemma dispatch_one_rest : forall e c t r1 r2,
  dispatch_one e c t r1 = let '(o, c1) := dispatch_one e c t r2 in (o, set_rbuf c1 r1 (q_rbuf_epoch c)).
Proof.
  intros. unfold dispatch_one. destruct (step (q_cfg c) (q_tls c) _) as [[o s'] ks].
  f_equal. rewrite <- install_set_rbuf. reflexivity.
Qed.

Lemma dispatch_one_fields : forall e c t rest o c1, dispatch_one e c t rest = (o, c1) ->
  q_rbuf c1 = rest /\ q_rbuf_epoch c1 = q_rbuf_epoch c.
Proof.
  intros e c t rest o c1 H. unfold dispatch_one in H. destruct (step (q_cfg c) (q_tls c) _) as [[o' s'] ks].
  inversion H; subst.
  match goal with |- context [install ?x ks] => destruct (install_fields ks x) as (_ & _ & _ & _ & _ & _ & F7 & _ & F9 & _) end.
  rewrite F7, F9. split; reflexivity.
Qed.

Lemma set_rbuf_id : forall c, set_rbuf c (q_rbuf c) (q_rbuf_epoch c) = c.
Proof. intros []. reflexivity. Qed.

Lemma header_ge4 : forall l1 l2 l3, 0 <= l1 < 256 -> 0 <= l2 < 256 -> 0 <= l3 < 256 -> 4 <= 4 + (l1 * 65536 + l2 * 256 + l3).
Proof. intros. lia. Qed.

(* enough fuel is enough *)
Lemma tls_loop_fuel : forall p e n f1 f2 c,
  (length (q_rbuf c) <= n)%nat -> (n < f1)%nat -> (n < f2)%nat -> bytes_ok (q_rbuf c) ->
  tls_loop f1 p e c = tls_loop f2 p e c.
Proof.
  intros p e n. induction n as [n IH] using lt_wf_ind. intros f1 f2 c Hn H1 H2 Hb.
  destruct f1 as [|f1]; [lia|]. destruct f2 as [|f2]; [lia|]. cbn [tls_loop].
  destruct (q_rbuf c) as [|t [|l1 [|l2 [|l3 tl]]]] eqn:B; try reflexivity.
  set (mlen := 4 + (l1 * 65536 + l2 * 256 + l3)).
  destruct (mlen >? MAX_HANDSHAKE_MESSAGE_SIZE); [reflexivity|].
  destruct (Zlen (t :: l1 :: l2 :: l3 :: tl) <? mlen) eqn:Lt; [reflexivity|].
  destruct (p && _); [reflexivity|].
  destruct (dispatch_one e c t (zdrop mlen (t :: l1 :: l2 :: l3 :: tl))) as [o c1] eqn:D.
  destruct o; try reflexivity.
  destruct (dispatch_one_fields _ _ _ _ _ _ D) as [R _].
  assert (G : 4 <= mlen).
  { inversion Hb as [|? ? _ Hb1]; inversion Hb1 as [|? ? A1 Hb2]; inversion Hb2 as [|? ? A2 Hb3]; inversion Hb3 as [|? ? A3 _].
    apply header_ge4; assumption. }
  assert (Le : (length (q_rbuf c1) + 4 <= length (t :: l1 :: l2 :: l3 :: tl))%nat).
  { rewrite R. apply length_zdrop_lt. split; [exact G|]. apply Z.ltb_ge in Lt. exact Lt. }
  apply (IH (length (q_rbuf c1))); try lia.
  rewrite R. apply bytes_ok_zdrop. exact Hb.
Qed.

(* feeding buf ++ b = feeding buf, then (unless that failed) going on with b appended to what is left *)
Lemma tls_loop_app : forall p e x n c buf b f1 f2 f3,
  (length buf <= n)%nat -> bytes_ok buf -> bytes_ok b ->
  (length (buf ++ b) < f1)%nat -> (length buf < f2)%nat -> (length (buf ++ b) < f3)%nat ->
  match tls_loop f2 p e (set_rbuf c buf x) with
  | (TOk, c1) => tls_loop f1 p e (set_rbuf c (buf ++ b) x) = tls_loop f3 p e (set_rbuf c1 (q_rbuf c1 ++ b) x)
  | (r, c1) => tls_loop f1 p e (set_rbuf c (buf ++ b) x) = (r, set_rbuf c1 (q_rbuf c1 ++ b) x)
  end.
Proof.
  intros p e x n. induction n as [n IH] using lt_wf_ind. intros c buf b f1 f2 f3 Hn Hb Hbb H1 H2 H3.
  destruct f2 as [|f2]; [lia|]. cbn [tls_loop]. cbn [q_rbuf set_rbuf].
  assert (Short : forall c0, tls_loop f1 p e (set_rbuf c0 (buf ++ b) x) = tls_loop f3 p e (set_rbuf c0 (buf ++ b) x)).
  { intros c0. apply (tls_loop_fuel p e (length (buf ++ b))); cbn [q_rbuf set_rbuf]; try lia. apply bytes_ok_app; assumption. }
  destruct buf as [|t [|l1 [|l2 [|l3 tl]]]] eqn:B; try (rewrite (Short c); reflexivity).
  destruct f1 as [|f1]; [cbn in H1; lia|].
  cbn [tls_loop q_rbuf set_rbuf q_tls app].
  change (t :: l1 :: l2 :: l3 :: tl ++ b) with ((t :: l1 :: l2 :: l3 :: tl) ++ b).
  remember (4 + (l1 * 65536 + l2 * 256 + l3)) as mlen eqn:Hm.
  assert (G : 4 <= mlen).
  { inversion Hb as [|? ? _ Hb1]; inversion Hb1 as [|? ? A1 Hb2]; inversion Hb2 as [|? ? A2 Hb3]; inversion Hb3 as [|? ? A3 _].
    subst mlen. apply header_ge4; assumption. }
  remember (t :: l1 :: l2 :: l3 :: tl) as full eqn:Hf.
  assert (Hd : forall (z : list Z), match full ++ z with t' :: _ => t' = t | [] => False end) by (intro z; subst full; reflexivity).
  destruct (mlen >? MAX_HANDSHAKE_MESSAGE_SIZE) eqn:Big; [reflexivity|].
  destruct (Zlen full <? mlen) eqn:Lt.
  { (* incomplete in buf: nothing happened yet *)
    cbv beta iota.
    change (tls_loop f3 p e (set_rbuf (set_rbuf c full x) (q_rbuf (set_rbuf c full x) ++ b) x))
      with (tls_loop f3 p e (set_rbuf c (full ++ b) x)).
    rewrite <- (Short c). subst full. cbn [tls_loop q_rbuf set_rbuf q_tls app].
    change (t :: l1 :: l2 :: l3 :: tl ++ b) with ((t :: l1 :: l2 :: l3 :: tl) ++ b).
    rewrite <- Hm, Big. reflexivity. }
  assert (Lt' : Zlen (full ++ b) <? mlen = false).
  { apply Z.ltb_ge. apply Z.ltb_ge in Lt. rewrite Zlen_app. pose proof (Zlen_nonneg b). lia. }
  rewrite Lt'.
  destruct (p && negb (e =? expected_epoch (s_state (q_tls c)))); [reflexivity|].
  apply Z.ltb_ge in Lt.
  rewrite (zdrop_app_le mlen full b) by lia.
  rewrite (dispatch_one_rest e (set_rbuf c (full ++ b) x) t (zdrop mlen full ++ b) (zdrop mlen full)).
  change (dispatch_one e (set_rbuf c (full ++ b) x) t (zdrop mlen full))
    with (dispatch_one e (set_rbuf c full x) t (zdrop mlen full)).
  destruct (dispatch_one e (set_rbuf c full x) t (zdrop mlen full)) as [o c1] eqn:D.
  destruct (dispatch_one_fields _ _ _ _ _ _ D) as [R1 R2]. cbn [q_rbuf_epoch set_rbuf] in R2.
  cbn [q_rbuf_epoch set_rbuf].
  destruct o.
  - (* accepted: go on with the rest *)
    assert (Le : (length (zdrop mlen full) + 4 <= length full)%nat) by (apply length_zdrop_lt; lia).
    pose proof (IH (length (zdrop mlen full)) ltac:(lia) c1 (zdrop mlen full) b f1 f2 f3 (le_n _)
                   (bytes_ok_zdrop _ _ Hb) Hbb) as X.
    rewrite app_length in *.
    specialize (X ltac:(lia) ltac:(lia) ltac:(lia)).
    assert (E1 : set_rbuf c1 (zdrop mlen full) x = c1) by (rewrite <- R1, <- R2; apply set_rbuf_id).
    rewrite E1 in X. exact X.
  - rewrite R1. reflexivity.
  - rewrite R1. reflexivity.
Qed.


(* what the loop leaves of the connection, the receive buffer aside *)
Definition forget (c : conn) : conn := set_rbuf c [] 0.

Lemma tls_loop_after : forall p e f c r c1, bytes_ok (q_rbuf c) -> tls_loop f p e c = (r, c1) ->
  q_rbuf_epoch c1 = q_rbuf_epoch c /\ bytes_ok (q_rbuf c1) /\ (length (q_rbuf c1) <= length (q_rbuf c))%nat.
Proof.
  intros p e f. induction f as [|f IH]; intros c r c1 Hb H; cbn [tls_loop] in H.
  - inversion H; subst. repeat split; auto.
  - destruct (q_rbuf c) as [|t [|l1 [|l2 [|l3 tl]]]] eqn:B; try (inversion H; subst; rewrite B; repeat split; auto).
    remember (4 + (l1 * 65536 + l2 * 256 + l3)) as mlen.
    destruct (mlen >? MAX_HANDSHAKE_MESSAGE_SIZE); [inversion H; subst; rewrite B; repeat split; auto|].
    destruct (Zlen (t :: l1 :: l2 :: l3 :: tl) <? mlen) eqn:Lt; [inversion H; subst; rewrite B; repeat split; auto|].
    destruct (p && _); [inversion H; subst; rewrite B; repeat split; auto|].
    destruct (dispatch_one e c t _) as [o c2] eqn:D.
    destruct (dispatch_one_fields _ _ _ _ _ _ D) as [R1 R2].
    assert (Hb2 : bytes_ok (q_rbuf c2)) by (rewrite R1; apply bytes_ok_zdrop; exact Hb).
    assert (Le : (length (q_rbuf c2) <= length (t :: l1 :: l2 :: l3 :: tl))%nat).
    { rewrite R1. unfold zdrop. rewrite skipn_length. lia. }
    destruct o.
    + destruct (IH _ _ _ Hb2 H) as (A & B' & C). rewrite A, R2. repeat split; auto. lia.
    + inversion H; subst. rewrite R2. repeat split; auto.
    + inversion H; subst. rewrite R2. repeat split; auto.
Qed.

Definition entry_check (p : bool) (e : Z) (c : conn) (d : list Z) : bool :=
  p && negb (Zlen (q_rbuf c) =? 0) && negb (Zlen d =? 0) && negb (e =? q_rbuf_epoch c).

Lemma tls_feed_nostart : forall p e c d, s_state (q_tls c) <> CLIENT_HANDSHAKE_START ->
  tls_feed p e c d =
  if entry_check p e c d then (TAlert AD_unexpected_message, c)
  else tls_loop (S (length (q_rbuf c ++ d))) p e
         (set_rbuf c (q_rbuf c ++ d) (if Zlen d =? 0 then q_rbuf_epoch c else e)).
Proof. intros p e c d H. unfold tls_feed, entry_check. destruct (s_state (q_tls c)); try reflexivity. contradiction. Qed.

Lemma Zlen_eqb0 : forall {A} (l : list A), l <> [] -> (Zlen l =? 0) = false.
Proof. intros A [|a l] H; [contradiction|]. unfold Zlen. cbn [length]. apply Z.eqb_neq. lia. Qed.

(* two chunks: a then b  =  a ++ b at once *)
Lemma tls_feed_app : forall cl cfg0 p e c a b,
  QInv cl cfg0 c -> bytes_ok (q_rbuf c) -> bytes_ok a -> bytes_ok b -> a <> [] -> b <> [] ->
  match tls_feed p e c a with
  | (TOk, c1) => tls_feed p e c (a ++ b) = tls_feed p e c1 b
  | (r, c1) => fst (tls_feed p e c (a ++ b)) = r /\ forget (snd (tls_feed p e c (a ++ b))) = forget c1
  end.
Proof.
  intros cl cfg0 p e c a b I Hc Ha Hb Na Nb.
  pose proof (inv_no_start _ _ _ _ (qinv_role _ _ _ I)) as NS.
  assert (Nab : a ++ b <> []) by (destruct a; [contradiction|discriminate]).
  destruct (tls_feed p e c a) as [r c1] eqn:F.
  pose proof (qinv_tls_feed _ _ _ _ _ _ _ _ I F) as I1.
  pose proof (inv_no_start _ _ _ _ (qinv_role _ _ _ I1)) as NS1.
  rewrite (tls_feed_nostart p e c a NS) in F. rewrite (tls_feed_nostart p e c (a ++ b) NS).
  unfold entry_check in *. rewrite (Zlen_eqb0 a Na) in F. rewrite (Zlen_eqb0 (a ++ b) Nab).
  destruct (p && negb (Zlen (q_rbuf c) =? 0) && negb false && negb (e =? q_rbuf_epoch c)).
  { inversion F; subst. split; reflexivity. }
  rewrite app_assoc.
  pose proof (tls_loop_app p e e (length (q_rbuf c ++ a)) c (q_rbuf c ++ a) b
                (S (length ((q_rbuf c ++ a) ++ b))) (S (length (q_rbuf c ++ a))) (S (length ((q_rbuf c ++ a) ++ b)))
                (le_n _) (bytes_ok_app _ _ Hc Ha) Hb (Nat.lt_succ_diag_r _) (Nat.lt_succ_diag_r _) (Nat.lt_succ_diag_r _)) as X.
  rewrite F in X.
  assert (Hbuf : bytes_ok (q_rbuf (set_rbuf c (q_rbuf c ++ a) e))) by (cbn [q_rbuf set_rbuf]; apply bytes_ok_app; assumption).
  destruct (tls_loop_after _ _ _ _ _ _ Hbuf F) as (Ep & Hb1 & Le). cbn [q_rbuf_epoch q_rbuf set_rbuf] in Ep, Le.
  destruct r.
  - rewrite X. rewrite (tls_feed_nostart p e c1 b NS1). unfold entry_check. rewrite Ep, Z.eqb_refl.
    rewrite (Zlen_eqb0 b Nb). cbn [negb]. rewrite !andb_false_r.
    apply (tls_loop_fuel p e (length (q_rbuf c1 ++ b))); cbn [q_rbuf set_rbuf]; try lia.
    + rewrite !app_length in *. lia.
    + apply bytes_ok_app; assumption.
  - rewrite X. split; reflexivity.
  - rewrite X. split; reflexivity.
Qed.
