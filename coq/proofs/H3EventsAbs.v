(* C15: H3Parse's per-stream state and frame handler refine the stream model of H3Validate.v
   (sstate, handle_data, handle_headers, stream_step): the abstraction function and the simulation lemmas. *)
From Coq Require Import ZArith List Bool Lia ZifyBool.
From AQ Require Import lib.Base lib.Tok gen.C15Tables model.H3Validate proofs.H3ValidateSpec proofs.H3ValidateProofs.
From AQ Require Import model.H3Parse model.H3Events proofs.H3EventsProofs proofs.H3EventsLoop.
Import ListNotations.
Open Scope Z_scope.

(* headers_recv_state *)
Definition abs_h (z : Z) : hstate :=
  if z =? 0 then HInitial else if z =? 1 then HAfterHeaders else HAfterTrailers.
(* frame_size while a frame is open *)
Definition abs_rem (c : option (Z * Z)) : option Z := match c with Some (_, n) => Some n | None => None end.
(* H3Parse.hstream -> H3Validate.sstate: headers state, expected_content_length, content_length, frame remaining, receiving_ended *)
Definition abs_state (st : hstream) : sstate :=
  H3Validate.mkS (abs_h (H3Parse.s_hstate st)) (s_expect st) (s_clen st) (abs_rem (s_cur st)) (H3Parse.s_ended st).

Section Abs.
Variable hdrs : Z -> list header.

Definition abs_ev (e : event) : list sevent :=
  match e with
  | H3Parse.EData _ _ d f => [H3Validate.EData (Zlen d) f]
  | H3Parse.EHeaders _ _ hid f => [H3Validate.EHeaders (hdrs hid) f]
  | _ => []
  end.
Definition abs_evs (evs : list event) : list sevent := flat_map abs_ev evs.

(* outcome of the frame handler / of one delivery as an outcome of the stream model *)
Definition abs_hres (r : hres) : option (vres (list sevent * sstate)) :=
  match r with
  | HVal evs st => Some (VOk (abs_evs evs, abs_state st))
  | HErr c => Some (H3Validate.PErr c)
  | _ => None
  end.
Definition abs_rres (r : rres) : option (vres (list sevent * sstate)) :=
  match r with
  | RVal evs st => Some (VOk (abs_evs evs, abs_state st))
  | RErr c => Some (H3Validate.PErr c)
  | _ => None
  end.

Lemma is_nil_Zlen : forall (d : list Z), is_nil d = (Zlen d =? 0).
Proof. intros [|x d]; [reflexivity|]. cbn [is_nil]. unfold Zlen. cbn [length]. lia. Qed.

Lemma msg_code : gen_MessageError_code = 270.
Proof. exact (proj1 message_error_code_is_rfc). Qed.

(* _handle_request_or_push_frame(DATA, frame_data) is handle_data of the stream model *)
Lemma handler_refines_data : forall fx O client d st ended,
  abs_hres (handle_rp_frame fx O client 0 (Some d) st ended) = Some (handle_data (abs_state st) (Zlen d) ended).
Proof.
  intros fx O client d st ended. unfold handle_rp_frame, handle_data. cbn [Z.eqb].
  unfold abs_state at 1. cbn [H3Validate.s_hstate]. unfold abs_h at 1.
  destruct (H3Parse.s_hstate st =? 0) eqn:H0.
  { replace (H3Parse.s_hstate st =? 1) with false by lia. reflexivity. }
  destruct (H3Parse.s_hstate st =? 1) eqn:H1; [|reflexivity]. cbn [negb].
  unfold check_cl, check_content_length, message_error. rewrite msg_code. unfold abs_state.
  cbn [H3Validate.s_ecl H3Validate.s_cl H3Validate.s_hstate H3Validate.s_remaining H3Validate.s_ended
       s_expect s_clen set_clen].
  rewrite is_nil_Zlen.
  assert (A : abs_state (set_clen st (s_clen st + Zlen d)) =
              H3Validate.mkS (abs_h (H3Parse.s_hstate st)) (s_expect st) (s_clen st + Zlen d) (abs_rem (s_cur st)) (H3Parse.s_ended st))
    by reflexivity.
  destruct ended; cbn [andb orb].
  - destruct (s_expect st) as [e|].
    + destruct (s_clen st + Zlen d =? e); cbn [negb abs_hres abs_evs flat_map abs_ev app]; [rewrite A|]; reflexivity.
    + cbn [negb abs_hres abs_evs flat_map abs_ev app]. rewrite A. reflexivity.
  - destruct (negb (Zlen d =? 0)); cbn [abs_hres abs_evs flat_map abs_ev app]; rewrite A; reflexivity.
Qed.

(* _handle_request_or_push_frame(HEADERS, ...) on a decoded block (fresh or resumed) is handle_headers *)
Lemma handler_refines_headers : forall fx Q client data st ended hid,
  0 <= H3Parse.s_hstate st <= 2 -> (H3Parse.s_hstate st = 0 -> s_expect st = None) ->
  (match data with Some d => o_dec Q (s_id st) d | None => o_resume Q (s_id st) end) = DHeaders hid ->
  abs_hres (handle_rp_frame fx (with_validators hdrs Q) client 1 data st ended)
  = Some (handle_headers client (abs_state st) (hdrs hid) ended).
Proof.
  intros fx Q client data st ended hid Hr He Hd. unfold handle_rp_frame, handle_headers. cbn [Z.eqb Pos.eqb].
  cbn [o_dec o_resume o_val with_validators]. rewrite Hd.
  unfold abs_state at 1. cbn [H3Validate.s_hstate]. unfold abs_h at 1. unfold real_val.
  destruct (H3Parse.s_hstate st =? 0) eqn:H0.
  - replace (H3Parse.s_hstate st =? 2) with false by lia.
    replace (hkind (if client then 1 else 0)) with (if client then KResponse else KRequest) by (destruct client; reflexivity).
    destruct (validate_outcomes_proof (if client then KResponse else KRequest) (hdrs hid)) as [(ecl & V)|V]; rewrite V; cbn [vbind negb].
    2:{ reflexivity. }
    unfold check_cl, check_content_length, message_error. rewrite msg_code. unfold abs_state.
    cbn [H3Validate.s_ecl H3Validate.s_cl H3Validate.s_hstate H3Validate.s_remaining H3Validate.s_ended s_expect s_clen set_expect set_hstate].
    rewrite (He ltac:(lia)).
    assert (A : abs_state (set_hstate (set_expect st ecl) 1) =
                H3Validate.mkS HAfterHeaders (match ecl with Some n => Some n | None => None end) (s_clen st) (abs_rem (s_cur st)) (H3Parse.s_ended st))
      by (destruct ecl; reflexivity).
    destruct ended; cbn [andb].
    + destruct ecl as [e|]; cbn [negb abs_hres abs_evs flat_map abs_ev app].
      * destruct (s_clen st =? e); cbn [negb abs_hres abs_evs flat_map abs_ev app]; [rewrite A|]; reflexivity.
      * rewrite A. reflexivity.
    + cbn [abs_hres abs_evs flat_map abs_ev app]. rewrite A. reflexivity.
  - destruct (H3Parse.s_hstate st =? 1) eqn:H1.
    + replace (H3Parse.s_hstate st =? 2) with false by lia.
      replace (hkind 2) with KTrailers by reflexivity.
      destruct (validate_outcomes_proof KTrailers (hdrs hid)) as [(ecl & V)|V]; rewrite V; cbn [vbind negb].
      2:{ reflexivity. }
      unfold check_cl, check_content_length, message_error. rewrite msg_code. unfold abs_state.
      cbn [H3Validate.s_ecl H3Validate.s_cl H3Validate.s_hstate H3Validate.s_remaining H3Validate.s_ended s_expect s_clen set_hstate].
      assert (A : abs_state (set_hstate st 2) =
                  H3Validate.mkS HAfterTrailers (s_expect st) (s_clen st) (abs_rem (s_cur st)) (H3Parse.s_ended st)) by reflexivity.
      destruct ended; cbn [andb].
      * destruct (s_expect st) as [e|]; cbn [negb abs_hres abs_evs flat_map abs_ev app].
        -- destruct (s_clen st =? e); cbn [negb abs_hres abs_evs flat_map abs_ev app]; [rewrite A|]; reflexivity.
        -- rewrite A. reflexivity.
      * cbn [abs_hres abs_evs flat_map abs_ev app]. rewrite A. reflexivity.
    + replace (H3Parse.s_hstate st =? 2) with true by lia. reflexivity.
Qed.


(* ---------------------------------------------------------------- the ops of the stream model are deliveries *)
Variable fx : fixes.
Variable Q : oracle.
Variable client : bool.
Hypothesis Htr : fx_trunc fx = true.
Local Notation O := (with_validators hdrs Q).

Lemma ztake_all : forall (b : list Z), ztake (Zlen b) b = b.
Proof. intro b. unfold ztake, Zlen. rewrite Nat2Z.id. apply firstn_all. Qed.
Lemma zdrop_all : forall (b : list Z), zdrop (Zlen b) b = [].
Proof. intro b. unfold zdrop, Zlen. rewrite Nat2Z.id. apply skipn_all. Qed.
Lemma Zlen_nonneg' : forall (b : list Z), 0 <= Zlen b.
Proof. intro. unfold Zlen. lia. Qed.

Lemma rq_loop_nil : forall f fin st evs, rq_loop f fx O client fin st [] evs = RVal evs (set_buf st []).
Proof. destruct f; reflexivity. Qed.

(* one iteration of the frame loop on a delivery that holds a frame header (or continues an open frame) followed by
   payload bytes of that frame only *)
Lemma loop_one : forall f fin st b t n b2,
  rq_hdr st b = Some (t, n, b2) -> is_nil b = false -> t = 0 \/ t = 1 -> Zlen b2 <= n -> (t = 1 -> Zlen b2 = n) ->
  rq_loop (S f) fx O client fin st b [] =
  let cur' := if n - Zlen b2 =? 0 then None else Some (t, n - Zlen b2) in
  match handle_rp_frame fx O client t (Some b2) (set_cur st cur') (H3Parse.s_ended st && is_none cur') with
  | HVal e st2 => RVal e (set_buf st2 [])
  | HBlocked st2 => RVal [] (set_buf (set_btype (set_blocked st2 true) (if fx_pushblock fx then Some t else s_btype st2)) [])
  | HErr c => RErr c
  | HExn k => RExn k
  end.
Proof.
  intros f fin st b t n b2 Hh Hb Ht Hle Heq. rewrite (rq_loop_S client fx). rewrite Hb, Hh.
  replace (t =? 65) with false by lia. rewrite andb_false_r.
  pose proof (Zlen_nonneg' b2) as N. cbv zeta.
  replace (Z.min n (Zlen b2)) with (Zlen b2) by lia.
  replace (negb (t =? 0) && (Zlen b2 <? n)) with false.
  2:{ destruct Ht as [ -> | -> ]; [reflexivity|]. specialize (Heq eq_refl). cbn. lia. }
  rewrite ztake_all, zdrop_all, Htr. cbn [is_nil negb orb andb app]. rewrite andb_true_r.
  destruct (handle_rp_frame fx O client t (Some b2) _ _) as [e st2|st2|c|k]; try reflexivity.
  rewrite rq_loop_nil. reflexivity.
Qed.

(* the state between two ops of the stream model *)
Definition at_op (st : hstream) : Prop :=
  s_buf st = [] /\ s_blocked st = false /\ s_session st = None
  /\ (s_cur st = None \/ exists r, s_cur st = Some (0, r)).

Lemma at_op_recv : forall st data fin, at_op st ->
  let st1 := H3Parse.set_ended (set_buf st data) (H3Parse.s_ended st || fin) in
  rq_recv fx O client st data fin =
  match (match s_cur st with
         | Some (t, n) => if (t =? 0) && (Zlen data <? n) && negb fin then Some n else None
         | None => None end) with
  | Some n => RVal [H3Parse.EData (s_id st) (s_push st) data false]
                   (set_buf (set_cur (set_clen st1 (s_clen st + Zlen data)) (Some (0, n - Zlen data))) [])
  | None =>
      if fin && is_nil data && is_none (s_cur st) then
        if check_cl st1 then RVal [H3Parse.EData (s_id st) (s_push st) [] true] st1 else RErr H3Parse.H3_MESSAGE_ERROR
      else
        match rq_loop (rq_fuel data) fx O client fin (set_buf st1 []) data [] with
        | RVal evs st' =>
            if fin && negb (s_blocked st') && (negb (is_nil (s_buf st')) || negb (is_none (s_cur st')))
            then RErr H3_FRAME_ERROR else RVal evs st'
        | r => r
        end
  end.
Proof.
  intros st data fin (B & K & S & _). unfold rq_recv. rewrite B. cbn [app].
  cbn [s_blocked s_session s_cur s_buf s_id s_push s_clen H3Parse.set_ended set_buf]. rewrite K, S, Htr.
  cbn [negb orb andb]. reflexivity.
Qed.

(* OFin: an empty delivery with the FIN *)
Lemma sim_fin : forall st, at_op st ->
  abs_rres (rq_recv fx O client st [] true) = Some (stream_step client (abs_state st) OFin).
Proof.
  intros st A. rewrite (at_op_recv st [] true A). cbv zeta. destruct A as (B & K & S & C).
  unfold stream_step, H3Validate.set_ended, check_content_length, message_error, abs_state. rewrite msg_code.
  cbn [H3Validate.s_remaining H3Validate.s_hstate H3Validate.s_ecl H3Validate.s_cl H3Validate.s_ended].
  destruct C as [C|(r & C)]; rewrite C; cbn [abs_rem is_none andb is_nil negb].
  - unfold check_cl. cbn [s_expect s_clen H3Parse.set_ended set_buf].
    destruct (s_expect st) as [e|] eqn:E; [destruct (s_clen st =? e)|]; cbn [negb abs_rres abs_evs flat_map abs_ev app];
      try reflexivity; unfold abs_state; cbn [H3Parse.s_hstate s_expect s_clen s_cur H3Parse.s_ended H3Parse.set_ended set_buf];
      rewrite C, E; reflexivity.
  - replace (Zlen (@nil Z) <? r) with (0 <? r) by reflexivity. rewrite andb_false_r.
    rewrite rq_loop_nil. cbn [s_blocked s_buf s_cur set_buf H3Parse.set_ended is_nil is_none negb orb andb].
    rewrite K, C. reflexivity.
Qed.

(* the handler's answer for a DATA chunk, lifted through the loop iteration and the truncation check *)
Lemma data_chunk : forall fin st1 b r payload,
  s_blocked st1 = false -> s_buf st1 = [] ->
  rq_hdr st1 b = Some (0, r, payload) -> is_nil b = false -> Zlen payload <= r ->
  abs_rres (match rq_loop (rq_fuel b) fx O client fin st1 b [] with
            | RVal evs st' =>
                if fin && negb (s_blocked st') && (negb (is_nil (s_buf st')) || negb (is_none (s_cur st')))
                then RErr H3_FRAME_ERROR else RVal evs st'
            | r0 => r0
            end)
  = Some (let rem := if r - Zlen payload <=? 0 then None else Some (r - Zlen payload) in
          truncated_check fin rem
            (handle_data (set_remaining (abs_state st1) rem) (Zlen payload) (H3Parse.s_ended st1 && H3Validate.is_none rem))).
Proof.
  intros fin st1 b r payload K B Hh Hb Hle. unfold rq_fuel. rewrite (loop_one _ fin st1 b 0 r payload Hh Hb); auto; [|lia].
  cbv zeta. pose proof (Zlen_nonneg' payload) as N.
  replace (r - Zlen payload <=? 0) with (r - Zlen payload =? 0) by lia.
  set (cur' := if r - Zlen payload =? 0 then None else Some (0, r - Zlen payload)).
  set (rem := if r - Zlen payload =? 0 then None else Some (r - Zlen payload)).
  assert (R : abs_rem cur' = rem) by (unfold cur', rem; destruct (r - Zlen payload =? 0); reflexivity).
  assert (R2 : is_none cur' = H3Validate.is_none rem) by (unfold cur', rem; destruct (r - Zlen payload =? 0); reflexivity).
  assert (AS : abs_state (set_cur st1 cur') = set_remaining (abs_state st1) rem).
  { unfold abs_state, set_remaining. cbn. rewrite R. reflexivity. }
  assert (HR : abs_hres (handle_rp_frame fx O client 0 (Some payload) (set_cur st1 cur') (H3Parse.s_ended st1 && is_none cur'))
               = Some (handle_data (set_remaining (abs_state st1) rem) (Zlen payload) (H3Parse.s_ended st1 && H3Validate.is_none rem))).
  { rewrite <- R2, <- AS. apply handler_refines_data. }
  destruct (handle_rp_frame fx O client 0 (Some payload) (set_cur st1 cur') (H3Parse.s_ended st1 && is_none cur'))
    as [e st2|st2|c|k] eqn:HH; cbn [abs_hres] in HR; try discriminate.
  - destruct (handle_frame _ _ _ _ _ _ _ _ _ HH) as (_ & F2 & _ & _ & F5 & _).
    injection HR as HR'. rewrite <- HR'. cbn [truncated_check].
    cbn [s_blocked s_buf s_cur set_buf is_nil negb orb]. rewrite F5, F2. cbn [s_blocked s_cur set_cur]. rewrite K. cbn [negb andb].
    rewrite andb_true_r, R2.
    destruct (fin && negb (H3Validate.is_none rem)); cbn [abs_rres]; [reflexivity|].
    replace (abs_state (set_buf st2 [])) with (abs_state st2) by reflexivity. reflexivity.
  - injection HR as HR'. rewrite <- HR'. reflexivity.
Qed.

(* ODataCont: more payload bytes of the open DATA frame *)
Lemma sim_data_cont : forall st r data fin, at_op st -> s_cur st = Some (0, r) -> 0 < r -> Zlen data <= r ->
  abs_rres (rq_recv fx O client st data fin) = Some (stream_step client (abs_state st) (ODataCont (Zlen data) fin)).
Proof.
  intros st r data fin A C Hr Hle. rewrite (at_op_recv st data fin A). cbv zeta. destruct A as (B & K & S & _).
  rewrite C. cbn [Z.eqb andb is_none]. rewrite andb_false_r.
  cbn [stream_step]. unfold abs_state at 1. cbn [H3Validate.set_ended H3Validate.s_remaining]. rewrite C. cbn [abs_rem].
  destruct ((Zlen data <? r) && negb fin) eqn:SC.
  - cbn [abs_rres abs_evs flat_map abs_ev app]. unfold abs_state.
    cbn [H3Validate.s_hstate H3Validate.s_ecl H3Validate.s_cl H3Validate.s_ended H3Parse.s_hstate s_expect s_clen s_cur
         H3Parse.s_ended H3Parse.set_ended set_buf set_cur set_clen abs_rem]. reflexivity.
  - destruct (Zlen data =? 0) eqn:Z0.
    + assert (data = []) by (destruct data; [reflexivity|]; unfold Zlen in Z0; cbn [length] in Z0; lia). subst data.
      rewrite rq_loop_nil. cbn [s_blocked s_buf s_cur set_buf H3Parse.set_ended is_nil is_none negb orb andb].
      rewrite K, C. cbn [is_none negb andb]. destruct fin; [reflexivity|]. change (Zlen (@nil Z)) with 0 in SC. lia.
    + set (st1 := set_buf (H3Parse.set_ended (set_buf st data) (H3Parse.s_ended st || fin)) []).
      assert (Hb : is_nil data = false) by (rewrite is_nil_Zlen; exact Z0).
      assert (Hh1 : rq_hdr st1 data = Some (0, r, data)).
      { unfold rq_hdr, st1. cbn [s_cur set_buf H3Parse.set_ended]. rewrite C. reflexivity. }
      rewrite (data_chunk fin st1 data r data K eq_refl Hh1 Hb Hle).
      cbv zeta. unfold st1, abs_state, H3Validate.set_ended, set_remaining.
      cbn [H3Validate.s_hstate H3Validate.s_ecl H3Validate.s_cl H3Validate.s_ended H3Validate.s_remaining
           H3Parse.s_hstate s_expect s_clen s_cur H3Parse.s_ended H3Parse.set_ended set_buf abs_rem]. reflexivity.
Qed.

(* ODataStart: a DATA frame header announcing size, followed by a prefix of its payload *)
Lemma sim_data_start : forall st data size payload fin, at_op st -> s_cur st = None ->
  rq_hdr st data = Some (0, size, payload) -> is_nil data = false -> Zlen payload <= size ->
  abs_rres (rq_recv fx O client st data fin)
  = Some (stream_step client (abs_state st) (ODataStart size (Zlen payload) fin)).
Proof.
  intros st data size payload fin A C Hh Hb Hle. rewrite (at_op_recv st data fin A). cbv zeta. destruct A as (B & K & S & _).
  rewrite C, Hb. rewrite andb_false_r. cbn [is_none andb].
  cbn [stream_step]. unfold abs_state at 1. cbn [H3Validate.set_ended H3Validate.s_remaining]. rewrite C. cbn [abs_rem].
  set (st1 := set_buf (H3Parse.set_ended (set_buf st data) (H3Parse.s_ended st || fin)) []).
  assert (Hh1 : rq_hdr st1 data = Some (0, size, payload)).
  { unfold rq_hdr in *. unfold st1. cbn [s_cur set_buf H3Parse.set_ended]. exact Hh. }
  rewrite (data_chunk fin st1 data size payload K eq_refl Hh1 Hb Hle).
  cbv zeta. unfold st1, abs_state, H3Validate.set_ended, set_remaining.
  cbn [H3Validate.s_hstate H3Validate.s_ecl H3Validate.s_cl H3Validate.s_ended H3Validate.s_remaining
       H3Parse.s_hstate s_expect s_clen s_cur H3Parse.s_ended H3Parse.set_ended set_buf abs_rem]. rewrite ?C. reflexivity.
Qed.

(* OHeaders: a complete HEADERS frame whose block the decoder answers with the list hdrs hid *)
Lemma sim_headers : forall st data n block fin hid, at_op st -> s_cur st = None ->
  0 <= H3Parse.s_hstate st <= 2 -> (H3Parse.s_hstate st = 0 -> s_expect st = None) ->
  rq_hdr st data = Some (1, n, block) -> is_nil data = false -> Zlen block = n ->
  o_dec Q (s_id st) block = DHeaders hid ->
  abs_rres (rq_recv fx O client st data fin)
  = Some (stream_step client (abs_state st) (OHeaders (hdrs hid) fin)).
Proof.
  intros st data n block fin hid A C Hr He Hh Hb Hn Hd. rewrite (at_op_recv st data fin A). cbv zeta.
  destruct A as (B & K & S & _). rewrite C, Hb. rewrite andb_false_r. cbn [is_none andb].
  cbn [stream_step]. unfold abs_state at 1. cbn [H3Validate.set_ended H3Validate.s_remaining]. rewrite C. cbn [abs_rem].
  set (st1 := set_buf (H3Parse.set_ended (set_buf st data) (H3Parse.s_ended st || fin)) []).
  assert (Hh1 : rq_hdr st1 data = Some (1, n, block)) by (unfold rq_hdr in *; unfold st1; cbn [s_cur set_buf H3Parse.set_ended]; exact Hh).
  unfold rq_fuel. rewrite (loop_one _ fin st1 data 1 n block Hh1 Hb); auto; [|lia].
  cbv zeta. replace (n - Zlen block =? 0) with true by lia. cbn [is_none]. rewrite andb_true_r.
  assert (E : H3Validate.set_ended (abs_state st) fin = abs_state (set_cur st1 None)).
  { unfold abs_state, H3Validate.set_ended, st1.
    cbn [H3Validate.s_hstate H3Validate.s_ecl H3Validate.s_cl H3Validate.s_ended H3Validate.s_remaining
         H3Parse.s_hstate s_expect s_clen s_cur H3Parse.s_ended H3Parse.set_ended set_buf set_cur abs_rem]. rewrite C. reflexivity. }
  rewrite ?E.
  match goal with |- _ = Some ?rhs =>
    assert (HR : abs_hres (handle_rp_frame fx O client 1 (Some block) (set_cur st1 None) (H3Parse.s_ended st1)) = Some rhs)
      by exact (handler_refines_headers fx Q client (Some block) (set_cur st1 None) (H3Parse.s_ended st1) hid Hr He Hd) end.
  destruct (handle_rp_frame fx O client 1 (Some block) (set_cur st1 None) (H3Parse.s_ended st1)) as [e st2|st2|c|k] eqn:HH;
    cbn [abs_hres] in HR; try discriminate.
  - destruct (handle_frame _ _ _ _ _ _ _ _ _ HH) as (_ & F2 & _ & _ & F5 & _).
    rewrite <- HR.
    cbn [s_blocked s_buf s_cur set_buf is_nil negb orb]. rewrite F5, F2. cbn [s_blocked s_cur set_cur is_none negb].
    rewrite andb_false_r. cbn [abs_rres]. reflexivity.
  - rewrite <- HR. reflexivity.
Qed.

End Abs.

(* the boundary state is that of a new stream; after a delivery that the stream model describes it holds again as long as the
   loop consumed the delivery (buffer empty), which the sim_* lemmas' outcomes say through abs_state *)
Example at_op_fresh : forall sid, at_op (new_stream sid) /\ 0 <= H3Parse.s_hstate (new_stream sid) <= 2
  /\ (H3Parse.s_hstate (new_stream sid) = 0 -> s_expect (new_stream sid) = None).
Proof. intro sid. split; [repeat split; auto|]. cbn. split; [lia|reflexivity]. Qed.
