(* Round trip of the transport-parameter codec (model/TParams.v):
     pull_quic_transport_parameters (push_quic_transport_parameters p) = p
   for every well-formed QuicTransportParameters object (all 20 attributes), and the exact
   boundary of the domain: values that encode without error but decode differently. *)
From AQ Require Import lib.Base model.Codec model.Varint model.TParams
  proofs.CodecProofs proofs.VarintProofs proofs.HeaderProofs proofs.AckFrameProofs.
From Coq Require Import ZifyBool.

(* ---- writing: the capacity check of the inner Buffer(capacity=65536) ---------------------- *)
Lemma w_chunks_flatten cs : forall cap data bs,
  flatten cs = Ok bs -> Zlen data + Zlen bs <= cap -> w_chunks cap data cs = Ok (data ++ bs).
Proof.
  induction cs as [|c t IH]; intros cap data bs F L; cbn [flatten w_chunks] in *.
  - injection F as <-. now rewrite app_nil_r.
  - destruct c as [b|k]; [|discriminate].
    destruct (flatten t) as [r|k] eqn:Ft; cbn [bind] in F; [|discriminate]. injection F as <-.
    rewrite Zlen_app in L. pose proof (Zlen_nonneg r) as Hr.
    destruct (Zlen data + Zlen b >? cap) eqn:E; [lia|].
    rewrite (IH cap (data ++ b) r eq_refl); [now rewrite app_assoc|rewrite Zlen_app; lia].
Qed.

Lemma flatten_app a b x y : flatten a = Ok x -> flatten b = Ok y -> flatten (a ++ b) = Ok (x ++ y).
Proof.
  revert x. induction a as [|c t IH]; intros x Fa Fb; cbn [flatten app] in *.
  - injection Fa as <-. exact Fb.
  - destruct c as [bs|k]; [|discriminate].
    destruct (flatten t) as [r|k] eqn:Ft; cbn [bind] in Fa; [|discriminate]. injection Fa as <-.
    rewrite (IH r eq_refl Fb). cbn [bind]. now rewrite app_assoc.
Qed.

(* ---- well-formed parameter values ----------------------------------------------------------- *)
Definition u32_posb (v : Z) : bool := (0 <? v) && (v <? 2 ^ 32).

(* an address that is sent: packed host of the right size, not the all-zero host (which the decoder
   reads as "absent"), 16-bit port *)
Definition addr_wf (n : Z) (a : addr) : bool :=
  match a with
  | None => true
  | Some (h, p) => (Zlen h =? n) && negb (all_zero h) && (0 <=? p) && (p <? 65536)
  end.

(* kind = the PARAMS type of the attribute *)
Definition pval_wf (kind : Z) (v : pval) : bool :=
  match v with
  | PInt x => (kind =? 0) && (0 <=? x) && (x <? 2 ^ 62)
  | PBytes b => (kind =? 1) && (Zlen b <=? 65536)
  | PTrue => kind =? 2
  | PPref a4 a6 cid tok =>
      (kind =? 3) && addr_wf 4 a4 && addr_wf 16 a6 && (Zlen cid <? 256) && (Zlen tok =? 16)
  | PVer c a => (kind =? 4) && u32_posb c && forallb u32_posb a && (Zlen a <=? 16383)
  end.

(* ---- version information ----------------------------------------------------------------------- *)
Definition u32s (a : list Z) : list Z := flat_map (be_enc 4) a.

Lemma flatten_u32s a : flatten (map push_uint32 a) = Ok (u32s a).
Proof.
  induction a as [|v t IH]; [reflexivity|].
  cbn [map flatten u32s flat_map]. unfold push_uint32 at 1. rewrite IH. reflexivity.
Qed.

Lemma Zlen_u32s a : Zlen (u32s a) = 4 * Zlen a.
Proof.
  induction a as [|v t IH]; [reflexivity|].
  cbn [u32s flat_map]. rewrite Zlen_app, be_enc_Zlen, Zlen_cons. fold (u32s t). lia.
Qed.

Lemma pull_u32s_enc a : forall fuel rest, forallb u32_posb a = true -> (length a <= fuel)%nat ->
  pull_u32s fuel (Zlen a) (u32s a ++ rest) = Ok (a, rest).
Proof.
  induction a as [|v t IH]; intros fuel rest W L.
  - destruct fuel; reflexivity.
  - cbn [forallb] in W. apply andb_prop in W as [Wv Wt]. unfold u32_posb in Wv.
    destruct fuel as [|f]; [cbn [length] in L; lia|].
    cbn [pull_u32s]. rewrite Zlen_cons. pose proof (Zlen_nonneg t) as Ht.
    destruct (1 + Zlen t <=? 0) eqn:E; [lia|].
    cbn [u32s flat_map]. rewrite <- app_assoc. fold (u32s t).
    rewrite pull_uint32_enc by lia. cbn [bind].
    replace (1 + Zlen t - 1) with (Zlen t) by lia.
    rewrite IH; [reflexivity|assumption|cbn [length] in L; lia].
Qed.

Lemma no_zero a : forallb u32_posb a = true -> existsb (fun v => v =? 0) a = false.
Proof.
  induction a as [|v t IH]; [reflexivity|]. cbn [forallb existsb]. intros W.
  apply andb_prop in W as [Wv Wt]. unfold u32_posb in Wv. rewrite (IH Wt).
  destruct (v =? 0) eqn:E; [lia|reflexivity].
Qed.

Lemma pull_ver_enc c a rest : u32_posb c = true -> forallb u32_posb a = true ->
  pull_version_information (4 + 4 * Zlen a) (be_enc 4 c ++ u32s a ++ rest) = Ok (PVer c a, rest).
Proof.
  intros Wc Wa. unfold u32_posb in Wc. unfold pull_version_information.
  rewrite pull_uint32_enc by lia. cbn [bind].
  pose proof (Zlen_nonneg a) as Ha.
  replace ((4 + 4 * Zlen a) / 4 - 1) with (Zlen a) by (Z.div_mod_to_equations; lia).
  rewrite pull_u32s_enc; [|assumption|].
  - cbn [bind]. rewrite (no_zero a Wa). destruct (c =? 0) eqn:E; [lia|reflexivity].
  - pose proof (Zlen_u32s a) as Hu. unfold Zlen in Hu. rewrite app_length. lia.
Qed.

(* ---- preferred address ---------------------------------------------------------------------------- *)
Definition addr_bytes (n : Z) (a : addr) : list Z :=
  match a with Some (h, p) => h ++ be_enc 2 p | None => zeros n ++ be_enc 2 0 end.

Lemma all_zero_zeros n : all_zero (zeros n) = true.
Proof. unfold all_zero, zeros. induction (Z.to_nat n) as [|k IH]; [reflexivity|]. cbn [repeat forallb]. exact IH. Qed.

Lemma Zlen_zeros' n : 0 <= n -> Zlen (zeros n) = n.
Proof. intros H. unfold Zlen, zeros. rewrite repeat_length. lia. Qed.

(* host and port as pull_quic_preferred_address reads them *)
Lemma pull_addr_enc n a rest : 0 <= n -> addr_wf n a = true ->
  exists h p, pull_bytes n (addr_bytes n a ++ rest) = Ok (h, be_enc 2 p ++ rest) /\
              0 <= p < 65536 /\ (if all_zero h then None else Some (h, p)) = a.
Proof.
  intros Hn W. destruct a as [[h p]|]; cbn [addr_wf addr_bytes] in *.
  - exists h, p. rewrite <- app_assoc.
    assert (Hh : Zlen h = n) by lia. subst n. rewrite pull_bytes_app.
    split; [reflexivity|]. split; [lia|]. destruct (all_zero h); [exfalso; lia|reflexivity].
  - exists (zeros n), 0. rewrite <- app_assoc.
    rewrite <- (Zlen_zeros' n Hn) at 1. rewrite pull_bytes_app.
    split; [reflexivity|]. split; [lia|]. now rewrite all_zero_zeros.
Qed.

Lemma pull_uint16_enc v rest : 0 <= v < 65536 -> pull_uint16 (be_enc 2 v ++ rest) = Ok (v, rest).
Proof. intros. apply (pull_be_roundtrip 2). exact H. Qed.

Definition pref_bytes (a4 a6 : addr) (cid tok : list Z) : list Z :=
  addr_bytes 4 a4 ++ addr_bytes 16 a6 ++ be_enc 1 (Zlen cid) ++ cid ++ tok.

Lemma flatten_pref a4 a6 cid tok :
  flatten (push_preferred_address a4 a6 cid tok) = Ok (pref_bytes a4 a6 cid tok).
Proof.
  unfold push_preferred_address, pref_bytes, addr_bytes, push_bytes, push_uint16, push_uint8.
  destruct a4 as [[h4 p4]|], a6 as [[h6 p6]|]; cbn [app flatten bind];
    repeat rewrite <- app_assoc; rewrite ?app_nil_r; reflexivity.
Qed.

Lemma Zlen_addr_bytes n a : 0 <= n -> addr_wf n a = true -> Zlen (addr_bytes n a) = n + 2.
Proof.
  intros Hn W. destruct a as [[h p]|]; cbn [addr_wf addr_bytes] in *; rewrite Zlen_app, be_enc_Zlen.
  - lia.
  - rewrite Zlen_zeros' by lia. lia.
Qed.

Lemma pull_pref_enc a4 a6 cid tok rest :
  addr_wf 4 a4 = true -> addr_wf 16 a6 = true -> Zlen cid < 256 -> Zlen tok = 16 ->
  pull_preferred_address (pref_bytes a4 a6 cid tok ++ rest) = Ok (PPref a4 a6 cid tok, rest).
Proof.
  intros W4 W6 Hc Ht. unfold pull_preferred_address, pref_bytes.
  repeat rewrite <- app_assoc.
  destruct (pull_addr_enc 4 a4 (addr_bytes 16 a6 ++ be_enc 1 (Zlen cid) ++ cid ++ tok ++ rest) ltac:(lia) W4)
    as (h4 & p4 & E4 & R4 & A4).
  rewrite E4. cbn [bind]. rewrite pull_uint16_enc by lia. cbn [bind].
  destruct (pull_addr_enc 16 a6 (be_enc 1 (Zlen cid) ++ cid ++ tok ++ rest) ltac:(lia) W6)
    as (h6 & p6 & E6 & R6 & A6).
  rewrite E6. cbn [bind]. rewrite pull_uint16_enc by lia. cbn [bind].
  pose proof (Zlen_nonneg cid) as Hc0.
  rewrite pull_uint8_enc by lia. cbn [bind].
  rewrite pull_bytes_app. cbn [bind].
  rewrite <- Ht. rewrite pull_bytes_app. cbn [bind].
  rewrite A4, A6. reflexivity.
Qed.

(* ---- one parameter value -------------------------------------------------------------------------- *)
Lemma assoc_PARAMS_kind id k : assoc id PARAMS = Some k ->
  (k = 0 \/ k = 1 \/ k = 2 \/ k = 3 \/ k = 4) /\ 0 <= id < 2 ^ 62.
Proof.
  unfold PARAMS. cbn [assoc].
  repeat match goal with
         | |- context [if ?a =? id then _ else _] => destruct (a =? id) eqn:?
         end; intros H; try discriminate H; injection H as <-; lia.
Qed.

Lemma pull_pval_enc kind v id rest :
  assoc id PARAMS = Some kind -> pval_wf kind v = true ->
  exists body, flatten (push_pval v) = Ok body /\ Zlen body <= 65536 /\
               pull_param_value id (Zlen body) (body ++ rest) = Ok (Some v, rest).
Proof.
  intros A W. unfold pull_param_value. rewrite A.
  destruct v as [x|b| |a4 a6 cid tok|c a]; cbn [pval_wf push_pval] in *.
  - (* int *)
    assert (Hk : kind = 0) by lia. subst kind. cbn [Z.eqb].
    destruct (varint_roundtrip x rest ltac:(lia)) as (bs & P & Q).
    destruct (varint_length_prefix x ltac:(lia)) as (bs' & P' & L & _).
    rewrite P in P'. injection P' as <-.
    exists bs. rewrite P. cbn [flatten bind]. rewrite app_nil_r.
    split; [reflexivity|]. split; [unfold var_size in L; destruct (x <? 64), (x <? 16384), (x <? 1073741824); lia|].
    rewrite Q. reflexivity.
  - (* bytes *)
    assert (Hk : kind = 1) by lia. subst kind. cbn [Z.eqb Pos.eqb].
    exists b. unfold push_bytes. cbn [flatten bind]. rewrite app_nil_r.
    split; [reflexivity|]. split; [lia|].
    rewrite pull_bytes_app. reflexivity.
  - (* bool *)
    assert (Hk : kind = 2) by lia. subst kind. cbn [Z.eqb Pos.eqb].
    exists []. split; [reflexivity|]. split; [cbn; lia|]. reflexivity.
  - (* preferred address *)
    assert (Hk : kind = 3) by lia. subst kind. cbn [Z.eqb Pos.eqb].
    assert (W4 : addr_wf 4 a4 = true) by lia. assert (W6 : addr_wf 16 a6 = true) by lia.
    exists (pref_bytes a4 a6 cid tok). split; [apply flatten_pref|]. split.
    + unfold pref_bytes. repeat rewrite Zlen_app.
      rewrite (Zlen_addr_bytes 4 a4), (Zlen_addr_bytes 16 a6), be_enc_Zlen by (assumption || lia). lia.
    + rewrite pull_pref_enc by (assumption || lia). reflexivity.
  - (* version information *)
    assert (Hk : kind = 4) by lia. subst kind. cbn [Z.eqb Pos.eqb].
    assert (Wc : u32_posb c = true) by lia. assert (Wa : forallb u32_posb a = true) by lia.
    exists (be_enc 4 c ++ u32s a). split.
    + unfold push_uint32 at 1. cbn [flatten]. rewrite flatten_u32s. reflexivity.
    + rewrite Zlen_app, be_enc_Zlen, Zlen_u32s. split; [lia|].
      rewrite <- app_assoc. change (Z.of_nat 4) with 4.
      rewrite pull_ver_enc by assumption. reflexivity.
Qed.

(* ---- one (id, length, value) entry: one iteration of the decoder's loop ---------------------------- *)
Definition entry_ok (e : Z * pval) : Prop :=
  exists kind, assoc (fst e) PARAMS = Some kind /\ pval_wf kind (snd e) = true.

Lemma varint_nonempty v bs : 0 <= v < 2 ^ 62 -> push_uint_var v = Ok bs -> (1 <= length bs)%nat.
Proof.
  intros Hv P. destruct (varint_length_prefix v Hv) as (bs' & P' & L & _).
  rewrite P in P'. injection P' as <-. unfold var_size, Zlen in L.
  destruct (v <? 64), (v <? 16384), (v <? 1073741824); lia.
Qed.

Lemma push_param_step id v : entry_ok (id, v) ->
  exists bs, flatten (push_param id v) = Ok bs /\ (1 <= length bs)%nat /\
    forall fuel acc rest, pull_tparams (S fuel) acc (bs ++ rest) = pull_tparams fuel (tp_set id v acc) rest.
Proof.
  intros (kind & A & W). cbn [fst snd] in *.
  destruct (assoc_PARAMS_kind id kind A) as [_ Hid].
  destruct (pull_pval_enc kind v id [] A W) as (body & F & L & _).
  unfold push_param. rewrite (w_chunks_flatten _ 65536 [] body F) by (cbn; lia). cbn [app].
  pose proof (Zlen_nonneg body) as Hb.
  destruct (varint_roundtrip id [] Hid) as (bi & Pi & _).
  destruct (varint_roundtrip (Zlen body) [] ltac:(lia)) as (bl & Pl & _).
  exists (bi ++ bl ++ body). rewrite Pi, Pl. unfold push_bytes. cbn [flatten bind]. rewrite app_nil_r.
  split; [reflexivity|]. split.
  { pose proof (varint_nonempty id bi Hid Pi). rewrite app_length. lia. }
  intros fuel acc rest.
  pose proof (varint_nonempty id bi Hid Pi) as Ni.
  cbn [pull_tparams].
  destruct ((bi ++ bl ++ body) ++ rest) as [|b0 t] eqn:Eb.
  { apply (f_equal (@length Z)) in Eb. rewrite !app_length in Eb. cbn [length] in Eb. lia. }
  rewrite <- Eb. clear Eb b0 t.
  repeat rewrite <- app_assoc.
  destruct (varint_roundtrip id (bl ++ body ++ rest) Hid) as (bi' & Pi' & Qi). rewrite Pi in Pi'. injection Pi' as <-.
  rewrite Qi. cbn [bind].
  destruct (varint_roundtrip (Zlen body) (body ++ rest) ltac:(lia)) as (bl' & Pl' & Ql). rewrite Pl in Pl'. injection Pl' as <-.
  rewrite Ql. cbn [bind].
  destruct (pull_pval_enc kind v id rest A W) as (body' & F' & _ & Q).
  rewrite F in F'. injection F' as <-.
  rewrite Q. cbn [bind].
  rewrite Zlen_app. replace (Zlen body + Zlen rest - Zlen rest =? Zlen body) with true by lia.
  reflexivity.
Qed.

Definition set_entry (a : tparams) (e : Z * pval) : tparams := tp_set (fst e) (snd e) a.

Lemma push_entries_step es : Forall entry_ok es ->
  exists bs, flatten (flat_map (fun e => push_param (fst e) (snd e)) es) = Ok bs /\
    (length es <= length bs)%nat /\
    forall fuel acc, (length es <= fuel)%nat -> pull_tparams fuel acc bs = Ok (fold_left set_entry es acc).
Proof.
  induction 1 as [|[id v] t He _ (bt & Ft & Lt & Pt)].
  - exists []. split; [reflexivity|]. split; [cbn; lia|]. intros fuel acc _. destruct fuel; reflexivity.
  - destruct (push_param_step id v He) as (be & Fe & Le & Pe).
    exists (be ++ bt). split; [|split].
    + cbn [flat_map fst snd]. apply flatten_app; assumption.
    + rewrite app_length. cbn [length]. lia.
    + intros fuel acc Lf. destruct fuel as [|f]; [cbn [length] in Lf; lia|].
      rewrite Pe. cbn [fold_left]. apply Pt. cbn [length] in Lf. lia.
Qed.

(* ---- association lists in table order --------------------------------------------------------------- *)
Lemma entries_keys ks : forall fs k, In k (map fst (entries ks fs)) -> In k (map fst ks).
Proof.
  induction ks as [|[id kind] ks IH]; intros fs k H; [destruct fs; contradiction|].
  destruct fs as [|[v|] fs]; cbn [entries map fst In] in *; [contradiction| |].
  - destruct H as [H|H]; [left; exact H|right; eapply IH; exact H].
  - right. eapply IH; exact H.
Qed.

Lemma assoc_notin {A} k (l : list (Z * A)) : ~ In k (map fst l) -> assoc k l = None.
Proof.
  induction l as [|[k' v] t IH]; intros N; [reflexivity|]. cbn [assoc map fst In] in *.
  destruct (k' =? k) eqn:E; [exfalso; apply N; left; lia|]. apply IH. tauto.
Qed.

Lemma entries_nodup ks : NoDup (map fst ks) -> forall fs, NoDup (map fst (entries ks fs)).
Proof.
  induction ks as [|[id kind] ks IH]; intros N fs; [destruct fs; constructor|].
  cbn [map fst] in N. inversion N as [|? ? Nid Nks]; subst.
  destruct fs as [|[v|] fs]; cbn [entries map fst]; [constructor| |apply IH; assumption].
  constructor; [|apply IH; assumption]. intros H. apply Nid. eapply entries_keys; exact H.
Qed.

(* the encoder's `for param_id in PARAMS: getattr(...)` walk visits exactly the entries, in order *)
Lemma push_walk ks : NoDup (map fst ks) -> forall fs p,
  length fs = length ks ->
  (forall k, In k (map fst ks) -> assoc k p = assoc k (entries ks fs)) ->
  flat_map (fun e => match assoc (fst e) p with Some v => push_param (fst e) v | None => [] end) ks
  = flat_map (fun e => push_param (fst e) (snd e)) (entries ks fs).
Proof.
  induction ks as [|[id kind] ks IH]; intros N fs p L H; [reflexivity|].
  cbn [map fst] in N. inversion N as [|? ? Nid Nks]; subst.
  destruct fs as [|f fs]; [discriminate L|]. cbn [length] in L.
  cbn [flat_map fst]. rewrite (H id) by (left; reflexivity).
  destruct f as [v|]; cbn [entries].
  - cbn [assoc flat_map fst snd]. rewrite Z.eqb_refl. f_equal.
    apply IH; [assumption|lia|]. intros k Hk. rewrite (H k) by (right; exact Hk).
    cbn [entries assoc]. destruct (id =? k) eqn:E; [|reflexivity].
    exfalso. apply Nid. assert (id = k) as -> by lia. exact Hk.
  - rewrite (assoc_notin id (entries ks fs)) by (intros Hin; apply Nid; eapply entries_keys; exact Hin).
    cbn [app]. apply IH; [assumption|lia|]. intros k Hk. rewrite (H k) by (right; exact Hk). reflexivity.
Qed.

Lemma filter_notin id (acc : tparams) : ~ In id (map fst acc) ->
  filter (fun p => negb (fst p =? id)) acc = acc.
Proof.
  induction acc as [|[k v] t IH]; intros N; [reflexivity|]. cbn [filter fst map In] in *.
  destruct (k =? id) eqn:E; [exfalso; apply N; left; lia|]. cbn [negb]. f_equal. apply IH. tauto.
Qed.

(* setattr per decoded entry rebuilds the same list when no id repeats *)
Lemma fold_set_entries es : forall acc, NoDup (map fst es) ->
  (forall k, In k (map fst es) -> ~ In k (map fst acc)) ->
  fold_left set_entry es acc = acc ++ es.
Proof.
  induction es as [|[id v] t IH]; intros acc N D; cbn [fold_left]; [now rewrite app_nil_r|].
  cbn [map fst] in N. inversion N as [|? ? Nid Nt]; subst.
  unfold set_entry at 2. cbn [fst snd]. unfold tp_set.
  rewrite filter_notin by (apply D; left; reflexivity).
  rewrite IH; [now rewrite <- app_assoc| assumption|].
  intros k Hk. rewrite map_app, in_app_iff. cbn [map fst In].
  intros [Hin|[<-|[]]]; [exact (D k (or_intror Hk) Hin)|exact (Nid Hk)].
Qed.

(* ---- well-formed attribute lists --------------------------------------------------------------------- *)
Fixpoint fields_wf (ks : list (Z * Z)) (fs : list (option pval)) : bool :=
  match ks, fs with
  | [], [] => true
  | (_, kind) :: ks', f :: fs' =>
      (match f with Some v => pval_wf kind v | None => true end) && fields_wf ks' fs'
  | _, _ => false
  end.

Lemma fields_wf_length ks : forall fs, fields_wf ks fs = true -> length fs = length ks.
Proof.
  induction ks as [|[id kind] ks IH]; intros [|f fs] W; cbn [fields_wf] in W; try discriminate; [reflexivity|].
  apply andb_prop in W as [_ W]. cbn [length]. f_equal. apply IH. exact W.
Qed.

Lemma In_assoc {A} (l : list (Z * A)) k v : NoDup (map fst l) -> In (k, v) l -> assoc k l = Some v.
Proof.
  induction l as [|[k' v'] t IH]; intros N H; [contradiction|].
  cbn [map fst] in N. inversion N as [|? ? Nk Nt]; subst. cbn [assoc].
  destruct H as [H|H].
  - injection H as -> ->. now rewrite Z.eqb_refl.
  - destruct (k' =? k) eqn:E; [|apply IH; assumption].
    exfalso. apply Nk. assert (k' = k) as -> by lia. apply (in_map fst) in H. exact H.
Qed.

Lemma fields_wf_entries ks : forall fs, fields_wf ks fs = true ->
  Forall (fun e => exists kind, In (fst e, kind) ks /\ pval_wf kind (snd e) = true) (entries ks fs).
Proof.
  induction ks as [|[id kind] ks IH]; intros [|f fs] W; cbn [fields_wf entries] in *; try discriminate; [constructor|].
  apply andb_prop in W as [Wf W]. specialize (IH fs W).
  assert (IH' : Forall (fun e => exists kind0, In (fst e, kind0) ((id, kind) :: ks) /\ pval_wf kind0 (snd e) = true)
                       (entries ks fs)).
  { eapply Forall_impl; [|exact IH]. intros e (k0 & Hin & Hw). exists k0. split; [right; exact Hin|exact Hw]. }
  destruct f as [v|]; [|exact IH'].
  constructor; [|exact IH']. exists kind. split; [left; reflexivity|exact Wf].
Qed.

Lemma PARAMS_nodup : NoDup (map fst PARAMS).
Proof.
  unfold PARAMS. cbn [map fst].
  repeat (constructor; [cbn [In]; intros H; repeat (destruct H as [H|H]; [discriminate H|]); exact H|]).
  constructor.
Qed.

(* ---- the round trip over attribute lists ----------------------------------------------------------------- *)
Theorem tparams_roundtrip_fields fs : fields_wf PARAMS fs = true ->
  exists bytes, flatten (push_quic_transport_parameters (entries PARAMS fs)) = Ok bytes /\
                pull_quic_transport_parameters bytes = Ok (entries PARAMS fs).
Proof.
  intros W.
  assert (E : Forall entry_ok (entries PARAMS fs)).
  { eapply Forall_impl; [|exact (fields_wf_entries PARAMS fs W)].
    intros e (kind & Hin & Hw). exists kind. split; [|exact Hw].
    apply In_assoc; [exact PARAMS_nodup|exact Hin]. }
  destruct (push_entries_step _ E) as (bs & F & L & P).
  exists bs. split.
  - unfold push_quic_transport_parameters.
    rewrite (push_walk PARAMS PARAMS_nodup fs (entries PARAMS fs) (fields_wf_length _ _ W)) by reflexivity.
    exact F.
  - unfold pull_quic_transport_parameters. rewrite (P (length bs) [] L).
    rewrite fold_set_entries; [reflexivity|apply entries_nodup, PARAMS_nodup|intros k _ H; exact H].
Qed.

(* ---- the dataclass ------------------------------------------------------------------------------------------ *)
(* every attribute in range; disable_active_migration is a bool (None decodes as False, see below) *)
Definition qtp_wf (r : qtp) : bool :=
  fields_wf PARAMS (qtp_fields r) &&
  match q_disable_active_migration r with Some _ => true | None => false end.

Lemma assoc_entries_cons k k' kind ks f fs :
  assoc k (entries ((k', kind) :: ks) (f :: fs)) =
  match (if k' =? k then f else None) with Some v => Some v | None => assoc k (entries ks fs) end.
Proof.
  destruct f as [v|]; cbn [entries assoc]; destruct (k' =? k); reflexivity.
Qed.

Ltac lookup :=
  unfold PARAMS, qtp_fields;
  repeat (rewrite assoc_entries_cons; cbn [Z.eqb Pos.eqb]);
  cbn [entries assoc].

Lemma mkQtp_eq a0 a1 a2 a3 a4 a5 a6 a7 a8 a9 a10 a11 a12 a13 a14 a15 a16 a17 a18 a19 b0 b1 b2 b3 b4 b5 b6 b7 b8 b9 b10 b11 b12 b13 b14 b15 b16 b17 b18 b19 :
  a0 = b0 -> a1 = b1 -> a2 = b2 -> a3 = b3 -> a4 = b4 -> a5 = b5 -> a6 = b6 -> a7 = b7 -> a8 = b8 -> a9 = b9 -> a10 = b10 -> a11 = b11 -> a12 = b12 -> a13 = b13 -> a14 = b14 -> a15 = b15 -> a16 = b16 -> a17 = b17 -> a18 = b18 -> a19 = b19 ->
  mkQtp a0 a1 a2 a3 a4 a5 a6 a7 a8 a9 a10 a11 a12 a13 a14 a15 a16 a17 a18 a19 = mkQtp b0 b1 b2 b3 b4 b5 b6 b7 b8 b9 b10 b11 b12 b13 b14 b15 b16 b17 b18 b19.
Proof. intros. subst. reflexivity. Qed.

Lemma qtp_of_tp_of_qtp r :
  match q_disable_active_migration r with Some _ => True | None => False end ->
  qtp_of_tp (entries PARAMS (qtp_fields r)) = r.
Proof.
  destruct r as [f0 f1 f2 f3 f4 f5 f6 f7 f8 f9 f10 f11 f12 f13 f14 f15 f16 f17 f18 f19].
  cbn [q_disable_active_migration]. intros D.
  unfold qtp_of_tp, get_int, get_bytes, get_pref, get_ver, get_flag.
  apply mkQtp_eq; lookup;
    cbn [q_original_destination_connection_id q_max_idle_timeout q_stateless_reset_token
         q_max_udp_payload_size q_initial_max_data q_initial_max_stream_data_bidi_local
         q_initial_max_stream_data_bidi_remote q_initial_max_stream_data_uni q_initial_max_streams_bidi
         q_initial_max_streams_uni q_ack_delay_exponent q_max_ack_delay q_disable_active_migration
         q_preferred_address q_active_connection_id_limit q_initial_source_connection_id
         q_retry_source_connection_id q_version_information q_max_datagram_frame_size q_quantum_readiness].
  all: try (match goal with |- context [opt_pv _ ?f] => destruct f as [x|]; cbn [opt_pv]; try reflexivity end).
  - destruct f12 as [[|]|]; cbn [pv_flag]; try reflexivity. contradiction.
  - destruct x as [[[a4 a6] cid] tok]. reflexivity.
  - destruct x as [c a]. reflexivity.
Qed.

Theorem tparams_roundtrip r : qtp_wf r = true ->
  exists bytes, flatten (push_qtp r) = Ok bytes /\ pull_qtp bytes = Ok r.
Proof.
  intros W. unfold qtp_wf in W. apply andb_prop in W as [W D].
  destruct (tparams_roundtrip_fields (qtp_fields r) W) as (bytes & F & P).
  exists bytes. split; [exact F|].
  unfold pull_qtp. rewrite P. cbn [bind]. f_equal.
  apply (qtp_of_tp_of_qtp r). destruct (q_disable_active_migration r); [exact I|discriminate D].
Qed.

(* the same through a Buffer of any sufficient capacity *)
Theorem tparams_roundtrip_buffer r cap : qtp_wf r = true ->
  exists bytes, flatten (push_qtp r) = Ok bytes /\
    (Zlen bytes <= cap -> w_chunks cap [] (push_qtp r) = Ok bytes) /\ pull_qtp bytes = Ok r.
Proof.
  intros W. destruct (tparams_roundtrip r W) as (bytes & F & P).
  exists bytes. split; [exact F|]. split; [|exact P].
  intros L. apply (w_chunks_flatten _ cap [] bytes F). cbn. lia.
Qed.

(* ---- non-vacuity: every attribute set, boundary values ----------------------------------------------------------- *)
Definition qtp_example : qtp :=
  mkQtp (Some [1; 2; 3; 4; 5; 6; 7; 8]) (Some 30000) (Some (repeat 170 16)) (Some 65527)
        (Some 4611686018427387903) (Some 0) (Some 63) (Some 64) (Some 16383) (Some 16384)
        (Some 3) (Some 25) (Some true)
        (Some (Some ([192; 0; 2; 1], 443), Some ([32; 1; 13; 184] ++ repeat 0 11 ++ [1], 65535),
               repeat 7 20, repeat 255 16))
        (Some 8) (Some []) (Some (repeat 9 20)) (Some (1, [1; 1798521807; 4294967295]))
        (Some 65535) (Some (repeat 0 300)).

Example qtp_example_wf : qtp_wf qtp_example = true.
Proof. vm_compute. reflexivity. Qed.

Example qtp_example_runs :
  match flatten (push_qtp qtp_example) with
  | Ok bytes => pull_qtp bytes = Ok qtp_example /\ Zlen bytes = 496
  | Err _ => False
  end.
Proof. vm_compute. split; reflexivity. Qed.

(* ---- the boundary of the domain: values that ENCODE without error but do not come back ----------------------------
   "typed" = what the type annotations and the integer ranges of the wire format allow; it differs
   from qtp_wf only by (a) the all-zero host test and (b) disable_active_migration = None. *)
Definition addr_typed (n : Z) (a : addr) : bool :=
  match a with
  | None => true
  | Some (h, p) => (Zlen h =? n) && (0 <=? p) && (p <? 65536)
  end.

(* preferred_address.ipv4_address = ("0.0.0.0", 443): sent as 00000000 01bb, read back as None *)
Definition qtp_zero_ip : qtp :=
  mkQtp None None None None None None None None None None None None (Some false)
        (Some (Some ([0; 0; 0; 0], 443), None, [1; 2; 3; 4], repeat 5 16))
        None None None None None None.

Theorem tparams_roundtrip_zero_ip_refuted :
  addr_typed 4 (Some ([0; 0; 0; 0], 443)) = true /\
  exists bytes r', flatten (push_qtp qtp_zero_ip) = Ok bytes /\ pull_qtp bytes = Ok r' /\ r' <> qtp_zero_ip /\
    q_preferred_address r' = Some (None, None, [1; 2; 3; 4], repeat 5 16).
Proof.
  split; [reflexivity|].
  eexists. eexists. split; [vm_compute; reflexivity|]. split; [vm_compute; reflexivity|].
  split; [discriminate|reflexivity].
Qed.

(* disable_active_migration = None (allowed by Optional[bool]) is read back as False *)
Definition qtp_none_flag : qtp :=
  mkQtp None (Some 30000) None None None None None None None None None None None None None None None None None None.

Theorem tparams_roundtrip_none_flag_refuted :
  exists bytes r', flatten (push_qtp qtp_none_flag) = Ok bytes /\ pull_qtp bytes = Ok r' /\ r' <> qtp_none_flag /\
    q_disable_active_migration r' = Some false.
Proof.
  eexists. eexists. split; [vm_compute; reflexivity|]. split; [vm_compute; reflexivity|].
  split; [discriminate|reflexivity].
Qed.

(* values the encoder accepts and the decoder REJECTS: version 0 (ValueError), a 256-byte connection id
   in the preferred address (its length byte wraps to 0: "length does not match") *)
Example tparams_encode_ok_decode_error :
  (exists bytes, flatten (push_quic_transport_parameters [(0x11, PVer 0 [1])]) = Ok bytes /\
                 pull_quic_transport_parameters bytes = Err E_VALUE) /\
  (exists bytes, flatten (push_quic_transport_parameters [(0x0D, PPref None None (repeat 1 256) (repeat 2 16))]) = Ok bytes /\
                 pull_quic_transport_parameters bytes = Err E_VALUE).
Proof. split; eexists; (split; [vm_compute; reflexivity|vm_compute; reflexivity]). Qed.
