(* C07: exact connection-level accounting.  In a tree where an accepted RESET_STREAM advances highest_offset to the
   final size (RESET_ADVANCES_HIGHEST, probed from the source), max_data.used is EXACTLY the sum of highest_offset over
   all streams (live ones + the ghost total of the discarded ones), after every op sequence. *)
From Coq Require Import ZArith List Bool Lia ZifyBool.
From AQ Require Import lib.Base model.RangeSet model.StreamRecv model.ConnLimits gen.C07Consts
  proofs.RangeSetP proofs.ListZ proofs.ConnLimitsP.

Definition UE (c : conn) : Prop := l_used (c_data c) = sum_hi (c_streams c) + c_gone c.

Lemma goc_ue c sid s c1 : UE c -> get_or_create c sid = GStream s c1 -> UE c1.
Proof.
  unfold UE, get_or_create. intros U.
  destruct (existsb (Z.eqb sid) (c_done c)); [discriminate|].
  destruct (sget sid (c_streams c)); [intros H; inversion H; subst; exact U|].
  destruct (Bool.eqb (client_initiated sid) (c_client c)); [discriminate|].
  destruct (unidirectional sid); (destruct (_ >? _); [discriminate|]); intros H; inversion H; subst; cbn;
    rewrite sum_hi_app, sum_hi_cons; unfold hi_of; cbn; unfold sum_hi in *; cbn; lia.
Qed.

Lemma update_ue c1 sid s r' n :
  UE c1 -> sget sid (c_streams c1) = Some s -> n = r_highest r' - r_highest (sm_recv s) ->
  UE (add_used (set_streams c1 (sset sid (with_recv s r') (c_streams c1))) n).
Proof.
  unfold UE. intros U G Hn. cbn. rewrite (sum_hi_sset _ _ _ _ G). cbn. lia.
Qed.

Lemma step_ue c o r c' : RESET_ADVANCES_HIGHEST = true -> CInv c -> UE c -> step c o = (r, c') -> UE c'.
Proof.
  intros Flag I U. destruct o; cbn [step].
  - unfold handle_stream.
    destruct (_ >? UINT_VAR_MAX); [intros H; inversion H; subst; exact U|].
    destruct (negb (can_receive c sid)); [intros H; inversion H; subst; exact U|].
    destruct (get_or_create c sid) as [s c1| |code] eqn:G; try (intros H; inversion H; subst; exact U).
    destruct (goc_inv _ _ _ _ I G) as (I1 & G1 & (B & Hm) & D). pose proof (goc_ue _ _ _ _ U G) as U1.
    destruct (_ >? sm_msd s); [intros H; inversion H; subst; exact U|].
    destruct (_ >? l_value (c_data c1)); [intros H; inversion H; subst; exact U|].
    pose proof (hf_bounds (sm_recv s) off data (Z.odd ft) B) as HB.
    destruct (handle_frame (sm_recv s) off data (Z.odd ft)) as [o r']. destruct HB as (_ & _ & _ & _ & Hh).
    destruct o; intros H; inversion H; subst; try exact U; (apply update_ue; [exact U1|exact G1|rewrite Hh by discriminate; lia]).
  - unfold handle_reset_stream.
    destruct (negb (can_receive c sid)); [intros H; inversion H; subst; exact U|].
    destruct (get_or_create c sid) as [s c1| |code] eqn:G; try (intros H; inversion H; subst; exact U).
    destruct (goc_inv _ _ _ _ I G) as (I1 & G1 & (B & Hm) & D). pose proof (goc_ue _ _ _ _ U G) as U1.
    destruct (_ >? sm_msd s); [intros H; inversion H; subst; exact U|].
    destruct (_ >? l_value (c_data c1)); [intros H; inversion H; subst; exact U|].
    pose proof (hr_bounds (sm_recv s) final_size B) as HB.
    destruct (handle_reset (sm_recv s) final_size) as [o r']. destruct HB as (B' & _ & _ & Hh).
    destruct (bump_bounds r' final_size B') as (_ & _ & _ & _ & Hx). specialize (Hx Flag).
    destruct o; intros H; inversion H; subst; try exact U; (apply update_ue; [exact U1|exact G1|rewrite Hx, Hh; lia]).
  - unfold handle_touch. destruct (negb _); [intros H; inversion H; subst; exact U|].
    destruct (get_or_create c sid) as [s c1| |code] eqn:G; try (intros H; inversion H; subst; exact U).
    intros H; inversion H; subst. eapply goc_ue; eassumption.
  - intros H; inversion H; subst. unfold local_open, UE in *. destruct (negb (can_send c sid)); [exact U|]. destruct (sget sid (c_streams c)); [exact U|].
    destruct (negb (Bool.eqb (client_initiated sid) (c_client c))); [exact U|].
    cbn. rewrite sum_hi_app, sum_hi_cons. unfold hi_of; cbn. unfold sum_hi in *; cbn. lia.
  - unfold write.
    pose proof (raise_streams_props _ (ci_streams _ I)) as PS.
    destruct (raise_limit FT_MAX_DATA (c_data c)) as [d wd] eqn:RD.
    destruct (raise_limit FT_MAX_STREAMS_BIDI (c_bidi c)) as [b wb].
    destruct (raise_limit FT_MAX_STREAMS_UNI (c_uni c)) as [u wu].
    destruct (raise_streams (c_streams c)) as [ss ws]. cbv zeta in PS. cbn [fst] in PS. destruct PS as (_ & S2 & _).
    assert (Hd : l_used d = l_used (c_data c)).
    { unfold raise_limit in RD. destruct (l_used (c_data c) * 2 >? l_value (c_data c));
        match type of RD with (if ?b then _ else _) = _ => destruct b end; inversion RD; reflexivity. }
    intros H; inversion H; subst; clear H. unfold UE in *. cbn [c_data c_streams c_gone].
    change (fold_right (fun p a => r_highest (sm_recv (snd p)) + a) 0) with sum_hi.
    pose proof (sum_hi_split (fun p => stream_finished (snd p)) ss) as SP. cbv beta in SP. lia.
  - intros H; inversion H; subst. unfold UE, limit_lost in *. destruct (which =? 0); [|destruct (which =? 1)]; cbn; exact U.
  - intros H; inversion H; subst. unfold UE, stream_limit_lost in *. destruct (sget sid (c_streams c)) as [s|] eqn:G; [|exact U].
    cbn. rewrite (sum_hi_sset _ _ _ _ G). cbn. lia.
  - unfold handle_crypto.
    destruct (_ >? UINT_VAR_MAX); [intros H; inversion H; subst; exact U|].
    destruct (_ >? MAX_PENDING_CRYPTO); [intros H; inversion H; subst; exact U|].
    destruct (handle_frame (c_crypto c) off data false) as [o r'].
    destruct o as [|d0 f0| |]; try (intros H; inversion H; subst; exact U).
    destruct (tls_parse _ _); intros H; inversion H; subst; exact U.
  - unfold handle_path_challenge. intros H; inversion H; subst. destruct (Zlen (c_chal c) <? MAX_REMOTE_CHALLENGES); exact U.
  - intros H; inversion H; subst. exact U.
  - unfold handle_new_cid.
    destruct (rpt >? seq); [intros H; inversion H; subst; exact U|].
    match goal with |- context[match ?x with Some _ => _ | None => _ end] => destruct x as [[active' avail3]|] end;
      [|destruct NCID_EMPTY_CLOSES; intros H; inversion H; subst; exact U].
    destruct (1 + Zlen avail3 >? LOCAL_ACTIVE_CID_LIMIT); [intros H; inversion H; subst; exact U|].
    match goal with |- context[if over_retire_cap ?p ?q then _ else _] => destruct (over_retire_cap p q) end; [intros H; inversion H; subst; exact U|].
    intros H; inversion H; subst. exact U.
  - unfold handle_path_packet. destruct (pfind addr (c_paths c)); intros H; inversion H; subst; exact U.
Qed.

Lemma run_ue : RESET_ADVANCES_HIGHEST = true -> forall ops c os c', CInv c -> UE c -> run c ops = (os, c') -> UE c'.
Proof.
  intros Flag. induction ops as [|o t IH]; intros c os c' I U; cbn [run].
  - intros H; inversion H; subst; exact U.
  - destruct (step c o) as [r c1] eqn:S. pose proof (step_inv _ _ _ _ I S) as I1. pose proof (step_ue _ _ _ _ Flag I U S) as U1.
    destruct (closes r); [intros H; inversion H; subst; exact U1|].
    destruct (run c1 t) as [rs c2] eqn:R. intros H; inversion H; subst. eapply IH; eassumption.
Qed.

Lemma used_exact : forall cl msd md cb ops os c,
  0 <= msd -> 0 <= md -> 0 <= cb ->
  run (conn_init cl msd md cb) ops = (os, c) ->
  l_used (c_data c) = sum_hi (c_streams c) + c_gone c.
Proof.
  intros cl msd md cb ops os c H1 H2 H3 R.
  apply (run_ue eq_refl ops (conn_init cl msd md cb) os c); [apply CInv_init; assumption|reflexivity|exact R].
Qed.
