(* C11, connection level: the skeletons of the connection.py / tls.py functions that model/TlsQuic.v transcribes,
   PINNED as they were when the model was written (generated copy: gen/TlsQuicGen.v, re-extracted from the current
   tree on every run).  If one of these functions is edited, [quic_skeletons_as_modelled] stops compiling: look at the
   model again, then re-pin.  Also pinned: get_epoch as a table, the epochs of the CRYPTO frame, the constants. *)
From Coq Require Import ZArith List String.
From AQ Require Import gen.TlsQuicGen.
Import ListNotations.
Open Scope Z_scope.

Definition pinned_handle_crypto_frame : list string := [
  "def _handle_crypto_frame(self, context, frame_type, buf)"%string;
  "offset = buf.pull_uint_var()"%string;
  "length = buf.pull_uint_var()"%string;
  "if offset + length > UINT_VAR_MAX"%string;
  "raise QuicConnectionError(error_code=QuicErrorCode.FRAME_ENCODING_ERROR, frame_type=frame_type)"%string;
  "end"%string;
  "frame = QuicStreamFrame(offset=offset, data=buf.pull_bytes(length))"%string;
  "stream = self._crypto_streams[context.epoch]"%string;
  "pending = offset + length - stream.receiver.starting_offset()"%string;
  "if pending > MAX_PENDING_CRYPTO"%string;
  "raise QuicConnectionError(error_code=QuicErrorCode.CRYPTO_BUFFER_EXCEEDED, frame_type=frame_type)"%string;
  "end"%string;
  "event = stream.receiver.handle_frame(frame)"%string;
  "if event is not None"%string;
  "self._crypto_frame_type = frame_type"%string;
  "self._crypto_packet_version = context.version"%string;
  "try"%string;
  "self.tls.handle_message(event.data, self._crypto_buffers)"%string;
  "self._push_crypto_data()"%string;
  "except tls.Alert"%string;
  "raise QuicConnectionError(error_code=QuicErrorCode.CRYPTO_ERROR + int(exc.description), frame_type=frame_type)"%string;
  "end"%string;
  "if not self._handshake_complete and self.tls.state in [tls.State.CLIENT_POST_HANDSHAKE, tls.State.SERVER_POST_HANDSHAKE]"%string;
  "self._handshake_complete = True"%string;
  "if not self._is_client"%string;
  "self._discard_epoch(tls.Epoch.HANDSHAKE)"%string;
  "self._handshake_confirmed = True"%string;
  "self._handshake_done_pending = True"%string;
  "end"%string;
  "self._replenish_connection_ids()"%string;
  "self._events.append(events.HandshakeCompleted(alpn_protocol=self.tls.alpn_negotiated, early_data_accepted=self.tls.early_data_accepted, session_resumed=self.tls.session_resumed))"%string;
  "self._unblock_streams(is_unidirectional=False)"%string;
  "self._unblock_streams(is_unidirectional=True)"%string;
  "end"%string;
  "else"%string;
  "if not self._is_client and context.epoch == tls.Epoch.INITIAL and (not self._crypto_retransmitted)"%string;
  "self._loss.reschedule_data(now=context.time)"%string;
  "self._crypto_retransmitted = True"%string;
  "end"%string;
  "end"%string
].

Definition pinned_update_traffic_key : list string := [
  "def _update_traffic_key(self, direction, epoch, cipher_suite, secret)"%string;
  "if self._is_client and self._crypto_packet_version is not None and (not self._version_negotiated_compatible)"%string;
  "self._version = self._crypto_packet_version"%string;
  "self._version_negotiated_compatible = True"%string;
  "end"%string;
  "crypto = self._cryptos[epoch]"%string;
  "if direction == tls.Direction.ENCRYPT"%string;
  "crypto.send.setup(cipher_suite=cipher_suite, secret=secret, version=self._version)"%string;
  "else"%string;
  "crypto.recv.setup(cipher_suite=cipher_suite, secret=secret, version=self._version)"%string;
  "end"%string
].

Definition pinned_discard_epoch : list string := [
  "def _discard_epoch(self, epoch)"%string;
  "if not self._spaces[epoch].discarded"%string;
  "self._cryptos[epoch].teardown()"%string;
  "if epoch == tls.Epoch.INITIAL"%string;
  "for crypto in self._cryptos_initial.values()"%string;
  "crypto.recv._teardown_cb = NoCallback"%string;
  "crypto.send._teardown_cb = NoCallback"%string;
  "crypto.teardown()"%string;
  "end"%string;
  "end"%string;
  "self._loss.discard_space(self._spaces[epoch])"%string;
  "self._spaces[epoch].discarded = True"%string;
  "end"%string
].

Definition pinned_handle_message : list string := [
  "def handle_message(self, input_data, output_buf)"%string;
  "if self.state == State.CLIENT_HANDSHAKE_START"%string;
  "self._client_send_hello(output_buf[Epoch.INITIAL])"%string;
  "return"%string;
  "end"%string;
  "self._receive_buffer += input_data"%string;
  "while len(self._receive_buffer) >= 4"%string;
  "message_type = self._receive_buffer[0]"%string;
  "message_length = 4 + int.from_bytes(self._receive_buffer[1:4], byteorder='big')"%string;
  "if message_length > MAX_HANDSHAKE_MESSAGE_SIZE"%string;
  "raise AlertDecodeError()"%string;
  "end"%string;
  "if len(self._receive_buffer) < message_length"%string;
  "break"%string;
  "end"%string;
  "message = self._receive_buffer[:message_length]"%string;
  "self._receive_buffer = self._receive_buffer[message_length:]"%string;
  "try"%string;
  "self._handle_reassembled_message(message_type=message_type, input_buf=Buffer(data=message), output_buf=output_buf)"%string;
  "except BufferReadError"%string;
  "raise AlertDecodeError()"%string;
  "end"%string;
  "end"%string
].

Lemma quic_skeletons_as_modelled_lemma :
  sk_handle_crypto_frame = pinned_handle_crypto_frame /\
  sk_update_traffic_key = pinned_update_traffic_key /\
  sk_discard_epoch = pinned_discard_epoch /\
  sk_handle_message = pinned_handle_message /\
  get_epoch_table = [(0, 0); (1, 1); (2, 2); (3, 3); (4, 3); (5, 3)] /\
  crypto_frame_epochs = [0; 2; 3] /\
  MAX_HANDSHAKE_MESSAGE_SIZE <= MAX_PENDING_CRYPTO /\ QEC_CRYPTO_ERROR = 256.
Proof. repeat split; try reflexivity; discriminate. Qed.
