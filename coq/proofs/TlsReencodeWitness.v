(* C17: where decode -> re-encode does NOT give the input bytes back, and where the decoded record is outside the
   encoder's API.  Every byte string below was replayed on the real tls.py (pull, push, pull again) and is a corpus case
   (corpus/C17/tls-reenc-*.json).  All proofs are evaluations of the model. *)
From Coq Require Import ZArith List Bool Lia.
From AQ Require Import lib.Base lib.Tok model.Codec model.TlsCodec.
From AQ Require Import proofs.CodecProofs proofs.TlsCodecProofs proofs.TlsListProofs proofs.TlsRoundtrip proofs.TlsDumpInverse
  proofs.TlsReencode.

Definition reenc {M} (pull : list Z -> Res (list Z * list Z)) (tk : list Z -> M) (tree : M -> list tv) (bs : list Z)
  : option (list Z) :=
  match pull bs with
  | Ok (d, _) => match enc_seq (tree (tk d)) with Ok b => Some b | Err _ => None end
  | Err _ => None
  end.

Definition reenc_sh := reenc pull_server_hello tk_server_hello tree_server_hello.
Definition reenc_ee := reenc pull_encrypted_extensions tk_encrypted_extensions tree_encrypted_extensions.
Definition reenc_cr := reenc pull_certificate_request tk_certificate_request tree_certificate_request.
Definition reenc_ch := reenc pull_client_hello tk_client_hello tree_client_hello.

Definition w_nst_order : list Z :=
  [4; 0; 0; 27; 0; 0; 0; 1; 0; 0; 0; 2; 0; 0; 1; 7; 0; 13; 0; 57; 0; 1; 1; 0; 42; 0; 4; 0; 0; 16; 0].
Definition w_sh_dup : list Z :=
  [2; 0; 0; 52; 3; 3; 0; 0; 0; 0; 0; 0; 0; 0; 0; 0; 0; 0; 0; 0; 0; 0; 0; 0; 0; 0; 0; 0; 0; 0; 0; 0; 0; 0; 0; 0; 0; 0; 0; 19; 1; 0; 0; 12; 0; 43; 0; 2; 3; 3; 0; 43; 0; 2; 3; 4].
Definition w_sh_order_known : list Z :=
  [2; 0; 0; 55; 3; 3; 0; 0; 0; 0; 0; 0; 0; 0; 0; 0; 0; 0; 0; 0; 0; 0; 0; 0; 0; 0; 0; 0; 0; 0; 0; 0; 0; 0; 0; 0; 0; 0; 0; 19; 1; 0; 0; 15; 0; 51; 0; 5; 0; 29; 0; 1; 9; 0; 43; 0; 2; 3; 4].
Definition w_sh_order_other : list Z :=
  [2; 0; 0; 51; 3; 3; 0; 0; 0; 0; 0; 0; 0; 0; 0; 0; 0; 0; 0; 0; 0; 0; 0; 0; 0; 0; 0; 0; 0; 0; 0; 0; 0; 0; 0; 0; 0; 0; 0; 19; 1; 0; 0; 11; 0; 57; 0; 1; 1; 0; 43; 0; 2; 3; 4].
Definition w_ee_alpn_two : list Z :=
  [8; 0; 0; 14; 0; 12; 0; 16; 0; 8; 0; 6; 2; 104; 51; 2; 104; 50].
Definition w_ee_alpn_skip : list Z :=
  [8; 0; 0; 14; 0; 12; 0; 16; 0; 8; 0; 6; 2; 255; 51; 2; 104; 50].
Definition w_ee_order : list Z :=
  [8; 0; 0; 15; 0; 13; 0; 42; 0; 0; 0; 16; 0; 5; 0; 3; 2; 104; 51].
Definition w_cr_none : list Z :=
  [13; 0; 0; 3; 0; 0; 0].
Definition w_cr_dup : list Z :=
  [13; 0; 0; 19; 0; 0; 16; 0; 13; 0; 4; 0; 2; 8; 4; 0; 13; 0; 4; 0; 2; 4; 3].
Definition w_cr_order : list Z :=
  [13; 0; 0; 15; 0; 0; 12; 0; 57; 0; 0; 0; 13; 0; 4; 0; 2; 8; 4].
Definition w_ch_canonical : list Z :=
  [1; 0; 0; 77; 3; 3; 0; 0; 0; 0; 0; 0; 0; 0; 0; 0; 0; 0; 0; 0; 0; 0; 0; 0; 0; 0; 0; 0; 0; 0; 0; 0; 0; 0; 0; 0; 0; 0; 0; 0; 2; 19; 1; 1; 0; 0; 34; 0; 51; 0; 7; 0; 5; 0; 29; 0; 1; 9; 0; 43; 0; 3; 2; 3; 4; 0; 13; 0; 4; 0; 2; 8; 4; 0; 10; 0; 4; 0; 2; 0; 29].
Definition w_ch_none : list Z :=
  [1; 0; 0; 66; 3; 3; 0; 0; 0; 0; 0; 0; 0; 0; 0; 0; 0; 0; 0; 0; 0; 0; 0; 0; 0; 0; 0; 0; 0; 0; 0; 0; 0; 0; 0; 0; 0; 0; 0; 0; 2; 19; 1; 1; 0; 0; 23; 0; 43; 0; 3; 2; 3; 4; 0; 13; 0; 4; 0; 2; 8; 4; 0; 10; 0; 4; 0; 2; 0; 29].
Definition w_ch_order : list Z :=
  [1; 0; 0; 77; 3; 3; 0; 0; 0; 0; 0; 0; 0; 0; 0; 0; 0; 0; 0; 0; 0; 0; 0; 0; 0; 0; 0; 0; 0; 0; 0; 0; 0; 0; 0; 0; 0; 0; 0; 0; 2; 19; 1; 1; 0; 0; 34; 0; 43; 0; 3; 2; 3; 4; 0; 51; 0; 7; 0; 5; 0; 29; 0; 1; 9; 0; 13; 0; 4; 0; 2; 8; 4; 0; 10; 0; 4; 0; 2; 0; 29].
Definition w_ch_alpn_skip : list Z :=
  [1; 0; 0; 89; 3; 3; 0; 0; 0; 0; 0; 0; 0; 0; 0; 0; 0; 0; 0; 0; 0; 0; 0; 0; 0; 0; 0; 0; 0; 0; 0; 0; 0; 0; 0; 0; 0; 0; 0; 0; 2; 19; 1; 1; 0; 0; 46; 0; 51; 0; 7; 0; 5; 0; 29; 0; 1; 9; 0; 43; 0; 3; 2; 3; 4; 0; 13; 0; 4; 0; 2; 8; 4; 0; 10; 0; 4; 0; 2; 0; 29; 0; 16; 0; 8; 0; 6; 2; 255; 51; 2; 104; 50].
Definition w_ch_early_before_other : list Z :=
  [1; 0; 0; 86; 3; 3; 0; 0; 0; 0; 0; 0; 0; 0; 0; 0; 0; 0; 0; 0; 0; 0; 0; 0; 0; 0; 0; 0; 0; 0; 0; 0; 0; 0; 0; 0; 0; 0; 0; 0; 2; 19; 1; 1; 0; 0; 43; 0; 51; 0; 7; 0; 5; 0; 29; 0; 1; 9; 0; 43; 0; 3; 2; 3; 4; 0; 13; 0; 4; 0; 2; 8; 4; 0; 10; 0; 4; 0; 2; 0; 29; 0; 42; 0; 0; 0; 57; 0; 1; 1].
Definition w_ch_lying : list Z :=
  [1; 0; 0; 77; 3; 3; 0; 0; 0; 0; 0; 0; 0; 0; 0; 0; 0; 0; 0; 0; 0; 0; 0; 0; 0; 0; 0; 0; 0; 0; 0; 0; 0; 0; 0; 0; 0; 0; 0; 0; 2; 19; 1; 1; 0; 0; 34; 0; 51; 0; 7; 0; 5; 0; 29; 0; 1; 9; 0; 43; 0; 0; 2; 3; 4; 0; 13; 0; 4; 0; 2; 8; 4; 0; 10; 0; 4; 0; 2; 0; 29].

Ltac differs_same_len := eexists; (split; [vm_compute; reflexivity|split; [intros X; discriminate X|reflexivity]]).

(* the third way a NewSessionTicket re-encodes differently: an unknown extension placed BEFORE early_data is re-emitted after it *)
Theorem nst_reencode_order_refuted :
  exists b, reenc_nst w_nst_order = Some b /\ b <> w_nst_order /\ Zlen b = Zlen w_nst_order.
Proof. differs_same_len. Qed.

(* ServerHello: duplicated supported_versions (last wins, 6 bytes shorter); F13 (declared length 0 re-encoded as 2);
   key_share before supported_versions (encoder order 43, 51, 41); an unknown extension before a known one *)
Theorem sh_reencode_not_canonical_refuted :
  (exists b, reenc_sh w_sh_dup = Some b /\ b <> w_sh_dup /\ Zlen b < Zlen w_sh_dup) /\
  (exists b, reenc_sh sh_lying_extension = Some b /\ b <> sh_lying_extension /\ Zlen b = Zlen sh_lying_extension) /\
  (exists b, reenc_sh w_sh_order_known = Some b /\ b <> w_sh_order_known /\ Zlen b = Zlen w_sh_order_known) /\
  (exists b, reenc_sh w_sh_order_other = Some b /\ b <> w_sh_order_other /\ Zlen b = Zlen w_sh_order_other).
Proof. repeat split; differs_same_len. Qed.

(* EncryptedExtensions: an ALPN list with two names keeps only the first (3 bytes shorter); a non-ASCII first name is
   skipped and the second is kept; early_data before ALPN (encoder order 16, 42) *)
Theorem ee_reencode_not_canonical_refuted :
  (exists b, reenc_ee w_ee_alpn_two = Some b /\ b <> w_ee_alpn_two /\ Zlen b < Zlen w_ee_alpn_two) /\
  (exists b, reenc_ee w_ee_alpn_skip = Some b /\ b <> w_ee_alpn_skip /\ Zlen b < Zlen w_ee_alpn_skip) /\
  (exists b, reenc_ee w_ee_order = Some b /\ b <> w_ee_order /\ Zlen b = Zlen w_ee_order).
Proof. repeat split; differs_same_len. Qed.

(* CertificateRequest: duplicated signature_algorithms (last wins); an unknown extension before signature_algorithms *)
Theorem cr_reencode_not_canonical_refuted :
  (exists b, reenc_cr w_cr_dup = Some b /\ b <> w_cr_dup /\ Zlen b < Zlen w_cr_dup) /\
  (exists b, reenc_cr w_cr_order = Some b /\ b <> w_cr_order /\ Zlen b = Zlen w_cr_order).
Proof. repeat split; differs_same_len. Qed.

(* ClientHello: supported_versions before key_share (encoder order); a skipped non-ASCII ALPN name; early_data before an
   unknown extension (the encoder writes other_extensions first); F13; and a canonical one for comparison *)
Theorem ch_reencode_not_canonical_refuted :
  (exists b, reenc_ch w_ch_order = Some b /\ b <> w_ch_order /\ Zlen b = Zlen w_ch_order) /\
  (exists b, reenc_ch w_ch_alpn_skip = Some b /\ b <> w_ch_alpn_skip /\ Zlen b < Zlen w_ch_alpn_skip) /\
  (exists b, reenc_ch w_ch_early_before_other = Some b /\ b <> w_ch_early_before_other /\
             Zlen b = Zlen w_ch_early_before_other) /\
  (exists b, reenc_ch w_ch_lying = Some b /\ b <> w_ch_lying /\ Zlen b = Zlen w_ch_lying) /\
  reenc_ch w_ch_canonical = Some w_ch_canonical.
Proof. repeat split; differs_same_len. Qed.

(* the decoder accepts a message without the extension that fills an Optional[list] attribute the encoder iterates
   unconditionally: the decoded value is not the dump of any record with plain lists (the attribute is None; on the real
   code push_certificate_request / push_client_hello raise TypeError: 'NoneType' object is not iterable) *)
Theorem certificate_request_reencode_none_refuted :
  exists d, pull_certificate_request w_cr_none = Ok (d, []) /\ forall m, dump_certificate_request m <> d.
Proof.
  eexists. split; [vm_compute; reflexivity|]. intros m E.
  assert (M : m = tk_certificate_request [0; 0; 0]) by (rewrite <- E; symmetry; apply tk_dump_certificate_request).
  subst m. revert E. vm_compute. discriminate.
Qed.

Theorem client_hello_reencode_none_refuted :
  exists d, pull_client_hello w_ch_none = Ok (d, []) /\ forall m, dump_client_hello m <> d.
Proof.
  eexists. split; [vm_compute; reflexivity|]. intros m E.
  match type of E with _ = ?d => assert (M : m = tk_client_hello d) by (rewrite <- E; symmetry; apply tk_dump_client_hello) end.
  subst m. revert E. vm_compute. discriminate.
Qed.
