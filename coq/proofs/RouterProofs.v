(* Proofs about coq/model/Router.v (QuicServer._protocols). *)
From AQ Require Import lib.Base model.Router.
From Coq Require Import Lia.

(* ---------- the association list implements a finite map ------------------------------------- *)
Lemma get_set : forall t c p c', t_get c' (t_set c p t) = if c' =? c then Some p else t_get c' t.
Proof.
  induction t as [|[k q] r IH]; intros; simpl.
  - destruct (c =? c') eqn:E; destruct (c' =? c) eqn:E2; try reflexivity; lia.
  - destruct (k =? c) eqn:E; simpl.
    + destruct (k =? c') eqn:E1; destruct (c' =? c) eqn:E2; try reflexivity; lia.
    + rewrite IH. destruct (k =? c') eqn:E1; destruct (c' =? c) eqn:E2; try reflexivity; lia.
Qed.

Definition keys (t : table) : list Z := map fst t.

Lemma get_none_notin : forall t c, t_get c t = None <-> ~ In c (keys t).
Proof.
  induction t as [|[k q] r IH]; intros; simpl.
  - tauto.
  - destruct (k =? c) eqn:E.
    + split; [discriminate|]. intros H; exfalso; apply H; left; lia.
    + rewrite IH. split; intros H; [intros [A|A]; [lia|tauto]|tauto].
Qed.

Lemma keys_set : forall t c p, NoDup (keys t) -> NoDup (keys (t_set c p t)) /\
                                  (forall x, In x (keys (t_set c p t)) <-> x = c \/ In x (keys t)).
Proof.
  induction t as [|[k q] r IH]; intros c p ND; simpl.
  - split; [constructor; [simpl; tauto|constructor]|]. intros; simpl; intuition.
  - inversion ND as [|? ? N1 N2]; subst. destruct (k =? c) eqn:E; simpl.
    + split; [constructor; assumption|]. intros x. assert (k = c) by lia. intuition.
    + destruct (IH c p N2) as [A B]. split.
      * constructor; [|exact A]. rewrite B. intros [X|X]; [lia|tauto].
      * intros x. rewrite B. intuition.
Qed.

Lemma get_del : forall t c c', NoDup (keys t) ->
  t_get c' (t_del c t) = if c' =? c then None else t_get c' t.
Proof.
  induction t as [|[k q] r IH]; intros c c' ND; simpl.
  - destruct (c' =? c); reflexivity.
  - inversion ND as [|? ? N1 N2]; subst. destruct (k =? c) eqn:E.
    + destruct (c' =? c) eqn:E2.
      * apply get_none_notin. assert (c' = k) by lia. subst. exact N1.
      * destruct (k =? c') eqn:E3; [lia|reflexivity].
    + simpl. rewrite IH by assumption.
      destruct (k =? c') eqn:E3; destruct (c' =? c) eqn:E2; try reflexivity; lia.
Qed.

Lemma keys_del : forall t c, NoDup (keys t) -> NoDup (keys (t_del c t)) /\ (forall x, In x (keys (t_del c t)) -> In x (keys t)).
Proof.
  induction t as [|[k q] r IH]; intros c ND; simpl.
  - split; [constructor|tauto].
  - inversion ND as [|? ? N1 N2]; subst. destruct (k =? c) eqn:E; simpl.
    + split; [assumption|tauto].
    + destruct (IH c N2) as [A B]. split.
      * constructor; [|exact A]. intros X. apply N1. apply B. exact X.
      * intros x [X|X]; [left; assumption|right; apply B; assumption].
Qed.

Lemma get_purge : forall t p c, NoDup (keys t) ->
  t_get c (t_purge p t) = match t_get c t with Some q => if q =? p then None else Some q | None => None end.
Proof.
  induction t as [|[k q] r IH]; intros p c ND; simpl.
  - reflexivity.
  - inversion ND as [|? ? N1 N2]; subst. simpl. destruct (q =? p) eqn:E; simpl.
    + destruct (k =? c) eqn:E2.
      * rewrite E. assert (t_get c r = None) as G by (apply get_none_notin; assert (c = k) by lia; subst; exact N1).
        rewrite IH by assumption. rewrite G. reflexivity.
      * apply IH; assumption.
    + destruct (k =? c) eqn:E2.
      * rewrite E. reflexivity.
      * apply IH; assumption.
Qed.

Lemma keys_purge : forall t p, NoDup (keys t) -> NoDup (keys (t_purge p t)).
Proof.
  induction t as [|[k q] r IH]; intros p ND; simpl.
  - constructor.
  - inversion ND as [|? ? N1 N2]; subst. simpl. destruct (q =? p); simpl.
    + apply IH; assumption.
    + constructor; [|apply IH; assumption]. intros X. apply N1.
      unfold keys, t_purge in *. apply in_map_iff in X. destruct X as [[a b] [X1 X2]].
      apply filter_In in X2. apply in_map_iff. exists (a, b). tauto.
Qed.

(* ---------- keys of the table are always unique ------------------------------------------------ *)
Lemma rstep_keys : forall s o, NoDup (keys (tbl s)) -> NoDup (keys (tbl (snd (rstep s o)))).
Proof.
  intros s o ND. destruct o as [d|p c|p c|p|]; simpl.
  - destruct (d_parse_ok d); simpl; [|assumption].
    destruct (d_version_ok d); simpl; [|assumption].
    destruct (t_get (d_dcid d) (tbl s)); simpl; [assumption|].
    destruct (d_big d && d_initial d); simpl; [|assumption].
    assert (NoDup (keys (t_set (d_hcid d) (nprot s) (t_set (d_dcid d) (nprot s) (tbl s))))) as K.
    { apply keys_set. apply keys_set. assumption. }
    destruct (d_retry d); simpl; [|exact K].
    destruct (d_token d =? 0); simpl; [assumption|].
    destruct (d_tokres d); simpl; [exact K|assumption].
  - apply keys_set; assumption.
  - destruct (t_get c (tbl s)) as [q|]; simpl; [|assumption].
    destruct (q =? p); simpl; [|assumption]. apply keys_del; assumption.
  - apply keys_purge; assumption.
  - constructor.
Qed.

Lemma rrun_keys : forall ops s, NoDup (keys (tbl s)) -> NoDup (keys (tbl (rrun s ops))).
Proof.
  induction ops as [|o t IH]; intros s ND; simpl; [assumption|].
  pose proof (rstep_keys s o ND) as K. destruct (rstep s o) as [[x out] s']. simpl in K. apply IH; assumption.
Qed.

(* ---------- exactly when the assert/del of _connection_id_retired fails ----------------------------- *)
Lemma retire_ok_iff_routed : forall s p c,
  fst (fst (rstep s (RRetired p c))) = None <-> t_get c (tbl s) = Some p.
Proof.
  intros. simpl. destruct (t_get c (tbl s)) as [q|]; simpl.
  - destruct (q =? p) eqn:E; simpl.
    + split; intros; [f_equal; lia|reflexivity].
    + split; intros H; [discriminate|]. inversion H; lia.
  - split; discriminate.
Qed.

Lemma retire_keyerror_iff_absent : forall s p c,
  fst (fst (rstep s (RRetired p c))) = Some RX_KEYERROR <-> t_get c (tbl s) = None.
Proof.
  intros. simpl. destruct (t_get c (tbl s)) as [q|]; simpl.
  - destruct (q =? p); simpl; split; discriminate.
  - tauto.
Qed.

(* ---------- the ledger: what the table ought to contain ------------------------------------------------
   union over live protocols of {the cid the first datagram was addressed to, the initial host cid}
   plus the cids issued and not retired; a terminated protocol owns nothing. *)
Definition ledger := list (Z * Z).

Definition pair_eqb (a b : Z * Z) : bool := (fst a =? fst b) && (snd a =? snd b).

Definition created (s : rst) (d : dgram) : bool :=
  d_parse_ok d && d_version_ok d &&
  match t_get (d_dcid d) (tbl s) with Some _ => false | None => true end &&
  d_big d && d_initial d &&
  (if d_retry d then negb (d_token d =? 0) && match d_tokres d with Some _ => true | None => false end else true).

Definition lstep (s : rst) (l : ledger) (o : rop) : ledger :=
  match o with
  | RDgram d => if created s d then l ++ [(d_dcid d, nprot s); (d_hcid d, nprot s)] else l
  | RIssued p c => l ++ [(c, p)]
  | RRetired p c => filter (fun x => negb (pair_eqb x (c, p))) l
  | RTerminated p => filter (fun x => negb (snd x =? p)) l
  | RClose => []
  end.

Lemma created_spec : forall s d,
  rstep s (RDgram d) =
  if created s d then (None, [A_CREATED; nprot s],
                       mkR (t_set (d_hcid d) (nprot s) (t_set (d_dcid d) (nprot s) (tbl s))) (nprot s + 1))
  else (fst (fst (rstep s (RDgram d))), snd (fst (rstep s (RDgram d))), s).
Proof.
  intros. unfold created. simpl.
  destruct (d_parse_ok d); simpl; [|reflexivity].
  destruct (d_version_ok d); simpl; [|reflexivity].
  destruct (t_get (d_dcid d) (tbl s)); simpl; [reflexivity|].
  destruct (d_big d); simpl; [|reflexivity].
  destruct (d_initial d); simpl; [|reflexivity].
  destruct (d_retry d); simpl; [|reflexivity].
  destruct (d_token d =? 0); simpl; [reflexivity|].
  destruct (d_tokres d); simpl; reflexivity.
Qed.

(* freshness of generated connection ids (os.urandom): a cid handed out is not routed already *)
Definition fresh_op (s : rst) (o : rop) : Prop :=
  match o with
  | RDgram d => created s d = true -> t_get (d_hcid d) (tbl s) = None /\ d_hcid d <> d_dcid d
  | RIssued p c => t_get c (tbl s) = None
  | _ => True
  end.

Fixpoint fresh (s : rst) (ops : list rop) : Prop :=
  match ops with
  | [] => True
  | o :: t => fresh_op s o /\ fresh (snd (rstep s o)) t
  end.

Fixpoint lrun (s : rst) (l : ledger) (ops : list rop) : ledger :=
  match ops with
  | [] => l
  | o :: t => lrun (snd (rstep s o)) (lstep s l o) t
  end.

Definition agree (s : rst) (l : ledger) : Prop :=
  forall c p, t_get c (tbl s) = Some p <-> In (c, p) l.

Lemma agree_step : forall s l o, NoDup (keys (tbl s)) -> agree s l -> fresh_op s o ->
  agree (snd (rstep s o)) (lstep s l o).
Proof.
  intros s l o ND A F. unfold agree in *. destruct o as [d|p c|p c|p|].
  - rewrite created_spec. simpl lstep. simpl in F. destruct (created s d) eqn:C; simpl; [|exact A].
    destruct (F eq_refl) as [F1 F2]. clear F.
    assert (t_get (d_dcid d) (tbl s) = None) as F0.
    { unfold created in C. destruct (t_get (d_dcid d) (tbl s)); [|reflexivity].
      rewrite !andb_false_r in C. simpl in C. rewrite ?andb_false_r in C. discriminate. }
    intros c p. rewrite !get_set. rewrite in_app_iff. simpl.
    destruct (c =? d_hcid d) eqn:E1.
    + assert (c = d_hcid d) by lia. subst c. split.
      * intros H; inversion H; subst. right. right. left. reflexivity.
      * intros [H|[H|[H|[]]]].
        -- apply A in H. congruence.
        -- inversion H. congruence.
        -- inversion H. reflexivity.
    + destruct (c =? d_dcid d) eqn:E2.
      * assert (c = d_dcid d) by lia. subst c. split.
        -- intros H; inversion H; subst. right. left. reflexivity.
        -- intros [H|[H|[H|[]]]].
           ++ apply A in H. congruence.
           ++ inversion H. reflexivity.
           ++ inversion H. lia.
      * rewrite A. split; [tauto|]. intros [H|[H|[H|[]]]]; [assumption|inversion H; lia|inversion H; lia].
  - simpl in *. intros c' p'. rewrite get_set. rewrite in_app_iff. simpl.
    destruct (c' =? c) eqn:E.
    + assert (c' = c) by lia. subst c'. split.
      * intros H; inversion H; subst. right. left. reflexivity.
      * intros [H|[H|[]]]; [apply A in H; congruence|inversion H; reflexivity].
    + rewrite A. split; [tauto|]. intros [H|[H|[]]]; [assumption|inversion H; lia].
  - simpl. destruct (t_get c (tbl s)) as [q|] eqn:G; simpl.
    + destruct (q =? p) eqn:E; simpl.
      * assert (q = p) by lia. subst q. intros c' p'. rewrite get_del by assumption.
        rewrite filter_In. unfold pair_eqb. simpl.
        destruct (c' =? c) eqn:E2; simpl.
        -- assert (c' = c) by lia. subst c'. split; [discriminate|].
           intros [H1 H2]. apply A in H1. rewrite G in H1. inversion H1; subst.
           rewrite Z.eqb_refl in H2. discriminate.
        -- rewrite A. tauto.
      * intros c' p'. rewrite filter_In. unfold pair_eqb. simpl. rewrite A. split; [|tauto].
        intros H. split; [assumption|]. destruct (c' =? c) eqn:E2; simpl; [|reflexivity].
        assert (c' = c) by lia. subst c'. apply A in H. rewrite G in H. inversion H; subst. rewrite E. reflexivity.
    + intros c' p'. rewrite filter_In. unfold pair_eqb. simpl. rewrite A. split; [|tauto].
      intros H. split; [assumption|]. destruct (c' =? c) eqn:E2; simpl; [|reflexivity].
      assert (c' = c) by lia. subst c'. apply A in H. congruence.
  - simpl. intros c' p'. rewrite get_purge by assumption. rewrite filter_In. simpl.
    destruct (t_get c' (tbl s)) as [q|] eqn:G.
    + destruct (q =? p) eqn:E.
      * split; [discriminate|]. intros [H1 H2]. apply A in H1. rewrite G in H1. inversion H1; subst.
        rewrite E in H2. discriminate.
      * split.
        -- intros H; inversion H; subst. split; [apply A; assumption|]. rewrite E. reflexivity.
        -- intros [H1 H2]. apply A in H1. congruence.
    + split; [discriminate|]. intros [H1 _]. apply A in H1. congruence.
  - simpl. intros c' p'. split; [discriminate|tauto].
Qed.

Lemma agree_run : forall ops s l, NoDup (keys (tbl s)) -> agree s l -> fresh s ops ->
  agree (rrun s ops) (lrun s l ops).
Proof.
  induction ops as [|o t IH]; intros s l ND A F; simpl; [assumption|].
  destruct F as [F1 F2].
  pose proof (agree_step s l o ND A F1) as A'. pose proof (rstep_keys s o ND) as K.
  destruct (rstep s o) as [[x out] s']. simpl in *. apply IH; assumption.
Qed.

(* routing_invariant: for every sequence of server operations with fresh generated cids, the table
   routes cid c to protocol p exactly when the ledger says p owns c. *)
Lemma routing_invariant_l : forall ops, fresh rst_init ops ->
  forall c p, t_get c (tbl (rrun rst_init ops)) = Some p <-> In (c, p) (lrun rst_init [] ops).
Proof.
  intros ops F. apply agree_run; [constructor| |assumption].
  intros c p. simpl. split; [discriminate|tauto].
Qed.

(* no routing entry for a terminated protocol (unconditional) *)
Lemma no_entry_after_terminated_l : forall ops p c,
  let s := rrun rst_init ops in
  t_get c (tbl (snd (rstep s (RTerminated p)))) <> Some p.
Proof.
  intros ops p c s. simpl. rewrite get_purge.
  - destruct (t_get c (tbl s)) as [q|]; [|discriminate].
    destruct (q =? p) eqn:E; [discriminate|]. intros H; inversion H; lia.
  - apply rrun_keys. constructor.
Qed.

(* ... and it stays so while that protocol issues nothing more (ConnectionTerminated is its last event)
   and protocol numbers are not reused *)
Definition silent (p : Z) (o : rop) : Prop :=
  match o with RIssued q _ => q <> p | _ => True end.

Lemma nprot_mono : forall s o, nprot s <= nprot (snd (rstep s o)).
Proof.
  intros s o. destruct o as [d|p c|p c|p|].
  - rewrite created_spec. destruct (created s d); simpl; lia.
  - simpl; lia.
  - simpl. destruct (t_get c (tbl s)) as [q|]; simpl; [|lia]. destruct (q =? p); simpl; lia.
  - simpl; lia.
  - simpl; lia.
Qed.

Lemma stays_gone_step : forall s o p, NoDup (keys (tbl s)) -> p < nprot s -> silent p o ->
  (forall c, t_get c (tbl s) <> Some p) -> forall c, t_get c (tbl (snd (rstep s o))) <> Some p.
Proof.
  intros s o p ND LT S H c. destruct o as [d|q c0|q c0|q|].
  - rewrite created_spec. destruct (created s d); simpl; [|apply H].
    rewrite !get_set. destruct (c =? d_hcid d); [intros X; inversion X; lia|].
    destruct (c =? d_dcid d); [intros X; inversion X; lia|apply H].
  - simpl in *. rewrite get_set. destruct (c =? c0); [intros X; inversion X; congruence|apply H].
  - simpl. destruct (t_get c0 (tbl s)) as [r|]; simpl; [|apply H].
    destruct (r =? q); simpl; [|apply H]. rewrite get_del by assumption. destruct (c =? c0); [discriminate|apply H].
  - simpl. rewrite get_purge by assumption. destruct (t_get c (tbl s)) as [r|] eqn:G; [|discriminate].
    destruct (r =? q); [discriminate|]. rewrite <- G. apply H.
  - simpl. discriminate.
Qed.

Lemma stays_gone : forall ops s p, NoDup (keys (tbl s)) -> p < nprot s -> Forall (silent p) ops ->
  (forall c, t_get c (tbl s) <> Some p) -> forall c, t_get c (tbl (rrun s ops)) <> Some p.
Proof.
  induction ops as [|o t IH]; intros s p ND LT S H c; simpl; [apply H|].
  inversion S as [|? ? S1 S2]; subst.
  pose proof (stays_gone_step s o p ND LT S1 H) as H'. pose proof (rstep_keys s o ND) as K.
  pose proof (nprot_mono s o) as M.
  destruct (rstep s o) as [[x out] s']. simpl in *. apply IH; try assumption. lia.
Qed.

(* under freshness, retiring a cid the protocol owns never fails *)
Lemma retire_owned_ok_l : forall ops p c, fresh rst_init ops ->
  In (c, p) (lrun rst_init [] ops) ->
  fst (fst (rstep (rrun rst_init ops) (RRetired p c))) = None.
Proof.
  intros ops p c F I. apply retire_ok_iff_routed. apply routing_invariant_l; assumption.
Qed.

(* The candidate defect, at model level: a connection that announces the retirement of a cid it never
   announced as issued makes _connection_id_retired raise KeyError. *)
Definition d_first : dgram := mkD true true 1 true true false 1 0 None 2.

Lemma retire_unannounced_refuted_l :
  exists ops p c, fresh rst_init ops /\ ~ In (c, p) (lrun rst_init [] ops) /\
                  fst (fst (rstep (rrun rst_init ops) (RRetired p c))) = Some RX_KEYERROR.
Proof.
  exists [RDgram d_first], 0, 3. split; [|split].
  - simpl. split; [|exact I]. intros _. split; [reflexivity|lia].
  - simpl. intros [H|[H|[]]]; inversion H.
  - reflexivity.
Qed.

(* a non-trivial instance of the hypotheses of routing_invariant *)
Example fresh_example :
  fresh rst_init [RDgram d_first; RIssued 0 5; RIssued 0 6; RRetired 0 2; RDgram (mkD true true 9 true true false 2 0 None 10);
                  RTerminated 0].
Proof. simpl. repeat split; try reflexivity; try lia; intros _; split; try reflexivity; lia. Qed.

(* ---------- retry ---------------------------------------------------------------------------------- *)
Section Retry.
  Variable mk : Z -> Z -> Z -> Z.                        (* create_token(addr, odcid, rscid) *)
  Variable validate : Z -> Z -> option (Z * Z).          (* validate_token(addr, token) *)
  Hypothesis validate_only_minted : forall a t o r, validate a t = Some (o, r) -> t = mk a o r.

  (* with retry enabled, connection state is created only for a non-empty token that validates for the
     sender's address, hence (oracle hypothesis) for a token minted for exactly that address *)
  Lemma retry_state_only_for_valid_token_l : forall s d,
    d_retry d = true -> d_tokres d = validate (d_addr d) (d_token d) ->
    created s d = true ->
    d_token d <> 0 /\ exists o r, d_token d = mk (d_addr d) o r.
  Proof.
    intros s d R C H. unfold created in H. rewrite R in H.
    apply andb_prop in H. destruct H as [_ H]. apply andb_prop in H. destruct H as [H1 H2].
    split.
    - destruct (d_token d =? 0) eqn:E; [discriminate|lia].
    - clear H1. destruct (d_tokres d) as [[o r]|] eqn:T; [|discriminate].
      exists o, r. apply validate_only_minted. symmetry. exact C.
  Qed.
End Retry.

Example retry_hyp_satisfiable :
  let mk := fun a o r => 1 + a + 100 * o + 10000 * r in
  let validate := fun (a t : Z) => if t =? mk a 7 8 then Some (7, 8) else None in
  forall a t o r, validate a t = Some (o, r) -> t = mk a o r.
Proof.
  intros mk validate a t o r. unfold validate. destruct (t =? mk a 7 8) eqn:E; [|discriminate].
  intros H; inversion H; subst. lia.
Qed.
