#!/venv/bin/python
"""C19 finding F4 -- a connection ID the server has announced is not routable yet.

Stand-alone: real asyncio event loop, real UDP sockets on localhost, aioquic.asyncio.serve()/connect().

    PYTHONPATH=/repo/src /venv/bin/python docs/C19-repro-4.py        (exit 1 = reproduced)

Schedule (also the one of corpus/C19/f4-announced-cid-not-routable.json on the virtual loop):

  1. server callback datagram_received(client Finished):
       receive_datagram()   -> handshake complete, 7 host connection IDs generated (_replenish_connection_ids)
       _process_events()    -> HandshakeCompleted
       transmit()           -> datagrams_to_send() writes HANDSHAKE_DONE + 7 NEW_CONNECTION_ID frames and only NOW
                               queues the 7 ConnectionIdIssued events; nothing processes them: QuicServer._protocols
                               still holds 2 keys (original destination cid, first host cid)
  2. client callback datagram_received(that datagram): 7 spare destination cids
  3. client application: change_connection_id()  -> next client datagram carries cid #1
  4. server socket callback QuicServer.datagram_received(): _protocols.get(cid #1) is None, not an Initial -> DROPPED
     (every client datagram is, until a timer of that server connection fires and its _process_events() runs)

Property sentence broken: "A server keeps every live connection reachable through each connection ID it has
issued and not seen retired."  The private attribute below is read only to pace step 3; the observation is made
on the datagrams the server receives, parsed like QuicServer.datagram_received parses them.
"""
import asyncio
import os
import sys
import time

from aioquic.asyncio import connect, serve
from aioquic.buffer import Buffer
from aioquic.quic.configuration import QuicConfiguration
from aioquic.quic.packet import pull_quic_header

TESTS = os.path.join(os.environ.get("AIOQUIC_REPO", "/repo"), "tests")


async def main():
    scfg = QuicConfiguration(is_client=False)
    scfg.load_cert_chain(os.path.join(TESTS, "ssl_cert.pem"), os.path.join(TESTS, "ssl_key.pem"))
    server = await serve("::", 0, configuration=scfg)
    port = server._transport.get_extra_info("sockname")[1]
    t0 = time.monotonic()
    dropped = []
    orig = server.datagram_received

    def spy(data, addr):
        h = pull_quic_header(Buffer(data=data), host_cid_length=8)
        if h.version is None and h.destination_cid not in server._protocols:      # short header, no route
            dropped.append((round(time.monotonic() - t0, 4), h.destination_cid.hex(), len(data)))
        orig(data, addr)
    server.datagram_received = spy

    cfg = QuicConfiguration(is_client=True)
    cfg.load_verify_locations(cafile=os.path.join(TESTS, "pycacert.pem"))
    async with connect("localhost", port, configuration=cfg) as p:
        while not p._quic._peer_cid_available:       # wait for the server's NEW_CONNECTION_ID frames
            await asyncio.sleep(0)
        p.change_connection_id()
        t1 = time.monotonic()
        await p.ping()
        print("ping() right after change_connection_id() took %.1f ms" % (1000 * (time.monotonic() - t1)))
    server.close()
    print("datagrams for a connection ID the server had announced, dropped by QuicServer (time, dcid, length):")
    print("   ", dropped)
    return 1 if dropped else 0


if __name__ == "__main__":
    rc = asyncio.run(main())
    print("REPRODUCED" if rc else "not reproduced")
    sys.exit(rc)
