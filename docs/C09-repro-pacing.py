#!/usr/bin/env python
"""C09 / O3(c): stale `_pacing_at` makes QuicConnection.get_timer() return a time in the past.

Stand-alone (aioquic from PYTHONPATH + stdlib), no asyncio, virtual clock, datagrams moved by hand.
    PYTHONPATH=/repo/src /venv/bin/python C09-repro-pacing.py      [AIOQUIC_REPO=/repo]  [VERBOSE=1]
exit 0 + `RESULT stale_pacing_spin ...` when the spin is observed, exit 1 + `RESULT no_spin` otherwise.

History (server -> client direction is a black hole: lost packets, or an Initial with a spoofed source):
  1  T0        client Initial C1 (1200 B) reaches the server: anti-amplification budget 3*1200 = 3600;
               the server application queues 1-RTT stream data (like an HTTP/3 server's SETTINGS)
  2  T0        server sends its handshake flight + 1-RTT data up to the budget (never delivered);
               (2362 B flight + 1238 B data = 3600); no RTT sample, packet_time is None, _pacing_at stays None
  3  T0+0.2    server PTO: reschedule_data -> _on_packets_lost -> pacer.update_rate(smoothed_rtt=0.0):
               packet_time = 1 us, bucket_max = 0.2 us.  The budget is 0, nothing goes out.
  4  T0+0.2    client PTO: C1 retransmitted, reaches the server: budget +3600
  5  T0+0.2..  adapter loop: every 1-RTT packet empties the bucket, _write_application leaves
               _pacing_at = now + 1 us; a few wake-ups later the budget is 0
  6  from then on datagrams_to_send stops in _write_handshake(INITIAL) (QuicPacketBuilderStop from
     start_packet), _write_application is not reached, _pacing_at keeps its old value: get_timer() <= now.
"""
import os
import sys

from aioquic.quic.configuration import QuicConfiguration
from aioquic.quic.connection import QuicConnection

REPO = os.environ.get("AIOQUIC_REPO", "/repo")
VERBOSE = os.environ.get("VERBOSE", "1") != "0"
CLIENT_ADDR, SERVER_ADDR = ("192.0.2.1", 1234), ("192.0.2.2", 4433)
T0, CAP = 100.0, 10000


def budget(conn):
    p = conn._network_paths[0]
    return None if p.is_validated else p.bytes_received * 3 - p.bytes_sent


def sources(conn):
    return {"close": conn._close_at, "ack": [s.ack_at for s in conn._loss.spaces],
            "loss": conn._loss.get_loss_detection_time(), "pacing": conn._pacing_at}


def show(tag, conn, now, out=None):
    if not VERBOSE:
        return
    t, src = conn.get_timer(), sources(conn)
    which = [k for k, v in src.items() if (t in v if k == "ack" else v == t)]
    print(f"{tag:26s} now={now:.6f} get_timer={t!r} from={which} ack={src['ack']} loss={src['loss']!r} "
          f"pacing={src['pacing']!r} budget={budget(conn)} pto_count={conn._loss._pto_count} "
          f"packet_time={conn._loss._pacer.packet_time}" + ("" if out is None else f" sent={[len(d) for d, _ in out]}"))


def fingerprint(conn):
    # pto_count is left out on purpose: a PTO firing that lets nothing out is reported separately
    s = sources(conn)
    return (conn._state, conn._pacing_at, tuple(s["ack"]), budget(conn))


def fire(conn, now):
    """What an adapter does when its timer fires (asyncio: _handle_timer + transmit)."""
    conn.handle_timer(now=now)
    while conn.next_event() is not None:
        pass
    return conn.datagrams_to_send(now=now)


def reach_stale(verbose):
    """Steps 1-5 of the history.  Returns (client, server, now, stale _pacing_at or None)."""
    global VERBOSE
    saved, VERBOSE = VERBOSE, VERBOSE and verbose
    ccfg = QuicConfiguration(is_client=True)
    scfg = QuicConfiguration(is_client=False)
    scfg.load_cert_chain(REPO + "/tests/ssl_cert.pem", REPO + "/tests/ssl_key.pem")
    now = T0
    # 1. client Initial -> server; the server application queues 0.5-RTT data
    client = QuicConnection(configuration=ccfg)
    client.connect(SERVER_ADDR, now=now)
    c1 = client.datagrams_to_send(now=now)
    server = QuicConnection(configuration=scfg,
                            original_destination_connection_id=client.original_destination_connection_id)
    for d, _ in c1:
        server.receive_datagram(d, CLIENT_ADDR, now=now)
    server.send_stream_data(server.get_next_available_stream_id(is_unidirectional=True), b"x" * 8000)
    show("1 server got C1", server, now)
    # 2. server flight, lost
    show("2 server flight (lost)", server, now, server.datagrams_to_send(now=now))
    # 3. server PTO (no RTT sample yet): packet_time becomes 1 us
    now = server.get_timer()
    show("3 server PTO", server, now, fire(server, now))
    # 4. client PTO: Initial retransmitted, delivered with zero delay
    now = max(now, client.get_timer())
    for d, _ in fire(client, now):
        server.receive_datagram(d, CLIENT_ADDR, now=now)
    show("4 server got C1 again", server, now)
    # 5. adapter loop of the server until it stops making progress with its timer in the past
    out = server.datagrams_to_send(now=now)  # transmit() after datagram_received
    show("5 transmit", server, now, out)
    stale = None
    for _ in range(50):
        t = server.get_timer()
        if t is None:
            break
        if t <= now and not out and server._pacing_at == t:
            stale = t
            break
        now = max(now, t)
        out = fire(server, now)
        show("5 timer fired", server, now, out)
    VERBOSE = saved
    return client, server, now, stale


def main():
    client, server, now, stale = reach_stale(True)
    if stale is None:
        show("no stale state", server, now)
        print("RESULT no_spin")
        return 1
    # 6. the spin: the adapter honours get_timer() (call_at(past) runs at once), the clock does not move
    spin_start, n, fp = now, 0, fingerprint(server)
    while n < CAP:
        out = fire(server, now)
        n += 1
        t2 = server.get_timer()
        if out or fingerprint(server) != fp or t2 is None or t2 > now:
            break
    capped = n >= CAP
    t = server.get_timer()
    print(f"spin at now={now:.6f}: iterations={n} capped={capped} (a) get_timer()={t!r} finite={t is not None and t < float('inf')} "
          f"_pacing_at={server._pacing_at!r} now-stale={now - stale:.6f}s budget={budget(server)}")
    # real timeline: the other sources.  A well-behaved timer would fire next at the loss time (PTO) ...
    others = sources(server)
    nxt = min(v for v in [others["close"], others["loss"]] + others["ack"] if v is not None and v > now)
    print(f"earliest other source: {nxt!r} (loss={others['loss']!r} close={others['close']!r})")
    t_pto = others["loss"]
    out = fire(server, t_pto)
    show("  PTO fired:", server, t_pto, out)
    pto_ends = not (server.get_timer() <= t_pto and server._pacing_at == stale)
    print(f"after the PTO at {t_pto!r}: get_timer()={server.get_timer()!r} is {t_pto - server.get_timer():.6f}s in the past")
    # ... but only input ends it: here the client's second PTO retransmits its Initial (budget +3600)
    close_at = server._close_at
    t_in = max(client.get_timer(), t_pto)
    for d, _ in fire(client, t_in):
        server.receive_datagram(d, CLIENT_ADDR, now=t_in)
    out = server.datagrams_to_send(now=t_in)
    show("  next client datagram:", server, t_in, out)
    input_ends = server._pacing_at != stale and (server.get_timer() > t_in or bool(out))
    print(f"PTO firing ends the spin: {pto_ends}; next client datagram at {t_in!r} ends it: {input_ends}; "
          f"without it the spin lasts until _close_at={close_at!r} ({close_at - spin_start:.3f}s)")
    # (b) same history again, then let the clock jump while stale: idle termination is on time
    _, server2, now2, stale2 = reach_stale(False)
    close2 = server2._close_at
    server2.handle_timer(now=close2)
    print(f"(b) second run stale at {now2!r}: {stale2 is not None}; handle_timer(now=_close_at={close2!r}) -> "
          f"state={server2._state.name} get_timer()={server2.get_timer()!r}")
    if n >= 100:
        print(f"RESULT stale_pacing_spin iterations={n} capped={capped} stale_for={t_in - spin_start:.6f}")
        return 0
    print("RESULT no_spin")
    return 1


if __name__ == "__main__":
    sys.exit(main())
