#!/venv/bin/python
"""C19 finding F5 -- connect(wait_connected=False) followed by wait_connected() never finishes.

Stand-alone: real asyncio event loop, real UDP sockets on localhost, public API only.

    PYTHONPATH=/repo/src /venv/bin/python docs/C19-repro-5.py        (exit 1 = reproduced)

Schedule (any; the virtual-loop case is corpus/C19/f5-wait-connected-never-transmits.json):

  1. connect(..., wait_connected=False): QuicConnectionProtocol.connect(addr, transmit=False) starts the TLS
     handshake inside the QuicConnection but does not call transmit(): no datagram leaves, no timer is armed
     (neither loss/PTO nor idle timeout)
  2. application: await protocol.wait_connected()  -> creates the waiter and waits; nothing will ever wake the
     connection up: the Initial is still unsent, the server knows nothing, no timer exists

Property sentence broken: "every connect, ping and close waiter finishes exactly once, with success or a
connection error."  (wait_closed() on such a connection never finishes either.)  An application that writes to a
stream or pings in between does not see it, because those calls transmit.
"""
import asyncio
import os
import sys

from aioquic.asyncio import connect, serve
from aioquic.quic.configuration import QuicConfiguration

TESTS = os.path.join(os.environ.get("AIOQUIC_REPO", "/repo"), "tests")
WAIT = 10.0


async def main():
    scfg = QuicConfiguration(is_client=False, idle_timeout=3.0)
    scfg.load_cert_chain(os.path.join(TESTS, "ssl_cert.pem"), os.path.join(TESTS, "ssl_key.pem"))
    server = await serve("::", 0, configuration=scfg)
    port = server._transport.get_extra_info("sockname")[1]
    seen = []
    orig = server.datagram_received
    server.datagram_received = lambda data, addr: (seen.append(len(data)), orig(data, addr))[1]

    cfg = QuicConfiguration(is_client=True, idle_timeout=5.0)
    cfg.load_verify_locations(cafile=os.path.join(TESTS, "pycacert.pem"))
    rc = 0
    async with connect("localhost", port, configuration=cfg, wait_connected=False) as p:
        try:
            await asyncio.wait_for(p.wait_connected(), timeout=WAIT)
            print("wait_connected() finished; the server had received %d datagrams" % len(seen))
        except asyncio.TimeoutError:
            print("wait_connected() still pending after %.0f s (client idle_timeout = 5 s); datagrams received by the "
                  "server so far: %d" % (WAIT, len(seen)))
            rc = 1
    server.close()
    return rc


if __name__ == "__main__":
    rc = asyncio.run(main())
    print("REPRODUCED" if rc else "not reproduced")
    sys.exit(rc)
