#!/venv/bin/python
"""C19 candidate finding F6 -- a wait_connected() caller that gives up (asyncio.wait_for deadline, task.cancel())
makes every later wait_connected() fail with AssertionError until the handshake completes or the connection ends;
second half: observation O6, the abandoned waiter's ConnectionError is reported by asyncio as "never retrieved".

Stand-alone: real asyncio event loop, real UDP sockets on localhost, public API only.

    PYTHONPATH=/repo/src /venv/bin/python docs/C19-repro-6.py        (exit 1 = reproduced)

  1. connect(..., wait_connected=False) towards a port nobody listens on (the handshake cannot complete)
  2. await asyncio.wait_for(p.wait_connected(), 0.2) -> TimeoutError.  The caller's await was
     `await asyncio.shield(self._connected_waiter)`: the waiter itself is untouched and STAYS in
     `_connected_waiter` (that is what keeps the adapter consistent -- theorem cancellation_is_harmless)
  3. await p.wait_connected() again -> `assert self._connected_waiter is None, "already awaiting connected"` fires:
     the caller gets AssertionError -- neither success nor a connection error -- although nobody is awaiting.
  4. (O6) when the connection ends (idle timeout), the abandoned waiter is failed with ConnectionError and asyncio logs
     "Future exception was never retrieved" when it is collected.

Property sentence concerned: "every connect, ping and close waiter finishes exactly once, with success or a
connection error."  Fix: docs/C19-fix-6.patch (callers share the registered waiter instead of asserting).
"""
import asyncio
import gc
import os
import sys

from aioquic.asyncio import connect
from aioquic.quic.configuration import QuicConfiguration


async def main():
    cfg = QuicConfiguration(is_client=True, idle_timeout=1.0)
    rc = 0
    unretrieved = []
    loop = asyncio.get_running_loop()
    loop.set_exception_handler(lambda l, ctx: unretrieved.append(ctx.get("message")))
    try:
        async with connect("localhost", 9, configuration=cfg, wait_connected=False) as p:
            try:
                await asyncio.wait_for(p.wait_connected(), timeout=0.2)
            except asyncio.TimeoutError:
                print("first wait_connected(): gave up after 0.2 s (TimeoutError)")
            try:
                await p.wait_connected()
                print("second wait_connected(): returned")
            except ConnectionError:
                print("second wait_connected(): ConnectionError (connection ended) -- fine")
            except AssertionError as e:
                print("second wait_connected(): AssertionError(%s)" % e)
                rc = 1
            await p.wait_closed()
    except ConnectionError:
        pass
    gc.collect()
    await asyncio.sleep(0)
    if unretrieved:
        print("asyncio reported: %s" % unretrieved)
    return rc


if __name__ == "__main__":
    rc = asyncio.run(main())
    print("REPRODUCED" if rc else "not reproduced")
    sys.exit(rc)
