#!/bin/sh
# MANIFEST.setup_cmd: full build of the Coq development (.vo, no -vos) and the extracted driver.
set -e
cd "$(dirname "$0")"
exec /venv/bin/python harness/main.py --setup
