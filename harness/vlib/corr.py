"""Correspondence runs: the hand-written Gallina model and the implementation are executed on the
same op sequences; every per-op observable is compared.  Disagreements are shrunk and stored in
corpus/.  An implementation-level oracle (the property coded directly, independent of the model)
is run on every case and on the neighbourhood of every disagreement."""
import collections
import json
import os
import time

from . import core


class Suite:
    """One model <-> implementation tie.

    encode(case)  -> list[int] tokens for the model
    impl(case)    -> list[int] tokens the model is expected to print (the implementation run)
    oracle(case)  -> None if the property holds on the implementation for this case, else a
                     (what, signature) tuple
    ops(case)     -> list of ops (for shrinking / histograms); rebuild(case, ops) -> case
    """

    def __init__(self, ctx, name, model, encode, impl, oracle=None, ops=None, rebuild=None,
                 nontrivial=None, opname=None, simplify=None):
        self.ctx, self.name, self.model = ctx, name, model
        self.encode, self.impl, self.oracle = encode, impl, oracle
        self.ops, self.rebuild = ops, rebuild
        self.nontrivial = nontrivial or (lambda case, out: True)
        self.opname = opname
        self.simplify = simplify
        self.stats = {"cases": 0, "steps": 0, "disagreements": 0, "oracle_failures": 0, "distinct_nontrivial": 0,
                      "op_histogram": collections.Counter(), "size_histogram": collections.Counter(),
                      "outcome_histogram": collections.Counter(), "samples": [], "wall_s": 0.0}
        self._seen = set()

    # -- single case ------------------------------------------------------------------
    def disagree(self, case):
        exp = self.impl(case)
        got = core.run_model(self.model, [self.encode(case)], shards=1)[0]
        return exp != got, exp, got

    def shrink(self, case, pred, max_steps=400):
        if not self.ops:
            return case
        steps = 0
        ops = list(self.ops(case))
        changed = True
        while changed and steps < max_steps:
            changed = False
            # drop chunks, then single ops
            size = max(1, len(ops) // 2)
            while size >= 1 and steps < max_steps:
                i = 0
                while i < len(ops) and steps < max_steps:
                    cand = ops[:i] + ops[i + size:]
                    steps += 1
                    if cand and pred(self.rebuild(case, cand)):
                        ops = cand
                        changed = True
                    else:
                        i += size
                size //= 2
            if self.simplify:
                for i in range(len(ops)):
                    for s in self.simplify(ops[i]):
                        steps += 1
                        cand = ops[:i] + [s] + ops[i + 1:]
                        if pred(self.rebuild(case, cand)):
                            ops = cand
                            changed = True
                            break
        return self.rebuild(case, ops)

    # -- batch --------------------------------------------------------------------------
    def run(self, cases, label=""):
        ctx = self.ctx
        t0 = time.time()
        exps = []
        for c in cases:
            try:
                exps.append(self.impl(c))
            except Exception as e:  # the implementation driver itself must not fail
                exps.append(["IMPL-DRIVER-EXCEPTION", repr(e)])
        try:
            gots = core.run_model(self.model, [self.encode(c) for c in cases])
        except core.BuildError as e:
            # the model of this suite does not build against the tree under check (a generator failed closed, a model
            # file no longer compiles): that is a proof/model violation of its own, reported once -- and the search for a
            # concrete failing input goes on with the implementation oracle alone
            gots = [None] * len(cases)
            if not getattr(self, "_model_missing_reported", False):
                self._model_missing_reported = True
                ctx.violation("proof", "%s: the executable model %s is not available for the tree under check (%s)"
                              % (self.name, self.model, str(e)[-200:]), None,
                              signature={"suite": self.name, "kind": "model-unavailable"}, no_input=True)
        st = self.stats
        reported = 0
        for c, exp, got in zip(cases, exps, gots):
            st["cases"] += 1
            ops = self.ops(c) if self.ops else []
            st["steps"] += len(ops)
            st["size_histogram"][_bucket(len(ops))] += 1
            if self.opname:
                for o in ops:
                    st["op_histogram"][self.opname(o)] += 1
            key = json.dumps(self.encode(c))
            if key not in self._seen:
                self._seen.add(key)
                if self.nontrivial(c, exp):
                    st["distinct_nontrivial"] += 1
            if len(st["samples"]) < 3:
                st["samples"].append({"suite": self.name, "case": _short(c), "output_tokens": exp[:40]})
            bad = None
            if self.oracle:
                try:
                    bad = self.oracle(c)
                except Exception as e:
                    bad = ("oracle raised %r" % (e,), {"oracle_exception": type(e).__name__})
            if bad:
                st["oracle_failures"] += 1
                if reported < 3:
                    reported += 1
                    small = self.shrink(c, lambda x: bool(_safe(self.oracle, x)))
                    what, sig = _safe(self.oracle, small) or bad
                    if not ctx.violation("impl-violation", "%s: %s" % (self.name, what), _short(small, 4000), signature=sig):
                        _save_corpus(ctx, self.name, small)
            if got is not None and exp != got:
                st["disagreements"] += 1
                if reported < 3:
                    reported += 1
                    small = self.shrink(c, lambda x: self.disagree(x)[0])
                    _, e2, g2 = self.disagree(small)
                    _save_corpus(ctx, self.name, small)
                    # does the property itself fail on the implementation here?
                    bad2 = _safe(self.oracle, small) if self.oracle else None
                    if bad2:
                        ctx.violation("impl-violation", "%s: %s" % (self.name, bad2[0]), _short(small, 4000), signature=bad2[1],
                                      extra={"impl_output": e2, "model_output": g2})
                    else:
                        ctx.violation("correspondence",
                                      "%s: model and implementation disagree (property oracle passes on this case)" % self.name,
                                      _short(small, 4000), signature={"suite": self.name, "kind": "correspondence"},
                                      extra={"impl_output": e2, "model_output": g2, "correspondence": self.name}, no_input=True)
        st["wall_s"] += time.time() - t0
        return st

    def summary(self):
        st = dict(self.stats)
        for k in ("op_histogram", "size_histogram", "outcome_histogram"):
            st[k] = dict(st[k])
        st["wall_s"] = round(st["wall_s"], 2)
        return st


def _safe(f, x):
    try:
        return f(x)
    except Exception as e:
        return ("oracle raised %r" % (e,), {"oracle_exception": type(e).__name__})


def _bucket(n):
    for b in (0, 1, 2, 4, 8, 16, 32, 64, 128, 256):
        if n <= b:
            return "<=%d" % b
    return ">256"


def _short(c, limit=600):
    s = json.dumps(c, default=lambda o: o.hex() if isinstance(o, (bytes, bytearray)) else repr(o))
    return json.loads(s) if len(s) <= limit else s[:limit] + "..."


def _save_corpus(ctx, suite, case):
    d = os.path.join(core.VERIF, "replays", "corpus-candidates")
    os.makedirs(d, exist_ok=True)
    s = json.dumps({"suite": suite, "case": case}, default=lambda o: o.hex() if isinstance(o, (bytes, bytearray)) else repr(o))
    import hashlib
    with open(os.path.join(d, "%s-%s.json" % (suite, hashlib.sha1(s.encode()).hexdigest()[:10])), "w") as f:
        f.write(s)


def load_corpus(pid, suite):
    d = os.path.join(core.VERIF, "corpus", pid)
    out = []
    if os.path.isdir(d):
        for fn in sorted(os.listdir(d)):
            if fn.endswith(".json"):
                j = json.load(open(os.path.join(d, fn)))
                if j.get("suite") == suite:
                    out.append(j["case"])
    return out


def merge_coverage(suites, rule, extra=None):
    ev = sum(s.stats["cases"] for s in suites)
    dn = sum(s.stats["distinct_nontrivial"] for s in suites)
    samples = []
    for s in suites:
        samples += s.stats["samples"][:2]
    cov = {"evaluations": ev, "distinct_nontrivial": dn, "rule": rule, "samples": samples,
           "correspondence": {s.name: s.summary() for s in suites}}
    if extra:
        cov.update(extra)
    return cov
