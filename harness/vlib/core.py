"""Core machinery shared by every property check: overlay of the current /repo tree,
Coq build (generated fragments + full .vo make + extraction driver), model runners,
violation / known-finding reporting and evidence files."""
import fcntl
import hashlib
import json
import os
import random
import re
import shutil
import subprocess
import sys
import sysconfig
import tempfile
import time

# the extracted models recurse structurally over byte lists: give child processes (driver, coqc) the full stack
try:
    import resource
    _soft, _hard = resource.getrlimit(resource.RLIMIT_STACK)
    resource.setrlimit(resource.RLIMIT_STACK, (_hard, _hard))
except Exception:
    pass

VERIF = os.path.dirname(os.path.dirname(os.path.dirname(os.path.abspath(__file__))))
REPO = os.environ.get("VERIF_REPO", "/repo")
COQ = os.path.join(VERIF, "coq")
DRIVER = os.path.join(COQ, "extract", "_build", "driver")
NPROC = os.cpu_count() or 4

FORBIDDEN = re.compile(
    r"\b(Admitted|admit|Axiom|Axioms|Parameter|Parameters|Conjecture|Conjectures|Admit\s+Obligations|"
    r"Unset\s+Guard\s+Checking|Unset\s+Positivity\s+Checking|Unset\s+Universe\s+Checking|bypass_check|"
    r"native_compute|type-in-type|impredicative-set)\b"
)


def log(*a):
    print("[verif]", *a, file=sys.stderr, flush=True)


# --------------------------------------------------------------------------------------
# hygiene


def strip_coq_comments(text):
    out, depth, i, n = [], 0, 0, len(text)
    while i < n:
        if text.startswith("(*", i):
            depth += 1
            i += 2
        elif text.startswith("*)", i) and depth:
            depth -= 1
            i += 2
        else:
            if depth == 0:
                out.append(text[i])
            i += 1
    return "".join(out)


def hygiene():
    """Fail closed on any forbidden vernacular anywhere in the development (comments excluded).
    Also rejects Variable/Hypothesis/Context outside a Section."""
    problems = []
    for sub in ("lib", "model", "proofs", "props", "gen", "extract"):
        d = os.path.join(COQ, sub)
        if not os.path.isdir(d):
            continue
        for fn in sorted(os.listdir(d)):
            if not fn.endswith(".v"):
                continue
            text = strip_coq_comments(open(os.path.join(d, fn)).read())
            for m in FORBIDDEN.finditer(text):
                problems.append(f"{sub}/{fn}: forbidden '{m.group(0)}'")
            depth = 0
            for sent in re.split(r"\.\s", text):
                s = sent.strip()
                if re.match(r"Section\b", s):
                    depth += 1
                elif re.match(r"End\b", s) and depth:
                    depth -= 1
                elif depth == 0 and re.match(r"(Variable|Variables|Hypothesis|Hypotheses|Context)\b", s):
                    problems.append(f"{sub}/{fn}: '{s[:40]}' outside a Section")
    proj = os.path.join(COQ, "_CoqProject")
    if os.path.exists(proj):
        t = open(proj).read()
        for bad in ("-type-in-type", "-impredicative-set", "-vos", "-vok", "-noinit"):
            if bad in t:
                problems.append(f"_CoqProject: forbidden flag {bad}")
    return problems


# --------------------------------------------------------------------------------------
# overlay of the current working tree (python symlinked, C helpers compiled now)


class Overlay:
    def __init__(self, asan=False, checked=False):
        self.dir = tempfile.mkdtemp(prefix="aqov-")
        self.asan = asan
        pkg = os.path.join(self.dir, "aioquic")
        os.mkdir(pkg)
        src = os.path.join(REPO, "src", "aioquic")
        for ent in sorted(os.listdir(src)):
            if ent.endswith(".so") or ent == "__pycache__":
                continue
            os.symlink(os.path.join(src, ent), os.path.join(pkg, ent))
        inc = sysconfig.get_paths()["include"]
        t0 = time.time()
        for name, libs in (("_buffer", []), ("_crypto", ["-lcrypto"])):
            out = os.path.join(pkg, name + ".abi3.so")
            if asan:
                cc = ["clang", "-fsanitize=address,undefined", "-fno-omit-frame-pointer", "-g", "-O1",
                      "-fno-sanitize-recover=undefined"]
            else:
                cc = ["gcc", "-O1"]
            cmd = cc + ["-shared", "-fPIC", "-std=c99", "-DPy_LIMITED_API=0x030A0000", "-I" + inc,
                        os.path.join(src, name + ".c"), "-o", out] + libs
            r = subprocess.run(cmd, capture_output=True, text=True)
            if r.returncode != 0:
                raise BuildError("C helper %s does not compile:\n%s" % (name, r.stderr[-2000:]))
        self.build_s = time.time() - t0

    def env(self, extra=None):
        e = dict(os.environ)
        e["PYTHONPATH"] = self.dir + os.pathsep + os.path.join(VERIF, "harness")
        e["PYTHONHASHSEED"] = "0"
        e["PYTHONDONTWRITEBYTECODE"] = "1"
        if extra:
            e.update(extra)
        return e

    def activate(self):
        """Make `import aioquic` in this process resolve to the overlay."""
        sys.dont_write_bytecode = True
        for m in [m for m in sys.modules if m == "aioquic" or m.startswith("aioquic.")]:
            del sys.modules[m]
        sys.path.insert(0, self.dir)

    def close(self):
        shutil.rmtree(self.dir, ignore_errors=True)


class BuildError(Exception):
    pass


# --------------------------------------------------------------------------------------
# Coq build


def _run(cmd, cwd=None, timeout=1800, env=None):
    t0 = time.time()
    try:
        r = subprocess.run(cmd, cwd=cwd, capture_output=True, text=True, timeout=timeout, env=env)
        return r.returncode, r.stdout, r.stderr, time.time() - t0
    except subprocess.TimeoutExpired as e:
        return 124, (e.stdout or b"").decode() if isinstance(e.stdout, bytes) else (e.stdout or ""), "TIMEOUT", time.time() - t0


def _invalidate_dependents(removed):
    """A generated fragment that could not be produced is gone; coqdep then no longer lists it as a dependency, and make
    would keep the STALE .vo of every file that requires it (and extraction / props files would load them).  Remove the
    compiled forms of every file that (transitively) Requires a removed module, so that make rebuilds and fails them."""
    reqs = {}
    for sub in ("lib", "gen", "model", "proofs", "props"):
        d = os.path.join(COQ, sub)
        if not os.path.isdir(d):
            continue
        for fn in os.listdir(d):
            if fn.endswith(".v") and not fn.startswith("."):
                try:
                    txt = open(os.path.join(d, fn), errors="replace").read()
                except OSError:
                    continue
                reqs[sub + "/" + fn] = " ".join(re.findall(r"Require\b.*?\.(?=\s)", txt, re.S))
    dead = set(removed)
    changed = True
    while changed:
        changed = False
        for vf, req in reqs.items():
            if vf in dead:
                continue
            for d in list(dead):
                mod = os.path.basename(d)[:-2]
                if re.search(r"(?<![A-Za-z0-9_])%s(?![A-Za-z0-9_'])" % re.escape(mod), req):
                    dead.add(vf)
                    changed = True
                    break
    out = dead - set(removed)
    for vf in out:
        for suffix in ("o", "ok", "os"):
            try:
                os.remove(os.path.join(COQ, vf + suffix))
            except OSError:
                pass
    return out


def coq_build(generators=(), timeout=3000):
    """Regenerate fragments, (re)build every .vo with a full make, rebuild the extraction driver.
    Serialised across concurrent checks with a lock.  Returns dict(ok, failed_files, log, wall_s)."""
    os.makedirs(os.path.join(COQ, "gen"), exist_ok=True)
    lock = open(os.path.join(COQ, ".build.lock"), "w")
    fcntl.flock(lock, fcntl.LOCK_EX)
    t0 = time.time()
    res = {"ok": True, "failed": [], "log": "", "gen_errors": []}
    try:
        for g in generators:
            try:
                g()
            except Exception as e:  # translator fails closed: its outputs are invalidated, dependents stop compiling
                res["ok"] = False
                outs = list(getattr(g, "outputs", []))
                res["gen_errors"].append({"gen": getattr(g, "gen_name", getattr(g, "__name__", "gen")), "error": str(e)[:500], "outputs": outs})
                for o in outs:
                    for suffix in ("", "o", "ok", "os"):      # the .v and its compiled forms: dependants must stop compiling
                        try:
                            os.remove(os.path.join(COQ, o + suffix))
                        except OSError:
                            pass
        gone = [o for ge in res["gen_errors"] for o in ge["outputs"]]
        if gone:
            res["invalidated"] = sorted(_invalidate_dependents(gone))
        rc, out, err, _ = _run([sys.executable, os.path.join(VERIF, "tools", "mkproject.py")])
        if rc != 0:
            res["ok"] = False
            res["fatal"] = "mkproject failed"
            res["log"] += err
            return res
        mk = os.path.join(COQ, "Makefile")
        proj = os.path.join(COQ, "_CoqProject")
        if not os.path.exists(mk) or os.path.getmtime(mk) < os.path.getmtime(proj):
            rc, out, err, _ = _run(["coq_makefile", "-f", "_CoqProject", "-o", "Makefile"], cwd=COQ)
            if rc != 0:
                res["ok"] = False
                res["fatal"] = "coq_makefile failed"
                res["log"] += err
                return res
        rc, out, err, _ = _run(["make", "-k", "-j%d" % NPROC], cwd=COQ, timeout=timeout)
        res["log"] += out[-3000:] + err[-6000:]
        if rc != 0:
            res["ok"] = False
            for m in re.finditer(r'File "\./([^"]+\.v)", line (\d+)', err):
                f = m.group(1)
                if f not in res["failed"]:
                    res["failed"].append(f)
            for m in re.finditer(r"make.*\*\*\* \[[^\]]*?([A-Za-z0-9_/]+\.vo)\]", err):
                f = m.group(1)[:-1]
                if f not in res["failed"]:
                    res["failed"].append(f)
        try:      # snapshot of coqdep's output while we hold the lock (another check may regenerate it later)
            res["deps_text"] = open(os.path.join(COQ, ".Makefile.d")).read()
        except OSError:
            res["deps_text"] = ""
        # extraction: only the models that compiled (a model broken by the tree under check must not take the
        # drivers of the other properties with it)
        sys.path.insert(0, os.path.join(VERIF, "tools"))
        import mkproject
        _vf, exts = mkproject.scan()
        good = []
        for m, n in exts:
            vf = m.replace(".", "/") + ".v"
            clo = dep_closure(vf, res["deps_text"]) or set()
            vo = os.path.join(COQ, vf + "o")
            if os.path.exists(vo) and vf not in res["failed"] and not any(f in clo for f in res["failed"]) \
                    and os.path.getmtime(vo) >= os.path.getmtime(os.path.join(COQ, vf)):
                good.append((m, n))
        res["extracted"] = [n for _m, n in good]
        res["not_extracted"] = [n for _m, n in exts if (_m, n) not in good]
        changed = mkproject.write_extract(good)
        ml = os.path.join(COQ, "models.ml")
        ev = os.path.join(COQ, "extract", "Extract.v")
        vos = [os.path.join(COQ, m.replace(".", "/") + ".vo") for m, _n in good]
        if good and (changed or not os.path.exists(ml) or os.path.getmtime(ml) < os.path.getmtime(ev)
                     or any(os.path.getmtime(v) > os.path.getmtime(ml) for v in vos)):
            rc, out, err, _ = _run(["coqc", "-Q", ".", "AQ", "-w", "-extraction-opaque-accessed,-extraction-reserved-identifier",
                                    "extract/Extract.v"], cwd=COQ, timeout=1200)
            if rc != 0:
                res["ok"] = False
                res["failed"].append("extract/Extract.v")
                res["log"] += "\nEXTRACTION FAILED\n" + err[-3000:]
        bdir = os.path.join(COQ, "extract", "_build")
        os.makedirs(bdir, exist_ok=True)
        srcs = [ml, os.path.join(COQ, "models.mli"), os.path.join(COQ, "extract", "table.ml"),
                os.path.join(COQ, "extract", "driver.ml")]
        if all(os.path.exists(s) for s in srcs):
            stale = (not os.path.exists(DRIVER)) or any(os.path.getmtime(s) > os.path.getmtime(DRIVER) for s in srcs)
            if stale:
                for s in srcs:
                    shutil.copy(s, bdir)
                rc, out, err, _ = _run(["ocamlfind", "ocamlopt", "-O2", "-w", "-a", "models.mli", "models.ml", "table.ml",
                                        "driver.ml", "-o", "driver.new"], cwd=bdir, timeout=600)
                if rc != 0:
                    rc, out, err, _ = _run(["ocamlfind", "ocamlopt", "-w", "-a", "models.mli", "models.ml", "table.ml",
                                            "driver.ml", "-o", "driver.new"], cwd=bdir, timeout=600)
                if rc != 0:
                    res["ok"] = False
                    res["fatal"] = "extracted driver does not build"
                    res["log"] += "\nDRIVER BUILD FAILED\n" + err[-3000:]
                else:
                    os.replace(os.path.join(bdir, "driver.new"), DRIVER)
        else:
            res["ok"] = False
            res["fatal"] = "extraction output missing"
            res["log"] += "\nextraction output missing"
    finally:
        res["wall_s"] = time.time() - t0
        fcntl.flock(lock, fcntl.LOCK_UN)
        lock.close()
    return res


def dep_closure(target, text=None):
    """Transitive .v dependencies (paths relative to coq/) of a target such as 'props/C10.v',
    read from coqdep's output (coq/.Makefile.d, or the snapshot `text` taken under the build lock)."""
    deps = {}
    if text is None:
        try:
            text = open(os.path.join(COQ, ".Makefile.d")).read()
        except FileNotFoundError:
            return None
    if not text.strip():
        return None
    text = text.replace("\\\n", " ")
    for line in text.split("\n"):
        if ":" not in line:
            continue
        lhs, rhs = line.split(":", 1)
        outs = [x for x in lhs.split() if x.endswith(".vo")]
        ins = [x[:-1] for x in rhs.split() if x.endswith(".vo")]
        for o in outs:
            deps[o[:-1]] = ins
    seen, todo = set(), [target]
    while todo:
        t = todo.pop()
        if t in seen:
            continue
        seen.add(t)
        todo += deps.get(t, [])
    return seen


def check_props_file(pid, timeout=900):
    """Re-check coq/props/<pid>.v on its own (fresh coqc into a scratch dir) and collect
    theorem names and the literal Print Assumptions output."""
    src = os.path.join(COQ, "props", pid + ".v")
    info = {"file": "coq/props/%s.v" % pid, "theorems": [], "assumptions": {}, "ok": False, "log": ""}
    if not os.path.exists(src):
        info["log"] = "missing " + src
        return info
    text = strip_coq_comments(open(src).read())
    info["theorems"] = re.findall(r"\b(?:Theorem|Corollary)\s+([A-Za-z0-9_']+)", text)
    # the property files may contain only Theorem / exact / Print Assumptions (+ Require, Example)
    bad = re.findall(r"\b(Lemma|Definition|Fixpoint|Ltac|Hint|Instance|Notation|Inductive|Record|Section|Module)\b", text)
    if bad:
        info["log"] = "props file contains forbidden constructs: %s" % sorted(set(bad))
        return info
    tmp = tempfile.mkdtemp(prefix="aqpr-")
    lock = open(os.path.join(COQ, ".build.lock"), "w")
    fcntl.flock(lock, fcntl.LOCK_EX)      # no other check may rewrite the .vo files this compile reads
    try:
        cmd = ["coqc", "-Q", COQ, "AQ", "-o", os.path.join(tmp, pid + ".vo"), src]
        info["cmd"] = " ".join(cmd)
        rc, out, err, wall = _run(cmd, timeout=timeout)
        info["wall_s"] = wall
        info["log"] = (err or "")[-3000:]
        info["ok"] = rc == 0
        # parse Print Assumptions blocks, in order
        blocks = re.split(r"(?=Closed under the global context|Axioms:|Section Variables:)", out)
        blocks = [b.strip() for b in blocks if b.strip()]
        for name, b in zip(info["theorems"], blocks):
            info["assumptions"][name] = re.sub(r"\s+", " ", b)[:8000]
        info["raw_assumptions"] = out[-4000:]
    finally:
        fcntl.flock(lock, fcntl.LOCK_UN)
        lock.close()
        shutil.rmtree(tmp, ignore_errors=True)
    return info


def run_coqchk(pid, timeout=2400):
    """Thorough tier: re-check coq/props/<pid>.vo and everything it depends on with Coq's independent checker and
    report the axioms of the whole closure (`coqchk -o`)."""
    vo = os.path.join(COQ, "props", pid + ".vo")
    info = {"ok": False, "cmd": "coqchk -silent -o -Q %s AQ AQ.props.%s" % (COQ, pid), "axioms": None, "log": ""}
    if not os.path.exists(vo):
        info["log"] = "props/%s.vo was not built" % pid
        return info
    rc, out, err, wall = _run(["coqchk", "-silent", "-o", "-Q", COQ, "AQ", "AQ.props." + pid], timeout=timeout)
    info["wall_s"] = round(wall, 1)
    text = (out or "") + (err or "")
    info["ok"] = rc == 0 and "CONTEXT SUMMARY" in text
    m = re.search(r"\* Axioms:(.*?)\n\s*\n\* ", text, re.S)
    info["axioms"] = re.sub(r"\s+", " ", m.group(1)).strip() if m else None
    for key, pat in (("type_in_type", r"relying on type-in-type:(.*?)\n\s*\n"), ("unsafe_fixpoints", r"unsafe \(co\)fixpoints:(.*?)\n\s*\n"),
                     ("assumed_positivity", r"positivity is assumed:(.*?)(?:\n\s*\n|$)")):
        mm = re.search(pat, text, re.S)
        info[key] = re.sub(r"\s+", " ", mm.group(1)).strip() if mm else None
    if not info["ok"]:
        info["log"] = text[-2000:]
    return info


# --------------------------------------------------------------------------------------
# running models


def tok(v):
    if isinstance(v, bool):
        v = int(v)
    return ("-%x" % -v) if v < 0 else ("%x" % v)


def untok(s):
    return -int(s[1:], 16) if s.startswith("-") else int(s, 16)


def run_model(name, cases, shards=None):
    """cases: list of list[int].  Returns list of list[int] (model output per case)."""
    if not cases:
        return []
    if not os.path.exists(DRIVER):
        raise BuildError("extracted driver missing")
    shards = shards or min(NPROC, max(1, len(cases) // 200))
    chunks = [cases[i::shards] for i in range(shards)]
    procs = []
    for ch in chunks:
        inp = "\n".join(name + " " + " ".join(tok(v) for v in c) for c in ch) + "\n"
        p = subprocess.Popen([DRIVER], stdin=subprocess.PIPE, stdout=subprocess.PIPE, stderr=subprocess.PIPE, text=True)
        procs.append((p, inp))
    # feed sequentially through threads to avoid pipe deadlock
    import threading
    outs = [None] * len(procs)

    def work(i):
        p, inp = procs[i]
        o, e = p.communicate(inp)
        outs[i] = (p.returncode, o, e)

    ths = [threading.Thread(target=work, args=(i,)) for i in range(len(procs))]
    for t in ths:
        t.start()
    for t in ths:
        t.join()
    res = [None] * len(cases)
    for i, (rc, o, e) in enumerate(outs):
        if rc != 0:
            raise BuildError("model driver failed: " + e[-500:])
        lines = o.split("\n")
        idxs = list(range(i, len(cases), shards))
        for k, idx in enumerate(idxs):
            line = lines[k].strip()
            res[idx] = [untok(t) for t in line.split(" ")] if line else []
    return res


def run_vm(preamble, exprs, timeout=600):
    """Evaluate Gallina expressions (of type list Z) with vm_compute inside coqc; used for the
    float models which are not extracted.  Returns list of list[int]."""
    if not exprs:
        return []
    tmp = tempfile.mkdtemp(prefix="aqvm-")
    try:
        shards = min(NPROC, max(1, len(exprs) // 100))
        files = []
        for s in range(shards):
            path = os.path.join(tmp, "cases%d.v" % s)
            with open(path, "w") as f:
                f.write(preamble + "\n")
                for e in exprs[s::shards]:
                    f.write("Eval vm_compute in (%s).\n" % e)
            files.append(path)
        procs = [subprocess.Popen(["coqc", "-Q", COQ, "AQ", "-o", p + "o", p], stdout=subprocess.PIPE,
                                  stderr=subprocess.PIPE, text=True) for p in files]
        res = [None] * len(exprs)
        for s, p in enumerate(procs):
            try:
                o, e = p.communicate(timeout=timeout)
            except subprocess.TimeoutExpired:
                p.kill()
                raise BuildError("vm_compute case file timed out")
            if p.returncode != 0:
                raise BuildError("vm_compute case file failed: " + e[-800:])
            outs = re.findall(r"=\s*(\[[^\]]*\]|nil)\s*:\s*list Z", o.replace("\n", " "))
            idxs = list(range(s, len(exprs), shards))
            if len(outs) != len(idxs):
                raise BuildError("vm_compute output count mismatch %d vs %d" % (len(outs), len(idxs)))
            for idx, txt in zip(idxs, outs):
                txt = txt.strip()
                if txt in ("nil", "[]"):
                    res[idx] = []
                else:
                    res[idx] = [int(x.strip().replace("%Z", "").strip("()")) for x in txt[1:-1].split(";")]
        return res
    finally:
        shutil.rmtree(tmp, ignore_errors=True)


# --------------------------------------------------------------------------------------
# context handed to property modules


class Ctx:
    def __init__(self, pid, tier, seed):
        self.pid = pid
        self.tier = tier
        self.seed = seed
        self.rng = random.Random("%s/%s/%d" % (pid, tier, seed))
        self.violations = []      # dicts
        self.known_hits = []
        self.notes = []
        self.overlay = None
        self.build = None
        self.props = None
        self.coqchk = None
        self.t0 = time.time()
        self.known = load_known_findings()
        self.replay_dir = os.path.join(VERIF, "replays")
        self.budget_scale = float(os.environ.get("VERIF_BUDGET", "1.0"))

    @property
    def thorough(self):
        return self.tier == "thorough"

    def n(self, quick, thorough):
        return int((thorough if self.thorough else quick) * self.budget_scale)

    def broken_deps(self):
        """Files in the dependency closure of props/<pid>.v (and of the extraction) that failed to build."""
        if not self.build:
            return ["no build"]
        failed = list(self.build.get("failed", []))
        bad = []
        if self.build.get("fatal"):
            bad.append(self.build["fatal"])
        clo = dep_closure("props/%s.v" % self.pid, self.build.get("deps_text"))
        mine = getattr(self, "generators", None)
        for ge in self.build.get("gen_errors", []):
            # a failed translator counts when it declared no outputs (unknown reach), when one of its
            # outputs is in this property's closure, or when the property module names it
            if not ge["outputs"] or clo is None or any(o in clo for o in ge["outputs"]) or (mine and ge["gen"] in mine):
                bad.append("translator %s failed (fail closed): %s" % (ge["gen"], ge["error"]))
        for f in failed:
            if clo is None or f in clo or f.startswith("extract/"):
                bad.append("does not compile: " + f)
        return bad

    def proof_ok(self):
        return bool(self.build and not self.broken_deps() and self.props and self.props["ok"])

    def violation(self, kind, what, case, signature=None, extra=None, no_input=False):
        """Record a violation.  `signature` (dict) identifies the failing input class for
        known-findings matching.  Returns True if it is a known finding."""
        sig = signature or {}
        if kind == "correspondence":
            # model and implementation disagree on this case, and the implementation oracle (which reports kind
            # "impl-violation") found nothing wrong with it: the tie is broken, no failing input is known
            no_input = True
        for kf in self.known:
            if kf.get("property") == self.pid and kf.get("status") == "open" and _sig_match(kf.get("match", {}), sig):
                if kf["id"] not in [k["id"] for k in self.known_hits]:
                    self.known_hits.append({"id": kf["id"], "what": kf.get("what", what), "example": case})
                return True
        os.makedirs(self.replay_dir, exist_ok=True)
        body = {"property": self.pid, "kind": kind, "what": what, "seed": self.seed, "tier": self.tier,
                "case": case, "signature": sig, "how_to_run": "./check %s --replay <this file>" % self.pid}
        if extra:
            body.update(extra)
        h = hashlib.sha1(json.dumps(body, sort_keys=True, default=str).encode()).hexdigest()[:10]
        path = os.path.join(self.replay_dir, "%s-%s-%s.json" % (self.pid, kind, h))
        with open(path, "w") as f:
            json.dump(body, f, indent=1, default=str)
        self.violations.append({"kind": kind, "what": what, "replay": path, "no_input": no_input})
        return False


def _sig_match(pattern, sig):
    if not pattern:
        return False
    for k, v in pattern.items():
        if isinstance(v, list):
            if sig.get(k) not in v:
                return False
        elif sig.get(k) != v:
            return False
    return True


def load_known_findings():
    p = os.path.join(VERIF, "known_findings.json")
    if not os.path.exists(p):
        return []
    return json.load(open(p)).get("findings", [])


def evidence_dir():
    """/verif/evidence describes /repo's current working tree only.  A run against another tree (VERIF_REPO: the seeded /
    benign sweeps check scratch worktrees carrying a deliberate change) writes its evidence to VERIF_EVIDENCE_DIR or, by
    default, to evidence/other-tree/ (ignored by git), so that a record of a mutated tree can never be committed as the
    record of the unchanged one."""
    d = os.environ.get("VERIF_EVIDENCE_DIR")
    if d:
        return d
    if os.path.realpath(REPO) != os.path.realpath("/repo"):
        return os.path.join(VERIF, "evidence", "other-tree")
    return os.path.join(VERIF, "evidence")


def write_evidence(ctx, coverage, assumptions, level="proof"):
    edir = evidence_dir()
    os.makedirs(edir, exist_ok=True)
    ev = {
        "property_id": ctx.pid,
        "tier": ctx.tier,
        "seed": ctx.seed,
        "level": level,
        "coverage": coverage,
        "assumptions": assumptions,
        "wall_s": round(time.time() - ctx.t0, 2),
        "violations": len(ctx.violations),
        "known_findings_hit": [k["id"] for k in ctx.known_hits],
    }
    ev["tree"] = os.path.realpath(REPO)
    path = os.path.join(edir, ctx.pid + ".json")
    tmp = path + ".tmp%d" % os.getpid()
    with open(tmp, "w") as f:
        json.dump(ev, f, indent=1, default=str)
    os.replace(tmp, path)
    return path
