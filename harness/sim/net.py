"""Virtual-time network simulator for pairs of real aioquic ``QuicConnection``s.

Building blocks (see ``README.md`` for the full API and examples):

* :class:`Clock` -- virtual time.
* :class:`Endpoint` -- wraps one ``QuicConnection``; every public call goes
  through :meth:`Endpoint.call`, is logged in ``api_log`` and, if it raises,
  is re-raised as :class:`ApiRaised` (or captured in ``endpoint.raised`` when
  ``capture_exceptions=True``).  Nothing is ever swallowed silently.
* :class:`Network` -- datagrams in flight, per-datagram *fates*
  (:class:`Fates`), NAT rebinding, spoofed injection, interception hooks.
* :class:`Pair` -- a client and a server endpoint joined by a network, with
  ``step`` / ``run`` / ``run_until_idle`` / ``advance`` / ``run_script``.
* :func:`gen_script` / :func:`script_truth` -- random application scripts and
  their ground truth.

Determinism: every random choice comes from ``random.Random`` objects derived
from the ``seed`` given to :class:`Pair`; the randomness *inside* aioquic is
replaced per endpoint through :mod:`sim.det`.
"""

from __future__ import annotations

import heapq
import io
import random
import ssl
from dataclasses import dataclass, field
from typing import Any, Callable, Iterable, Optional, Sequence, Union

import aioquic.tls as _aq_tls
from aioquic.buffer import Buffer
from aioquic.quic import events as qevents
from aioquic.quic.configuration import QuicConfiguration
from aioquic.quic.connection import QuicConnection
from aioquic.quic.logger import QuicLogger
from aioquic.quic.packet import (
    QuicPacketType,
    QuicProtocolVersion,
    encode_quic_retry,
    encode_quic_version_negotiation,
    pull_quic_header,
)

from .det import (
    DetSource,
    Determinism,
    Identity,
    deterministic_random,
    ed25519_identity,
    rsa_identity,
)

__all__ = [
    "Clock",
    "ApiCall",
    "ApiRaised",
    "Endpoint",
    "Action",
    "deliver",
    "drop",
    "duplicate",
    "corrupt",
    "Fates",
    "adversarial_then_fair",
    "WireRecord",
    "Network",
    "TicketStore",
    "Pair",
    "StepRecord",
    "SimStall",
    "ScriptItem",
    "Script",
    "gen_script",
    "script_truth",
    "deterministic_random",
    "CLIENT_ADDR",
    "SERVER_ADDR",
    "V1",
    "V2",
]

Address = Any
CLIENT_ADDR: Address = ("10.0.0.1", 50000)
SERVER_ADDR: Address = ("10.0.0.2", 4433)
V1 = int(QuicProtocolVersion.VERSION_1)
V2 = int(QuicProtocolVersion.VERSION_2)


# ---------------------------------------------------------------------------
# time
# ---------------------------------------------------------------------------


class Clock:
    """Virtual time in seconds.  Starts at ``start`` (default 1000.0)."""

    def __init__(self, start: float = 1000.0) -> None:
        self.start = float(start)
        self.now = float(start)

    def advance_to(self, t: float) -> None:
        """Move time forward to *t* (never backwards)."""
        if t > self.now:
            self.now = t

    def elapsed(self) -> float:
        """Seconds since the clock was created."""
        return self.now - self.start

    def __call__(self) -> float:
        return self.now


# ---------------------------------------------------------------------------
# endpoints
# ---------------------------------------------------------------------------


@dataclass
class ApiCall:
    """One public call made on a connection through an :class:`Endpoint`."""

    time: float
    endpoint: str
    name: str
    args: tuple
    kwargs: dict
    result: Any = None
    exc_type: Optional[str] = None
    exc: Optional[BaseException] = None

    @property
    def raised(self) -> bool:
        return self.exc_type is not None

    def brief(self) -> str:
        """Short printable form (byte strings abbreviated to their length)."""

        def short(v: Any) -> str:
            if isinstance(v, (bytes, bytearray)):
                return "<%d bytes>" % len(v)
            return repr(v)

        args = ", ".join(
            [short(a) for a in self.args]
            + ["%s=%s" % (k, short(v)) for k, v in self.kwargs.items()]
        )
        tail = " !%s" % self.exc_type if self.exc_type else ""
        return "%.6f %s.%s(%s)%s" % (self.time, self.endpoint, self.name, args, tail)


class ApiRaised(Exception):
    """A public ``QuicConnection`` method raised.

    ``call`` is the :class:`ApiCall` record, ``exc`` the original exception
    (also available as ``__cause__``).
    """

    def __init__(self, call: ApiCall, exc: BaseException) -> None:
        super().__init__("%s raised %s: %s" % (call.brief(), type(exc).__name__, exc))
        self.call = call
        self.exc = exc


class SimStall(Exception):
    """The simulation made no progress (a timer kept firing at the same instant)."""


#: Methods whose return value is summarised rather than stored verbatim.
_RESULT_SUMMARY = {
    "datagrams_to_send": lambda r: [(len(d), a) for d, a in r],
}


class Endpoint:
    """A ``QuicConnection`` plus complete bookkeeping of what was done to it.

    :param name: ``"client"`` or ``"server"`` (free text for other uses).
    :param conn: the connection (may be ``None`` for a server created lazily
        on the first datagram; see :meth:`bind`).
    :param addr: the network address datagrams from this endpoint carry.
    :param clock: time source; ``now`` arguments are filled in from it.
    :param det: optional :class:`sim.det.Determinism` entered around each call.
    :param capture_exceptions: when false (default) an exception escaping a
        connection method is recorded and re-raised as :class:`ApiRaised`;
        when true it is recorded in ``raised`` and the simulation carries on.

    Attributes: ``events`` ``[(time, event)]`` in pop order, ``sent`` /
    ``received`` ``[(time, bytes, addr)]``, ``api_log`` ``[ApiCall]``,
    ``raised`` ``[ApiCall]``, ``timer_at`` (value of the last ``get_timer``),
    ``timer_fire_at`` (when the simulator will fire it, incl. slack),
    ``spins`` (number of busy-loop timer firings, see ``Pair(spin_quantum=)``).
    """

    def __init__(
        self,
        name: str,
        conn: Optional[QuicConnection],
        addr: Address,
        clock: Optional[Clock] = None,
        det: Optional[Determinism] = None,
        capture_exceptions: bool = False,
    ) -> None:
        self.name = name
        self.conn = conn
        self.addr = addr
        self.clock = clock if clock is not None else Clock()
        self.det = det
        self.capture_exceptions = capture_exceptions
        self.events: list[tuple[float, qevents.QuicEvent]] = []
        self.sent: list[tuple[float, bytes, Address]] = []
        self.received: list[tuple[float, bytes, Address]] = []
        self.api_log: list[ApiCall] = []
        self.raised: list[ApiCall] = []
        self.event_hooks: list[Callable[["Endpoint", qevents.QuicEvent], None]] = []
        self.timer_at: Optional[float] = None
        self.timer_fire_at: Optional[float] = None
        self.spinning = False
        self.spins = 0
        self.timer_fired: list[tuple[float, float]] = []  # (armed_for, fired_at)
        self.secrets_log: Optional[io.StringIO] = None
        self.quic_logger: Optional[QuicLogger] = None
        self.configuration: Optional[QuicConfiguration] = None

    # -- generic call --------------------------------------------------------

    def bind(self, conn: QuicConnection) -> None:
        """Attach the connection of a lazily created endpoint."""
        self.conn = conn

    def call(self, name: str, *args: Any, **kwargs: Any) -> Any:
        """Invoke ``conn.<name>(*args, **kwargs)``, log it, never swallow.

        Returns the method's result.  If the method raises: with
        ``capture_exceptions`` false, raises :class:`ApiRaised`; otherwise
        appends the record to ``raised`` and returns ``None`` (``[]`` for
        ``datagrams_to_send``).
        """
        if self.conn is None:
            raise RuntimeError("endpoint %s has no connection yet" % self.name)
        record = ApiCall(self.clock.now, self.name, name, args, kwargs)
        self.api_log.append(record)
        fn = getattr(self.conn, name)
        try:
            if self.det is not None:
                with self.det:
                    result = fn(*args, **kwargs)
            else:
                result = fn(*args, **kwargs)
        except Exception as exc:  # recorded and re-raised / exposed, never hidden
            record.exc_type = type(exc).__name__
            record.exc = exc
            self.raised.append(record)
            if not self.capture_exceptions:
                raise ApiRaised(record, exc) from exc
            return [] if name == "datagrams_to_send" else None
        summary = _RESULT_SUMMARY.get(name)
        record.result = summary(result) if summary else result
        return result

    # -- the public QuicConnection API, with ``now`` taken from the clock ----

    def connect(self, addr: Address) -> None:
        self.call("connect", addr, now=self.clock.now)

    def receive_datagram(self, data: bytes, addr: Address) -> None:
        self.received.append((self.clock.now, data, addr))
        self.call("receive_datagram", data, addr, now=self.clock.now)

    def datagrams_to_send(self) -> list[tuple[bytes, Address]]:
        out = self.call("datagrams_to_send", now=self.clock.now)
        for data, addr in out:
            self.sent.append((self.clock.now, data, addr))
        return out

    def get_timer(self) -> Optional[float]:
        return self.call("get_timer")

    def handle_timer(self) -> None:
        self.call("handle_timer", now=self.clock.now)

    def next_event(self) -> Optional[qevents.QuicEvent]:
        return self.call("next_event")

    def send_stream_data(
        self, stream_id: int, data: bytes, end_stream: bool = False
    ) -> None:
        self.call("send_stream_data", stream_id, data, end_stream=end_stream)

    def reset_stream(self, stream_id: int, error_code: int) -> None:
        self.call("reset_stream", stream_id, error_code)

    def stop_stream(self, stream_id: int, error_code: int) -> None:
        self.call("stop_stream", stream_id, error_code)

    def send_ping(self, uid: int) -> None:
        self.call("send_ping", uid)

    def send_datagram_frame(self, data: bytes) -> None:
        self.call("send_datagram_frame", data)

    def request_key_update(self) -> None:
        self.call("request_key_update")

    def change_connection_id(self) -> None:
        self.call("change_connection_id")

    def close(
        self,
        error_code: int = 0,
        frame_type: Optional[int] = None,
        reason_phrase: str = "",
    ) -> None:
        self.call(
            "close",
            error_code=error_code,
            frame_type=frame_type,
            reason_phrase=reason_phrase,
        )

    def get_next_available_stream_id(self, is_unidirectional: bool = False) -> int:
        return self.call(
            "get_next_available_stream_id", is_unidirectional=is_unidirectional
        )

    # -- helpers -------------------------------------------------------------

    def drain_events(self) -> list[qevents.QuicEvent]:
        """Pop all pending events (tagging them with the current time)."""
        out = []
        while True:
            event = self.next_event()
            if event is None:
                break
            self.events.append((self.clock.now, event))
            out.append(event)
            for hook in list(self.event_hooks):
                hook(self, event)
        return out

    def events_of(self, cls: type) -> list[Any]:
        """All recorded events of a given class, in order."""
        return [e for _, e in self.events if isinstance(e, cls)]

    @property
    def terminated(self) -> Optional[qevents.ConnectionTerminated]:
        """The ``ConnectionTerminated`` event, once it was delivered."""
        found = self.events_of(qevents.ConnectionTerminated)
        return found[0] if found else None

    @property
    def handshake_completed(self) -> bool:
        return bool(self.events_of(qevents.HandshakeCompleted))

    def qlog_events(self) -> list[dict]:
        """All qlog events recorded by this endpoint's ``QuicLogger``."""
        if self.quic_logger is None:
            return []
        out: list[dict] = []
        for trace in self.quic_logger.to_dict()["traces"]:
            out.extend(trace["events"])
        return out

    def qlog_frames(self, event_name: str = "transport:packet_received") -> list[dict]:
        """Flat list of qlog frame dicts of all ``event_name`` events."""
        frames: list[dict] = []
        for ev in self.qlog_events():
            if ev["name"] == event_name:
                frames.extend(ev["data"].get("frames", []))
        return frames


# ---------------------------------------------------------------------------
# fates
# ---------------------------------------------------------------------------


@dataclass(frozen=True)
class Action:
    """What happens to (one copy of) a datagram.

    ``kind`` is ``"deliver"``, ``"drop"``, ``"duplicate"`` or ``"corrupt"``.
    ``delay`` is the one-way delay in seconds (``None`` = the network's base
    latency); ``extra`` is added on top of it.  ``src`` optionally rewrites the source address the receiver
    sees.  ``flip`` is ``(offset, xor_mask)`` for ``corrupt`` (offset taken
    modulo the datagram length).
    """

    kind: str
    delay: Optional[float] = None
    src: Optional[Address] = None
    flip: Optional[tuple[int, int]] = None
    extra: float = 0.0


def deliver(delay: Optional[float] = None, src: Optional[Address] = None) -> Action:
    """Deliver one copy after ``delay`` seconds (default: base latency)."""
    return Action("deliver", delay, src)


def drop() -> Action:
    """Lose the datagram."""
    return Action("drop")


def duplicate(delay: Optional[float] = None) -> Action:
    """Deliver an *additional* copy after ``delay`` seconds."""
    return Action("duplicate", delay)


def corrupt(offset: int, mask: int = 0x01, delay: Optional[float] = None) -> Action:
    """Deliver one copy with ``data[offset] ^= mask``."""
    return Action("corrupt", delay, None, (offset, mask))


Fate = Callable[[int, str, bytes], list[Action]]
"""``fate(datagram_index, direction, data) -> [Action, ...]``; direction is
``"c2s"`` or ``"s2c"``.  An empty list (or only ``drop``) loses the datagram;
every ``deliver`` / ``duplicate`` / ``corrupt`` action yields one copy."""


class Fates:
    """Standard fate policies.  All are plain callables; compose freely."""

    @staticmethod
    def perfect() -> Fate:
        """Every datagram is delivered once after the base latency."""
        one = [deliver()]
        return lambda index, direction, data: one

    @staticmethod
    def random(
        rng: random.Random,
        p_drop: float = 0.0,
        p_dup: float = 0.0,
        p_reorder: float = 0.0,
        max_delay: float = 0.05,
        base_delay: Optional[float] = None,
    ) -> Fate:
        """Independent per-datagram loss / duplication / extra delay.

        With probability ``p_drop`` the datagram is lost.  Otherwise it is
        delivered; with probability ``p_reorder`` its delay is
        ``base + U(0, max_delay)`` (so it may overtake or be overtaken);
        with probability ``p_dup`` a second copy follows after
        ``base + U(0, max_delay)``.
        """

        def fate(index: int, direction: str, data: bytes) -> list[Action]:
            if rng.random() < p_drop:
                return [drop()]
            extra = rng.uniform(0.0, max_delay) if rng.random() < p_reorder else 0.0
            actions = [Action("deliver", base_delay, extra=extra)]
            if rng.random() < p_dup:
                actions.append(
                    Action("duplicate", base_delay, extra=rng.uniform(0.0, max_delay))
                )
            return actions

        return fate

    @staticmethod
    def script(
        entries: Union[Sequence[Any], dict], default: Optional[list[Action]] = None
    ) -> Fate:
        """Explicit fates by datagram index.

        ``entries`` is a list (position = datagram index) or a dict
        ``{index: fate}``; each fate is an ``Action``, a list of actions, or
        ``None`` (= default, deliver).  Indices beyond the script deliver.
        """
        table = dict(enumerate(entries)) if not isinstance(entries, dict) else dict(entries)
        dflt = default if default is not None else [deliver()]

        def fate(index: int, direction: str, data: bytes) -> list[Action]:
            f = table.get(index)
            if f is None:
                return dflt
            if isinstance(f, Action):
                return [f]
            return list(f)

        return fate

    @staticmethod
    def drop_indices(indices: Iterable[int]) -> Fate:
        """Lose exactly the datagrams whose global index is in ``indices``."""
        lost = set(indices)
        one = [deliver()]
        nothing = [drop()]
        return lambda index, direction, data: nothing if index in lost else one

    @staticmethod
    def by_direction(c2s: Fate, s2c: Fate) -> Fate:
        """Different policies for the two directions."""
        return lambda i, d, data: (c2s if d == "c2s" else s2c)(i, d, data)

    @staticmethod
    def adversarial_then_fair(
        adversarial: Fate,
        fair_after_time: Optional[float] = None,
        after_n: Optional[int] = None,
        clock: Optional[Clock] = None,
        fair: Optional[Fate] = None,
    ) -> Fate:
        """See :func:`adversarial_then_fair`."""
        return adversarial_then_fair(adversarial, fair_after_time, after_n, clock, fair)


def adversarial_then_fair(
    adversarial: Fate,
    fair_after_time: Optional[float] = None,
    after_n: Optional[int] = None,
    clock: Optional[Clock] = None,
    fair: Optional[Fate] = None,
) -> Fate:
    """Two-phase policy: ``adversarial`` first, then ``fair`` (default perfect).

    The switch happens once the datagram index reaches ``after_n`` or once
    ``clock.elapsed() >= fair_after_time`` (``clock`` may be omitted when the
    fate is given to :class:`Pair`, which fills it in).  This is the shape the
    liveness properties need: arbitrary misbehaviour for a bounded prefix, then
    a network that eventually delivers.
    """
    fair_fate = fair if fair is not None else Fates.perfect()
    state = {"clock": clock}

    def fate(index: int, direction: str, data: bytes) -> list[Action]:
        if after_n is not None and index >= after_n:
            return fair_fate(index, direction, data)
        c = state["clock"]
        if fair_after_time is not None and c is not None and c.elapsed() >= fair_after_time:
            return fair_fate(index, direction, data)
        return adversarial(index, direction, data)

    fate.bind_clock = lambda c: state.__setitem__("clock", state["clock"] or c)  # type: ignore[attr-defined]
    return fate


# ---------------------------------------------------------------------------
# network
# ---------------------------------------------------------------------------


@dataclass
class WireRecord:
    """One datagram handed to the network (before its fate is applied)."""

    index: int
    time: float
    direction: str
    src: Address
    dst: Address
    data: bytes
    actions: list[Action]
    sender: Optional[str] = None  # endpoint name, None for injected datagrams
    injected: bool = False
    original: Optional[bytes] = None  # pre-interception bytes, when rewritten


class Network:
    """Datagrams in flight between endpoints, under virtual time.

    :param rng: source for any random decision the network itself makes.
    :param clock: the shared clock.
    :param fate: the fate policy (default :meth:`Fates.perfect`).
    :param latency: base one-way delay used when an action has no delay.

    ``wire_log`` lists every datagram ever handed to the network
    (:class:`WireRecord`); ``taps`` are called with each record at send time
    (the wire observer registers itself there); ``delivered`` /
    ``blackholed`` record arrival.  ``muted`` (names of endpoints whose output
    is discarded before it reaches the wire), ``isolated`` (names of endpoints
    that receive nothing) and ``interceptors`` (``{name: f(data) -> data |
    None}``, rewriting an endpoint's output) support the peer puppet.
    """

    def __init__(
        self,
        rng: random.Random,
        clock: Clock,
        fate: Optional[Fate] = None,
        latency: float = 0.01,
    ) -> None:
        self.rng = rng
        self.clock = clock
        self.fate: Fate = fate if fate is not None else Fates.perfect()
        self.latency = latency
        self.in_flight: list[tuple[float, int, bytes, Address, Address, int]] = []
        self.wire_log: list[WireRecord] = []
        self.taps: list[Callable[[WireRecord], None]] = []
        self.interceptors: dict[str, Callable[[bytes], Optional[bytes]]] = {}
        self.endpoints: dict[Address, Endpoint] = {}
        self.delivered: list[tuple[float, int, Address, Address]] = []
        self.blackholed: list[tuple[float, int, Address, Address]] = []
        self.muted: set[str] = set()  # endpoint names whose output is discarded
        self.isolated: set[str] = set()  # endpoint names that receive nothing
        self._seq = 0
        bind = getattr(self.fate, "bind_clock", None)
        if bind:
            bind(clock)

    def set_fate(self, fate: Fate) -> None:
        """Replace the fate policy from now on."""
        self.fate = fate
        bind = getattr(fate, "bind_clock", None)
        if bind:
            bind(self.clock)

    def attach(self, endpoint: Endpoint) -> None:
        """Make ``endpoint`` reachable at ``endpoint.addr``."""
        self.endpoints[endpoint.addr] = endpoint

    def rebind(self, endpoint: Endpoint, new_addr: Address, keep_old: bool = False) -> None:
        """NAT rebinding: from now on ``endpoint`` sends from / is reachable at
        ``new_addr``.  Unless ``keep_old``, datagrams still addressed to the
        old address are black-holed (recorded in ``blackholed``)."""
        if not keep_old:
            for a in [a for a, e in self.endpoints.items() if e is endpoint]:
                del self.endpoints[a]
        endpoint.addr = new_addr
        self.endpoints[new_addr] = endpoint

    def _direction(self, src_ep: Optional[Endpoint], dst: Address) -> str:
        if src_ep is not None:
            return "c2s" if src_ep.name == "client" else "s2c"
        dst_ep = self.endpoints.get(dst)
        return "c2s" if dst_ep is not None and dst_ep.name == "server" else "s2c"

    def send(self, data: bytes, src_ep: Endpoint, dst: Address) -> Optional[WireRecord]:
        """Hand a datagram produced by ``src_ep`` to the network."""
        if src_ep.name in self.muted:
            return None
        original = None
        hook = self.interceptors.get(src_ep.name)
        if hook is not None:
            new = hook(data)
            if new is None:
                return None
            if new != data:
                original, data = data, new
        return self._submit(
            data, src_ep.addr, dst, self._direction(src_ep, dst), src_ep.name, False, original
        )

    def inject(
        self,
        data: bytes,
        src_addr: Address,
        dst_endpoint: Endpoint,
        delay: Optional[float] = 0.0,
        apply_fate: bool = False,
    ) -> WireRecord:
        """Put a datagram with an arbitrary (spoofed) source address on the wire.

        By default it bypasses the fate policy and arrives after ``delay``
        (0 = at the current instant, processed by the next ``step``)."""
        direction = "c2s" if dst_endpoint.name == "server" else "s2c"
        if apply_fate:
            return self._submit(data, src_addr, dst_endpoint.addr, direction, None, True, None)
        index = len(self.wire_log)
        act = [deliver(delay)]
        rec = WireRecord(
            index, self.clock.now, direction, src_addr, dst_endpoint.addr, data, act, None, True
        )
        self.wire_log.append(rec)
        for tap in self.taps:
            tap(rec)
        self._enqueue(rec, act)
        return rec

    def _submit(
        self,
        data: bytes,
        src: Address,
        dst: Address,
        direction: str,
        sender: Optional[str],
        injected: bool,
        original: Optional[bytes],
    ) -> WireRecord:
        index = len(self.wire_log)
        actions = list(self.fate(index, direction, data))
        rec = WireRecord(
            index, self.clock.now, direction, src, dst, data, actions, sender, injected, original
        )
        self.wire_log.append(rec)
        for tap in self.taps:
            tap(rec)
        self._enqueue(rec, actions)
        return rec

    def _enqueue(self, rec: WireRecord, actions: list[Action]) -> None:
        for act in actions:
            if act.kind == "drop":
                continue
            delay = (self.latency if act.delay is None else act.delay) + act.extra
            data = rec.data
            if act.kind == "corrupt" and act.flip is not None and data:
                off, mask = act.flip
                off %= len(data)
                data = data[:off] + bytes([data[off] ^ (mask & 0xFF)]) + data[off + 1 :]
            src = act.src if act.src is not None else rec.src
            self._seq += 1
            heapq.heappush(
                self.in_flight,
                (self.clock.now + max(0.0, delay), self._seq, data, src, rec.dst, rec.index),
            )

    def next_delivery_time(self) -> Optional[float]:
        """Arrival time of the earliest datagram in flight, or ``None``."""
        return self.in_flight[0][0] if self.in_flight else None

    def pop(self) -> tuple[float, int, bytes, Address, Address, int]:
        """Remove and return the earliest datagram in flight."""
        return heapq.heappop(self.in_flight)

    def hex_trace(self) -> list[str]:
        """Canonical text form of everything sent: one line per datagram."""
        return [
            "%.9f %s %s>%s %s"
            % (r.time, r.direction, _addr(r.src), _addr(r.dst), r.data.hex())
            for r in self.wire_log
        ]


def _addr(a: Address) -> str:
    if isinstance(a, tuple):
        return ":".join(str(x) for x in a)
    return str(a)


# ---------------------------------------------------------------------------
# pair
# ---------------------------------------------------------------------------


class TicketStore:
    """Server-side session ticket store plus the client's received tickets.

    Pass the same store to two successive :class:`Pair` s to resume / do 0-RTT:
    the first run fills ``client_tickets``; give
    ``client_config={"session_ticket": store.client_tickets[-1]}`` to the second.
    The second pair's clock automatically starts after the first one's tickets
    became valid (``resume_after``).
    """

    def __init__(self) -> None:
        self.tickets: dict[bytes, Any] = {}
        self.client_tickets: list[Any] = []
        #: virtual time after which every stored ticket is valid; a Pair given
        #: this store starts its clock no earlier (tickets carry a
        #: not-valid-before stamp taken from the issuing pair's virtual clock)
        self.resume_after = 0.0
        self._clock: Optional[Clock] = None

    def _stamp(self) -> None:
        if self._clock is not None:
            self.resume_after = max(self.resume_after, self._clock.now + 1.0)

    def add(self, ticket: Any) -> None:
        self.tickets[ticket.ticket] = ticket
        self._stamp()

    def pop(self, label: bytes) -> Any:
        return self.tickets.pop(label, None)

    def client_add(self, ticket: Any) -> None:
        self.client_tickets.append(ticket)
        self._stamp()


@dataclass
class StepRecord:
    """What one :meth:`Pair.step` did."""

    time: float
    kind: str  # "deliver" | "timer" | "listener" | "blackhole"
    endpoint: Optional[str]
    datagram_index: Optional[int] = None
    sent: int = 0
    events: int = 0


class Pair:
    """A real aioquic client and server joined by a simulated network.

    :param seed: everything random derives from it.
    :param client_config: ``QuicConfiguration`` field overrides for the client.
    :param server_config: the same for the server.
    :param fates: fate policy (default perfect); ``adversarial_then_fair``
        policies get the pair's clock bound automatically.
    :param versions: ``supported_versions`` for both sides (first one is the
        client's original version), e.g. ``[V1]``, ``[V2, V1]``.  Use
        ``client_versions`` / ``server_versions`` for asymmetric setups
        (a mismatch exercises Version Negotiation through the emulated
        listener).
    :param congestion_control_algorithm: ``"reno"`` or ``"cubic"``.
    :param alpn: ALPN list for both sides.
    :param retry: emulate the stateless Retry of ``aioquic.asyncio.server``
        (the pair plays the listener: first Initial without token gets a Retry,
        the server connection is created from the validated token).
    :param ticket_store: enables session tickets (and thereby 0-RTT on a
        second pair) -- see :class:`TicketStore`.
    :param client_certificate: server requests and verifies a client
        certificate (uses aioquic's test-only ``_request_client_certificate``
        switch, installed while the server runs).
    :param max_datagram_size: both sides' ``max_datagram_size``.
    :param client_qlog / server_qlog: attach a ``QuicLogger``.
    :param secrets_log: give both sides an in-memory ``secrets_log_file``
        (needed by the wire observer and the puppet).
    :param cert: ``"ed25519"`` (default; fully deterministic),
        ``"rsa"`` (the test-suite's files under ``$VERIF_REPO/tests``) or an
        :class:`sim.det.Identity`.
    :param latency: base one-way delay of the network, seconds.
    :param timer_slack: ``f(rng) -> seconds`` added to every timer firing time
        (default: fire exactly at ``get_timer()``).
    :param capture_exceptions: see :class:`Endpoint`.
    :param eager_server: create the server connection immediately (as the
        unit tests do) instead of on the first datagram (as the asyncio server
        does).  Ignored with ``retry``.
    :param deterministic: install :mod:`sim.det` replacements around endpoint
        calls (default true).
    :param observe: attach a :class:`sim.wire.WireObserver` (``pair.observer``).
    :param spin_quantum: aioquic can ask for a timer that is already due right
        after a ``handle_timer`` that did nothing (e.g. an ACK is owed but the
        anti-amplification limit forbids sending).  A real event loop then spins.
        The simulator records the episode in ``pair.anomalies`` /
        ``endpoint.spins`` and re-fires the timer every ``spin_quantum`` virtual
        seconds so that other events can end it.  ``None``: do not creep, raise
        :class:`SimStall` after 200 fruitless firings at one instant.
    """

    def __init__(
        self,
        seed: Any = 0,
        client_config: Optional[dict] = None,
        server_config: Optional[dict] = None,
        *,
        fates: Optional[Fate] = None,
        versions: Optional[Sequence[int]] = None,
        client_versions: Optional[Sequence[int]] = None,
        server_versions: Optional[Sequence[int]] = None,
        congestion_control_algorithm: str = "reno",
        alpn: Optional[Sequence[str]] = ("sim",),
        retry: bool = False,
        ticket_store: Optional[TicketStore] = None,
        client_certificate: bool = False,
        max_datagram_size: int = 1200,
        client_qlog: bool = True,
        server_qlog: bool = True,
        secrets_log: bool = True,
        cert: Union[str, Identity] = "ed25519",
        latency: float = 0.01,
        timer_slack: Optional[Callable[[random.Random], float]] = None,
        capture_exceptions: bool = False,
        eager_server: bool = False,
        deterministic: bool = True,
        observe: bool = True,
        clock_start: float = 1000.0,
        spin_quantum: Optional[float] = 0.001,
    ) -> None:
        _check_fresh_import()
        self.seed = seed
        if ticket_store is not None:
            clock_start = max(clock_start, ticket_store.resume_after)
        self.clock = Clock(clock_start)
        if ticket_store is not None:
            ticket_store._clock = self.clock
        self.rng = random.Random("pair-%s" % (seed,))
        self.net_rng = random.Random("net-%s" % (seed,))
        self.timer_rng = random.Random("timer-%s" % (seed,))
        self.network = Network(self.net_rng, self.clock, fates, latency)
        self.timer_slack = timer_slack
        self.spin_quantum = spin_quantum
        self.retry = retry
        self.ticket_store = ticket_store
        self.steps: list[StepRecord] = []
        self.anomalies: list[str] = []
        self.listener_log: list[tuple[float, str, int]] = []
        self._stall_count = 0
        self._listener_det = (
            Determinism(DetSource("listener-%s" % (seed,)), self.clock) if deterministic else None
        )

        identity = (
            cert
            if isinstance(cert, Identity)
            else (rsa_identity() if cert == "rsa" else ed25519_identity())
        )
        self.identity = identity

        def det_for(name: str, extra: Optional[list] = None) -> Optional[Determinism]:
            if not deterministic:
                return None if not extra else _ExtraOnly(extra)
            return Determinism(DetSource("%s-%s" % (name, seed)), self.clock, extra)

        # -- client ----------------------------------------------------------
        cver = list(client_versions or versions or [V1, V2])
        sver = list(server_versions or versions or [V1, V2])
        ccfg = QuicConfiguration(
            is_client=True,
            alpn_protocols=list(alpn) if alpn is not None else None,
            congestion_control_algorithm=congestion_control_algorithm,
            max_datagram_size=max_datagram_size,
            supported_versions=cver,
            server_name=identity.server_name,
        )
        identity.apply_as_trust(ccfg)
        if client_certificate:
            identity.apply_as_own(ccfg)
        for k, v in (client_config or {}).items():
            setattr(ccfg, k, v)
        self.client = Endpoint(
            "client", None, CLIENT_ADDR, self.clock, det_for("client"), capture_exceptions
        )
        self._finish_config(self.client, ccfg, client_qlog, secrets_log)
        ckw: dict[str, Any] = {}
        if ticket_store is not None:
            ckw["session_ticket_handler"] = ticket_store.client_add
        self.client.bind(self._construct(self.client, ccfg, **ckw))

        # -- server ----------------------------------------------------------
        scfg = QuicConfiguration(
            is_client=False,
            alpn_protocols=list(alpn) if alpn is not None else None,
            congestion_control_algorithm=congestion_control_algorithm,
            max_datagram_size=max_datagram_size,
            supported_versions=sver,
        )
        identity.apply_as_own(scfg)
        extra = None
        if client_certificate:
            identity.apply_as_trust(scfg)
            scfg.verify_mode = ssl.CERT_REQUIRED
            extra = [(_aq_tls, "Context", _make_cert_requesting_context())]
        for k, v in (server_config or {}).items():
            setattr(scfg, k, v)
        self.server = Endpoint(
            "server", None, SERVER_ADDR, self.clock, det_for("server", extra), capture_exceptions
        )
        self._finish_config(self.server, scfg, server_qlog, secrets_log)
        self._server_kwargs: dict[str, Any] = {}
        if ticket_store is not None:
            self._server_kwargs["session_ticket_handler"] = ticket_store.add
            self._server_kwargs["session_ticket_fetcher"] = ticket_store.pop
        if eager_server and not retry:
            self._create_server(self.client.conn.original_destination_connection_id, None)

        self.network.attach(self.client)
        self.network.attach(self.server)

        self.observer = None
        if observe and secrets_log:
            from .wire import WireObserver  # local import: wire imports nothing from net

            self.observer = WireObserver(
                secrets_logs=[self.client.secrets_log, self.server.secrets_log],
                cid_lengths={
                    "client": ccfg.connection_id_length,
                    "server": scfg.connection_id_length,
                },
            )
            self.network.taps.append(self.observer.tap)

    # -- construction helpers -------------------------------------------------

    @staticmethod
    def _finish_config(
        ep: Endpoint, cfg: QuicConfiguration, qlog: bool, secrets_log: bool
    ) -> None:
        if qlog and cfg.quic_logger is None:
            cfg.quic_logger = QuicLogger()
        if secrets_log and cfg.secrets_log_file is None:
            cfg.secrets_log_file = io.StringIO()
        ep.quic_logger = cfg.quic_logger
        ep.secrets_log = cfg.secrets_log_file  # type: ignore[assignment]
        ep.configuration = cfg

    @staticmethod
    def _construct(ep: Endpoint, cfg: QuicConfiguration, **kwargs: Any) -> QuicConnection:
        if ep.det is not None:
            with ep.det:
                return QuicConnection(configuration=cfg, **kwargs)
        return QuicConnection(configuration=cfg, **kwargs)

    def _create_server(self, odcid: bytes, retry_scid: Optional[bytes]) -> None:
        conn = self._construct(
            self.server,
            self.server.configuration,
            original_destination_connection_id=odcid,
            retry_source_connection_id=retry_scid,
            **self._server_kwargs,
        )
        self.server.bind(conn)

    # -- driving -----------------------------------------------------------------

    @property
    def now(self) -> float:
        return self.clock.now

    @property
    def endpoints(self) -> tuple[Endpoint, Endpoint]:
        return (self.client, self.server)

    def endpoint(self, side: str) -> Endpoint:
        """``"client"`` / ``"server"`` -> endpoint."""
        if side == "client":
            return self.client
        if side == "server":
            return self.server
        raise ValueError(side)

    def peer_of(self, ep: Endpoint) -> Endpoint:
        return self.server if ep is self.client else self.client

    def connect(self, pump: bool = True) -> None:
        """``client.connect(server address)`` and send the first flight.

        With ``pump=False`` nothing is sent yet, so early (0-RTT) stream writes
        can be queued before calling :meth:`pump`."""
        self.client.connect(self.server.addr)
        if pump:
            self.pump(self.client)

    def pump(self, ep: Endpoint, _after_timer: bool = False) -> int:
        """Move ``ep``'s pending datagrams onto the network, drain its events,
        re-arm its timer.  Call after any direct application action.
        Returns the number of datagrams sent."""
        if ep.conn is None:
            return 0
        out = ep.datagrams_to_send()
        for data, addr in out:
            self.network.send(data, ep, addr)
        n_events = len(ep.drain_events())
        self._arm_timer(ep, _after_timer and not out and not n_events)
        return len(out)

    def pump_all(self) -> None:
        """:meth:`pump` both endpoints (client first)."""
        self.pump(self.client)
        self.pump(self.server)

    def _arm_timer(self, ep: Endpoint, after_idle_timer: bool = False) -> None:
        t = ep.get_timer()
        if t != ep.timer_at or ep.timer_fire_at is None:
            ep.timer_at = t
            if t is None:
                ep.timer_fire_at = None
            else:
                slack = self.timer_slack(self.timer_rng) if self.timer_slack else 0.0
                ep.timer_fire_at = t + max(0.0, slack)
        if (
            after_idle_timer
            and ep.timer_fire_at is not None
            and ep.timer_fire_at <= self.clock.now
            and self.spin_quantum
        ):
            # The timer just fired, nothing was sent, and the connection asks to
            # be woken at a time that is not in the future: a real event loop
            # would now spin (call_at in the past).  Model the spin by letting
            # time creep forward so other events can break it, and record it.
            if not ep.spinning:
                ep.spinning = True
                self.anomalies.append(
                    "%.6f %s: timer re-armed in the past (get_timer()=%.6f) after a "
                    "no-op handle_timer; busy-loop" % (self.clock.now, ep.name, ep.timer_at)
                )
            ep.spins += 1
            ep.timer_fire_at = self.clock.now + self.spin_quantum
        elif ep.spinning and not after_idle_timer:
            ep.spinning = False

    def next_due(self) -> Optional[tuple[float, int, Optional[Endpoint]]]:
        """``(time, kind, endpoint)`` of the next thing to happen, kind 0 =
        datagram delivery, 1 = timer; ``None`` when nothing is pending."""
        best: Optional[tuple[float, int, int, Optional[Endpoint]]] = None
        t = self.network.next_delivery_time()
        if t is not None:
            best = (t, 0, 0, None)
        for order, ep in enumerate(self.endpoints):
            if ep.conn is not None and ep.timer_fire_at is not None:
                cand = (ep.timer_fire_at, 1, order, ep)
                if best is None or cand[:3] < best[:3]:
                    best = cand
        if best is None:
            return None
        return (best[0], best[1], best[3])

    def step(self) -> Optional[StepRecord]:
        """Advance to the next due datagram delivery or endpoint timer, perform
        it, pump the endpoint that acted, drain its events.

        Returns a :class:`StepRecord`, or ``None`` if nothing is pending at all.
        Raises :class:`SimStall` if a timer fires 200 times in a row without
        time advancing (aioquic re-arming a timer in the past)."""
        due = self.next_due()
        if due is None:
            return None
        t, kind, ep = due
        before = self.clock.now
        self.clock.advance_to(t)
        if kind == 0:
            rec = self._deliver_next()
        else:
            assert ep is not None
            armed = ep.timer_at
            ep.timer_fired.append((armed if armed is not None else t, self.clock.now))
            ep.timer_fire_at = None
            n_events = len(ep.events)
            ep.handle_timer()
            sent = self.pump(ep, True)
            rec = StepRecord(self.clock.now, "timer", ep.name, None, sent, len(ep.events) - n_events)
        if self.clock.now == before and rec.kind == "timer" and rec.sent == 0:
            self._stall_count += 1
            if self._stall_count >= 200:
                self.anomalies.append("stall at %.6f (%s timer)" % (self.clock.now, rec.endpoint))
                raise SimStall(
                    "%s timer fired 200 times at t=%.6f without progress"
                    % (rec.endpoint, self.clock.now)
                )
        else:
            self._stall_count = 0
        self.steps.append(rec)
        return rec

    def _deliver_next(self) -> StepRecord:
        when, _seq, data, src, dst, index = self.network.pop()
        ep = self.network.endpoints.get(dst)
        if ep is None or ep.name in self.network.isolated:
            self.network.blackholed.append((self.clock.now, index, src, dst))
            return StepRecord(self.clock.now, "blackhole", None, index)
        if ep.conn is None:
            return self._listener(ep, data, src, index)
        self.network.delivered.append((self.clock.now, index, src, dst))
        return self._deliver_to(ep, data, src, index)

    def _deliver_to(self, ep: Endpoint, data: bytes, src: Address, index: Optional[int]) -> StepRecord:
        n_events = len(ep.events)
        ep.receive_datagram(data, src)
        sent = self.pump(ep)
        return StepRecord(self.clock.now, "deliver", ep.name, index, sent, len(ep.events) - n_events)

    def deliver_now(self, data: bytes, src: Address, dst_ep: Endpoint) -> StepRecord:
        """Hand ``data`` to ``dst_ep`` at the current instant, bypassing fates
        and latency (still logged on the wire as *injected*)."""
        rec = WireRecord(
            len(self.network.wire_log),
            self.clock.now,
            "c2s" if dst_ep.name == "server" else "s2c",
            src,
            dst_ep.addr,
            data,
            [deliver(0.0)],
            None,
            True,
        )
        self.network.wire_log.append(rec)
        for tap in self.network.taps:
            tap(rec)
        if dst_ep.conn is None:
            step = self._listener(dst_ep, data, src, rec.index)
        else:
            self.network.delivered.append((self.clock.now, rec.index, src, dst_ep.addr))
            step = self._deliver_to(dst_ep, data, src, rec.index)
        self.steps.append(step)
        return step

    # -- emulated server listener (aioquic.asyncio.server.QuicServer) -------------

    def _listener(self, ep: Endpoint, data: bytes, src: Address, index: int) -> StepRecord:
        cfg = ep.configuration
        assert cfg is not None
        now = self.clock.now
        try:
            header = pull_quic_header(Buffer(data=data), host_cid_length=cfg.connection_id_length)
        except ValueError:
            self.listener_log.append((now, "unparsable", index))
            return StepRecord(now, "listener", ep.name, index)
        if header.version is not None and header.version not in cfg.supported_versions:
            with self._listener_ctx():
                vn = encode_quic_version_negotiation(
                    source_cid=header.destination_cid,
                    destination_cid=header.source_cid,
                    supported_versions=cfg.supported_versions,
                )
            self.listener_log.append((now, "version_negotiation", index))
            self.network.send(vn, ep, src)
            return StepRecord(now, "listener", ep.name, index, 1)
        if len(data) < 1200 or header.packet_type != QuicPacketType.INITIAL:
            self.listener_log.append((now, "ignored", index))
            return StepRecord(now, "listener", ep.name, index)
        odcid = header.destination_cid
        retry_scid = None
        if self.retry:
            if not header.token:
                with self._listener_ctx():
                    import os as _os

                    scid = _os.urandom(8)
                token = b"simretry" + bytes([len(odcid)]) + odcid + scid
                pkt = encode_quic_retry(
                    version=header.version,
                    source_cid=scid,
                    destination_cid=header.source_cid,
                    original_destination_cid=odcid,
                    retry_token=token,
                )
                self.listener_log.append((now, "retry", index))
                self.network.send(pkt, ep, src)
                return StepRecord(now, "listener", ep.name, index, 1)
            tok = header.token
            if not tok.startswith(b"simretry") or len(tok) < 9:
                self.listener_log.append((now, "bad_token", index))
                return StepRecord(now, "listener", ep.name, index)
            n = tok[8]
            odcid, retry_scid = tok[9 : 9 + n], tok[9 + n :]
        self._create_server(odcid, retry_scid)
        self.listener_log.append((now, "accept", index))
        self.network.delivered.append((now, index, src, ep.addr))
        return self._deliver_to(ep, data, src, index)

    def _listener_ctx(self) -> Any:
        return self._listener_det if self._listener_det is not None else _NullCtx()

    # -- running ---------------------------------------------------------------------

    def run(
        self,
        until: Optional[Callable[["Pair"], bool]] = None,
        max_time: float = 120.0,
        max_steps: int = 200000,
    ) -> str:
        """Step until ``until(pair)`` holds.

        ``max_time`` is in virtual seconds from now.  Returns why it stopped:
        ``"until"``, ``"idle"`` (nothing pending at all), ``"max_time"`` (the
        next event lies beyond the horizon; the clock is left at the horizon)
        or ``"max_steps"``."""
        horizon = self.clock.now + max_time
        for _ in range(max_steps):
            if until is not None and until(self):
                return "until"
            due = self.next_due()
            if due is None:
                return "idle"
            if due[0] > horizon:
                self.clock.advance_to(horizon)
                return "max_time"
            self.step()
        if until is not None and until(self):
            return "until"
        return "max_steps"

    def run_until_idle(self, max_time: float = 120.0, quiet: float = 3.0) -> str:
        """Run until the network is empty and no endpoint timer is due within
        ``quiet`` seconds (i.e. only idle / long back-off timers remain), or both
        endpoints are terminated.  Returns like :meth:`run` (``"until"`` = idle)."""

        def idle(p: "Pair") -> bool:
            if p.network.in_flight:
                return False
            due = p.next_due()
            return due is None or due[0] > p.clock.now + quiet

        return self.run(idle, max_time=max_time)

    def advance(self, dt: float) -> None:
        """Process everything due within the next ``dt`` seconds, then set the
        clock to exactly ``now + dt``."""
        target = self.clock.now + dt
        while True:
            due = self.next_due()
            if due is None or due[0] > target:
                break
            self.step()
        self.clock.advance_to(target)

    def handshake(self, max_time: float = 30.0) -> bool:
        """``connect()`` if needed and run until both sides completed the
        handshake and the client saw it confirmed-ish (both have
        ``HandshakeCompleted``).  Returns success."""
        if not any(c.name == "connect" for c in self.client.api_log):
            self.connect()
        self.run(
            lambda p: p.client.handshake_completed and p.server.handshake_completed,
            max_time=max_time,
        )
        return self.client.handshake_completed and self.server.handshake_completed

    # -- NAT / spoofing passthroughs ------------------------------------------------------

    def rebind(self, side: str = "client", new_addr: Optional[Address] = None) -> Address:
        """NAT-rebind ``side`` to ``new_addr`` (default: same host, port + 1)."""
        ep = self.endpoint(side)
        if new_addr is None:
            host, port = ep.addr
            new_addr = (host, port + 1)
        self.network.rebind(ep, new_addr)
        return new_addr

    def inject(self, data: bytes, src_addr: Address, dst_side: str, delay: float = 0.0) -> WireRecord:
        """Spoofed-source injection towards ``dst_side``."""
        return self.network.inject(data, src_addr, self.endpoint(dst_side), delay)

    # -- application scripts ---------------------------------------------------------------

    def apply(self, item: "ScriptItem") -> Optional[ApiCall]:
        """Perform one script action now (through the Endpoint API) and pump."""
        ep = self.endpoint(item.side)
        a = item.args
        op = item.op
        n_log = len(ep.api_log)
        if op == "write":
            ep.send_stream_data(a["stream"], a.get("data", b""), a.get("fin", False))
        elif op == "reset":
            ep.reset_stream(a["stream"], a.get("code", 0))
        elif op == "stop":
            ep.stop_stream(a["stream"], a.get("code", 0))
        elif op == "ping":
            ep.send_ping(a.get("uid", 0))
        elif op == "key_update":
            ep.request_key_update()
        elif op == "change_cid":
            ep.change_connection_id()
        elif op == "close":
            ep.close(a.get("code", 0), a.get("frame_type"), a.get("reason", ""))
        elif op == "datagram":
            ep.send_datagram_frame(a.get("data", b""))
        elif op == "rebind":
            self.rebind(item.side, a.get("addr"))
        elif op == "wait":
            pass
        else:
            raise ValueError("unknown script op %r" % (op,))
        self.pump(ep)
        return ep.api_log[n_log] if len(ep.api_log) > n_log and op not in ("rebind", "wait") else None

    def run_script(
        self,
        script: "Script",
        on_api_error: str = "raise",
        settle: bool = True,
        max_time: float = 300.0,
        after_seen_timeout: float = 10.0,
    ) -> list[tuple["ScriptItem", Optional[str]]]:
        """Run a list of timed application actions.

        Each item fires when its ``t`` (virtual seconds after the script
        started) or ``step`` (number of simulator steps after the script
        started) is reached; items are processed in list order.  With
        ``on_api_error="record"`` an exception raised *by the application
        call itself* (e.g. ``ValueError`` for a write on a finished stream) is
        returned in the result instead of propagating; exceptions from network
        input or timers always follow the endpoint's ``capture_exceptions``.
        ``settle`` finally runs until idle.  Returns ``[(item, outcome)]`` with
        outcome ``None`` (done), an exception class name, or ``"skipped"`` (an
        ``after_seen`` item whose stream did not show up within
        ``after_seen_timeout`` virtual seconds -- e.g. the initiator only made
        empty writes, which put nothing on the wire)."""
        t0 = self.clock.now
        s0 = len(self.steps)
        out: list[tuple[ScriptItem, Optional[str]]] = []
        for item in script:
            if item.step is not None:
                target = s0 + item.step
                while len(self.steps) < target and self.step() is not None:
                    pass
            if item.t is not None:
                dt = t0 + item.t - self.clock.now
                if dt > 0:
                    self.advance(dt)
            if item.args.get("after_seen"):
                ep, sid = self.endpoint(item.side), item.args["stream"]

                def seen(_p: "Pair", ep: Endpoint = ep, sid: int = sid) -> bool:
                    return any(getattr(e, "stream_id", None) == sid for _, e in ep.events)

                self.run(seen, max_time=after_seen_timeout)
                if not seen(self):
                    out.append((item, "skipped"))
                    continue
            try:
                self.apply(item)
                out.append((item, None))
            except ApiRaised as exc:
                if on_api_error != "record":
                    raise
                out.append((item, type(exc.exc).__name__))
                self.pump(self.endpoint(item.side))
        if settle:
            self.run_until_idle(max_time=max_time)
        return out

    # -- traces ----------------------------------------------------------------------------------

    def hex_trace(self) -> list[str]:
        """The network's canonical datagram trace (see :meth:`Network.hex_trace`)."""
        return self.network.hex_trace()


def _check_fresh_import() -> None:
    """Fail loudly if ``sim`` holds a stale aioquic (imported before the check
    harness activated its overlay of the tree under test)."""
    import sys

    mod = sys.modules.get("aioquic.quic.connection")
    if mod is None or getattr(mod, "QuicConnection", None) is not QuicConnection:
        raise RuntimeError(
            "sim was imported before the aioquic overlay was activated (or aioquic was "
            "re-imported since): import sim inside run(ctx)/replay(ctx), not at module top"
        )


class _NullCtx:
    def __enter__(self) -> "_NullCtx":
        return self

    def __exit__(self, *a: Any) -> None:
        return None


class _ExtraOnly:
    """Install only the ``extra`` patches (non-deterministic pairs)."""

    def __init__(self, extra: list[tuple[Any, str, Any]]) -> None:
        self._extra = extra
        self._stack: list[list[tuple[Any, str, Any]]] = []

    def __enter__(self) -> "_ExtraOnly":
        saved = []
        for obj, name, value in self._extra:
            saved.append((obj, name, getattr(obj, name)))
            setattr(obj, name, value)
        self._stack.append(saved)
        return self

    def __exit__(self, *a: Any) -> None:
        for obj, name, old in reversed(self._stack.pop()):
            setattr(obj, name, old)


def _make_cert_requesting_context() -> type:
    real = _aq_tls.Context

    class CertRequestingContext(real):  # type: ignore[misc, valid-type]
        def __init__(self, *args: Any, **kwargs: Any) -> None:
            super().__init__(*args, **kwargs)
            if not kwargs.get("is_client", False):
                self._request_client_certificate = True

    return CertRequestingContext


# ---------------------------------------------------------------------------
# scripts
# ---------------------------------------------------------------------------


@dataclass
class ScriptItem:
    """One timed application action.

    ``t``: virtual seconds after script start; ``step``: simulator steps after
    script start (either or both may be given; both must be reached).
    ``side``: ``"client"`` / ``"server"``.  ``op`` and ``args``:

    ========== =============================================
    write      stream, data, fin, after_seen (wait until this side has had an
               event for the stream: answering on a peer-initiated stream)
    reset      stream, code
    stop       stream, code
    ping       uid
    key_update --
    change_cid --
    close      code, frame_type, reason
    datagram   data
    rebind     addr (optional)
    wait       -- (just reach the time)
    ========== =============================================
    """

    side: str
    op: str
    args: dict = field(default_factory=dict)
    t: Optional[float] = None
    step: Optional[int] = None

    def brief(self) -> str:
        a = {
            k: ("<%d bytes>" % len(v) if isinstance(v, (bytes, bytearray)) else v)
            for k, v in self.args.items()
        }
        return "t=%s step=%s %s.%s %s" % (self.t, self.step, self.side, self.op, a)


Script = list  # list[ScriptItem]

PROFILES: dict[str, dict] = {
    # n_streams: streams opened per direction class; max_size: per write
    "small": dict(streams=3, writes=(1, 3), max_size=2048, p_reset=0.1, p_stop=0.1,
                  extras=2, span=0.5, close=False, rebind=False, datagrams=False),
    "mixed": dict(streams=6, writes=(1, 5), max_size=40960, p_reset=0.15, p_stop=0.1,
                  extras=5, span=2.0, close=False, rebind=True, datagrams=False),
    "bulk": dict(streams=2, writes=(3, 6), max_size=40960, p_reset=0.0, p_stop=0.0,
                 extras=1, span=1.0, close=False, rebind=False, datagrams=False),
    "closing": dict(streams=4, writes=(1, 4), max_size=16384, p_reset=0.1, p_stop=0.1,
                    extras=4, span=1.5, close=True, rebind=True, datagrams=False),
}


def gen_script(rng: random.Random, profile: Union[str, dict] = "mixed") -> Script:
    """Generate a mixed, API-valid application script.

    Streams: client- and server-initiated, bidirectional and unidirectional;
    on bidirectional streams the peer may answer.  Write sizes 0 .. 40 KiB
    (biased towards small and boundary sizes), FIN on the last write or as an
    empty write, occasional ``reset`` instead of FIN, occasional ``stop`` of a
    stream's receive side (issued by the stream's *initiator* on its own
    bidirectional stream right after its first write, so the stream is known to
    exist), pings, key updates, CID changes, optional NAT rebinding, DATAGRAM
    frames and a final close.  ``profile`` is a name from ``PROFILES`` or a dict
    with the same keys.  Items are sorted by time; all data comes from ``rng``.

    The script is valid to run after the handshake completed.
    """
    p = dict(PROFILES[profile]) if isinstance(profile, str) else dict(PROFILES["mixed"], **profile)
    items: list[ScriptItem] = []
    span = p["span"]
    next_id = {("client", False): 0, ("server", False): 1, ("client", True): 2, ("server", True): 3}

    def size() -> int:
        r = rng.random()
        if r < 0.15:
            return 0
        if r < 0.5:
            return rng.randrange(1, 200)
        if r < 0.6:
            return rng.choice([1, 63, 64, 1100, 1199, 1200, 1201, 16383, 16384])
        return rng.randrange(200, max(201, p["max_size"] + 1))

    def sender_plan(side: str, sid: int, t0: float, answer: bool = False) -> float:
        """writes (+fin/reset) by ``side`` on ``sid`` starting at t0; returns last time"""
        n = rng.randint(*p["writes"])
        t = t0
        will_reset = rng.random() < p["p_reset"]
        for i in range(n):
            last = i == n - 1
            data = rng.randbytes(min(size(), p["max_size"]))
            fin = last and not will_reset and rng.random() < 0.85
            args = dict(stream=sid, data=data, fin=fin)
            if answer:
                args["after_seen"] = True
            items.append(ScriptItem(side, "write", args, t=t))
            t += rng.choice([0.0, 0.0, 0.001, 0.01, 0.05]) * (1 + rng.random())
        if will_reset:
            args = dict(stream=sid, code=rng.randrange(0, 1 << 20))
            if answer:
                args["after_seen"] = True
            items.append(ScriptItem(side, "reset", args, t=t))
        return t

    for _ in range(p["streams"]):
        side = rng.choice(["client", "server"])
        uni = rng.random() < 0.4
        sid = next_id[(side, uni)]
        next_id[(side, uni)] += 4
        t0 = rng.uniform(0.0, span)
        t_end = sender_plan(side, sid, t0)
        if not uni:
            other = "server" if side == "client" else "client"
            if rng.random() < p["p_stop"]:
                # initiator refuses the answer half of its own stream
                items.append(
                    ScriptItem(side, "stop", dict(stream=sid, code=rng.randrange(0, 1 << 16)), t=t0)
                )
            elif rng.random() < 0.6:
                # the peer answers after it has seen the stream (writing on a
                # not-yet-seen peer-initiated stream is an API error)
                sender_plan(other, sid, max(t_end, t0) + rng.uniform(0.0, span), answer=True)
    for _ in range(p["extras"]):
        side = rng.choice(["client", "server"])
        t = rng.uniform(0.0, span)
        r = rng.random()
        if r < 0.35:
            items.append(ScriptItem(side, "ping", dict(uid=rng.randrange(1 << 16)), t=t))
        elif r < 0.6:
            items.append(ScriptItem(side, "key_update", {}, t=t))
        elif r < 0.85:
            items.append(ScriptItem(side, "change_cid", {}, t=t))
        elif p["datagrams"]:
            items.append(
                ScriptItem(side, "datagram", dict(data=rng.randbytes(rng.randrange(0, 900))), t=t)
            )
        else:
            items.append(ScriptItem(side, "ping", dict(uid=rng.randrange(1 << 16)), t=t))
    if p["rebind"] and rng.random() < 0.5:
        # a NAT rebinding only becomes visible when the client next sends
        t = rng.uniform(0.0, span)
        items.append(ScriptItem("client", "rebind", {}, t=t))
        items.append(ScriptItem("client", "ping", dict(uid=rng.randrange(1 << 16)), t=t))
    items.sort(key=lambda it: it.t if it.t is not None else 0.0)  # stable
    if p["close"]:
        last = max([it.t or 0.0 for it in items] + [0.0])
        items.append(
            ScriptItem(
                rng.choice(["client", "server"]),
                "close",
                dict(code=rng.randrange(0, 1 << 10), reason="bye"),
                t=last + rng.uniform(0.0, 3.0),
            )
        )
    return items


def script_truth(
    script: Script,
    outcomes: Optional[list[tuple[ScriptItem, Optional[str]]]] = None,
) -> dict[tuple[str, int], dict]:
    """Ground truth of a script: ``{(sender_side, stream_id): {...}}``.

    Each value has ``data`` (all bytes written, in order), ``fin`` (a FIN was
    written), ``reset`` (error code of a ``reset`` or ``None``), and
    ``stopped`` (error code if the *receiving* peer's script stops the stream,
    else ``None``).  Pass the return value of :meth:`Pair.run_script` as
    ``outcomes`` to leave out actions that were skipped or refused by the API.
    Use with :func:`sim.observe.stream_deliveries` of the *other* endpoint."""
    if outcomes is not None:
        script = [it for it, outcome in outcomes if outcome is None]
    truth: dict[tuple[str, int], dict] = {}
    for it in script:
        if it.op in ("write", "reset"):
            rec = truth.setdefault(
                (it.side, it.args["stream"]),
                dict(data=b"", fin=False, reset=None, stopped=None),
            )
            if it.op == "write":
                rec["data"] += it.args.get("data", b"")
                rec["fin"] = rec["fin"] or bool(it.args.get("fin"))
            else:
                rec["reset"] = it.args.get("code", 0)
    for it in script:
        if it.op == "stop":
            other = "server" if it.side == "client" else "client"
            rec = truth.get((other, it.args["stream"]))
            if rec is not None:
                rec["stopped"] = it.args.get("code", 0)
    return truth
