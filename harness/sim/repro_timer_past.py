"""Reproduction: ``get_timer()`` keeps returning a time that is not in the future
while ``handle_timer`` / ``datagrams_to_send`` make no progress (event-loop spin).

Public sans-IO API only::

    PYTHONPATH=$VERIF_REPO/src /venv/bin/python harness/sim/repro_timer_past.py

Scenario: after a normal handshake the client's NAT rebinds (its next datagram,
a 29-byte packet carrying a PING, arrives from a new source address).  The
server treats the new address as an unvalidated path with an anti-amplification
budget of 3 x 29 = 87 bytes, spends 36 of them, and then still owes an ACK
(``space.ack_at`` is set) that no longer fits the remaining budget:
``datagrams_to_send`` returns ``[]`` but leaves ``ack_at`` in place, so
``get_timer()`` keeps returning that (now past) instant.  A driver that does
what ``aioquic.asyncio`` does (``call_at(get_timer())`` -> ``handle_timer`` ->
``transmit``) spins without sleeping until the client's next datagram raises
the budget or a later timer (PTO / idle) takes over.  (Property C09: a live
connection always has a timer *in the future* or makes progress.)

Exit status: 1 if the spin is observed, 0 otherwise.  With the simulator:
``Pair(52); handshake(); run_until_idle(); rebind("client");
client.send_ping(1); pump(client); run_until_idle()`` -> ``server.spins > 0``
and an entry in ``pair.anomalies``.
"""

from __future__ import annotations

import os
import sys

from aioquic.quic.configuration import QuicConfiguration
from aioquic.quic.connection import QuicConnection

REPO = os.environ.get("VERIF_REPO", "/repo")
CLIENT_ADDR = ("1.2.3.4", 1234)
CLIENT_ADDR_REBOUND = ("1.2.3.4", 1235)
SERVER_ADDR = ("2.3.4.5", 4433)


def main() -> int:
    ccfg = QuicConfiguration(is_client=True, server_name="localhost")
    ccfg.load_verify_locations(cafile=os.path.join(REPO, "tests", "pycacert.pem"))
    scfg = QuicConfiguration(is_client=False)
    scfg.load_cert_chain(
        os.path.join(REPO, "tests", "ssl_cert.pem"), os.path.join(REPO, "tests", "ssl_key.pem")
    )
    client = QuicConnection(configuration=ccfg)
    server = QuicConnection(
        configuration=scfg,
        original_destination_connection_id=client.original_destination_connection_id,
    )
    now = 1000.0
    client.connect(SERVER_ADDR, now=now)
    for _ in range(6):  # handshake and the trailing ACKs, 10 ms one-way delay
        for data, _a in client.datagrams_to_send(now=now):
            server.receive_datagram(data, CLIENT_ADDR, now=now + 0.01)
        now += 0.01
        for data, _a in server.datagrams_to_send(now=now):
            client.receive_datagram(data, SERVER_ADDR, now=now + 0.01)
        now += 0.01
    for conn in (client, server):  # let delayed ACK timers run out
        t = conn.get_timer()
        while t is not None and t < now + 1.0:
            conn.handle_timer(now=t)
            for data, _a in conn.datagrams_to_send(now=t):
                peer = server if conn is client else client
                peer.receive_datagram(data, CLIENT_ADDR if conn is client else SERVER_ADDR, now=t + 0.01)
            t = conn.get_timer()
    now += 1.0

    # NAT rebinding becomes visible with the client's next (small) datagram
    client.send_ping(1)
    sizes = []
    for data, _a in client.datagrams_to_send(now=now):
        sizes.append(len(data))
        server.receive_datagram(data, CLIENT_ADDR_REBOUND, now=now + 0.01)
    now += 0.01
    out = server.datagrams_to_send(now=now)
    print("client datagram sizes %s from the new address; server answered with %s bytes"
          % (sizes, [len(d) for d, _ in out]))

    while server.next_event() is not None:  # drain what the handshake produced
        pass
    spins = 0
    timer = server.get_timer()
    while timer is not None and spins < 1000:
        if timer > now:
            if spins or timer > now + 0.1:
                break  # a timer in the future: a real loop would sleep here
            now = timer  # sleep until the (delayed-ACK) timer is due
        # due (or overdue) timer: call_at() with a past time runs at once
        server.handle_timer(now=now)
        sent = server.datagrams_to_send(now=now)
        timer = server.get_timer()
        if sent or server.next_event() is not None:
            break
        if timer is not None and timer <= now:
            spins += 1
    print("fruitless timer firings at t=%.6f: %d (get_timer() = %r)" % (now, spins, timer))
    if spins >= 1000:
        print("BUG PRESENT: get_timer() stays in the past while nothing can be sent")
        return 1
    print("ok: no spin")
    return 0


if __name__ == "__main__":
    sys.exit(main())
