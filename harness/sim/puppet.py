"""Peer puppet: a key-holding peer that can say anything.

After (or during) a real handshake between the two endpoints of a
:class:`sim.net.Pair`, :class:`Puppet` builds packets that are *correctly
protected* with one side's current sending keys -- taken from the wire
observer, i.e. from the ``secrets_log_file`` and the Initial DCID, never from
private connection state -- and hands them to the other endpoint (the
*subject*).  Frame payloads come from :class:`F`, which can encode every
RFC 9000 / RFC 9221 frame with arbitrary, boundary or invalid field values.

:class:`HalfPair` is the man-in-the-middle-with-keys mode: one real endpoint is
the subject, the other real endpoint is *hidden* behind an interceptor which
decrypts each of its outgoing packets, lets a callback rewrite the frames and
re-protects the result with the same packet number and keys.
"""

from __future__ import annotations

from typing import Any, Callable, Iterable, Optional, Sequence, Union

from aioquic.quic.packet import QuicProtocolVersion

from .net import Address, Endpoint, Pair, StepRecord, WireRecord
from .wire import SPACE_OF, Packet, WireObserver

__all__ = ["varint", "F", "Puppet", "HalfPair", "tls_message", "MAX_PACKET"]

V2 = int(QuicProtocolVersion.VERSION_2)
UINT_VAR_MAX = (1 << 62) - 1
#: aioquic's native AEAD / header-protection helpers use fixed 1500-byte
#: buffers; the puppet refuses to build anything larger.
MAX_PACKET = 1500

_LONG_TYPE_V1 = {"initial": 0, "0rtt": 1, "handshake": 2, "retry": 3}
_LONG_TYPE_V2 = {"initial": 1, "0rtt": 2, "handshake": 3, "retry": 0}
_EPOCH_ALIASES = {
    "initial": "initial", "i": "initial",
    "handshake": "handshake", "h": "handshake",
    "0rtt": "0rtt", "zero_rtt": "0rtt", "0": "0rtt",
    "1rtt": "1rtt", "one_rtt": "1rtt", "1": "1rtt", "app": "1rtt",
}


def _epoch_name(epoch: Any) -> str:
    name = getattr(epoch, "name", epoch)
    key = str(name).lower()
    if key not in _EPOCH_ALIASES:
        raise ValueError("unknown epoch %r" % (epoch,))
    return _EPOCH_ALIASES[key]


def varint(value: int, size: Optional[int] = None) -> bytes:
    """QUIC variable-length integer.  ``size`` (1, 2, 4 or 8) forces a
    (possibly non-minimal) encoding length."""
    if value < 0 or value > UINT_VAR_MAX:
        raise ValueError("varint out of range: %r (use F.raw for invalid encodings)" % value)
    if size is None:
        size = 1 if value < 0x40 else 2 if value < 0x4000 else 4 if value < 0x40000000 else 8
    prefix = {1: 0, 2: 1, 4: 2, 8: 3}[size]
    if value >= 1 << (8 * size - 2):
        raise ValueError("%d does not fit a %d-byte varint" % (value, size))
    return (value | (prefix << (8 * size - 2))).to_bytes(size, "big")


def tls_message(handshake_type: int, body: bytes, length: Optional[int] = None) -> bytes:
    """A TLS 1.3 handshake message: type (1), length (3, overridable), body."""
    n = len(body) if length is None else length
    return bytes([handshake_type & 0xFF]) + n.to_bytes(3, "big") + body


class F:
    """Frame builders.  Every method returns the frame's bytes.

    All integer fields are encoded as minimal varints unless a ``*_size``
    override is given; for values no varint can carry, or any other malformed
    shape, assemble bytes yourself with :meth:`raw` / :func:`varint` or cut a
    valid frame short with :meth:`truncated`.
    """

    @staticmethod
    def raw(data: bytes) -> bytes:
        """Arbitrary bytes, verbatim."""
        return bytes(data)

    @staticmethod
    def truncated(frame: bytes, keep: int) -> bytes:
        """The first ``keep`` bytes of ``frame`` (negative: drop from the end)."""
        return frame[:keep]

    @staticmethod
    def unknown(frame_type: int, body: bytes = b"") -> bytes:
        """A frame with an arbitrary (e.g. unassigned) type."""
        return varint(frame_type) + body

    @staticmethod
    def padding(count: int = 1) -> bytes:
        return bytes(count)

    @staticmethod
    def ping() -> bytes:
        return b"\x01"

    @staticmethod
    def ack(
        ranges: Sequence[tuple[int, int]],
        delay: int = 0,
        ecn: Optional[tuple[int, int, int]] = None,
    ) -> bytes:
        """ACK for inclusive ``(first, last)`` packet-number ranges (any order;
        they are sorted, not merged).  ``delay`` is the raw encoded value."""
        rs = sorted(ranges, reverse=True)
        hi = rs[0][1]
        out = varint(0x03 if ecn is not None else 0x02) + varint(hi) + varint(delay)
        out += varint(len(rs) - 1) + varint(hi - rs[0][0])
        lo = rs[0][0]
        for first, last in rs[1:]:
            out += varint(lo - last - 2) + varint(last - first)
            lo = first
        if ecn is not None:
            out += varint(ecn[0]) + varint(ecn[1]) + varint(ecn[2])
        return out

    @staticmethod
    def ack_raw(
        largest: int,
        delay: int,
        first_range: int,
        more: Sequence[tuple[int, int]] = (),
        range_count: Optional[int] = None,
        ecn: Optional[tuple[int, int, int]] = None,
    ) -> bytes:
        """ACK from raw wire fields (``more`` = ``[(gap, length)]``); lets the
        range count disagree with the ranges present, ranges underflow, etc."""
        out = varint(0x03 if ecn is not None else 0x02) + varint(largest) + varint(delay)
        out += varint(len(more) if range_count is None else range_count) + varint(first_range)
        for gap, length in more:
            out += varint(gap) + varint(length)
        if ecn is not None:
            out += varint(ecn[0]) + varint(ecn[1]) + varint(ecn[2])
        return out

    @staticmethod
    def reset_stream(stream_id: int, error_code: int, final_size: int) -> bytes:
        return b"\x04" + varint(stream_id) + varint(error_code) + varint(final_size)

    @staticmethod
    def stop_sending(stream_id: int, error_code: int) -> bytes:
        return b"\x05" + varint(stream_id) + varint(error_code)

    @staticmethod
    def crypto(offset: int, data: bytes, length: Optional[int] = None) -> bytes:
        """CRYPTO; ``length`` overrides the declared length."""
        n = len(data) if length is None else length
        return b"\x06" + varint(offset) + varint(n) + data

    @staticmethod
    def new_token(token: bytes, length: Optional[int] = None) -> bytes:
        n = len(token) if length is None else length
        return b"\x07" + varint(n) + token

    @staticmethod
    def stream(
        stream_id: int,
        offset: int,
        data: bytes,
        fin: bool = False,
        explicit_len: bool = True,
        explicit_offset: Optional[bool] = None,
        length: Optional[int] = None,
    ) -> bytes:
        """STREAM.  ``explicit_len=False`` omits the length (frame extends to
        the end of the packet); ``explicit_offset`` defaults to ``offset != 0``;
        ``length`` overrides the declared length."""
        with_off = (offset != 0) if explicit_offset is None else explicit_offset
        ftype = 0x08 | (4 if with_off else 0) | (2 if explicit_len else 0) | (1 if fin else 0)
        out = bytes([ftype]) + varint(stream_id)
        if with_off:
            out += varint(offset)
        if explicit_len:
            out += varint(len(data) if length is None else length)
        return out + data

    @staticmethod
    def max_data(maximum: int) -> bytes:
        return b"\x10" + varint(maximum)

    @staticmethod
    def max_stream_data(stream_id: int, maximum: int) -> bytes:
        return b"\x11" + varint(stream_id) + varint(maximum)

    @staticmethod
    def max_streams(maximum: int, uni: bool = False) -> bytes:
        return (b"\x13" if uni else b"\x12") + varint(maximum)

    @staticmethod
    def data_blocked(limit: int) -> bytes:
        return b"\x14" + varint(limit)

    @staticmethod
    def stream_data_blocked(stream_id: int, limit: int) -> bytes:
        return b"\x15" + varint(stream_id) + varint(limit)

    @staticmethod
    def streams_blocked(limit: int, uni: bool = False) -> bytes:
        return (b"\x17" if uni else b"\x16") + varint(limit)

    @staticmethod
    def new_connection_id(
        seq: int,
        retire_prior_to: int,
        cid: bytes,
        token: bytes = bytes(16),
        cid_len: Optional[int] = None,
    ) -> bytes:
        """NEW_CONNECTION_ID; ``cid_len`` overrides the length octet and
        ``token`` may have any length (16 is valid)."""
        n = len(cid) if cid_len is None else cid_len
        return b"\x18" + varint(seq) + varint(retire_prior_to) + bytes([n & 0xFF]) + cid + token

    @staticmethod
    def retire_connection_id(seq: int) -> bytes:
        return b"\x19" + varint(seq)

    @staticmethod
    def path_challenge(data: bytes = bytes(8)) -> bytes:
        return b"\x1a" + data

    @staticmethod
    def path_response(data: bytes = bytes(8)) -> bytes:
        return b"\x1b" + data

    @staticmethod
    def connection_close(
        error_code: int,
        frame_type: int = 0,
        reason: bytes = b"",
        app: bool = False,
        reason_len: Optional[int] = None,
    ) -> bytes:
        """CONNECTION_CLOSE (transport 0x1c, or application 0x1d with ``app``)."""
        n = len(reason) if reason_len is None else reason_len
        if app:
            return b"\x1d" + varint(error_code) + varint(n) + reason
        return b"\x1c" + varint(error_code) + varint(frame_type) + varint(n) + reason

    @staticmethod
    def handshake_done() -> bytes:
        return b"\x1e"

    @staticmethod
    def datagram(data: bytes, explicit_len: bool = True, length: Optional[int] = None) -> bytes:
        if explicit_len:
            return b"\x31" + varint(len(data) if length is None else length) + data
        return b"\x30" + data


class Puppet:
    """Speaks as ``as_side`` towards the other endpoint of ``pair``.

    :param pair: a :class:`sim.net.Pair` with an observer (the default).
    :param as_side: ``"server"`` or ``"client"`` -- whose keys, connection IDs
        and address the puppet uses.  The *subject* is the other endpoint.
    :param observer: key / packet-number source (default ``pair.observer``).

    The puppet needs keys, so the real endpoints must have exchanged at least
    the client's first flight (Initial keys) and, for Handshake / 1-RTT, have
    progressed far enough for the secrets to be logged.
    """

    def __init__(
        self, pair: Pair, as_side: str = "server", observer: Optional[WireObserver] = None
    ) -> None:
        if observer is None and pair.observer is None:
            raise ValueError("Puppet needs Pair(observe=True, secrets_log=True)")
        self.pair = pair
        self.as_side = as_side
        self.real: Endpoint = pair.endpoint(as_side)
        self.subject: Endpoint = pair.peer_of(self.real)
        self.observer: WireObserver = observer if observer is not None else pair.observer
        self.sent: list[tuple[float, str, int, bytes]] = []  # (time, epoch, pn, datagram)
        self._last_pn: dict[str, int] = {}

    # -- control over the real endpoint the puppet impersonates ------------------

    def mute_real(self, on: bool = True) -> None:
        """Discard everything the real ``as_side`` endpoint sends from now on."""
        (self.pair.network.muted.add if on else self.pair.network.muted.discard)(self.as_side)

    def isolate_real(self, on: bool = True) -> None:
        """:meth:`mute_real` and additionally let nothing reach the real
        ``as_side`` endpoint (the subject's packets are still observed)."""
        self.mute_real(on)
        net = self.pair.network
        (net.isolated.add if on else net.isolated.discard)(self.as_side)

    # -- packet construction -----------------------------------------------------

    def next_pn(self, epoch: Any = "1rtt") -> int:
        """A packet number above anything ``as_side`` (or this puppet) has used
        in the packet-number space of ``epoch``."""
        space = SPACE_OF[_epoch_name(epoch)]
        seen = self.observer.largest_pn.get((self.as_side, space), -1)
        return max(seen, self._last_pn.get(space, -1)) + 1

    def default_dcid(self) -> bytes:
        """The destination CID a real ``as_side`` would use now: the one it used
        last -- except that a client which has so far only addressed the
        server by the original (or Retry-supplied) DCID switches to the server's
        source CID as soon as the server has shown one."""
        other = "client" if self.as_side == "server" else "server"
        cid = self.observer.last_dcid.get(self.as_side)
        other_scid = self.observer.last_scid.get(other)
        if other_scid and (cid is None or cid in self.observer.initial_dcids):
            cid = other_scid
        if cid is None:
            raise ValueError("no destination CID known yet for %s" % self.as_side)
        return cid

    def default_scid(self) -> bytes:
        return self.observer.last_scid.get(self.as_side, b"")

    def version(self) -> int:
        return (
            self.observer.versions.get(self.as_side)
            or self.observer.versions.get("client")
            or int(QuicProtocolVersion.VERSION_1)
        )

    def build_packet(
        self,
        epoch: Any,
        frames: Union[bytes, Iterable[bytes]],
        pn: Optional[int] = None,
        dcid: Optional[bytes] = None,
        scid: Optional[bytes] = None,
        *,
        key_phase: Optional[int] = None,
        pn_len: Optional[int] = None,
        token: Optional[bytes] = None,
        version: Optional[int] = None,
        reserved_bits: int = 0,
        fixed_bit: bool = True,
        spin_bit: bool = False,
        pad_payload_to: Optional[int] = None,
        length_field: Optional[int] = None,
    ) -> bytes:
        """Build and protect one packet; returns its bytes.

        ``frames`` is a list of frame byte strings (concatenated) or the whole
        payload.  ``pn`` defaults to :meth:`next_pn`.  ``pn_len`` (1-4)
        defaults to 2, or 4 when the payload is too short to give header
        protection its 16-byte sample.  ``key_phase`` selects the 1-RTT key
        generation by its phase bit (default: current).  ``reserved_bits``,
        ``fixed_bit``, ``length_field`` (long header Length override) allow
        malformed headers.  ``pad_payload_to`` appends PADDING to the payload.
        Raises ``ValueError`` if no keys are known for the epoch or the packet
        would exceed :data:`MAX_PACKET` bytes.
        """
        ep = _epoch_name(epoch)
        payload = frames if isinstance(frames, (bytes, bytearray)) else b"".join(frames)
        payload = bytes(payload)
        if pad_payload_to is not None and len(payload) < pad_payload_to:
            payload += bytes(pad_payload_to - len(payload))
        ctx = self.observer.context_for(self.as_side, ep, key_phase)
        if ctx is None or not ctx.is_valid():
            raise ValueError("no %s sending keys known for %s" % (ep, self.as_side))
        space = SPACE_OF[ep]
        if pn is None:
            pn = self.next_pn(ep)
        if pn_len is None:
            pn_len = 2 if len(payload) >= 2 else 4
        if pn_len + len(payload) < 4:
            raise ValueError("payload too short for the header protection sample; use pn_len=4")
        if dcid is None:
            dcid = self.default_dcid()
        pn_bytes = (pn & ((1 << (8 * pn_len)) - 1)).to_bytes(pn_len, "big")
        if ep == "1rtt":
            phase = ctx.key_phase if key_phase is None else key_phase
            first = (
                (0x40 if fixed_bit else 0)
                | (0x20 if spin_bit else 0)
                | ((reserved_bits & 3) << 3)
                | ((phase & 1) << 2)
                | (pn_len - 1)
            )
            header = bytes([first]) + dcid + pn_bytes
        else:
            ver = version if version is not None else self.version()
            table = _LONG_TYPE_V2 if ver == V2 else _LONG_TYPE_V1
            first = (
                0x80
                | (0x40 if fixed_bit else 0)
                | (table[ep] << 4)
                | ((reserved_bits & 3) << 2)
                | (pn_len - 1)
            )
            if scid is None:
                scid = self.default_scid()
            header = bytes([first]) + ver.to_bytes(4, "big")
            header += bytes([len(dcid)]) + dcid + bytes([len(scid)]) + scid
            if ep == "initial":
                tok = token if token is not None else (
                    self.observer.client_initial_token if self.as_side == "client" else b"")
                header += varint(len(tok)) + tok
            length = pn_len + len(payload) + 16 if length_field is None else length_field
            header += varint(length, 2 if length < 0x4000 else 4) + pn_bytes
        if len(header) + len(payload) + 16 > MAX_PACKET:
            raise ValueError("packet of %d bytes exceeds aioquic's native %d-byte buffers"
                             % (len(header) + len(payload) + 16, MAX_PACKET))
        packet = ctx.encrypt_packet(header, payload, pn)
        if pn > self._last_pn.get(space, -1):
            self._last_pn[space] = pn
        return packet

    # -- sending -------------------------------------------------------------------

    def send_datagram(
        self,
        data: bytes,
        deliver: str = "now",
        src_addr: Optional[Address] = None,
        delay: float = 0.0,
    ) -> Union[StepRecord, WireRecord]:
        """Give ``data`` to the subject as a datagram from ``as_side``'s address.

        ``deliver="now"``: processed immediately (``Pair.deliver_now``), the
        subject is pumped, a ``StepRecord`` is returned.  ``deliver="net"``:
        injected into the network (arrives after ``delay`` on a later
        ``step``), returns the ``WireRecord``.  Exceptions escaping the
        subject surface as ``ApiRaised`` (or in ``subject.raised``)."""
        src = src_addr if src_addr is not None else self.real.addr
        if deliver == "now":
            return self.pair.deliver_now(data, src, self.subject)
        return self.pair.network.inject(data, src, self.subject, delay)

    def send_frames(
        self,
        epoch: Any,
        frames: Union[bytes, Iterable[bytes]],
        pn: Optional[int] = None,
        dcid: Optional[bytes] = None,
        coalesce_with: Optional[Sequence[bytes]] = None,
        *,
        deliver: str = "now",
        src_addr: Optional[Address] = None,
        pad_datagram_to: Optional[int] = None,
        trailer: bytes = b"",
        **build: Any,
    ) -> Union[StepRecord, WireRecord]:
        """Build one packet (see :meth:`build_packet`) and send it.

        ``coalesce_with``: already-built packets placed *before* this one in the
        same datagram.  ``trailer``: bytes appended after it.
        ``pad_datagram_to``: zero-pad the datagram (defaults to 1200 for a
        client puppet's Initial packets, as servers drop smaller ones)."""
        ep = _epoch_name(epoch)
        packet = self.build_packet(ep, frames, pn, dcid, **build)
        datagram = b"".join(coalesce_with or ()) + packet + trailer
        if pad_datagram_to is None and ep == "initial" and self.as_side == "client":
            pad_datagram_to = 1200
        if pad_datagram_to is not None and len(datagram) < pad_datagram_to:
            datagram += bytes(pad_datagram_to - len(datagram))
        space = SPACE_OF[ep]
        self.sent.append((self.pair.clock.now, ep, self._last_pn.get(space, -1), datagram))
        return self.send_datagram(datagram, deliver, src_addr)

    def ack_all(self, epoch: Any = "1rtt", delay: int = 0, **kw: Any) -> Union[StepRecord, WireRecord]:
        """Acknowledge every packet the subject has sent in ``epoch``'s space."""
        ep = _epoch_name(epoch)
        space = SPACE_OF[ep]
        direction = "s2c" if self.as_side == "client" else "c2s"
        pns = sorted(
            {p.pn for p in self.observer.packets
             if p.direction == direction and p.decrypted and p.space == space and not p.injected}
        )
        if not pns:
            raise ValueError("subject has sent nothing in %s yet" % space)
        ranges = []
        lo = hi = pns[0]
        for n in pns[1:]:
            if n == hi + 1:
                hi = n
            else:
                ranges.append((lo, hi))
                lo = hi = n
        ranges.append((lo, hi))
        return self.send_frames(ep, [F.ack(ranges[-60:], delay)], **kw)

    def crypto_offset(self, epoch: Any) -> int:
        """How many CRYPTO bytes ``as_side`` (incl. this puppet) has sent in ``epoch``."""
        return self.observer.crypto_sent.get((self.as_side, _epoch_name(epoch)), 0)

    def best_epoch(self) -> str:
        """Highest of initial / handshake / 1rtt for which sending keys are known."""
        for ep in ("1rtt", "handshake", "initial"):
            ctx = self.observer.send_context(self.as_side, ep)
            if ctx is not None and ctx.is_valid():
                return ep
        raise ValueError("no keys known at all")

    def send_tls_message(
        self,
        handshake_type: int,
        body: bytes,
        epoch: Any = None,
        offset: Optional[int] = None,
        chunk: int = 1000,
        **kw: Any,
    ) -> list[Union[StepRecord, WireRecord]]:
        """Send a TLS handshake message in CRYPTO frames.

        ``epoch`` defaults to :meth:`best_epoch`; ``offset`` to the end of what
        ``as_side`` has sent so far in that epoch (so the subject's TLS layer
        sees it as the next bytes).  Large messages are split over several
        packets of at most ``chunk`` CRYPTO bytes."""
        ep = _epoch_name(epoch) if epoch is not None else self.best_epoch()
        msg = tls_message(handshake_type, body)
        off = self.crypto_offset(ep) if offset is None else offset
        out = []
        for i in range(0, max(len(msg), 1), chunk):
            part = msg[i : i + chunk]
            out.append(self.send_frames(ep, [F.crypto(off + i, part)], **kw))
        return out


Rewrite = Callable[[Packet], Union[None, bool, bytes, Sequence[bytes]]]


class HalfPair:
    """One real endpoint under test, the other side driven through a puppet.

    The *hidden* endpoint (``puppet_side``) is a real ``QuicConnection`` doing a
    real handshake, but everything it sends passes through ``rewrite``:

    ``rewrite(packet) -> None``            keep the packet unchanged
    ``rewrite(packet) -> False`` / ``[]``  drop the packet
    ``rewrite(packet) -> [frame bytes]``   replace the payload; the packet is
                                           re-protected with the same packet
                                           number, CIDs, token and key phase

    ``packet`` is a decrypted :class:`sim.wire.Packet` (``packet.frames`` holds
    parsed frames with their ``raw`` bytes, so a typical callback returns
    ``[f.raw for f in packet.frames if ...] + [F.something(...)]``).
    Undecryptable packets, Retry and Version Negotiation pass through
    untouched.  ``self.puppet`` (a :class:`Puppet` for ``puppet_side``) can
    inject additional packets at any time; ``self.subject`` is the real
    endpoint being examined.

    Note that changing CRYPTO contents breaks the TLS transcript the hidden
    endpoint signs; the subject is then expected to fail the handshake -- which
    is exactly what authenticity checks look for.
    """

    def __init__(self, pair: Pair, puppet_side: str = "server", rewrite: Optional[Rewrite] = None) -> None:
        if pair.observer is None:
            raise ValueError("HalfPair needs Pair(observe=True, secrets_log=True)")
        self.pair = pair
        self.puppet_side = puppet_side
        self.hidden: Endpoint = pair.endpoint(puppet_side)
        self.subject: Endpoint = pair.peer_of(self.hidden)
        self.puppet = Puppet(pair, puppet_side)
        self.rewrite: Optional[Rewrite] = rewrite
        self.rewritten: list[tuple[Packet, bytes]] = []
        self.dropped: list[Packet] = []
        self._shadow = WireObserver(
            secrets_logs=[pair.client.secrets_log, pair.server.secrets_log],
            cid_lengths=pair.observer.cid_lengths,
        )
        self._rebuilder = Puppet(pair, puppet_side, observer=self._shadow)
        self._direction = "c2s" if puppet_side == "client" else "s2c"
        pair.network.interceptors[puppet_side] = self._intercept
        # the shadow must also see the other direction (Initial DCIDs, versions)
        pair.network.taps.append(self._tap_other)

    @classmethod
    def create(cls, seed: Any = 0, puppet_side: str = "server",
               rewrite: Optional[Rewrite] = None, **pair_kwargs: Any) -> "HalfPair":
        """Build the :class:`Pair` and wrap it."""
        return cls(Pair(seed, **pair_kwargs), puppet_side, rewrite)

    def _tap_other(self, rec: Any) -> None:
        if rec.direction != self._direction:
            self._shadow.feed(rec.data, rec.direction, rec.time, rec.index, rec.injected, rec.sender)

    def _intercept(self, data: bytes) -> Optional[bytes]:
        packets = self._shadow.feed(data, self._direction, self.pair.clock.now, -1, False,
                                    self.puppet_side)
        if self.rewrite is None:
            return data
        out = b""
        changed = False
        had_initial = False
        for pkt in packets:
            if pkt.type == "initial":
                had_initial = True
            if pkt.type not in SPACE_OF or not pkt.decrypted:
                out += pkt.raw
                continue
            verdict = self.rewrite(pkt)
            if verdict is None or verdict is True:
                out += pkt.raw
                continue
            changed = True
            if verdict is False or (not isinstance(verdict, (bytes, bytearray)) and len(verdict) == 0):
                self.dropped.append(pkt)
                continue
            payload = bytes(verdict) if isinstance(verdict, (bytes, bytearray)) else b"".join(verdict)
            new = self._rebuilder.build_packet(
                pkt.type, payload, pn=pkt.pn, dcid=pkt.dcid, scid=pkt.scid,
                key_phase=pkt.key_phase, pn_len=max(pkt.pn_length or 2, 2 if len(payload) >= 2 else 4),
                token=pkt.token, version=pkt.version,
            )
            self.rewritten.append((pkt, new))
            out += new
        if not changed:
            return data
        if had_initial and len(out) < len(data):
            out += bytes(len(data) - len(out))
        return out if out else None
