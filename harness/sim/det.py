"""Determinism layer and certificate material for the simulator.

aioquic draws randomness from several places that a seeded simulation has to
pin down before two runs can be byte-identical:

* ``os.urandom`` (connection IDs, stateless-reset tokens, path challenges,
  TLS randoms, session tickets, the first byte of Version Negotiation);
* ephemeral key generation inside ``aioquic.tls`` (``X25519PrivateKey.generate``,
  ``X448PrivateKey.generate``, ``ec.generate_private_key``) -- OpenSSL's own
  RNG, not ``os.urandom``;
* the CertificateVerify signature (RSA-PSS salts / ECDSA nonces come from
  OpenSSL; Ed25519 is deterministic by construction);
* ``aioquic.tls.utcnow`` (ticket age, certificate validity) and
  ``time.time`` inside ``aioquic.quic.logger`` (qlog time stamps);
* iteration order of a ``set`` of ``QuicStream`` objects in
  ``QuicConnection._write_application`` (default ``object.__hash__`` is the
  memory address).

:class:`Determinism` is a re-entrant context manager that installs
replacements for all of these *only while it is entered* and restores the
previous values on exit.  The simulator enters it around every single call
into an endpoint, with a per-endpoint :class:`DetSource`, so two ``Pair``
objects never share random state and nothing stays patched between calls.

Nothing in here changes protocol behaviour: every replacement returns a value
the original could have returned.
"""

from __future__ import annotations

import datetime
import os
import random
from dataclasses import dataclass, field
from typing import Any, Callable, Optional

from cryptography import x509
from cryptography.hazmat.primitives import serialization
from cryptography.hazmat.primitives.asymmetric import ec, ed25519, x448, x25519

import aioquic.quic.logger as _aq_logger
import aioquic.tls as _aq_tls
from aioquic.quic.stream import QuicStream

__all__ = [
    "DetSource",
    "Determinism",
    "deterministic_random",
    "Identity",
    "rsa_identity",
    "ed25519_identity",
    "repo_path",
    "BASE_DATETIME",
]

#: Wall-clock instant that virtual time 0.0 maps to while patched.  Chosen
#: inside the validity period of the certificates in ``/repo/tests``.
BASE_DATETIME = datetime.datetime(2026, 1, 1, tzinfo=datetime.timezone.utc)

_CURVE_ORDERS = {
    "secp256r1": 0xFFFFFFFF00000000FFFFFFFFFFFFFFFFBCE6FAADA7179E84F3B9CAC2FC632551,
    "secp384r1": int(
        "FFFFFFFFFFFFFFFFFFFFFFFFFFFFFFFFFFFFFFFFFFFFFFFFC7634D81F4372DDF"
        "581A0DB248B0A77AECEC196ACCC52973",
        16,
    ),
    "secp521r1": int(
        "01FFFFFFFFFFFFFFFFFFFFFFFFFFFFFFFFFFFFFFFFFFFFFFFFFFFFFFFFFFFFFFFF"
        "FFFA51868783BF2F966B7FCC0148F709A5D03BB5C9B8899C47AEBB6FB71E9138"
        "6409",
        16,
    ),
}


def repo_path(*parts: str) -> str:
    """Path below the tree under test (``$VERIF_REPO``, default ``/repo``)."""
    return os.path.join(os.environ.get("VERIF_REPO", "/repo"), *parts)


class DetSource:
    """A seeded byte source standing in for the operating system's RNG.

    :param seed: anything ``random.Random`` accepts (ints and strings hash
        deterministically; do not pass objects with address-based hashes).
    """

    def __init__(self, seed: Any) -> None:
        self.seed = seed
        self._rng = random.Random(str(seed))
        self.draws = 0

    def urandom(self, n: int) -> bytes:
        """Return *n* pseudo-random bytes (replacement for ``os.urandom``)."""
        self.draws += 1
        return self._rng.randbytes(n)

    def randint_below(self, n: int) -> int:
        """Uniform integer in ``[0, n)``."""
        return self._rng.randrange(n)


class _FakeTimeModule:
    """Stands in for the ``time`` module inside ``aioquic.quic.logger``."""

    def __init__(self, now: Callable[[], float]) -> None:
        self._now = now

    def time(self) -> float:
        return self._now()


def _stream_hash(self: QuicStream) -> int:
    sid = self.stream_id
    return hash(-1 if sid is None else sid)


class Determinism:
    """Context manager installing deterministic replacements (see module doc).

    :param source: where random bytes come from.
    :param now: callable returning the current *virtual* time in seconds; used
        for ``aioquic.tls.utcnow`` (``BASE_DATETIME + now()``) and qlog time
        stamps.  ``None`` pins both to ``BASE_DATETIME`` / ``0.0``.
    :param extra: additional ``(object, attribute, value)`` triples to install
        and restore with the rest (used for the client-certificate hook).

    The manager is re-entrant and nestable: each ``__enter__`` saves what it
    finds and ``__exit__`` puts exactly that back.
    """

    def __init__(
        self,
        source: DetSource,
        now: Optional[Callable[[], float]] = None,
        extra: Optional[list[tuple[Any, str, Any]]] = None,
    ) -> None:
        self.source = source
        self._now = now if now is not None else (lambda: 0.0)
        self._stack: list[list[tuple[Any, str, Any, bool]]] = []
        src = source

        def gen_x25519() -> x25519.X25519PrivateKey:
            return x25519.X25519PrivateKey.from_private_bytes(src.urandom(32))

        def gen_x448() -> x448.X448PrivateKey:
            return x448.X448PrivateKey.from_private_bytes(src.urandom(56))

        real_generate = ec.generate_private_key

        def gen_ec(curve: ec.EllipticCurve, backend: Any = None) -> Any:
            order = _CURVE_ORDERS.get(curve.name)
            if order is None:  # unknown curve: fall back to the real thing
                return real_generate(curve)
            nbytes = (order.bit_length() + 7) // 8 + 8
            value = int.from_bytes(src.urandom(nbytes), "big") % (order - 1) + 1
            return ec.derive_private_key(value, curve)

        def utcnow() -> datetime.datetime:
            return BASE_DATETIME + datetime.timedelta(seconds=self._now())

        self._targets: list[tuple[Any, str, Any]] = [
            (os, "urandom", src.urandom),
            (x25519.X25519PrivateKey, "generate", staticmethod(gen_x25519)),
            (x448.X448PrivateKey, "generate", staticmethod(gen_x448)),
            (ec, "generate_private_key", gen_ec),
            (_aq_tls, "utcnow", utcnow),
            (_aq_logger, "time", _FakeTimeModule(self._now)),
            (QuicStream, "__hash__", _stream_hash),
        ]
        if extra:
            self._targets.extend(extra)

    def __enter__(self) -> "Determinism":
        saved: list[tuple[Any, str, Any, bool]] = []
        for obj, name, value in self._targets:
            d = getattr(obj, "__dict__", {})
            if name in d:
                saved.append((obj, name, d[name], True))
            else:
                saved.append((obj, name, None, False))
            setattr(obj, name, value)
        self._stack.append(saved)
        return self

    def __exit__(self, *exc: Any) -> None:
        saved = self._stack.pop()
        for obj, name, old, had in reversed(saved):
            if had:
                setattr(obj, name, old)
            else:
                try:
                    delattr(obj, name)
                except AttributeError:
                    pass


def deterministic_random(
    seed: Any, now: Optional[Callable[[], float]] = None
) -> Determinism:
    """Return a context manager that makes aioquic deterministic for *seed*.

    Example::

        with deterministic_random(7):
            conn = QuicConnection(configuration=cfg)   # CIDs now reproducible

    ``Pair`` does this internally around every endpoint call; use this function
    directly only when driving ``QuicConnection`` objects by hand.
    """
    source = seed if isinstance(seed, DetSource) else DetSource(seed)
    return Determinism(source, now)


# ---------------------------------------------------------------------------
# certificate material
# ---------------------------------------------------------------------------


@dataclass
class Identity:
    """A certificate, its private key and what a peer needs to trust it."""

    kind: str
    certificate: x509.Certificate
    private_key: Any
    chain: list[x509.Certificate] = field(default_factory=list)
    cafile: Optional[str] = None
    cadata: Optional[bytes] = None
    server_name: str = "localhost"

    def apply_as_own(self, configuration: Any) -> None:
        """Install certificate + key into a ``QuicConfiguration``."""
        configuration.certificate = self.certificate
        configuration.certificate_chain = list(self.chain)
        configuration.private_key = self.private_key

    def apply_as_trust(self, configuration: Any) -> None:
        """Make a ``QuicConfiguration`` trust this identity's issuer."""
        configuration.cafile = self.cafile
        configuration.cadata = self.cadata


def rsa_identity() -> Identity:
    """The RSA server identity of aioquic's own test-suite.

    Reads ``tests/ssl_cert.pem`` / ``tests/ssl_key.pem`` below the tree under
    test, trusted through ``tests/pycacert.pem``.  The CertificateVerify
    signature is RSA-PSS whose salt comes from OpenSSL's RNG, so with this
    identity a run is deterministic in everything *except* the (encrypted)
    bytes of that one TLS message; sizes and timing are unaffected.
    """
    with open(repo_path("tests", "ssl_cert.pem"), "rb") as fp:
        certs = x509.load_pem_x509_certificates(fp.read())
    with open(repo_path("tests", "ssl_key.pem"), "rb") as fp:
        # The key is the public test key of CPython's test-suite; skipping the
        # (150 ms) consistency check of a 3072-bit key is safe and keeps a
        # scenario in the 10-30 ms range.
        key = serialization.load_pem_private_key(
            fp.read(), None, unsafe_skip_rsa_key_validation=True
        )
    return Identity(
        kind="rsa",
        certificate=certs[0],
        chain=certs[1:],
        private_key=key,
        cafile=repo_path("tests", "pycacert.pem"),
    )


def ed25519_identity(common_name: str = "localhost", tag: bytes = b"sim") -> Identity:
    """A self-signed Ed25519 identity built from constants (no randomness).

    Key, serial number and validity are fixed, Ed25519 signatures are
    deterministic, so handshakes using it are byte-for-byte reproducible.
    """
    seed = (tag + b"-ed25519-identity-" + common_name.encode()).ljust(32, b"\x5a")[:32]
    key = ed25519.Ed25519PrivateKey.from_private_bytes(seed)
    name = x509.Name([x509.NameAttribute(x509.NameOID.COMMON_NAME, common_name)])
    cert = (
        x509.CertificateBuilder()
        .subject_name(name)
        .issuer_name(name)
        .public_key(key.public_key())
        .serial_number(0x51D0 + sum(tag))
        .not_valid_before(datetime.datetime(2020, 1, 1, tzinfo=datetime.timezone.utc))
        .not_valid_after(datetime.datetime(2120, 1, 1, tzinfo=datetime.timezone.utc))
        .add_extension(
            x509.SubjectAlternativeName([x509.DNSName(common_name)]), critical=False
        )
        .add_extension(x509.BasicConstraints(ca=True, path_length=None), critical=True)
        .sign(key, None)
    )
    return Identity(
        kind="ed25519",
        certificate=cert,
        private_key=key,
        cadata=cert.public_bytes(serialization.Encoding.PEM),
        server_name=common_name,
    )
