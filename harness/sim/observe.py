"""Projection helpers: what a run *showed*, in comparison-safe form.

Everything that is not prefixed ``peek_`` uses only public behaviour: events
popped through ``next_event``, public attributes and methods of
``QuicConnection`` / ``QuicConfiguration`` / ``tls.Context``, and the
endpoint's logs.  Functions named ``peek_*`` read private attributes
(``conn._loss`` ...); they exist because a few properties (C08's ledger) are
statements *about* that state.  Keep them out of observables that are compared
between implementations or models unless the property says so.
"""

from __future__ import annotations

from dataclasses import dataclass, field
from typing import Any, Optional

from aioquic.quic import events as qevents
from aioquic.quic.connection import QuicConnection

from .net import Endpoint

__all__ = [
    "StreamDelivery",
    "stream_deliveries",
    "event_summary",
    "public_state",
    "ledger",
    "peek_ledger",
    "peek_state",
    "peek_flow",
    "peek_cids",
    "peek_spaces",
    "peek_streams",
]


@dataclass
class StreamDelivery:
    """What the application was told about one stream's receive side.

    ``data``: concatenation of all ``StreamDataReceived.data`` in event order.
    ``ended``: some event carried ``end_stream``; ``end_count`` how many did
    (more than one is a duplicate-FIN delivery).  ``data_after_end``: bytes
    delivered after the first ``end_stream``.  ``reset``: error code of the
    first ``StreamReset`` (``reset_count`` of them).  ``stop_sending``: error
    code of a ``StopSendingReceived`` for this stream (the peer refusing *our*
    data).  ``events``: ``[(time, kind, detail)]`` in order, kinds ``"data"``
    (detail = ``(length, end_stream)``), ``"reset"``, ``"stop_sending"``.
    """

    stream_id: int
    data: bytes = b""
    ended: bool = False
    end_count: int = 0
    data_after_end: int = 0
    reset: Optional[int] = None
    reset_count: int = 0
    stop_sending: Optional[int] = None
    events: list[tuple[float, str, Any]] = field(default_factory=list)

    def as_tuple(self) -> tuple:
        """Canonical comparison form (no time stamps)."""
        return (
            self.stream_id, self.data, self.ended, self.end_count, self.data_after_end,
            self.reset, self.reset_count, self.stop_sending,
            tuple((k, d) for _, k, d in self.events),
        )


def stream_deliveries(endpoint: Endpoint) -> dict[int, StreamDelivery]:
    """Per-stream view of the stream events ``endpoint`` has popped so far."""
    out: dict[int, StreamDelivery] = {}

    def get(sid: int) -> StreamDelivery:
        d = out.get(sid)
        if d is None:
            d = out[sid] = StreamDelivery(sid)
        return d

    for t, ev in endpoint.events:
        if isinstance(ev, qevents.StreamDataReceived):
            d = get(ev.stream_id)
            if d.ended:
                d.data_after_end += len(ev.data)
            d.data += ev.data
            if ev.end_stream:
                d.ended = True
                d.end_count += 1
            d.events.append((t, "data", (len(ev.data), ev.end_stream)))
        elif isinstance(ev, qevents.StreamReset):
            d = get(ev.stream_id)
            if d.reset is None:
                d.reset = ev.error_code
            d.reset_count += 1
            d.events.append((t, "reset", ev.error_code))
        elif isinstance(ev, qevents.StopSendingReceived):
            d = get(ev.stream_id)
            if d.stop_sending is None:
                d.stop_sending = ev.error_code
            d.events.append((t, "stop_sending", ev.error_code))
    return out


def event_summary(endpoint: Endpoint, with_time: bool = False) -> list[tuple]:
    """Events as comparison-safe tuples: class name + public fields, with
    connection IDs replaced by ``cid#<n>`` in order of first appearance and
    byte payloads kept verbatim."""
    cids: dict[bytes, str] = {}
    out = []
    for t, ev in endpoint.events:
        fields = []
        for k, v in sorted(vars(ev).items()):
            if k == "connection_id":
                v = cids.setdefault(v, "cid#%d" % len(cids))
            elif hasattr(v, "value") and isinstance(v, int):
                v = int(v)
            fields.append((k, v))
        row: tuple = (type(ev).__name__, tuple(fields))
        out.append((t,) + row if with_time else row)
    return out


def public_state(conn: QuicConnection) -> dict:
    """Public, comparison-safe attributes of a connection.

    Uses only names without a leading underscore.  Connection IDs are reported
    by length, not value.  ``timer`` is ``get_timer()`` (calling it is what
    every driver does after each transmit; it caches the loss time internally
    but changes nothing observable)."""
    cfg = conn.configuration
    state: dict[str, Any] = {
        "is_client": cfg.is_client,
        "host_cid_len": len(conn.host_cid),
        "odcid_len": len(conn.original_destination_connection_id),
        "next_stream_id_bidi": conn.get_next_available_stream_id(False),
        "next_stream_id_uni": conn.get_next_available_stream_id(True),
        "timer": conn.get_timer(),
    }
    tls = getattr(conn, "tls", None)
    if tls is not None:
        state.update(
            tls_state=getattr(tls.state, "name", str(tls.state)),
            alpn_negotiated=tls.alpn_negotiated,
            session_resumed=tls.session_resumed,
            early_data_accepted=tls.early_data_accepted,
            key_schedule_cipher=(
                getattr(getattr(tls, "key_schedule", None), "cipher_suite", None)
            ),
        )
    return state


# ---------------------------------------------------------------------------
# private-state peeks
# ---------------------------------------------------------------------------


def peek_ledger(conn: QuicConnection) -> dict:
    """Congestion ledger: the controller's ``bytes_in_flight`` next to the value
    recomputed from the packets still tracked in ``conn._loss.spaces``.

    ``recomputed`` = sum of ``sent_bytes`` over ``in_flight`` packets in all
    spaces currently owned by the recovery object; ``per_space`` breaks it down
    (index order = Initial, Handshake, 1-RTT) and also recounts
    ``ack_eliciting_in_flight``."""
    loss = conn._loss
    per_space = []
    total = 0
    for space in loss.spaces:
        in_flight = [p for p in space.sent_packets.values() if p.in_flight]
        nbytes = sum(p.sent_bytes for p in in_flight)
        eliciting = sum(1 for p in space.sent_packets.values() if p.is_ack_eliciting)
        total += nbytes
        per_space.append(
            dict(
                packets=len(space.sent_packets),
                in_flight_packets=len(in_flight),
                in_flight_bytes=nbytes,
                ack_eliciting_tracked=space.ack_eliciting_in_flight,
                ack_eliciting_recounted=eliciting,
                discarded=space.discarded,
                largest_acked=space.largest_acked_packet,
                loss_time=space.loss_time,
            )
        )
    return dict(
        bytes_in_flight=loss.bytes_in_flight,
        recomputed=total,
        congestion_window=loss.congestion_window,
        ssthresh=loss._cc.ssthresh,
        pto_count=loss._pto_count,
        per_space=per_space,
    )


#: Public name requested by the design; private access is confined to peek_ledger.
ledger = peek_ledger


def peek_state(conn: QuicConnection) -> dict:
    """Connection-level private flags."""
    return dict(
        state=conn._state.name,
        handshake_complete=conn._handshake_complete,
        handshake_confirmed=conn._handshake_confirmed,
        close_at=conn._close_at,
        close_pending=conn._close_pending,
        close_event=conn._close_event,
        version=conn._version,
        packet_number=conn._packet_number,
        network_paths=[(p.addr, p.is_validated, p.bytes_received, p.bytes_sent)
                       for p in conn._network_paths],
        probe_pending=conn._probe_pending,
        loss_at=conn._loss_at,
        pacing_at=conn._pacing_at,
    )


def peek_flow(conn: QuicConnection) -> dict:
    """Flow-control and stream-count limits, both directions."""
    return dict(
        local_max_data=(conn._local_max_data.value, conn._local_max_data.used,
                        conn._local_max_data.sent),
        local_max_streams_bidi=(conn._local_max_streams_bidi.value,
                                conn._local_max_streams_bidi.used),
        local_max_streams_uni=(conn._local_max_streams_uni.value,
                               conn._local_max_streams_uni.used),
        remote_max_data=conn._remote_max_data,
        remote_max_data_used=conn._remote_max_data_used,
        remote_max_streams_bidi=conn._remote_max_streams_bidi,
        remote_max_streams_uni=conn._remote_max_streams_uni,
        remote_max_stream_data=(conn._remote_max_stream_data_bidi_local,
                                conn._remote_max_stream_data_bidi_remote,
                                conn._remote_max_stream_data_uni),
    )


def peek_cids(conn: QuicConnection) -> dict:
    """Connection-ID bookkeeping."""
    return dict(
        host_cids=[(c.sequence_number, c.cid, c.was_sent) for c in conn._host_cids],
        host_cid=conn.host_cid,
        host_cid_seq=conn._host_cid_seq,
        peer_cid=(conn._peer_cid.sequence_number, conn._peer_cid.cid),
        peer_cid_available=[(c.sequence_number, c.cid) for c in conn._peer_cid_available],
        peer_cid_sequence_numbers=sorted(conn._peer_cid_sequence_numbers),
        peer_retire_prior_to=conn._peer_retire_prior_to,
        retire_connection_ids=list(conn._retire_connection_ids),
        remote_active_connection_id_limit=conn._remote_active_connection_id_limit,
    )


def peek_spaces(conn: QuicConnection) -> list[dict]:
    """Receive-side state of the packet-number spaces (ACK generation)."""
    out = []
    for space in conn._loss.spaces:
        out.append(
            dict(
                ack_at=space.ack_at,
                ack_queue=[(r.start, r.stop - 1) for r in space.ack_queue],
                expected_packet_number=space.expected_packet_number,
                largest_received_packet=space.largest_received_packet,
                largest_received_time=space.largest_received_time,
                discarded=space.discarded,
            )
        )
    return out


def peek_streams(conn: QuicConnection) -> dict[int, dict]:
    """Per-stream private state of the streams the connection still tracks."""
    out = {}
    for sid, s in conn._streams.items():
        out[sid] = dict(
            max_stream_data_local=s.max_stream_data_local,
            max_stream_data_local_sent=s.max_stream_data_local_sent,
            max_stream_data_remote=s.max_stream_data_remote,
            is_blocked=s.is_blocked,
            recv_highest_offset=s.receiver.highest_offset,
            recv_finished=s.receiver.is_finished,
            recv_buffered=len(s.receiver._buffer),
            send_highest_offset=s.sender.highest_offset,
            send_finished=s.sender.is_finished,
            send_buffer_empty=s.sender.buffer_is_empty,
            send_reset_pending=s.sender.reset_pending,
        )
    out["finished"] = sorted(conn._streams_finished)  # type: ignore[index]
    return out
