"""harness/sim -- real aioquic endpoints over a simulated network.

See ``README.md`` in this directory.  Typical imports::

    from sim import Pair, Fates, Puppet, F, stream_deliveries
"""

from .det import DetSource, Determinism, Identity, ed25519_identity, rsa_identity
from .net import (
    CLIENT_ADDR,
    SERVER_ADDR,
    V1,
    V2,
    Action,
    ApiCall,
    ApiRaised,
    Clock,
    Endpoint,
    Fates,
    Network,
    Pair,
    Script,
    ScriptItem,
    SimStall,
    StepRecord,
    TicketStore,
    WireRecord,
    adversarial_then_fair,
    corrupt,
    deliver,
    deterministic_random,
    drop,
    duplicate,
    gen_script,
    script_truth,
)
from .observe import (
    StreamDelivery,
    event_summary,
    ledger,
    peek_cids,
    peek_flow,
    peek_ledger,
    peek_spaces,
    peek_state,
    peek_streams,
    public_state,
    stream_deliveries,
)
from .puppet import F, HalfPair, Puppet, tls_message, varint
from .wire import FRAME_NAMES, Frame, Packet, WireObserver, parse_frames, parse_keylog

__all__ = [name for name in dir() if not name.startswith("_")]
