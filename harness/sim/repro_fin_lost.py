"""Reproduction: a FIN-only STREAM frame is lost for good (no network fault needed).

Uses nothing but aioquic's public sans-IO API (no simulator, no private
attributes for the verdict), so it can be run against any tree::

    PYTHONPATH=$VERIF_REPO/src /venv/bin/python harness/sim/repro_fin_lost.py

What it does, after an ordinary handshake over a loss-free, in-order "network":

    client.send_stream_data(0, b"a" * 5000)            # several packets' worth
    client.send_stream_data(4, b"", end_stream=True)   # a FIN with no data
    ... exchange datagrams and fire timers until both sides are quiet ...

Expected (RFC 9000 section 2.2 / 3.1; property C01): the server application sees
``StreamDataReceived(stream_id=4, data=b"", end_stream=True)``.

Observed on the pinned tree: stream 4 never appears on the wire and is never
retransmitted; the server never learns the stream exists.

Mechanism: ``QuicConnection._write_stream_frame`` first calls
``stream.sender.get_frame(builder.remaining_flight_space - frame_overhead, ...)``
and only then ``builder.start_frame(...)``.  For a stream whose only pending
item is the FIN, ``QuicStreamSender.get_frame`` ignores ``max_size``, clears
``_pending_eof`` and returns the frame.  When the packet under construction is
already full (here: stream 0 filled it; under loss: the congestion window is
exhausted) ``start_frame`` raises ``QuicPacketBuilderStop``; the frame object is
dropped, no delivery handler was registered, and the next ``get_frame`` call
finds nothing pending and marks the send buffer empty.

Exit status: 1 if the FIN is lost (bug present), 0 if it is delivered.
The same loss occurs under packet loss when the congestion window is full; with
the simulator: ``Pair(201, fates=adversarial_then_fair(Fates.random(Random(1201),
0.3, 0.2, 0.3, 0.2), fair_after_time=20.0))`` + ``gen_script(Random(201), "mixed")``
(client uni stream 2, a lone empty write with FIN).
"""

from __future__ import annotations

import os
import sys

from aioquic.quic import events
from aioquic.quic.configuration import QuicConfiguration
from aioquic.quic.connection import QuicConnection

REPO = os.environ.get("VERIF_REPO", "/repo")
CLIENT_ADDR = ("1.2.3.4", 1234)
SERVER_ADDR = ("2.3.4.5", 4433)


def make_pair() -> tuple[QuicConnection, QuicConnection]:
    ccfg = QuicConfiguration(is_client=True, server_name="localhost")
    ccfg.load_verify_locations(cafile=os.path.join(REPO, "tests", "pycacert.pem"))
    scfg = QuicConfiguration(is_client=False)
    scfg.load_cert_chain(
        os.path.join(REPO, "tests", "ssl_cert.pem"), os.path.join(REPO, "tests", "ssl_key.pem")
    )
    client = QuicConnection(configuration=ccfg)
    server = QuicConnection(
        configuration=scfg,
        original_destination_connection_id=client.original_destination_connection_id,
    )
    return client, server


def exchange(client: QuicConnection, server: QuicConnection, now: float, seen: list) -> float:
    """Perfect network with 10 ms one-way delay; fires timers when they are due;
    returns the time at which both sides have gone quiet (only idle timers left)."""
    for _ in range(2000):
        moved = 0
        for data, _addr in client.datagrams_to_send(now=now):
            server.receive_datagram(data, CLIENT_ADDR, now=now + 0.01)
            moved += 1
        now += 0.01
        for data, _addr in server.datagrams_to_send(now=now):
            client.receive_datagram(data, SERVER_ADDR, now=now + 0.01)
            moved += 1
        now += 0.01
        while True:
            ev = server.next_event()
            if ev is None:
                break
            seen.append(ev)
        while client.next_event() is not None:
            pass
        if moved:
            continue
        # nothing in flight: jump to the earliest timer unless it is far away
        timers = [t for t in (client.get_timer(), server.get_timer()) if t is not None]
        if not timers or min(timers) > now + 30.0:
            return now
        now = max(now, min(timers))
        for conn in (client, server):
            t = conn.get_timer()
            if t is not None and t <= now:
                conn.handle_timer(now=now)
    return now


def main() -> int:
    client, server = make_pair()
    seen: list = []
    now = 1000.0
    client.connect(SERVER_ADDR, now=now)
    now = exchange(client, server, now, seen)
    assert any(isinstance(e, events.HandshakeCompleted) for e in seen), "handshake failed"

    client.send_stream_data(0, b"a" * 5000)
    client.send_stream_data(4, b"", end_stream=True)
    now = exchange(client, server, now, seen)

    got0 = b"".join(
        e.data for e in seen if isinstance(e, events.StreamDataReceived) and e.stream_id == 0
    )
    fin4 = [
        e for e in seen
        if isinstance(e, events.StreamDataReceived) and e.stream_id == 4 and e.end_stream
    ]
    print("stream 0: %d of 5000 bytes delivered" % len(got0))
    print("stream 4: FIN delivered %d time(s) after %.2f virtual seconds" % (len(fin4), now - 1000.0))
    if not fin4:
        print("BUG PRESENT: the FIN of stream 4 was never transmitted")
        return 1
    print("ok: FIN delivered")
    return 0


if __name__ == "__main__":
    sys.exit(main())
