"""Self-test of the simulator.

Run with::

    PYTHONPATH=/repo/src:/work/bsim/harness /venv/bin/python -m sim.selftest

Each scenario prints its wall-clock cost; the process exits non-zero if any
assertion fails.  The tests validate the *simulator* (plumbing, determinism,
observer, puppet); behaviour of aioquic that looks wrong but is not the
simulator's fault is printed under ``observations`` and does not fail the run.
"""

from __future__ import annotations

import logging
import os
import random
import sys
import time
import traceback
from typing import Callable

import aioquic.tls as aq_tls
from aioquic.quic import events as qevents
from aioquic.quic.packet import QuicErrorCode

from .net import (
    CLIENT_ADDR,
    V1,
    V2,
    ApiRaised,
    Fates,
    Pair,
    ScriptItem,
    TicketStore,
    adversarial_then_fair,
    deliver,
    drop,
    duplicate,
    gen_script,
    script_truth,
)
from .observe import event_summary, peek_ledger, peek_state, public_state, stream_deliveries
from .puppet import F, HalfPair, Puppet, varint
from .wire import parse_frames

RESULTS: list[tuple[str, bool, float, str]] = []
OBSERVATIONS: list[str] = []
ASSERTIONS = 0


def check(cond: bool, what: str) -> None:
    global ASSERTIONS
    ASSERTIONS += 1
    if not cond:
        raise AssertionError(what)


def scenario(fn: Callable[[], str]) -> Callable[[], str]:
    def run() -> str:
        t = time.perf_counter()
        try:
            note = fn() or ""
            ok = True
        except Exception:
            note = traceback.format_exc()
            ok = False
        dt = (time.perf_counter() - t) * 1000
        RESULTS.append((fn.__name__, ok, dt, note))
        print("%-34s %s %8.1f ms  %s" % (fn.__name__, "ok  " if ok else "FAIL", dt,
                                         note if ok else ""))
        if not ok:
            print(note)
        return note

    run.__name__ = fn.__name__
    return run


def _delivered(pair: Pair, side: str, sid: int) -> bytes:
    d = stream_deliveries(pair.endpoint(side)).get(sid)
    return d.data if d else b""


# ---------------------------------------------------------------------------


@scenario
def handshake_versions_and_cc() -> str:
    costs = []
    for versions in ([V1], [V2, V1]):
        for cc in ("reno", "cubic"):
            t = time.perf_counter()
            p = Pair(11, versions=versions, congestion_control_algorithm=cc)
            check(p.handshake(), "handshake %s %s" % (versions, cc))
            p.client.send_stream_data(0, b"ping" * 300, True)
            p.pump(p.client)
            p.run_until_idle()
            check(_delivered(p, "server", 0) == b"ping" * 300, "small transfer")
            costs.append((time.perf_counter() - t) * 1000)
            check(p.observer.versions["client"] == versions[0], "client version on the wire")
            hc = p.client.events_of(qevents.HandshakeCompleted)[0]
            check(hc.alpn_protocol == "sim", "alpn")
            check(p.client.conn.configuration.congestion_control_algorithm == cc, "cc")
    return "handshake+1.2KB: " + ", ".join("%.1f" % c for c in costs) + " ms"


@scenario
def transfer_100k_lossy() -> str:
    data = random.Random(1).randbytes(100 * 1024)
    p = Pair(12, fates=Fates.random(random.Random(12), 0.2, 0.2, 0.2, 0.05))
    check(p.handshake(), "handshake under loss")
    p.client.send_stream_data(0, data, True)
    p.pump(p.client)
    why = p.run(lambda q: stream_deliveries(q.server).get(0) is not None
                and stream_deliveries(q.server)[0].ended, max_time=300)
    got = stream_deliveries(p.server)[0]
    check(why == "until", "transfer finished (%s)" % why)
    check(got.data == data and got.ended and got.end_count == 1, "byte-exact, one FIN")
    drops = sum(1 for r in p.network.wire_log if all(a.kind == "drop" for a in r.actions))
    dups = sum(1 for r in p.network.wire_log if len(r.actions) > 1)
    check(drops > 10 and dups > 10, "the network really misbehaved")
    return "%d datagrams, %d dropped, %d duplicated, vt=%.2fs" % (
        len(p.network.wire_log), drops, dups, p.clock.elapsed())


def _scripted(seed: int, interleave_with: Pair = None) -> Pair:
    p = Pair(seed, fates=Fates.random(random.Random(seed), 0.1, 0.1, 0.2, 0.03), retry=True)
    p.handshake()
    script = gen_script(random.Random(seed), "mixed")
    if interleave_with is not None:
        # step another pair in between to prove there is no shared state
        other = interleave_with
        for item in script:
            other.step()
            p.run_script([item], on_api_error="record", settle=False)
        p.run_until_idle()
    else:
        for item in script:
            p.run_script([item], on_api_error="record", settle=False)
        p.run_until_idle()
    return p


@scenario
def determinism() -> str:
    real_urandom, real_utcnow = os.urandom, aq_tls.utcnow
    a = _scripted(13)
    b = _scripted(13)
    check(a.hex_trace() == b.hex_trace(), "same seed -> identical datagram hex trace")
    check(event_summary(a.client, True) == event_summary(b.client, True), "identical client events")
    check(event_summary(a.server, True) == event_summary(b.server, True), "identical server events")
    noise = Pair(99)
    noise.connect()
    c = _scripted(13, interleave_with=noise)
    check(a.hex_trace() == c.hex_trace(), "interleaving another Pair changes nothing")
    d = _scripted(14)
    check(a.hex_trace() != d.hex_trace(), "different seed -> different trace")
    check(a.hex_trace()[0].split()[-1] != d.hex_trace()[0].split()[-1], "different first datagram")
    check(os.urandom is real_urandom and aq_tls.utcnow is real_utcnow, "no patch left installed")
    check(os.urandom(8) != os.urandom(8), "os.urandom is random again")
    return "%d datagrams compared" % len(a.hex_trace())


@scenario
def observer_decrypts_everything() -> str:
    p = Pair(15, fates=Fates.random(random.Random(15), 0.05, 0.05, 0.1, 0.02))
    check(p.handshake(), "handshake")
    data = random.Random(15).randbytes(60000)
    p.client.send_stream_data(0, data[:30000])
    p.pump(p.client)
    p.advance(0.05)
    p.client.request_key_update()
    p.client.send_stream_data(0, data[30000:], True)
    p.client.send_ping(7)
    p.pump(p.client)
    p.run_until_idle()
    p.server.request_key_update()
    p.server.send_stream_data(0, b"reply", True)
    p.server.reset_stream(3, 9)
    p.pump(p.server)
    p.run_until_idle()
    p.client.close(0, reason_phrase="bye")
    p.pump(p.client)
    p.run(lambda q: q.client.terminated and q.server.terminated)
    st = p.observer.stats()
    check(st["decrypted"] >= 0.99 * st["protected"], "decrypted %(decrypted)d of %(protected)d" % st)
    phases = {(q.direction, q.key_phase) for q in p.observer.packets if q.type == "1rtt"}
    check(phases == {("c2s", 0), ("c2s", 1), ("s2c", 0), ("s2c", 1)}, "both key phases both ways")
    for name in ("CRYPTO", "ACK", "STREAM", "PING", "HANDSHAKE_DONE", "NEW_CONNECTION_ID",
                 "RESET_STREAM", "CONNECTION_CLOSE_APP", "PADDING"):
        check(st["frames"].get(name, 0) > 0, "saw %s frames" % name)
    check(_delivered(p, "server", 0) == data, "data intact")
    # the observer's STREAM frames reassemble to the same bytes
    buf = bytearray(len(data))
    for _, f in p.observer.frames("c2s", "STREAM"):
        if f["stream_id"] == 0:
            buf[f["offset"] : f["offset"] + f["length"]] = f["data"]
    check(bytes(buf) == data, "wire STREAM frames reassemble to the payload")
    return "%d/%d packets, frames %s" % (st["decrypted"], st["protected"],
                                         sorted(st["frames"]))


@scenario
def observer_retry_vn_0rtt() -> str:
    p = Pair(16, retry=True)
    check(p.handshake(), "handshake with retry")
    retry = [q for q in p.observer.packets if q.type == "retry"]
    check(len(retry) == 1 and retry[0].retry_tag_valid, "one Retry with a valid integrity tag")
    check(p.observer.stats()["decrypted"] == p.observer.stats()["protected"], "all decrypted")
    check([k for _, k, _ in p.listener_log] == ["retry", "accept"], "listener log")
    p = Pair(17, client_versions=[0x1A2A3A4A, V1], server_versions=[V1])
    check(p.handshake(), "handshake after version negotiation")
    check(any(q.type == "version_negotiation" for q in p.observer.packets), "VN seen")
    store = TicketStore()
    p = Pair(18, ticket_store=store)
    check(p.handshake(), "first handshake")
    p.run_until_idle()
    check(len(store.client_tickets) >= 1, "client got a session ticket")
    p2 = Pair(19, ticket_store=store, client_config={"session_ticket": store.client_tickets[-1]})
    p2.connect(pump=False)
    p2.client.send_stream_data(0, b"early data", True)
    p2.pump(p2.client)
    check(p2.handshake(), "resumed handshake")
    p2.run_until_idle()
    hc = p2.client.events_of(qevents.HandshakeCompleted)[0]
    check(hc.session_resumed and hc.early_data_accepted, "resumed with early data")
    z = [q for q in p2.observer.packets if q.type == "0rtt"]
    check(z and all(q.decrypted for q in z) and "STREAM" in z[0].frame_names(), "0-RTT decrypted")
    check(_delivered(p2, "server", 0) == b"early data", "early data delivered")
    return "retry, VN, 0-RTT ok"


@scenario
def puppet_frames_accepted() -> str:
    p = Pair(20)
    check(p.handshake(), "handshake")
    p.run_until_idle()
    pu = Puppet(p, "server")
    n0 = len(p.client.qlog_frames())
    before = p.client.conn._remote_max_data  # peek, for the report only
    pu.send_frames("1rtt", [F.max_data(5_000_000), F.ping(),
                            F.stream(3, 0, b"hello from the puppet", fin=True)])
    new = p.client.qlog_frames()[n0:]
    check([f["frame_type"] for f in new] == ["max_data", "ping", "stream"], "qlog shows the frames")
    check(new[0]["maximum"] == 5_000_000, "MAX_DATA value")
    d = stream_deliveries(p.client)[3]
    check(d.data == b"hello from the puppet" and d.ended, "STREAM delivered as an event")
    check(p.client.conn._remote_max_data == 5_000_000 > before, "limit raised")
    p.run_until_idle()
    acked = [f for _, f in p.observer.frames("c2s", "ACK")][-1]
    check(acked["largest"] == pu._last_pn["app"], "subject acknowledged the puppet's packet")
    # as a client, in the handshake epoch while it is still available
    p = Pair(21)
    p.connect()
    p.step()  # server has answered; its handshake keys exist, client flight not sent yet
    pc = Puppet(p, "client")
    pc.send_frames("handshake", [F.ping()])
    frames = [f["frame_type"] for f in p.server.qlog_frames()]
    check(frames[-1] == "ping", "PING accepted in the Handshake epoch")
    check(p.handshake(), "real handshake still completes")
    return "MAX_DATA/PING/STREAM via 1-RTT, PING via Handshake"


@scenario
def puppet_garbage_closes() -> str:
    out = []
    for frames, expect in (
        ([F.unknown(0x21, b"\x00")], QuicErrorCode.FRAME_ENCODING_ERROR),
        ([F.truncated(F.max_stream_data(0, 1 << 40), 3)], QuicErrorCode.FRAME_ENCODING_ERROR),
        ([F.stream(0, 0, b"abc", length=500)], QuicErrorCode.FRAME_ENCODING_ERROR),
        ([F.new_connection_id(5, 6, b"\x01" * 8)], QuicErrorCode.PROTOCOL_VIOLATION),
        ([F.handshake_done()], None),  # legal from a server
    ):
        p = Pair(22)
        check(p.handshake(), "handshake")
        p.run_until_idle()
        Puppet(p, "server").send_frames("1rtt", frames)
        p.run(lambda q: q.client.terminated is not None, max_time=5)
        term = p.client.terminated
        if expect is None:
            check(term is None, "legal frame does not close")
            continue
        check(term is not None and term.error_code == expect, "closed with %s: %r" % (expect, term))
        close = p.observer.select("c2s", frame="CONNECTION_CLOSE")
        check(close and close[0].frames[0]["error_code"] == expect, "CONNECTION_CLOSE on the wire")
        out.append(int(expect))
    return "close codes %s" % out


@scenario
def frame_codec_roundtrip() -> str:
    cases = [
        (F.padding(5), "PADDING", {"count": 5}),
        (F.ping(), "PING", {}),
        (F.ack([(1, 3), (7, 9), (20, 20)], 77), "ACK",
         {"ranges": [(1, 3), (7, 9), (20, 20)], "delay": 77, "largest": 20, "ecn": None}),
        (F.ack([(0, 5)], 1, ecn=(1, 2, 3)), "ACK_ECN", {"ecn": (1, 2, 3)}),
        (F.reset_stream(4, 99, 1000), "RESET_STREAM",
         {"stream_id": 4, "error_code": 99, "final_size": 1000}),
        (F.stop_sending(8, 3), "STOP_SENDING", {"stream_id": 8, "error_code": 3}),
        (F.crypto(10, b"abc"), "CRYPTO", {"offset": 10, "data": b"abc"}),
        (F.new_token(b"tok"), "NEW_TOKEN", {"token": b"tok"}),
        (F.stream(5, 70000, b"data", fin=True), "STREAM",
         {"stream_id": 5, "offset": 70000, "data": b"data", "fin": True, "length": 4}),
        (F.max_data((1 << 62) - 1), "MAX_DATA", {"maximum": (1 << 62) - 1}),
        (F.max_stream_data(1, 2), "MAX_STREAM_DATA", {"stream_id": 1, "maximum": 2}),
        (F.max_streams(9), "MAX_STREAMS_BIDI", {"maximum": 9}),
        (F.max_streams(9, uni=True), "MAX_STREAMS_UNI", {"maximum": 9}),
        (F.data_blocked(3), "DATA_BLOCKED", {"limit": 3}),
        (F.stream_data_blocked(4, 5), "STREAM_DATA_BLOCKED", {"stream_id": 4, "limit": 5}),
        (F.streams_blocked(6), "STREAMS_BLOCKED_BIDI", {"limit": 6}),
        (F.streams_blocked(6, uni=True), "STREAMS_BLOCKED_UNI", {"limit": 6}),
        (F.new_connection_id(3, 1, b"\xaa" * 8, b"\xbb" * 16), "NEW_CONNECTION_ID",
         {"sequence_number": 3, "retire_prior_to": 1, "connection_id": b"\xaa" * 8,
          "stateless_reset_token": b"\xbb" * 16}),
        (F.retire_connection_id(2), "RETIRE_CONNECTION_ID", {"sequence_number": 2}),
        (F.path_challenge(b"12345678"), "PATH_CHALLENGE", {"data": b"12345678"}),
        (F.path_response(b"12345678"), "PATH_RESPONSE", {"data": b"12345678"}),
        (F.connection_close(7, 0x21, b"why"), "CONNECTION_CLOSE",
         {"error_code": 7, "frame_type": 0x21, "reason": b"why"}),
        (F.connection_close(7, reason=b"why", app=True), "CONNECTION_CLOSE_APP",
         {"error_code": 7, "reason": b"why"}),
        (F.handshake_done(), "HANDSHAKE_DONE", {}),
        (F.datagram(b"dg"), "DATAGRAM", {"data": b"dg", "has_length": True}),
    ]
    payload = b"".join(c[0] for c in cases)
    frames = parse_frames(payload)
    check(len(frames) == len(cases), "frame count %d/%d" % (len(frames), len(cases)))
    for (raw, name, fields), f in zip(cases, frames):
        check(f.name == name and f.raw == raw, "%s round trip (%s)" % (name, f.name))
        for k, v in fields.items():
            check(f.fields[k] == v, "%s.%s = %r (got %r)" % (name, k, v, f.fields[k]))
    tail = parse_frames(F.ping() + F.datagram(b"rest", explicit_len=False))
    check(tail[1].name == "DATAGRAM" and tail[1]["data"] == b"rest", "length-less DATAGRAM")
    bad = parse_frames(F.truncated(F.reset_stream(4, 99, 1000), 3))
    check(bad[0].name == "MALFORMED" and bad[0]["of"] == "RESET_STREAM", "truncation reported")
    check(parse_frames(F.unknown(0x40))[0].name == "UNKNOWN", "unknown type reported")
    check(varint(5, 8) == bytes([0xC0, 0, 0, 0, 0, 0, 0, 5]), "forced 8-byte varint")
    return "%d frame types" % len(cases)


@scenario
def rebind_migrates() -> str:
    p = Pair(23)
    check(p.handshake(), "handshake")
    p.run_until_idle()
    new = p.rebind("client")
    p.client.send_stream_data(0, b"x" * 3000, True)
    p.pump(p.client)
    p.run_until_idle()
    check(stream_deliveries(p.server)[0].ended, "data arrives from the new address")
    check(p.server.received[-1][2] == new, "server saw the new source address")
    st = p.observer.stats()["frames"]
    check(st.get("PATH_CHALLENGE", 0) >= 1 and st.get("PATH_RESPONSE", 0) >= 1, "path validated")
    p.server.send_stream_data(0, b"y" * 3000, True)
    p.pump(p.server)
    p.run_until_idle()
    check(stream_deliveries(p.client)[0].data == b"y" * 3000, "server now sends to the new address")
    check(not p.network.blackholed, "nothing sent to the stale address")
    # spoofed source: a copy of a genuine datagram from another address must not break anything
    p.inject(p.client.sent[-1][1], ("203.0.113.9", 9), "server")
    p.run_until_idle()
    check(p.server.terminated is None, "spoofed duplicate tolerated")
    return "new address %s:%d" % new


@scenario
def idle_timeout_at_negotiated_time() -> str:
    p = Pair(24, client_config={"idle_timeout": 5.0}, server_config={"idle_timeout": 8.0})
    check(p.handshake(), "handshake")
    p.run_until_idle()
    last_c = max(t for t, _, _ in p.client.received)
    last_s = max(t for t, _, _ in p.server.received)
    why = p.run(lambda q: q.client.terminated and q.server.terminated, max_time=60)
    check(why == "until", "both sides terminated (%s)" % why)
    tc = [t for t, e in p.client.events if isinstance(e, qevents.ConnectionTerminated)][0]
    ts = [t for t, e in p.server.events if isinstance(e, qevents.ConnectionTerminated)][0]
    check(abs((tc - last_c) - 5.0) < 1e-6, "client idle after min(5, 8) s: %.6f" % (tc - last_c))
    check(abs((ts - last_s) - 5.0) < 1e-6, "server idle after min(5, 8) s: %.6f" % (ts - last_s))
    check(p.client.terminated.reason_phrase == "Idle timeout", "reason")
    check(p.client.get_timer() is None and p.next_due() is None, "no timer left")
    return "client %.3f s, server %.3f s after last packet" % (tc - last_c, ts - last_s)


@scenario
def close_terminates_within_3_pto() -> str:
    p = Pair(25)
    check(p.handshake(), "handshake")
    p.run_until_idle()
    pto = max(ep.conn._loss.get_probe_timeout() for ep in p.endpoints)  # peek, bound only
    t0 = p.now
    p.client.close(error_code=0x42, reason_phrase="done")
    p.pump(p.client)
    why = p.run(lambda q: q.client.terminated and q.server.terminated, max_time=60)
    check(why == "until", "both terminated")
    dt = p.now - t0
    check(dt <= 3 * pto + p.network.latency + 1e-9, "%.4f s <= 3 PTO (%.4f) + latency" % (dt, 3 * pto))
    check(p.server.terminated.error_code == 0x42 and p.server.terminated.reason_phrase == "done",
          "peer saw code and reason")
    check(all(peek_state(ep.conn)["state"] == "TERMINATED" for ep in p.endpoints), "TERMINATED")
    return "%.3f s (3 PTO = %.3f s)" % (dt, 3 * pto)


@scenario
def halfpair_rewrites() -> str:
    ref = Pair(26)
    ref.handshake()
    ref.run_until_idle()
    hp = HalfPair.create(26, "server", rewrite=lambda pkt: [f.raw for f in pkt.frames])
    check(hp.pair.handshake(), "handshake through identity rewrite")
    hp.pair.run_until_idle()
    check(hp.rewritten and all(pkt.raw == new for pkt, new in hp.rewritten),
          "re-protection reproduces the original bytes")
    check(hp.pair.hex_trace() == ref.hex_trace(), "trace identical to the un-intercepted run")

    def swap(pkt):
        if "HANDSHAKE_DONE" in pkt.frame_names():
            return [f.raw for f in pkt.frames if f.name != "HANDSHAKE_DONE"] + [F.max_data(1 << 30)]
        return None

    hp = HalfPair.create(27, "server", rewrite=swap)
    check(hp.pair.handshake(), "handshake")
    hp.pair.run_until_idle()
    seen = [f["frame_type"] for f in hp.subject.qlog_frames()]
    check("max_data" in seen and "handshake_done" not in seen, "subject saw the rewritten frames")
    check(not peek_state(hp.subject.conn)["handshake_confirmed"], "HANDSHAKE_DONE really withheld")

    # tamper with the server's CRYPTO: the client must refuse the handshake
    def tamper(pkt):
        if pkt.type == "handshake" and "CRYPTO" in pkt.frame_names():
            out = []
            for f in pkt.frames:
                if f.name == "CRYPTO" and f["length"] > 40:
                    d = bytearray(f["data"])
                    d[-1] ^= 1
                    out.append(F.crypto(f["offset"], bytes(d)))
                else:
                    out.append(f.raw)
            return out
        return None

    hp = HalfPair.create(28, "server", rewrite=tamper)
    hp.pair.connect()
    hp.pair.run(lambda q: q.client.terminated is not None, max_time=10)
    check(not hp.subject.handshake_completed, "tampered handshake does not complete")
    check(hp.subject.terminated is not None and hp.subject.terminated.error_code >= 0x100,
          "client closes with a crypto error: %r" % (hp.subject.terminated,))
    # out-of-order TLS message from a key-holding peer: the client gets the real
    # ServerHello (Initial) but the hidden server's Handshake packets are withheld
    # and the puppet sends Finished where EncryptedExtensions is due
    hp = HalfPair.create(29, "server", rewrite=lambda pkt: False if pkt.type == "handshake" else None)
    hp.pair.connect()
    hp.pair.run(lambda q: len(q.client.received) >= 1, max_time=1)
    check(hp.dropped and not hp.subject.handshake_completed, "handshake flight withheld")
    hp.puppet.mute_real()
    hp.puppet.send_tls_message(20, bytes(32), epoch="handshake", offset=0)
    hp.pair.run(lambda q: q.client.terminated is not None, max_time=10)
    term = hp.subject.terminated
    check(term is not None and term.error_code == 0x100 + 10,
          "early Finished -> unexpected_message: %r" % (term,))
    return "identity, substitution, tampering, TLS injection"


@scenario
def exceptions_are_never_swallowed() -> str:
    # a short-header datagram as the very first thing an eagerly created server sees
    bad = b"\x40" + bytes(30)
    p = Pair(30, eager_server=True)
    p.inject(bad, CLIENT_ADDR, "server")
    try:
        p.step()
        raised = None
    except ApiRaised as exc:
        raised = exc
    if raised is None:
        OBSERVATIONS.append("server in FIRSTFLIGHT no longer raises on a short-header datagram")
        # still prove the mechanism with a synthetic failure
        p = Pair(30)
        p.handshake()
        p.client.conn.receive_datagram = lambda *a, **k: (_ for _ in ()).throw(KeyError("synthetic"))
        p.server.send_ping(1)
        p.pump(p.server)
        try:
            p.run_until_idle()
        except ApiRaised as exc:
            raised = exc
    check(raised is not None, "exception surfaced as ApiRaised")
    check(raised.call.name == "receive_datagram" and raised.call.exc_type == type(raised.exc).__name__,
          "ApiRaised carries the call record")
    ep = p.endpoint(raised.call.endpoint)
    check(ep.raised and ep.raised[0] is raised.call and ep.api_log[-1] is raised.call, "logged")
    what = "%s from %s" % (raised.call.exc_type, raised.call.name)
    if isinstance(raised.exc, AssertionError):
        OBSERVATIONS.append(
            "server.receive_datagram raises AssertionError('first packet must be INITIAL') for a "
            "short-header first datagram: Pair(30, eager_server=True); "
            "inject(b'\\x40'+bytes(30), CLIENT_ADDR, 'server')")
    p = Pair(30, eager_server=True, capture_exceptions=True)
    p.inject(bad, CLIENT_ADDR, "server")
    p.step()
    if p.server.raised:
        check(p.server.raised[0].exc_type == raised.call.exc_type, "captured instead of raised")
    # application misuse is reported too
    p = Pair(31)
    p.handshake()
    try:
        p.client.send_stream_data(3, b"x")  # server-initiated uni stream
        check(False, "expected ApiRaised")
    except ApiRaised as exc:
        check(isinstance(exc.exc, ValueError), "ValueError for a write on a receive-only stream")
    return what


@scenario
def scripted_mixed_traffic() -> str:
    total = 0
    notes = []
    t_all = []
    for seed in range(40, 46):
        t = time.perf_counter()
        rng = random.Random(seed)
        fates = adversarial_then_fair(
            Fates.random(random.Random(seed + 1), 0.25, 0.15, 0.3, 0.1), fair_after_time=8.0)
        p = Pair(seed, fates=fates, congestion_control_algorithm=rng.choice(["reno", "cubic"]))
        check(p.handshake(max_time=60), "handshake seed %d" % seed)
        script = gen_script(rng, "mixed")
        outcomes = p.run_script(script, on_api_error="record", settle=False)
        p.advance(max(0.0, 8.0 - p.clock.elapsed()))  # into the fair phase
        p.run_until_idle(max_time=400, quiet=20.0)
        check(p.client.terminated is None and p.server.terminated is None,
              "no protocol error under benign loss (seed %d): %r %r"
              % (seed, p.client.terminated, p.server.terminated))
        truth = script_truth(script, outcomes)
        for (side, sid), tr in truth.items():
            recv = p.peer_of(p.endpoint(side))
            d = stream_deliveries(recv).get(sid)
            got = d.data if d else b""
            total += 1
            if tr["reset"] is None and tr["stopped"] is None:
                if got != tr["data"] or bool(d and d.ended) != tr["fin"]:
                    lonely_fin = tr["fin"] and got == tr["data"]
                    msg = "seed %d %s stream %d: delivered %d/%d bytes, ended=%s fin=%s" % (
                        seed, side, sid, len(got), len(tr["data"]), bool(d and d.ended), tr["fin"])
                    if lonely_fin:
                        notes.append(msg + " (FIN never delivered)")
                    else:
                        check(False, msg)
            else:
                check(tr["data"].startswith(got), "seed %d stream %d: delivered a prefix" % (seed, sid))
            if d is not None:
                check(d.data_after_end == 0, "no data after FIN")
        for ep in p.endpoints:  # (no Retry / VN in these runs: see observations)
            led = peek_ledger(ep.conn)
            check(led["bytes_in_flight"] == led["recomputed"],
                  "ledger consistent at rest (seed %d %s): %r" % (seed, ep.name, led))
        if p.anomalies:
            notes.append("seed %d: %s" % (seed, p.anomalies[0]))
        t_all.append((time.perf_counter() - t) * 1000)
    OBSERVATIONS.extend(notes)
    return "%d streams over 6 seeds, %.0f ms each" % (total, sum(t_all) / len(t_all))


@scenario
def fates_and_public_state() -> str:
    fates = Fates.script({0: drop(), 1: [deliver(0.01), duplicate(0.5)]})
    p = Pair(50, fates=fates)
    check(p.handshake(), "handshake despite losing the first Initial")
    check(p.network.wire_log[0].actions == [drop()], "scripted drop applied")
    check(len(p.network.wire_log[1].actions) == 2, "scripted duplicate applied")
    p.run_until_idle()
    p2 = Pair(50, fates=Fates.drop_indices({0}))
    check(p2.handshake(), "drop_indices")
    ps = public_state(p.client.conn)
    check(ps["tls_state"] == "CLIENT_POST_HANDSHAKE" and ps["alpn_negotiated"] == "sim", "public state")
    check(ps["next_stream_id_bidi"] == 0 and ps["next_stream_id_uni"] == 2, "stream ids")
    before = p.now
    p.advance(1.5)
    check(abs(p.now - before - 1.5) < 1e-9, "advance moves the clock exactly")
    calls = {c.name for c in p.client.api_log}
    check({"connect", "receive_datagram", "datagrams_to_send", "get_timer", "next_event",
           "handle_timer"} <= calls, "api_log records every kind of call: %s" % sorted(calls))
    # the pending-FIN bug reproduces on a perfect network -> report, do not fail
    q = Pair(51)
    q.handshake()
    q.run_until_idle()
    q.run_script([
        ScriptItem("client", "write", dict(stream=0, data=b"a" * 5000)),
        ScriptItem("client", "write", dict(stream=4, data=b"", fin=True)),
    ])
    q.run_until_idle(max_time=60, quiet=20)
    if 4 not in stream_deliveries(q.server):
        OBSERVATIONS.append(
            "FIN-only STREAM frame lost on a perfect network: after handshake "
            "client.send_stream_data(0, b'a'*5000); client.send_stream_data(4, b'', True); "
            "stream 4 never appears on the wire (get_frame pops the FIN, then "
            "builder.start_frame raises QuicPacketBuilderStop)")
    # a key update nobody saw a packet of: the server updates, its first new-phase
    # packet is an ACK (the client answers nothing), then the client updates too,
    # so the client jumps two key generations between two of its packets
    k = Pair(53)
    k.handshake()
    k.run_until_idle()
    k.client.send_ping(1)
    k.pump(k.client)
    k.run(lambda q: len(q.server.received) > 3 and q.server.timer_at is not None, max_time=1)
    k.server.request_key_update()
    k.run_until_idle()
    k.client.request_key_update()
    k.client.send_stream_data(0, b"after two generations", True)
    k.pump(k.client)
    k.run_until_idle()
    st = k.observer.stats()
    check(st["decrypted"] == st["protected"], "observer follows multi-generation key updates: %r" % (st["by_type"],))
    check(_delivered(k, "server", 0) == b"after two generations", "data after double update")
    # a duplicated PATH_RESPONSE (plain network duplication) kills the connection
    d = Pair(54)
    d.handshake()
    d.run_until_idle()
    d.network.set_fate(lambda i, direction, data:
                       [deliver(), duplicate(0.02)] if direction == "c2s" else [deliver()])
    d.rebind("client")
    d.client.send_ping(1)
    d.pump(d.client)
    d.run_until_idle()
    if d.server.terminated is not None:
        OBSERVATIONS.append(
            "network duplication of the datagram carrying PATH_RESPONSE closes the connection: "
            "Pair(54); handshake; set_fate(duplicate every c2s datagram); rebind('client'); "
            "client.send_ping(1) -> %r" % (d.server.terminated,))
    g = Pair(55, retry=True)
    g.handshake()
    g.run_until_idle()
    led = peek_ledger(g.client.conn)
    if led["bytes_in_flight"] != led["recomputed"]:
        OBSERVATIONS.append(
            "after Retry the client's bytes_in_flight stays at %d with no packet tracked "
            "(Pair(55, retry=True); handshake; run_until_idle; peek_ledger(client))"
            % led["bytes_in_flight"])
    # anti-amplification busy loop after rebind
    r = Pair(52)
    r.handshake()
    r.run_until_idle()
    r.rebind("client")
    r.client.send_ping(1)
    r.pump(r.client)
    r.run_until_idle()
    if r.server.spins:
        OBSERVATIONS.append(
            "server busy-loops after NAT rebind: Pair(52); handshake; rebind('client'); "
            "client.send_ping(1): %d timer firings with get_timer() in the past (%s)"
            % (r.server.spins, r.anomalies[0] if r.anomalies else ""))
    return "script/drop fates, public_state, advance, api_log"


SCENARIOS = [
    handshake_versions_and_cc,
    transfer_100k_lossy,
    determinism,
    observer_decrypts_everything,
    observer_retry_vn_0rtt,
    puppet_frames_accepted,
    puppet_garbage_closes,
    frame_codec_roundtrip,
    rebind_migrates,
    idle_timeout_at_negotiated_time,
    close_terminates_within_3_pto,
    halfpair_rewrites,
    exceptions_are_never_swallowed,
    scripted_mixed_traffic,
    fates_and_public_state,
]


def main() -> int:
    quic_log = logging.getLogger("quic")
    old = quic_log.level
    quic_log.setLevel(logging.CRITICAL)  # aioquic warns on every induced close
    t = time.perf_counter()
    try:
        for s in SCENARIOS:
            s()
    finally:
        quic_log.setLevel(old)
    failed = [r for r in RESULTS if not r[1]]
    print("-" * 78)
    print("%d scenarios, %d assertions, %d failed, %.2f s" % (
        len(RESULTS), ASSERTIONS, len(failed), time.perf_counter() - t))
    if OBSERVATIONS:
        print("observations (aioquic behaviour, not simulator failures):")
        for o in OBSERVATIONS:
            print("  * " + o)
    return 1 if failed else 0


if __name__ == "__main__":
    sys.exit(main())
