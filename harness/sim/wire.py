"""Wire observer: decrypts every datagram seen on the simulated network.

The observer never touches the endpoints.  It owns separate
``aioquic.quic.crypto.CryptoContext`` objects which it sets up from

* the *Initial* secrets, derived from the destination connection ID of the
  client's Initial packets and the packet's version, and
* the TLS traffic secrets the endpoints write to their ``secrets_log_file``
  (NSS key-log format; both endpoints' logs are merged).  The key log does not
  name the cipher suite or QUIC version, so they are found by trial (hash
  length narrows the suite) and pinned once a packet authenticates.

1-RTT key updates are followed through aioquic's own ``next_key_phase``; the
previous generation is kept so reordered packets still decrypt.

Results are :class:`Packet` objects with typed :class:`Frame` s produced by an
independent frame parser (:func:`parse_frames`) covering all RFC 9000 frame
types and DATAGRAM (RFC 9221).  A packet that cannot be decrypted is reported
with ``decrypted=False`` -- never as an error.
"""

from __future__ import annotations

import io
from dataclasses import dataclass, field
from typing import Any, Iterable, Optional, Sequence

from aioquic.buffer import Buffer, BufferReadError
from aioquic.quic.crypto import (
    CryptoContext,
    CryptoError,
    CryptoPair,
    apply_key_phase,
    next_key_phase,
)
from aioquic.quic.packet import (
    QuicPacketType,
    QuicProtocolVersion,
    get_retry_integrity_tag,
    pull_quic_header,
)
from aioquic.tls import CipherSuite

__all__ = [
    "Frame",
    "Packet",
    "WireObserver",
    "parse_frames",
    "parse_keylog",
    "FRAME_NAMES",
    "SPACE_OF",
]

V1 = int(QuicProtocolVersion.VERSION_1)
V2 = int(QuicProtocolVersion.VERSION_2)

FRAME_NAMES = {
    0x00: "PADDING",
    0x01: "PING",
    0x02: "ACK",
    0x03: "ACK_ECN",
    0x04: "RESET_STREAM",
    0x05: "STOP_SENDING",
    0x06: "CRYPTO",
    0x07: "NEW_TOKEN",
    0x10: "MAX_DATA",
    0x11: "MAX_STREAM_DATA",
    0x12: "MAX_STREAMS_BIDI",
    0x13: "MAX_STREAMS_UNI",
    0x14: "DATA_BLOCKED",
    0x15: "STREAM_DATA_BLOCKED",
    0x16: "STREAMS_BLOCKED_BIDI",
    0x17: "STREAMS_BLOCKED_UNI",
    0x18: "NEW_CONNECTION_ID",
    0x19: "RETIRE_CONNECTION_ID",
    0x1A: "PATH_CHALLENGE",
    0x1B: "PATH_RESPONSE",
    0x1C: "CONNECTION_CLOSE",
    0x1D: "CONNECTION_CLOSE_APP",
    0x1E: "HANDSHAKE_DONE",
    0x30: "DATAGRAM",
    0x31: "DATAGRAM",
}
for _t in range(0x08, 0x10):
    FRAME_NAMES[_t] = "STREAM"

#: packet type name -> packet number space name
SPACE_OF = {"initial": "initial", "handshake": "handshake", "0rtt": "app", "1rtt": "app"}

_TYPE_NAME = {
    QuicPacketType.INITIAL: "initial",
    QuicPacketType.ZERO_RTT: "0rtt",
    QuicPacketType.HANDSHAKE: "handshake",
    QuicPacketType.RETRY: "retry",
    QuicPacketType.VERSION_NEGOTIATION: "version_negotiation",
    QuicPacketType.ONE_RTT: "1rtt",
}


@dataclass
class Frame:
    """One parsed frame.  ``type`` is the numeric frame type, ``name`` its
    symbolic name (``"STREAM"`` for 0x08-0x0f, ``"MALFORMED"`` /
    ``"UNKNOWN"`` for undecodable input), ``fields`` a dict (see
    :func:`parse_frames`), ``raw`` the exact bytes of the frame."""

    type: int
    name: str
    fields: dict = field(default_factory=dict)
    raw: bytes = b""

    def __getitem__(self, key: str) -> Any:
        return self.fields[key]


@dataclass
class Packet:
    """One QUIC packet found in a datagram.

    ``type`` is ``"initial"``, ``"0rtt"``, ``"handshake"``, ``"1rtt"``,
    ``"retry"``, ``"version_negotiation"``, ``"padding"`` (zero bytes after the
    last coalesced packet) or ``"garbage"`` (header unparsable).
    ``direction`` is ``"c2s"`` / ``"s2c"``; ``sender`` the endpoint name or
    ``None`` for injected datagrams.  ``pn`` / ``key_phase`` / ``frames`` /
    ``payload`` are ``None`` / empty unless ``decrypted``."""

    time: float
    datagram_index: int
    direction: str
    type: str
    version: Optional[int]
    dcid: bytes
    scid: bytes
    pn: Optional[int]
    key_phase: Optional[int]
    frames: list[Frame]
    raw: bytes
    size: int
    decrypted: bool
    injected: bool = False
    sender: Optional[str] = None
    token: bytes = b""
    supported_versions: list[int] = field(default_factory=list)
    payload: Optional[bytes] = None
    header: Optional[bytes] = None
    pn_length: Optional[int] = None
    retry_tag_valid: Optional[bool] = None
    note: str = ""

    @property
    def space(self) -> Optional[str]:
        return SPACE_OF.get(self.type)

    def frame_names(self) -> list[str]:
        return [f.name for f in self.frames]

    @property
    def ack_eliciting(self) -> bool:
        return any(
            f.type not in (0x00, 0x02, 0x03, 0x1C, 0x1D) for f in self.frames
        )


# ---------------------------------------------------------------------------
# frame parser
# ---------------------------------------------------------------------------


def parse_frames(payload: bytes) -> list[Frame]:
    """Parse a decrypted packet payload into frames.

    Field dictionaries:

    ==================== ==========================================================
    PADDING              ``count`` (run length of zero bytes)
    PING, HANDSHAKE_DONE --
    ACK / ACK_ECN        ``largest``, ``delay`` (raw, unscaled), ``ranges``
                         (ascending ``[(first, last)]`` inclusive), ``first_range``,
                         ``ecn`` (``None`` or ``(ect0, ect1, ce)``)
    RESET_STREAM         ``stream_id``, ``error_code``, ``final_size``
    STOP_SENDING         ``stream_id``, ``error_code``
    CRYPTO               ``offset``, ``length``, ``data``
    NEW_TOKEN            ``token``
    STREAM               ``stream_id``, ``offset``, ``length``, ``fin``, ``data``,
                         ``has_offset``, ``has_length``
    MAX_DATA             ``maximum``
    MAX_STREAM_DATA      ``stream_id``, ``maximum``
    MAX_STREAMS_*        ``maximum``
    DATA_BLOCKED         ``limit``
    STREAM_DATA_BLOCKED  ``stream_id``, ``limit``
    STREAMS_BLOCKED_*    ``limit``
    NEW_CONNECTION_ID    ``sequence_number``, ``retire_prior_to``, ``connection_id``,
                         ``stateless_reset_token``
    RETIRE_CONNECTION_ID ``sequence_number``
    PATH_CHALLENGE/RESP. ``data``
    CONNECTION_CLOSE     ``error_code``, ``frame_type``, ``reason`` (bytes)
    CONNECTION_CLOSE_APP ``error_code``, ``reason`` (bytes)
    DATAGRAM             ``length``, ``data``, ``has_length``
    ==================== ==========================================================

    An unknown type yields ``Frame(name="UNKNOWN")`` and a truncated frame
    ``Frame(name="MALFORMED", fields={"error":..., "of": name})``; parsing
    stops there (the rest of the payload is in ``raw``).
    """
    buf = Buffer(data=payload)
    frames: list[Frame] = []
    n = len(payload)
    while not buf.eof():
        start = buf.tell()
        try:
            ftype = buf.pull_uint_var()
        except BufferReadError:
            frames.append(
                Frame(-1, "MALFORMED", {"error": "frame type", "of": None}, payload[start:])
            )
            break
        name = FRAME_NAMES.get(ftype)
        if name is None:
            frames.append(Frame(ftype, "UNKNOWN", {}, payload[start:]))
            break
        try:
            fields = _parse_one(ftype, buf, payload, n)
        except (BufferReadError, ValueError) as exc:
            frames.append(
                Frame(ftype, "MALFORMED", {"error": str(exc) or type(exc).__name__, "of": name},
                      payload[start:])
            )
            break
        frames.append(Frame(ftype, name, fields, payload[start : buf.tell()]))
    return frames


def _parse_one(ftype: int, buf: Buffer, payload: bytes, n: int) -> dict:
    v = buf.pull_uint_var
    if ftype == 0x00:
        pos = buf.tell()
        end = pos
        while end < n and payload[end] == 0:
            end += 1
        buf.seek(end)
        return {"count": end - pos + 1}
    if ftype in (0x01, 0x1E):
        return {}
    if ftype in (0x02, 0x03):
        largest = v()
        delay = v()
        count = v()
        first = v()
        ranges = []
        hi = largest
        lo = hi - first
        ranges.append((lo, hi))
        for _ in range(count):
            gap = v()
            length = v()
            hi = lo - gap - 2
            lo = hi - length
            ranges.append((lo, hi))
        ecn = None
        if ftype == 0x03:
            ecn = (v(), v(), v())
        ranges.reverse()
        return {
            "largest": largest,
            "delay": delay,
            "ranges": ranges,
            "first_range": first,
            "ecn": ecn,
        }
    if ftype == 0x04:
        return {"stream_id": v(), "error_code": v(), "final_size": v()}
    if ftype == 0x05:
        return {"stream_id": v(), "error_code": v()}
    if ftype == 0x06:
        offset = v()
        length = v()
        return {"offset": offset, "length": length, "data": buf.pull_bytes(length)}
    if ftype == 0x07:
        length = v()
        return {"token": buf.pull_bytes(length)}
    if 0x08 <= ftype <= 0x0F:
        sid = v()
        offset = v() if ftype & 4 else 0
        if ftype & 2:
            length = v()
        else:
            length = n - buf.tell()
        data = buf.pull_bytes(length)
        return {
            "stream_id": sid,
            "offset": offset,
            "length": length,
            "fin": bool(ftype & 1),
            "data": data,
            "has_offset": bool(ftype & 4),
            "has_length": bool(ftype & 2),
        }
    if ftype == 0x10:
        return {"maximum": v()}
    if ftype == 0x11:
        return {"stream_id": v(), "maximum": v()}
    if ftype in (0x12, 0x13):
        return {"maximum": v()}
    if ftype == 0x14:
        return {"limit": v()}
    if ftype == 0x15:
        return {"stream_id": v(), "limit": v()}
    if ftype in (0x16, 0x17):
        return {"limit": v()}
    if ftype == 0x18:
        seq = v()
        rpt = v()
        length = buf.pull_uint8()
        cid = buf.pull_bytes(length)
        token = buf.pull_bytes(16)
        return {
            "sequence_number": seq,
            "retire_prior_to": rpt,
            "connection_id": cid,
            "stateless_reset_token": token,
        }
    if ftype == 0x19:
        return {"sequence_number": v()}
    if ftype in (0x1A, 0x1B):
        return {"data": buf.pull_bytes(8)}
    if ftype == 0x1C:
        code = v()
        ft = v()
        length = v()
        return {"error_code": code, "frame_type": ft, "reason": buf.pull_bytes(length)}
    if ftype == 0x1D:
        code = v()
        length = v()
        return {"error_code": code, "reason": buf.pull_bytes(length)}
    if ftype == 0x30:
        length = n - buf.tell()
        return {"length": length, "data": buf.pull_bytes(length), "has_length": False}
    if ftype == 0x31:
        length = v()
        return {"length": length, "data": buf.pull_bytes(length), "has_length": True}
    raise ValueError("unhandled frame type %#x" % ftype)  # pragma: no cover


# ---------------------------------------------------------------------------
# key log
# ---------------------------------------------------------------------------

_LABELS = {
    "CLIENT_EARLY_TRAFFIC_SECRET": ("client", "0rtt"),
    "CLIENT_HANDSHAKE_TRAFFIC_SECRET": ("client", "handshake"),
    "SERVER_HANDSHAKE_TRAFFIC_SECRET": ("server", "handshake"),
    "CLIENT_TRAFFIC_SECRET_0": ("client", "1rtt"),
    "SERVER_TRAFFIC_SECRET_0": ("server", "1rtt"),
}


def parse_keylog(text: str) -> list[tuple[str, str, bytes, bytes]]:
    """Parse NSS key-log text into ``[(sender_side, epoch, client_random, secret)]``
    where ``epoch`` is ``"0rtt"``, ``"handshake"`` or ``"1rtt"``; unknown labels
    and malformed lines are skipped."""
    out = []
    for line in text.splitlines():
        parts = line.split()
        if len(parts) != 3 or parts[0] not in _LABELS:
            continue
        try:
            cr = bytes.fromhex(parts[1])
            secret = bytes.fromhex(parts[2])
        except ValueError:
            continue
        side, epoch = _LABELS[parts[0]]
        out.append((side, epoch, cr, secret))
    return out


def _suites_for(secret: bytes) -> list[CipherSuite]:
    if len(secret) == 48:
        return [CipherSuite.AES_256_GCM_SHA384]
    return [CipherSuite.AES_128_GCM_SHA256, CipherSuite.CHACHA20_POLY1305_SHA256]


def _clone_context(ctx: CryptoContext) -> CryptoContext:
    """Independent copy sharing the (immutable) AEAD / header-protection objects."""
    new = CryptoContext(key_phase=ctx.key_phase)
    new.aead, new.hp = ctx.aead, ctx.hp
    new.cipher_suite, new.secret, new.version = ctx.cipher_suite, ctx.secret, ctx.version
    return new


class _KeySlot:
    """All we know about one (sender, epoch) traffic secret."""

    def __init__(self, secret: bytes) -> None:
        self.secret = secret
        self.pinned: Optional[tuple[CipherSuite, int]] = None  # (suite, version)
        self.candidates: dict[tuple[CipherSuite, int], CryptoContext] = {}
        self.current: Optional[CryptoContext] = None  # after pinning
        self.previous: Optional[CryptoContext] = None  # 1-RTT: generation before
        self.generation = 0

    def contexts(self) -> Iterable[CryptoContext]:
        if self.current is not None:
            yield self.current
            if self.previous is not None:
                yield self.previous
            return
        for suite in _suites_for(self.secret):
            for version in (V1, V2):
                key = (suite, version)
                ctx = self.candidates.get(key)
                if ctx is None:
                    ctx = CryptoContext()
                    ctx.setup(cipher_suite=suite, secret=self.secret, version=version)
                    self.candidates[key] = ctx
                yield ctx


class WireObserver:
    """Decrypts and parses every datagram of a run.

    :param secrets_logs: the endpoints' in-memory ``secrets_log_file`` objects
        (``io.StringIO``); re-read lazily whenever they grew.
    :param cid_lengths: ``{"client": n, "server": n}`` -- length of the
        connection IDs each side *issues* (needed to parse short headers sent
        *to* that side).  Default 8 / 8.

    Register :meth:`tap` in ``Network.taps`` (``Pair`` does).  Results
    accumulate in ``packets``; ``by_datagram[index]`` lists the packets of one
    datagram.  ``largest_pn[(sender, space)]``, ``last_dcid[sender]``,
    ``last_scid[sender]``, ``crypto_sent[(sender, epoch)]`` (highest CRYPTO
    offset+length sent) and ``versions[sender]`` are kept for the puppet.
    """

    def __init__(
        self,
        secrets_logs: Sequence[Optional[io.StringIO]] = (),
        cid_lengths: Optional[dict[str, int]] = None,
    ) -> None:
        self.secrets_logs = [s for s in secrets_logs if s is not None]
        self.cid_lengths = dict(cid_lengths or {"client": 8, "server": 8})
        self.packets: list[Packet] = []
        self.by_datagram: dict[int, list[Packet]] = {}
        self.largest_pn: dict[tuple[str, str], int] = {}
        self.last_dcid: dict[str, bytes] = {}
        self.last_scid: dict[str, bytes] = {}
        self.crypto_sent: dict[tuple[str, str], int] = {}
        self.versions: dict[str, int] = {}
        self.initial_dcids: list[bytes] = []
        self.client_initial_token: bytes = b""
        self._initial_pairs: dict[tuple[bytes, int], CryptoPair] = {}
        self._slots: dict[tuple[str, str], list[_KeySlot]] = {}
        self._log_sizes: list[int] = [0] * len(self.secrets_logs)
        self._seen_secrets: set[tuple[str, str, bytes]] = set()

    # -- keys ------------------------------------------------------------------

    def add_secrets_log(self, log: io.StringIO) -> None:
        self.secrets_logs.append(log)
        self._log_sizes.append(0)

    def refresh_keys(self) -> None:
        """Pick up secrets logged since the last call."""
        for i, log in enumerate(self.secrets_logs):
            text = log.getvalue()
            if len(text) == self._log_sizes[i]:
                continue
            self._log_sizes[i] = len(text)
            for side, epoch, _cr, secret in parse_keylog(text):
                key = (side, epoch, secret)
                if key in self._seen_secrets:
                    continue
                self._seen_secrets.add(key)
                self._slots.setdefault((side, epoch), []).append(_KeySlot(secret))

    def _initial_pair(self, cid: bytes, version: int) -> CryptoPair:
        key = (cid, version)
        pair = self._initial_pairs.get(key)
        if pair is None:
            pair = CryptoPair()
            # is_client=True: pair.send = client's keys, pair.recv = server's keys
            pair.setup_initial(cid=cid, is_client=True, version=version)
            self._initial_pairs[key] = pair
        return pair

    def send_context(self, sender: str, epoch: str) -> Optional[CryptoContext]:
        """The context holding ``sender``'s *current* sending keys for
        ``epoch`` (``"initial"``, ``"0rtt"``, ``"handshake"``, ``"1rtt"``), or
        ``None`` if unknown.  For 1-RTT this follows key updates that have been
        seen on the wire.  The returned object belongs to the observer: use it
        for ``encrypt_packet`` only (which does not mutate it)."""
        self.refresh_keys()
        if epoch == "initial":
            if not self.initial_dcids:
                return None
            version = self.versions.get(sender) or self.versions.get("client") or V1
            pair = self._initial_pair(self.initial_dcids[-1], version)
            return pair.send if sender == "client" else pair.recv
        slots = self._slots.get((sender, epoch))
        if not slots:
            return None
        slot = slots[-1]
        if slot.current is not None:
            return slot.current
        # not pinned yet: derive from what the peer direction / other epochs use
        version = self.versions.get(sender) or self.versions.get("client") or V1
        suite = None
        for other in self._slots.values():
            for s in other:
                if s.pinned is not None and len(s.secret) == len(slot.secret):
                    suite = s.pinned[0]
        if suite is None:
            suite = _suites_for(slot.secret)[0]
        ctx = CryptoContext()
        ctx.setup(cipher_suite=suite, secret=slot.secret, version=version)
        return ctx

    def context_for(
        self, sender: str, epoch: str, key_phase: Optional[int] = None
    ) -> Optional[CryptoContext]:
        """Like :meth:`send_context` but, for 1-RTT, selects the key generation
        whose phase bit equals ``key_phase`` (current or previous)."""
        ctx = self.send_context(sender, epoch)
        if ctx is None or epoch != "1rtt" or key_phase is None or ctx.key_phase == key_phase:
            return ctx
        slots = self._slots.get((sender, epoch)) or []
        if slots and slots[-1].previous is not None and slots[-1].previous.key_phase == key_phase:
            return slots[-1].previous
        ahead = _clone_context(ctx)
        apply_key_phase(ahead, next_key_phase(ahead), trigger="observer")
        return ahead

    # -- feeding ---------------------------------------------------------------

    def tap(self, rec: Any) -> None:
        """``Network.taps`` callback (takes a ``WireRecord``)."""
        self.feed(rec.data, rec.direction, rec.time, rec.index, rec.injected, rec.sender)

    def feed(
        self,
        data: bytes,
        direction: str,
        time: float = 0.0,
        index: int = -1,
        injected: bool = False,
        sender_name: Optional[str] = None,
    ) -> list[Packet]:
        """Decrypt and parse one datagram travelling in ``direction``."""
        self.refresh_keys()
        sender = "client" if direction == "c2s" else "server"
        receiver = "server" if sender == "client" else "client"
        out: list[Packet] = []
        buf = Buffer(data=data)
        n = len(data)
        while not buf.eof():
            start = buf.tell()
            if data[start] == 0 and not any(data[start:]):
                out.append(
                    self._mk(time, index, direction, "padding", None, b"", b"", data[start:],
                             True, injected, sender_name)
                )
                break
            try:
                header = pull_quic_header(buf, host_cid_length=self.cid_lengths.get(receiver, 8))
            except ValueError as exc:
                pkt = self._mk(time, index, direction, "garbage", None, b"", b"", data[start:],
                               False, injected, sender_name)
                pkt.note = str(exc)
                out.append(pkt)
                break
            ptype = _TYPE_NAME[header.packet_type]
            end = start + header.packet_length
            raw = data[start:end]
            if ptype == "version_negotiation":
                pkt = self._mk(time, index, direction, ptype, 0, header.destination_cid,
                               header.source_cid, raw, True, injected, sender_name)
                pkt.supported_versions = list(header.supported_versions)
                out.append(pkt)
                break
            if ptype == "retry":
                pkt = self._mk(time, index, direction, ptype, header.version,
                               header.destination_cid, header.source_cid, raw, True, injected,
                               sender_name)
                pkt.token = header.token
                if self.initial_dcids:
                    try:
                        tag = get_retry_integrity_tag(raw[:-16], self.initial_dcids[0], header.version)
                        pkt.retry_tag_valid = tag == header.integrity_tag
                    except Exception as exc:  # observer robustness only
                        pkt.note = "retry tag: %r" % (exc,)
                out.append(pkt)
                break
            encrypted_off = buf.tell() - start
            buf.seek(end)
            pkt = self._decrypt(
                time, index, direction, sender, ptype, header, raw, encrypted_off, injected,
                sender_name,
            )
            out.append(pkt)
        self.packets.extend(out)
        self.by_datagram.setdefault(index, []).extend(out)
        return out

    @staticmethod
    def _mk(
        time: float, index: int, direction: str, ptype: str, version: Optional[int],
        dcid: bytes, scid: bytes, raw: bytes, decrypted: bool, injected: bool,
        sender_name: Optional[str],
    ) -> Packet:
        return Packet(
            time=time, datagram_index=index, direction=direction, type=ptype, version=version,
            dcid=dcid, scid=scid, pn=None, key_phase=None, frames=[], raw=raw, size=len(raw),
            decrypted=decrypted, injected=injected, sender=sender_name,
        )

    def _decrypt(
        self, time: float, index: int, direction: str, sender: str, ptype: str, header: Any,
        raw: bytes, encrypted_off: int, injected: bool, sender_name: Optional[str],
    ) -> Packet:
        pkt = self._mk(time, index, direction, ptype, header.version, header.destination_cid,
                       header.source_cid, raw, False, injected, sender_name)
        pkt.token = header.token
        space = SPACE_OF[ptype]
        expected = self.largest_pn.get((sender, space), -1) + 1
        result = None
        if ptype == "initial":
            cids = list(self.initial_dcids)
            if sender == "client" and header.destination_cid not in cids:
                cids.append(header.destination_cid)
            for cid in reversed(cids):
                pair = self._initial_pair(cid, header.version)
                ctx = pair.send if sender == "client" else pair.recv
                result = self._try(ctx, raw, encrypted_off, expected)
                if result is not None:
                    if cid not in self.initial_dcids:
                        self.initial_dcids.append(cid)
                    break
        else:
            for slot in reversed(self._slots.get((sender, ptype), [])):
                result = self._try_slot(slot, raw, encrypted_off, expected, ptype)
                if result is not None:
                    break
        if result is None:
            return pkt
        plain_header, payload, pn, _updated = result
        pkt.decrypted = True
        pkt.header = plain_header
        pkt.payload = payload
        pkt.pn = pn
        pkt.pn_length = (plain_header[0] & 3) + 1
        if ptype == "1rtt":
            pkt.key_phase = (plain_header[0] & 4) >> 2
        pkt.frames = parse_frames(payload)
        # bookkeeping for the puppet (only genuine traffic moves these)
        key = (sender, space)
        if pn > self.largest_pn.get(key, -1):
            self.largest_pn[key] = pn
        if not injected:
            self.last_dcid[sender] = header.destination_cid
            if header.source_cid or ptype != "1rtt":
                self.last_scid[sender] = header.source_cid
            if header.version is not None:
                self.versions[sender] = header.version
            if ptype == "initial" and sender == "client":
                self.client_initial_token = header.token
        for f in pkt.frames:
            if f.name == "CRYPTO":
                ck = (sender, ptype)
                top = f.fields["offset"] + f.fields["length"]
                if top > self.crypto_sent.get(ck, 0):
                    self.crypto_sent[ck] = top
        return pkt

    def _try_slot(
        self, slot: _KeySlot, raw: bytes, encrypted_off: int, expected: int, ptype: str
    ) -> Optional[tuple[bytes, bytes, int, bool]]:
        """Try every key generation of ``slot`` that could protect the packet and
        move the slot forward when a newer generation turns out to be in use."""
        for ctx in slot.contexts():
            result = self._try(ctx, raw, encrypted_off, expected)
            if result is None:
                continue
            if slot.current is None:
                slot.current = ctx
                slot.pinned = (ctx.cipher_suite, ctx.version)
                slot.candidates = {}
            if result[3] and ctx is slot.current:
                self._rotate(slot, 1)  # protected with the next generation
            return result
        if ptype != "1rtt" or slot.current is None:
            return None
        # A sender can advance by more than one generation between two packets
        # we get to see (peer-initiated update followed by a local one with
        # nothing sent in between): look a few generations ahead.
        probe = _clone_context(slot.current)
        for ahead in range(1, 5):
            # a key update changes the AEAD key only; header protection stays
            apply_key_phase(probe, next_key_phase(probe), trigger="observer")
            result = self._try(probe, raw, encrypted_off, expected)
            if result is None:
                continue
            self._rotate(slot, ahead + (1 if result[3] else 0))
            return result
        return None

    @staticmethod
    def _rotate(slot: _KeySlot, generations: int) -> None:
        ctx = slot.current
        assert ctx is not None
        for _ in range(generations):
            slot.previous = _clone_context(ctx)
            apply_key_phase(ctx, next_key_phase(ctx), trigger="observer")
            slot.generation += 1

    @staticmethod
    def _try(
        ctx: CryptoContext, raw: bytes, encrypted_off: int, expected: int
    ) -> Optional[tuple[bytes, bytes, int, bool]]:
        try:
            return ctx.decrypt_packet(raw, encrypted_off, expected)
        except CryptoError:
            return None
        except Exception:
            # e.g. header-protection sample out of range on a runt packet
            return None

    # -- queries -----------------------------------------------------------------

    def select(
        self,
        direction: Optional[str] = None,
        type: Optional[str] = None,
        frame: Optional[str] = None,
        injected: Optional[bool] = None,
    ) -> list[Packet]:
        """Packets filtered by direction / packet type / containing a frame name."""
        out = []
        for p in self.packets:
            if direction is not None and p.direction != direction:
                continue
            if type is not None and p.type != type:
                continue
            if injected is not None and p.injected != injected:
                continue
            if frame is not None and frame not in p.frame_names():
                continue
            out.append(p)
        return out

    def frames(self, direction: Optional[str] = None, name: Optional[str] = None) -> list[tuple[Packet, Frame]]:
        """``[(packet, frame)]`` over all decrypted packets, optionally filtered."""
        out = []
        for p in self.packets:
            if direction is not None and p.direction != direction:
                continue
            for f in p.frames:
                if name is None or f.name == name:
                    out.append((p, f))
        return out

    def stats(self) -> dict:
        """Counts: protected packets seen / decrypted, per type, frame histogram."""
        protected = [p for p in self.packets if p.type in SPACE_OF]
        hist: dict[str, int] = {}
        for p in protected:
            for f in p.frames:
                hist[f.name] = hist.get(f.name, 0) + 1
        by_type: dict[str, list[int]] = {}
        for p in protected:
            c = by_type.setdefault(p.type, [0, 0])
            c[0] += 1
            c[1] += int(p.decrypted)
        return {
            "protected": len(protected),
            "decrypted": sum(1 for p in protected if p.decrypted),
            "by_type": {k: tuple(v) for k, v in by_type.items()},
            "frames": hist,
            "other": sorted({p.type for p in self.packets if p.type not in SPACE_OF}),
        }
