#!/venv/bin/python
"""./check <Cxx> [--tier quick|thorough] [--replay file]   (see DESIGN.md section 2.2)"""
import argparse
import importlib
import json
import os
import sys
import time
import traceback

sys.dont_write_bytecode = True
HERE = os.path.dirname(os.path.abspath(__file__))
sys.path.insert(0, HERE)

from vlib import core  # noqa: E402


def all_generators():
    gens = []
    gdir = os.path.join(core.VERIF, "tools", "gen")
    if os.path.isdir(gdir):
        sys.path.insert(0, os.path.join(core.VERIF, "tools"))
        for fn in sorted(os.listdir(gdir)):
            if fn.endswith(".py") and not fn.startswith("_"):
                mod = importlib.import_module("gen." + fn[:-3])
                g = mod.generate
                g.gen_name = fn[:-3]
                g.outputs = list(getattr(mod, "OUTPUTS", []))
                gens.append(g)
    return gens


def setup():
    probs = core.hygiene()
    if probs:
        print("\n".join(probs))
        return 1
    b = core.coq_build(all_generators())
    print(b["log"][-4000:])
    print("build ok=%s wall=%.1fs failed=%s gen_errors=%s not_extracted=%s" % (b["ok"], b["wall_s"], b["failed"], b["gen_errors"],
                                                                                b.get("not_extracted")))
    if b.get("fatal") or not os.path.exists(core.DRIVER):
        print("SETUP FAILED: %s" % b.get("fatal", "no extracted driver"))
        return 1
    if not b["ok"]:
        # the toolchain works; files that do not compile against the tree as it is now are reported by the checks whose
        # theorems depend on them (proof violation), not by the setup
        print("SETUP WARNING: some files do not compile against the current tree (see above); the checks depending on them will say so")
    return 0


def main():
    ap = argparse.ArgumentParser()
    ap.add_argument("pid", nargs="?")
    ap.add_argument("--tier", default=os.environ.get("VERIF_TIER", "quick"), choices=["quick", "thorough"])
    ap.add_argument("--replay")
    ap.add_argument("--setup", action="store_true")
    args = ap.parse_args()
    if args.setup:
        sys.exit(setup())
    pid = args.pid
    seed = int(os.environ.get("VERIF_SEED", "20260923"))
    ctx = core.Ctx(pid, args.tier, seed)
    mod = importlib.import_module("props." + pid.lower())
    ctx.generators = getattr(mod, "GENERATORS", None)
    coverage = {}
    assumptions = []
    try:
        # 1. hygiene
        probs = core.hygiene()
        # 2. overlay of the current tree
        try:
            ctx.overlay = core.Overlay(asan=False)
            ctx.overlay.activate()
        except core.BuildError as e:
            ctx.violation("build", "C helpers of the current tree do not build: %s" % e, None, no_input=True)
            raise
        # 3. generated fragments + full make + driver
        ctx.build = core.coq_build(all_generators())
        ctx.props = core.check_props_file(pid)
        if args.tier == "thorough" and not args.replay and ctx.props["ok"]:
            ctx.coqchk = core.run_coqchk(pid)
            if not ctx.coqchk["ok"]:
                ctx.props["ok"] = False
                ctx.props["log"] = "coqchk rejects the compiled closure: " + ctx.coqchk["log"][-800:]
        if probs:
            ctx.build["fatal"] = "HYGIENE: " + "; ".join(probs)
        if args.replay:
            rep = json.load(open(args.replay))
            out = mod.replay(ctx, rep)
            print(json.dumps(out, indent=1, default=str))
            return 0
        # 4. corpus + correspondence + implementation oracle
        coverage = mod.run(ctx) or {}
        # 5. a broken proof / translator / build with no concrete failing input found
        if not ctx.proof_ok():
            broken = list(probs) + ctx.broken_deps()
            if not ctx.props["ok"]:
                broken.append("coq/props/%s.v no longer checks: %s" % (pid, ctx.props["log"][-600:]))
            if not [v for v in ctx.violations if not v["no_input"]]:
                ctx.violation("proof", "proof obligation or model build no longer checks", None,
                              extra={"broken": broken, "theorems": ctx.props.get("theorems")}, no_input=True)
    except Exception as e:  # machinery failure is never a silent pass
        traceback.print_exc()
        if not ctx.violations:
            ctx.violation("harness", "check aborted: %r" % (e,), None, extra={"traceback": traceback.format_exc()[-3000:]},
                          no_input=True)
    finally:
        if ctx.overlay:
            ctx.overlay.close()
    # 6. evidence + verdict
    th = ctx.props["theorems"] if ctx.props else []
    # one verdict: the evidence says "discharged" exactly when no proof violation was (or would have been) reported
    n_ok = len(th) if (ctx.proof_ok() and not [v for v in ctx.violations if v["kind"] in ("proof", "harness", "build")]) else 0
    cov = {
        "obligations": max(1, len(th)),
        "discharged": n_ok,
        "checker_cmd": "make -C coq -k -j%d (full .vo build of coq/_CoqProject) && %s" % (core.NPROC, (ctx.props or {}).get("cmd", "coqc props/%s.v" % pid)),
        "trusted_base": getattr(mod, "TRUSTED_BASE", []) + [
            "Coq 8.16.1 kernel + vm_compute (no native_compute)",
            "Print Assumptions: " + json.dumps((ctx.props or {}).get("assumptions", {})),
        ],
        "theorems": th,
        "build": {"ok": bool(ctx.build and ctx.build["ok"]), "wall_s": round((ctx.build or {}).get("wall_s", 0), 1),
                  "failed": (ctx.build or {}).get("failed", [])},
    }
    if getattr(ctx, "coqchk", None):
        cov["coqchk"] = ctx.coqchk
        cov["checker_cmd"] += " && " + ctx.coqchk["cmd"]
        cov["trusted_base"].append("coqchk -o (independent re-check of the .vo closure): axioms = %s; type-in-type = %s; unsafe fixpoints = %s; assumed positivity = %s"
                                   % (ctx.coqchk.get("axioms"), ctx.coqchk.get("type_in_type"), ctx.coqchk.get("unsafe_fixpoints"), ctx.coqchk.get("assumed_positivity")))
    cov.update(coverage)
    core.write_evidence(ctx, cov, getattr(mod, "ASSUMPTIONS", []))
    for k in ctx.known_hits:
        print("KNOWN-FINDING: property=%s %s [%s]" % (pid, k["what"], k["id"]))
    rc = 0
    for v in ctx.violations:
        rc = 1
        print("VIOLATION property=%s replay=%s%s" % (pid, v["replay"], " no-failing-input-found" if v["no_input"] else ""))
        core.log(v["what"])
    core.log("%s %s: %d violations, %d known findings, %.1fs" % (pid, args.tier, len(ctx.violations), len(ctx.known_hits), time.time() - ctx.t0))
    return rc


if __name__ == "__main__":
    sys.exit(main())
