"""C11 at QUIC level: a key-holding adversary BEHIND THE PEER PUPPET against real QuicConnection victims.

After an honest key exchange (a real, hidden peer endpoint answers the victim's hello; everything else the hidden
peer sends is withheld) the adversary emits words over the TLS flight, re-computing CertificateVerify and Finished
over the transcript as the victim has seen it, and carries them in CRYPTO frames of the right or of a wrong packet
type (Initial / Handshake / 1-RTT / 0-RTT), fragmented over frames and packets, reordered, overlapping, duplicated.

case = {"role": "client" | "server", "psk": 0 | 1, "verify": 0 | 1, "reqcert": 0 | 1,
        "ops": [ {"m": [[name, variant], ...],      messages of this run, in order (variants as in props/c11.py)
                  "ep": "initial" | "handshake" | "1rtt" | "0rtt",
                  "n": pieces, "order": 0 forward | 1 reversed | 2 even pieces then odd ones, "dup": 0 | 1,
                  "ov": overlap in bytes, "pack": CRYPTO frames per packet,
                  "cut": c > 0: only the first c bytes of the run are sent now, the rest opens the next run (whatever
                         its epoch) } ... ]}

Every packet the adversary sends is one op of the model coq/model/TlsQuic.v (extracted, exec_tlsquic).  Compared per
packet: disposition (processed / dropped for lack of keys / ignored while closing / closed with which error code /
exception), Context.state, whether HandshakeCompleted has been emitted, which of the 8 packet protection keys are
installed, len(Context._receive_buffer).  The oracle records handed to the model are what the adversary BUILT, in the
order in which complete messages reach the TLS engine (computed by the harness' own reassembly of the bytes in the
packets the victim did not drop).

An independent oracle (RFC 8446 order written by hand, props/c11.py LEGAL_NEXT) checks on the implementation's
observables only: HandshakeCompleted only after the legal flight with valid signature / certificate / MAC (or the PSK
flight); a message of an illegal type closes the connection with CRYPTO_ERROR + unexpected_message; no 1-RTT packet
is processed, and the client sends none, before that; nothing changes after the close.  Counted, not reported as a
C11 violation (docs/C11.md, finding Q1): messages that ADVANCE the handshake although they arrived in the CRYPTO
stream of an encryption level other than the one RFC 9001 4.1.3 prescribes."""
import itertools
import logging
import ssl

from vlib import core, corr
from props import c11 as T

PT = {"initial": 0, "0rtt": 1, "handshake": 2, "1rtt": 5}          # QuicPacketType values (model op token)
EPOCH_OF = {"initial": 0, "0rtt": 1, "handshake": 2, "1rtt": 3}    # tls.Epoch values
MAX_CRYPTO_PER_PACKET = 1000
ED25519 = 0x0807

_QENV = {}
QSTATS = {"runs": 0, "completed": 0, "closed": 0, "packets": 0, "dropped": 0, "wrong_epoch_accepted": 0,
          "completed_with_wrong_epoch": 0, "cross_epoch_splice": 0, "example_wrong_epoch": None, "close_codes": {}}


def qenv():
    """an untrusted certificate for the server name and a resumable session, shared by all cases of a run"""
    if _QENV:
        return _QENV
    import datetime
    from cryptography import x509
    from cryptography.hazmat.primitives.asymmetric import ed25519
    from sim import Pair, TicketStore
    logging.getLogger("quic").setLevel(logging.CRITICAL)
    key = ed25519.Ed25519PrivateKey.generate()
    name = x509.Name([x509.NameAttribute(x509.NameOID.COMMON_NAME, "localhost")])
    cert = (x509.CertificateBuilder().subject_name(name).issuer_name(name).public_key(key.public_key())
            .serial_number(4711).not_valid_before(datetime.datetime(2000, 1, 1, tzinfo=datetime.timezone.utc))
            .not_valid_after(datetime.datetime(2100, 1, 1, tzinfo=datetime.timezone.utc))
            .add_extension(x509.SubjectAlternativeName([x509.DNSName("localhost")]), critical=False)
            .sign(key, None))
    _QENV["untrusted"] = (cert, key)
    store = TicketStore()
    p = Pair(11, ticket_store=store)
    if not p.handshake():
        raise RuntimeError("honest handshake for the session ticket failed")
    p.run_until_idle()
    if not store.client_tickets or not store.tickets:
        raise RuntimeError("no session ticket issued")
    _QENV["store"] = store
    _QENV["client_ticket"] = store.client_tickets[-1]
    _QENV["server_tickets"] = dict(store.tickets)
    _QENV["early"] = int(bool(_QENV["client_ticket"].max_early_data_size))
    return _QENV


def _messages(data):
    """complete handshake messages at the front of data, and the rest"""
    out = []
    while len(data) >= 4:
        n = 4 + int.from_bytes(data[1:4], "big")
        if len(data) < n:
            break
        out.append(bytes(data[:n]))
        data = data[n:]
    return out, data


def _crypto_of(packets, typ):
    chunks = {}
    for p in packets:
        if p.type == typ and p.decrypted:
            for f in p.frames:
                if f.name == "CRYPTO":
                    chunks[f.fields["offset"]] = bytes(f.fields["data"])
    out = b""
    for off in sorted(chunks):
        if off > len(out):
            break
        out = out[:off] + chunks[off] if off + len(chunks[off]) > len(out) else out
    return out


def plan(base, data, op):
    """the packets (lists of (offset, bytes)) that carry `data` at stream offset `base`"""
    L = len(data)
    n = max(1, int(op.get("n", 1)), -(-L // MAX_CRYPTO_PER_PACKET))
    n = min(n, max(1, L))
    ov = max(0, int(op.get("ov", 0)))
    cuts = [(i * L) // n for i in range(n + 1)]
    pieces = []
    for i in range(n):
        a, b = cuts[i], min(L, cuts[i + 1] + ov, cuts[i] + MAX_CRYPTO_PER_PACKET)
        if b > a:
            pieces.append((base + a, data[a:b]))
    order = int(op.get("order", 0))
    if order == 1:
        pieces.reverse()
    elif order == 2:
        pieces = pieces[0::2] + pieces[1::2]
    if op.get("dup"):
        pieces = pieces + pieces[:1] + ([(base, data[:min(L, MAX_CRYPTO_PER_PACKET)])] if n > 1 else [])
    pack = max(1, int(op.get("pack", 1)))
    packets, cur, size = [], [], 0
    for off, d in pieces:
        if cur and (len(cur) >= pack or size + len(d) > MAX_CRYPTO_PER_PACKET):
            packets.append(cur)
            cur, size = [], 0
        cur.append((off, d))
        size += len(d)
    if cur:
        packets.append(cur)
    return packets


class QRun:
    """one case against one fresh victim"""

    def __init__(self, case):
        from aioquic import tls
        self.tls, self.case = tls, case
        self.client = case["role"] == "client"
        self.packets = []            # per packet sent: dict(pt, frames, tokens, ep, processed, kind)
        self.orcs = []               # oracle records (12 ints) in the order the TLS engine meets complete messages
        self.msgs_seen = []          # (op, epoch name, cross_epoch) for each of them
        self.fields_of = {}          # built message bytes -> (op, fields)
        self.off = {"initial": 0, "handshake": 0, "1rtt": 0, "0rtt": 0}
        self.rx = {e: {} for e in self.off}          # harness-side reassembly: offset -> byte
        self.rx_ptr = {e: 0 for e in self.off}
        self.tlsbuf = b""
        self.tlsbuf_epochs = set()
        self.transcript = b""
        self.victim_cert = None
        self.carry = b""             # bytes of a cut run still to be sent
        self.error = None
        (self._setup_client if self.client else self._setup_server)()

    # ---- set-up: honest key exchange with the hidden peer -------------------------------------------------
    def _pair(self, **kw):
        from sim import Pair, WireObserver
        e = qenv()
        case = self.case
        ccfg = {}
        if case["psk"]:
            e["store"].tickets.clear()
            if case["psk"] == 1:
                e["store"].tickets.update(e["server_tickets"])   # the fetcher pops a ticket when it is used
            # psk == 2: the client offers a ticket the server does not know: offered, NOT selected -> full handshake
            kw["ticket_store"] = e["store"]
            ccfg["session_ticket"] = e["client_ticket"]
        if self.client and not case.get("verify", 1):
            ccfg["verify_mode"] = ssl.CERT_NONE
        pair = Pair(5, client_config=ccfg or None, **kw)
        self.pair = pair
        self.obs = WireObserver([pair.client.secrets_log, pair.server.secrets_log], pair.observer.cid_lengths)
        self.hidden_pkts = []
        st0 = (self.tls.State.CLIENT_HANDSHAKE_START, self.tls.State.CLIENT_EXPECT_SERVER_HELLO)
        hidden = "server" if self.client else "client"
        direction = "s2c" if self.client else "c2s"

        def icpt(data):
            pk = self.obs.feed(data, direction, pair.clock.now, -1, False, hidden)
            self.hidden_pkts.extend(pk)
            # server victim: only the hidden client's hello flight passes (what it sends before it saw the ServerHello)
            return data if (not self.client and pair.client.conn.tls.state in st0) else None

        def tap(rec):
            if rec.direction != direction and not rec.injected:
                self.obs.feed(rec.data, rec.direction, rec.time, rec.index, rec.injected, rec.sender)

        pair.network.interceptors[hidden] = icpt
        pair.network.taps.append(tap)
        return pair

    def _secret(self, side, epoch):
        from sim.wire import parse_keylog
        ep = self.pair.endpoint(side)
        for s, e, _cr, sec in parse_keylog(ep.secrets_log.getvalue()):
            if s == side and e == epoch:
                return sec
        return None

    def _setup_client(self):
        from sim import Puppet
        pair = self._pair()
        pair.connect()
        flight = b""
        for _ in range(12):
            pair.step()
            flight = _crypto_of(self.hidden_pkts, "handshake")
            ms, rest = _messages(flight)
            if ms and not rest and ms[-1][0] == T.FIN:
                break
        else:
            raise RuntimeError("hidden server did not produce its flight")
        pair.network.isolated.add("server")
        self.victim = pair.client
        self.puppet = Puppet(pair, "server", observer=self.obs)
        self.hello = _crypto_of([p for p in self.obs.packets if p.direction == "c2s"], "initial")
        self.honest = {m[0]: m for m in _messages(_crypto_of(self.hidden_pkts, "initial"))[0] + _messages(flight)[0]}
        self.cipher_suite = pair.server.conn.tls.key_schedule.cipher_suite
        self.fin_secret = self._secret("server", "handshake")
        self.transcript = self.hello
        self.own_dir = "c2s"

    def _setup_server(self):
        from sim import Puppet
        pair = self._pair(client_certificate=bool(self.case.get("reqcert")))
        pair.connect()
        for _ in range(16):
            pair.step()
            c = pair.client.conn
            if c.tls.state == self.tls.State.CLIENT_POST_HANDSHAKE:
                break
        else:
            raise RuntimeError("hidden client did not finish its key exchange")
        pair.network.isolated.add("client")
        self.victim = pair.server
        self.puppet = Puppet(pair, "client", observer=self.obs)
        s2c = [p for p in self.obs.packets if p.direction == "s2c"]
        self.hello = _crypto_of([p for p in self.hidden_pkts if not p.injected], "initial")
        self.honest = {m[0]: m for m in _messages(_crypto_of(self.hidden_pkts, "handshake"))[0]}
        self.server_flight = _crypto_of(s2c, "initial") + _crypto_of(s2c, "handshake")
        self.cipher_suite = pair.client.conn.tls.key_schedule.cipher_suite
        self.fin_secret = self._secret("client", "handshake")
        self.transcript = self.hello + self.server_flight
        self.own_dir = "s2c"
        # the ClientHello packets the victim has processed are the first ops of the model
        self.hello_packets = []
        for p in self.hidden_pkts:
            if p.type == "initial" and p.decrypted and any(f.name == "CRYPTO" for f in p.frames):
                self.hello_packets.append([(f.fields["offset"], bytes(f.fields["data"])) for f in p.frames if f.name == "CRYPTO"])
                self.off["initial"] = max(self.off["initial"], max(o + len(d) for o, d in self.hello_packets[-1]))

    # ---- message construction (the library's own push_* / key schedule, as in props/c11.py) -----------------
    def _buf(self):
        from aioquic.buffer import Buffer
        return Buffer(capacity=8192)

    def _shadow(self, transcript):
        ks = self.tls.KeySchedule(self.cipher_suite)
        ks.update_hash(transcript)
        return ks

    def build(self, op, transcript):
        tls = self.tls
        name, var = op[0], op[1] if len(op) > 1 else "good"
        b = self._buf()
        ident = self.pair.identity
        if name == "RAW":
            return bytes([var & 0xFF, 0, 0, 0])
        if name == "BIG":        # header announcing 4 + 524285 bytes: one more than MAX_HANDSHAKE_MESSAGE_SIZE
            return bytes([T.FIN, 0x07, 0xFF, 0xFD]) + b"\x00" * 4
        if name == "BIGOK":      # 4 + 524284 = MAX_HANDSHAKE_MESSAGE_SIZE: acceptable, waits for the rest
            return bytes([T.FIN, 0x07, 0xFF, 0xFC]) + b"\x00" * 4
        if name in ("SH", "EE") or (name == "CH" and not self.client):
            t = T.NAME_TYPE[name]
            if name == "CH":
                return self.hello
            if t in self.honest:
                return T.Run._var(self.honest[t], var)
            if name == "SH":                 # a ServerHello for a server victim: any well-formed one
                h = tls.ServerHello(random=b"\x01" * 32, legacy_session_id=b"", cipher_suite=tls.CipherSuite.AES_256_GCM_SHA384,
                                    compression_method=0, key_share=(tls.Group.X25519, b"\x02" * 32),
                                    supported_version=tls.TLS_VERSION_1_3)
                tls.push_server_hello(b, h)
                return b.data
            tls.push_encrypted_extensions(b, tls.EncryptedExtensions(alpn_protocol=None, early_data=False, other_extensions=[]))
            return b.data
        if name == "CH":
            return self.hello
        if name == "NST":
            tls.push_new_session_ticket(b, tls.NewSessionTicket(ticket_lifetime=3600, ticket_age_add=1, ticket_nonce=b"",
                                                               ticket=b"\x07" * 16))
            return b.data
        if name == "CR":
            tls.push_certificate_request(b, tls.CertificateRequest(request_context=b"", signature_algorithms=[ED25519]))
            return b.data
        if name == "CERT":
            from cryptography.hazmat.primitives.serialization import Encoding
            if var == "empty":
                lst = []
            elif var == "untrusted":
                lst = [(qenv()["untrusted"][0].public_bytes(Encoding.DER), b"")]
            else:
                lst = [(ident.certificate.public_bytes(Encoding.DER), b"")]
            tls.push_certificate(b, tls.Certificate(request_context=b"", certificates=lst))
            return b.data
        if name == "CV":
            key = qenv()["untrusted"][1] if self.victim_cert_build == "untrusted" else ident.private_key
            ctxs = tls.SERVER_CONTEXT_STRING if self.client else tls.CLIENT_CONTEXT_STRING
            data = self._shadow(transcript).certificate_verify_data(ctxs)
            if var == "badsig":
                data = b"x" + data
            tls.push_certificate_verify(b, tls.CertificateVerify(algorithm=ED25519, signature=key.sign(data)))
            return b.data
        if name == "FIN":
            vd = self._shadow(transcript).finished_verify_data(self.fin_secret)
            if var == "badmac":
                vd = vd[:-1] + bytes([vd[-1] ^ 1])
            tls.push_finished(b, tls.Finished(verify_data=vd))
            return b.data
        raise ValueError("unknown op %r" % (op,))

    def _fields_case(self):
        c = self.case
        return {"role": c["role"], "psk": int(c["psk"]), "early": qenv()["early"] if c["psk"] else 0}

    # ---- observation of the victim ----------------------------------------------------------------------------
    def _qcounts(self):
        r = d = 0
        for ev in self.victim.qlog_events():
            if ev["name"] == "transport:packet_received":
                r += 1
            elif ev["name"] == "transport:packet_dropped":
                d += 1
        return r, d

    def observe(self):
        tls = self.tls
        c = self.victim.conn
        keys = []
        for half in ("recv", "send"):
            for e in (tls.Epoch.INITIAL, tls.Epoch.ZERO_RTT, tls.Epoch.HANDSHAKE, tls.Epoch.ONE_RTT):
                keys.append(int(getattr(c._cryptos[e], half).is_valid()))
        return [c.tls.state.value, int(self.victim.handshake_completed)] + keys + [len(c.tls._receive_buffer)]

    def close_code(self):
        ev = self.victim.conn._close_event
        return None if ev is None else int(ev.error_code)

    # ---- sending ----------------------------------------------------------------------------------------------
    def send_packet(self, ep, frames, meta):
        from sim import F, ApiRaised
        r0, d0 = self._qcounts()
        closed_before = self.close_code() is not None
        exn = None
        try:
            self.puppet.send_frames(ep, [F.crypto(o, d) for o, d in frames])
        except ApiRaised as ex:
            exn = type(ex.exc).__name__
        r1, d1 = self._qcounts()
        code = self.close_code()
        if exn is not None:
            kind, val = 4, T.EXN_KINDS.get(exn, 9)
        elif r1 > r0:
            kind, val = (3, code) if (code is not None and not closed_before) else (2, 0)
        elif d1 > d0:
            kind, val = 1, 0
        else:
            kind, val = 0, 0
        processed = kind in (2, 3, 4)
        if processed and ep != "0rtt":      # RFC 9000 table 3: no CRYPTO frame in 0-RTT packets, nothing reaches TLS
            self._reassemble(ep, frames)
        QSTATS["packets"] += 1
        if kind == 1:
            QSTATS["dropped"] += 1
        self.packets.append({"pt": PT[ep], "ep": ep, "frames": frames, "tokens": [kind, val] + self.observe(),
                             "kind": kind, "val": val, "meta": meta})
        return kind

    def _reassemble(self, ep, frames):
        """the harness' own view of what reaches the TLS engine: contiguous bytes per epoch, one shared message buffer"""
        for off, d in frames:
            for i, byte in enumerate(d):
                self.rx[ep].setdefault(off + i, byte)
            new = bytearray()
            while self.rx_ptr[ep] in self.rx[ep]:
                new.append(self.rx[ep][self.rx_ptr[ep]])
                self.rx_ptr[ep] += 1
            if new:
                self.tlsbuf += bytes(new)
                self.tlsbuf_epochs.add(ep)
                ms, rest = _messages(self.tlsbuf)
                for m in ms:
                    op, fields = self.fields_of.get(m, (["RAW", m[0]], None))
                    if fields is None:
                        fields = T.msg_fields(self._fields_case(), ["RAW", m[0]])
                    self.orcs.append(fields)
                    self.msgs_seen.append((op, ep, len(self.tlsbuf_epochs) > 1, len(self.packets)))
                    self.tlsbuf_epochs = {ep}
                self.tlsbuf = rest
                if not rest:
                    self.tlsbuf_epochs = set()

    def do_op(self, op, idx):
        ep = op["ep"]
        data = self.carry
        self.carry = b""
        tr = self.transcript
        self.victim_cert_build = self.victim_cert
        built = []
        for m in op["m"]:
            raw = self.build(m, tr)
            name, var = m[0], m[1] if len(m) > 1 else "good"
            if name == "CERT" and var != "empty":
                self.victim_cert_build = var if var == "untrusted" else "good"
            fields = T.msg_fields(self._fields_case(), ["RAW", T.FIN] if name in ("BIG", "BIGOK") else m, self.victim_cert_build, True)
            self.fields_of[raw] = (m, fields)
            built.append((m, raw))
            tr += raw
            data += raw
        cut = int(op.get("cut", 0))
        if 0 < cut < len(data):
            data, self.carry = data[:cut], data[cut:]
        base = self.off[ep]
        kinds = []
        if "far" in op:          # one byte far beyond what was sent so far (offset bound / MAX_PENDING_CRYPTO)
            far = op["far"] if op["far"] >= 0 else (1 << 62) - 1 - base
            try:
                self.send_packet(ep, [(base + far, b"\x00")], idx)
            except ValueError as ex:
                self.error = str(ex)
            return
        try:
            pkts = plan(base, data, op)
            for frames in pkts:
                kinds.append(self.send_packet(ep, frames, idx))
        except ValueError as ex:           # the adversary has no keys for this packet type: nothing is sent
            self.error = str(ex)
            return
        if kinds and all(k in (0, 1) for k in kinds):
            self.carry = b""               # the victim saw nothing of this run: the adversary starts over
            return
        self.off[ep] = base + len(data)
        self.transcript = tr
        self.victim_cert = self.victim_cert_build

    def run(self):
        if not self.client:
            # the hidden client's hello packets, already processed by the victim, are the model's first ops
            ch_fields = T.msg_fields(self._fields_case(), ["CH"])
            self.fields_of[self.hello] = (["CH"], ch_fields)
            for frames in self.hello_packets:
                self._reassemble("initial", frames)
                self.packets.append({"pt": PT["initial"], "ep": "initial", "frames": frames, "tokens": None, "kind": 2,
                                     "val": 0, "meta": -1})
        for i, op in enumerate(self.case["ops"]):
            self.do_op(op, i)
        return self


# ------------------------------------------------------------------------------------------------------------
_QCACHE = {}


def qtrace(case):
    key = repr(case)
    if key not in _QCACHE:
        r = QRun(case).run()
        _QCACHE[key] = r
        QSTATS["runs"] += 1
        if r.victim.handshake_completed:
            QSTATS["completed"] += 1
        code = r.close_code()
        if code is not None:
            QSTATS["closed"] += 1
            QSTATS["close_codes"][hex(code)] = QSTATS["close_codes"].get(hex(code), 0) + 1
    return _QCACHE[key]


def _tree_is_patched():
    """docs/C11-fix-1.patch gives handle_message an `epoch` parameter: then the model's patched variant is the one to run"""
    import inspect
    from aioquic import tls
    return "epoch" in inspect.signature(tls.Context.handle_message).parameters


def q_encode(case):
    r = qtrace(case)
    c = case
    t = [int(_tree_is_patched()), int(c["role"] == "client"), int(bool(c["psk"])), qenv()["early"] if c["psk"] else 0, int(bool(c.get("verify", 1))),
         int(bool(c.get("reqcert", 0))), len(r.orcs)]
    for f in r.orcs:
        t += f
    for p in r.packets:
        t += [p["pt"], len(p["frames"])]
        for off, d in p["frames"]:
            t += [off, len(d)] + list(d)
    return t


def q_impl(case):
    r = qtrace(case)
    out = []
    for p in r.packets:
        if p["tokens"] is None:      # hello packets processed during set-up: what the model prints for them is not compared
            continue
        out += p["tokens"]
    return out


def q_model_filter(case, got):
    """drop the model's output for the set-up packets (server victim) so that it lines up with q_impl"""
    r = qtrace(case)
    skip = sum(1 for p in r.packets if p["tokens"] is None)
    return got[13 * skip:]


# ---- the independent oracle: RFC 8446 order by hand, on the victim's observables ---------------------------------
def _rfc_walk(case, msgs):
    """msgs: [(op, epoch, cross)] in the order the TLS engine met them.  Returns (state reached, index of the first
    refused message or None, reason, wrong-epoch acceptances)"""
    client = case["role"] == "client"
    st = T.C_SH if client else T.S_CH
    wrong = []
    cert_var = None
    for i, (op, ep, cross, _pk) in enumerate(msgs):
        name, var = op[0], op[1] if len(op) > 1 else "good"
        t = T.NAME_TYPE.get(name, op[1] & 0xFF if name == "RAW" else 0)
        if t not in T.LEGAL_NEXT.get(st, set()):
            return st, i, "illegal", wrong
        if name == "RAW" or var in ("trunc", "badsig", "badmac", "garbage"):
            return st, i, "bad", wrong
        if name == "CV" and client and case.get("verify", 1) and cert_var == "untrusted":
            return st, i, "bad", wrong
        if client and name == "CERT" and var == "empty":
            return st, i, "bad", wrong
        exp = "initial" if st in (T.C_SH, T.S_CH) else ("1rtt" if st in (T.C_POST, T.S_POST) else "handshake")
        if ep != exp or cross:
            wrong.append((i, name, ep, exp))
        if client:
            if st == T.C_SH:
                st = T.C_EE
            elif st == T.C_EE:
                st = T.C_FIN if case["psk"] == 1 else T.C_CR_CERT
            elif st == T.C_CR_CERT:
                st = T.C_CERT if name == "CR" else T.C_CV
            elif st == T.C_CERT:
                st = T.C_CV
            elif st == T.C_CV:
                st = T.C_FIN
            elif st == T.C_FIN:
                st = T.C_POST
            if name == "CERT":
                cert_var = var
        else:
            if st == T.S_CH:
                st = T.S_CERT if case.get("reqcert") and case["psk"] != 1 else T.S_FIN
                if case.get("reqcert") and case["psk"] == 1:
                    st = T.S_CERT           # quirk 1 of docs/C11.md: the flag wins over resumption
            elif st == T.S_CERT:
                st = T.S_FIN if var == "empty" else T.S_CV
            elif st == T.S_CV:
                st = T.S_FIN
            elif st == T.S_FIN:
                st = T.S_POST
    return st, None, None, wrong


def q_oracle(case):
    r = qtrace(case)
    client = case["role"] == "client"
    sig = {"level": "quic", "role": case["role"], "psk": int(case["psk"])}
    if r.error and not r.packets:
        return None
    st, bad_at, why, wrong = _rfc_walk(case, r.msgs_seen)
    post = T.C_POST if client else T.S_POST
    completed = r.victim.handshake_completed
    code = r.close_code()
    # (1) completion only after the legal flight, all checks good
    if completed and st != post and not (bad_at is not None and _rfc_walk(case, r.msgs_seen[:bad_at])[0] == post):
        return ("victim emitted HandshakeCompleted after %s, which is not the legal flight"
                % [(m[0][0], m[0][1] if len(m[0]) > 1 else "good", m[1]) for m in r.msgs_seen], dict(sig, rule="q_no_skip"))
    # (2) the first message of an illegal type closes the connection with CRYPTO_ERROR + unexpected_message
    if bad_at is not None and why == "illegal":
        if code != 0x100 + T.ALERT_UNEXPECTED:
            return ("message %r (illegal next type) did not close the connection with CRYPTO_ERROR+unexpected_message (close code %r)"
                    % (r.msgs_seen[bad_at][0], code), dict(sig, rule="q_refuse"))
    if bad_at is not None and why == "bad" and (code is None or code < 0x100):
        return ("message %r failing its checks did not close the connection with a CRYPTO_ERROR (close code %r)"
                % (r.msgs_seen[bad_at][0], code), dict(sig, rule="q_refuse_bad"))
    # per-packet rules
    done_at = None          # index of the packet after which the RFC walk is in POST_HANDSHAKE
    walk_msgs = r.msgs_seen if bad_at is None else r.msgs_seen[:bad_at]
    if _rfc_walk(case, walk_msgs)[0] == post:
        for k in range(1, len(walk_msgs) + 1):
            if _rfc_walk(case, walk_msgs[:k])[0] == post:
                done_at = walk_msgs[k - 1][3]
                break
    closed_seen = False
    prev = None
    for i, p in enumerate(r.packets):
        if p["tokens"] is None:
            continue
        kind, val = p["kind"], p["val"]
        # (3) no 1-RTT packet is processed before the peer's Finished was verified after the legal flight
        if p["ep"] == "1rtt" and kind in (2, 3, 4) and (done_at is None or i <= done_at):
            return ("1-RTT packet %d was processed before the handshake completed legally" % i, dict(sig, rule="q_onertt_early"))
        if kind == 4:
            return ("exception escaped receive_datagram at packet %d" % i, dict(sig, rule="q_exception"))
        # a CRYPTO frame in a 0-RTT packet is a PROTOCOL_VIOLATION (RFC 9000 table 3), never TLS input
        if p["ep"] == "0rtt" and kind in (2, 3) and not closed_seen and (kind, val) != (3, 10):
            return ("CRYPTO frame in 0-RTT packet %d was not refused with PROTOCOL_VIOLATION" % i, dict(sig, rule="q_zero_rtt_crypto"))
        # (4) nothing changes after the close
        if closed_seen and (kind != 0 or p["tokens"][2:4] != prev[2:4]):
            return ("packet %d had an effect after the connection was closed" % i, dict(sig, rule="q_after_close"))
        if kind == 3:
            closed_seen = True
        prev = p["tokens"]
    # (5) the victim sends no 1-RTT packet before the legal flight was verified (client; a server's 1-RTT send key is
    #     legal from its hello on).  Not `completed`: Finished followed by a refused message in ONE CRYPTO frame installs
    #     the keys, raises, and the CONNECTION_CLOSE then also goes out in a 1-RTT packet - without HandshakeCompleted.
    if client and done_at is None:
        own = [p for p in r.pair.observer.packets if p.direction == r.own_dir and p.type == "1rtt" and not p.injected]
        if own:
            return ("client victim sent a 1-RTT packet without completing the handshake", dict(sig, rule="q_onertt_send"))
    # (6) the code announced on the wire is the one the API reports
    if code is not None:
        wire = [f.fields["error_code"] for p in r.pair.observer.packets if p.direction == r.own_dir and not p.injected
                for f in p.frames if f.name in ("CONNECTION_CLOSE", "CONNECTION_CLOSE_APP")]
        if wire and any(w != code for w in wire):
            return ("CONNECTION_CLOSE on the wire carries %r, the close event %r" % (wire, code), dict(sig, rule="q_close_code"))
    # counted, not a violation of C11's sentence (finding Q1)
    key = repr(case)
    if key not in _COUNTED:
        _COUNTED.add(key)
        acc_wrong = [w for w in wrong]
        if acc_wrong:
            QSTATS["wrong_epoch_accepted"] += len(acc_wrong)
            if any(m[2] for m in walk_msgs):
                QSTATS["cross_epoch_splice"] += 1
            if completed:
                QSTATS["completed_with_wrong_epoch"] += 1
                if QSTATS["example_wrong_epoch"] is None:
                    QSTATS["example_wrong_epoch"] = corr._short(case, 1500)
    return None


_COUNTED = set()


# ---- case generators -----------------------------------------------------------------------------------------
def _op(ms, ep, **kw):
    d = {"m": [list(m) if isinstance(m, (list, tuple)) else [m] for m in ms], "ep": ep}
    d.update(kw)
    return d


def _legal_prefix_words(alphabet, maxlen, psk):
    """all words over the alphabet up to maxlen, cut after the first message the RFC order refuses plus one more
    (everything after a refusal is ignored by a closed connection), without duplicates"""
    seen, out = set(), []
    for n in range(maxlen + 1):
        for w in itertools.product(alphabet, repeat=n):
            st = T.C_EE
            cut = len(w)
            for i, x in enumerate(w):
                t = T.NAME_TYPE[x]
                if t not in T.LEGAL_NEXT.get(st, set()):
                    cut = min(len(w), i + 2)
                    break
                st = {T.C_EE: T.C_FIN if psk else T.C_CR_CERT, T.C_CR_CERT: T.C_CERT if x == "CR" else T.C_CV,
                      T.C_CERT: T.C_CV, T.C_CV: T.C_FIN, T.C_FIN: T.C_POST, T.C_POST: T.C_POST}[st]
            w = w[:cut]
            if w not in seen:
                seen.add(w)
                out.append(w)
    return out


RIGHT = {"SH": "initial", "CH": "initial", "NST": "1rtt"}


def _right_epoch(word):
    """the epoch RFC 9001 prescribes for each message of a client-bound word"""
    return [RIGHT.get(x, "handshake") for x in word]


def _runs(word, eps, rng=None, variants=None):
    """group consecutive messages with the same epoch into runs"""
    ops = []
    for i, (x, ep) in enumerate(zip(word, eps)):
        m = [x, variants[i]] if variants and variants[i] != "good" else [x]
        if ops and ops[-1]["ep"] == ep:
            ops[-1]["m"].append(m)
        else:
            ops.append({"m": [m], "ep": ep})
    if rng is not None:
        for o in ops:
            o.update(_rand_frag(rng))
    return ops


def _rand_frag(rng):
    r = rng.random()
    if r < 0.35:
        return {}
    return {"n": rng.choice([2, 3, 5, 9, 17]), "order": rng.choice([0, 1, 2]), "dup": rng.choice([0, 0, 1]),
            "ov": rng.choice([0, 0, 3, 40]), "pack": rng.choice([1, 1, 2, 4])}


def client_qcase(psk, ops, verify=1):
    return {"role": "client", "psk": psk, "verify": verify, "reqcert": 0, "ops": [_op(["SH"], "initial")] + ops}


def server_qcase(psk, reqcert, ops):
    return {"role": "server", "psk": psk, "verify": 1, "reqcert": reqcert, "ops": ops}


def gen_client(ctx):
    rng = ctx.rng
    cases = []
    for psk in (0, 1):
        words = _legal_prefix_words(T.FLIGHT, 6, psk)
        for w in words:
            right = _right_epoch(w)
            # every message where it belongs, one message per CRYPTO frame / packet
            cases.append(client_qcase(psk, [_op([x], e) for x, e in zip(w, right)]))
            # the same word, fragmented / reordered / duplicated at random, messages of one epoch in one run
            if len(w) >= 2:
                cases.append(client_qcase(psk, _runs(w, right, rng)))
            # the whole word in Initial packets (wrong for everything after the ServerHello)
            if w:
                cases.append(client_qcase(psk, _runs(w, ["initial"] * len(w), rng if rng.random() < 0.5 else None)))
            # the whole word in 1-RTT packets (the victim has no 1-RTT receive key yet)
            if len(w) <= 3:
                cases.append(client_qcase(psk, _runs(w, ["1rtt"] * len(w))))
            # one message in a wrong packet type
            for i in range(len(w)):
                for wrong in ("initial", "1rtt"):
                    if not ctx.thorough and (len(w) > 3 and rng.random() < 0.8 or len(w) == 3 and rng.random() < 0.4):
                        continue
                    eps = list(right)
                    eps[i] = wrong
                    cases.append(client_qcase(psk, _runs(w, eps)))
    # legal flights followed by post-handshake messages in every packet type; variants that fail a check
    full = {0: ["EE", "CERT", "CV", "FIN"], 1: ["EE", "FIN"]}
    for psk in (0, 1):
        f = full[psk]
        for tail_ep in ("1rtt", "handshake", "initial"):
            for tail in (["NST"], ["NST", "NST"], ["FIN"], ["EE"]):
                cases.append(client_qcase(psk, _runs(f + tail, _right_epoch(f) + [tail_ep] * len(tail))))
        for i, x in enumerate(f):
            for var in {"CERT": ["untrusted", "empty"], "CV": ["badsig"], "FIN": ["badmac"], "EE": ["trunc"]}.get(x, []):
                vs = ["good"] * len(f)
                vs[i] = var
                for verify in (1, 0):
                    for eps in (_right_epoch(f), ["initial"] * len(f)):
                        cases.append(client_qcase(psk, _runs(f, eps, None, vs), verify=verify))
        with_cr = ["EE", "CR", "CERT", "CV", "FIN"]
        if not psk:
            cases.append(client_qcase(0, _runs(with_cr, _right_epoch(with_cr), rng)))
            cases.append(client_qcase(0, _runs(with_cr, ["initial"] * 5, rng)))
    # PSK offered but NOT selected by the server: the full flight is required, the PSK flight must be refused
    fullf = ["EE", "CERT", "CV", "FIN"]
    for w in (fullf, ["EE", "FIN"], ["EE", "CERT", "FIN"], ["EE", "CV", "FIN"], ["EE", "CR", "CERT", "CV", "FIN"], ["EE", "EE"], ["FIN"]):
        cases.append(client_qcase(2, _runs(w, _right_epoch(w))))
        cases.append(client_qcase(2, _runs(w, _right_epoch(w), rng)))
        cases.append(client_qcase(2, _runs(w, ["initial"] * len(w))))
    # a message split ACROSS encryption levels: the first bytes in one CRYPTO stream, the rest in another
    for psk in (0, 1):
        f = full[psk]
        for cut in (1, 3, 4, 7):
            cases.append(client_qcase(psk, [dict(_op(f[:1], "initial"), cut=cut), _op(f[1:], "handshake")]))
            cases.append(client_qcase(psk, [_op(f[:-1], "handshake"), dict(_op(f[-1:], "handshake"), cut=cut), _op([], "initial")]))
    # systematic fragmentation of the legal flight
    for psk in (0, 1):
        f = full[psk]
        for n in ((1, 2, 3, 7, 31, 64) if ctx.thorough else (1, 3, 31)):
            for order in (0, 1, 2):
                for dup in (0, 1):
                    for ov in (0, 5):
                        for pack in (1, 3):
                            if n == 1 and (order or ov or pack > 1):
                                continue
                            if not ctx.thorough and pack == 3 and (dup or ov):
                                continue
                            cases.append(client_qcase(psk, [dict(_op(f, "handshake"), n=n, order=order, dup=dup, ov=ov, pack=pack)]))
    # the bounds: offset + length <= 2^62 - 1, MAX_PENDING_CRYPTO, MAX_HANDSHAKE_MESSAGE_SIZE
    for psk in (0, 1):
        f = full[psk]
        for far in (524287, 524288, -1):
            if far == 524287 and not ctx.thorough:      # a 512 KiB gap costs 0.6 s per case in the extracted model
                if psk == 0:
                    cases.append(client_qcase(0, [{"m": [], "ep": "handshake", "far": far}] + _runs(f, _right_epoch(f))))
                continue
            for ep in ("initial", "handshake"):
                cases.append(client_qcase(psk, [{"m": [], "ep": ep, "far": far}] + _runs(f, _right_epoch(f))))
            cases.append(client_qcase(psk, _runs(f[:1], ["handshake"]) + [{"m": [], "ep": "handshake", "far": far}] + _runs(f[1:], _right_epoch(f[1:]))))
            cases.append(client_qcase(psk, _runs(f, _right_epoch(f)) + [{"m": [], "ep": "1rtt", "far": far}, _op(["NST"], "1rtt")]))
        for big in ("BIG", "BIGOK"):
            cases.append(client_qcase(psk, [_op(["EE", big], "handshake"), _op(f[1:], "handshake")]))
            cases.append(client_qcase(psk, [_op([big], "initial"), _op(f, "handshake")]))
            cases.append(client_qcase(psk, _runs(f, _right_epoch(f)) + [_op([big], "1rtt", n=3, order=1), _op(["NST"], "1rtt")]))
    # random longer mixtures
    for _ in range(ctx.n(100, 3000)):
        psk = rng.choice([0, 1])
        w = [rng.choice(T.FLIGHT + ["NST"]) for _ in range(rng.randint(1, 7))] if rng.random() < 0.3 else \
            list(full[psk]) + [rng.choice(["NST", "NST", "FIN", "EE"]) for _ in range(rng.randint(0, 2))]
        eps = [rng.choice(["initial", "handshake", "handshake", "1rtt"]) if rng.random() < 0.35 else e
               for e in _right_epoch(w)]
        vs = [rng.choice(["good"] * 8 + {"CERT": ["untrusted"], "CV": ["badsig"], "FIN": ["badmac"]}.get(x, ["good"])) for x in w]
        cases.append(client_qcase(psk, _runs(w, eps, rng, vs), verify=rng.choice([1, 1, 0])))
    return cases


def gen_server(ctx):
    rng = ctx.rng
    cases = []
    alpha = [["CERT", "good"], ["CERT", "empty"], ["CV", "good"], ["CV", "badsig"], ["FIN", "good"], ["FIN", "badmac"], ["EE", "good"]]
    for psk in (0, 1):
        for req in (0, 1):
            if psk and req:
                continue
            seen = set()
            for n in range(0, 5 if ctx.thorough else 4):
                for w in itertools.product(range(len(alpha)), repeat=n):
                    # cut after the first message the RFC order (or a failing check) refuses, plus one
                    st = T.S_CERT if req else T.S_FIN
                    cut = len(w)
                    for i, k in enumerate(w):
                        name, var = alpha[k]
                        if T.NAME_TYPE[name] not in T.LEGAL_NEXT.get(st, set()) or var in ("badsig", "badmac"):
                            cut = min(len(w), i + 2)
                            break
                        st = {T.S_CERT: T.S_FIN if var == "empty" else T.S_CV, T.S_CV: T.S_FIN, T.S_FIN: T.S_POST,
                              T.S_POST: T.S_POST}[st]
                    w = w[:cut]
                    if w in seen:
                        continue
                    seen.add(w)
                    word = [alpha[k] for k in w]
                    names = [x[0] for x in word]
                    vs = [x[1] for x in word]
                    cases.append(server_qcase(psk, req, _runs(names, ["handshake"] * len(w), None, vs)))
                    if w:
                        cases.append(server_qcase(psk, req, _runs(names, ["handshake"] * len(w), rng, vs)))
                        cases.append(server_qcase(psk, req, _runs(names, ["initial"] * len(w), rng if rng.random() < 0.5 else None, vs)))
                    if len(w) <= 2:
                        cases.append(server_qcase(psk, req, _runs(names, ["1rtt"] * len(w), None, vs)))
                        if psk:
                            cases.append(server_qcase(psk, req, _runs(names, ["0rtt"] * len(w), None, vs)))
                    for i in range(len(w)):
                        for wrong in ("initial", "1rtt"):
                            if not ctx.thorough and (wrong == "1rtt" and len(w) > 2 or rng.random() < 0.5):
                                continue
                            eps = ["handshake"] * len(w)
                            eps[i] = wrong
                            cases.append(server_qcase(psk, req, _runs(names, eps, None, vs)))
    for req in (0, 1):          # a client that offers a ticket the server victim does not know
        for w in ([["FIN", "good"]], [["CERT", "good"], ["CV", "good"], ["FIN", "good"]], [["CERT", "empty"], ["FIN", "good"]],
                  [["CV", "good"], ["FIN", "good"]], [["FIN", "badmac"]]):
            names, vs = [x[0] for x in w], [x[1] for x in w]
            cases.append(server_qcase(2, req, _runs(names, ["handshake"] * len(w), None, vs)))
            cases.append(server_qcase(2, req, _runs(names, ["initial"] * len(w), rng, vs)))
    for psk in (0, 1):
        for far in (524287, 524288, -1):
            for ep in ("initial", "handshake"):
                if far == 524287 and not ctx.thorough and (psk or ep == "initial"):
                    continue
                cases.append(server_qcase(psk, 0, [{"m": [], "ep": ep, "far": far}, _op(["FIN"], "handshake")]))
        for big in ("BIG", "BIGOK"):
            cases.append(server_qcase(psk, 0, [_op([big], "handshake"), _op(["FIN"], "handshake")]))
            cases.append(server_qcase(psk, 0, [_op([big], "initial", n=4, order=2), _op(["FIN"], "handshake")]))
    for psk in (0, 1):
        for n in (1, 2, 5, 16):
            for order in (0, 1, 2):
                for dup in (0, 1):
                    cases.append(server_qcase(psk, 0, [dict(_op(["FIN"], "handshake"), n=n, order=order, dup=dup, ov=order)]))
        for cut in (1, 3, 4, 9):
            cases.append(server_qcase(psk, 0, [dict(_op(["FIN"], "initial"), cut=cut), _op([], "handshake")]))
        for tail_ep in ("1rtt", "handshake", "initial"):
            for tail in (["FIN"], ["NST"], ["CH"]):
                cases.append(server_qcase(psk, 0, _runs(["FIN"] + tail, ["handshake"] + [tail_ep] * len(tail))))
    return cases


# ---- suites ------------------------------------------------------------------------------------------------------
class QSuite(corr.Suite):
    """corr.Suite whose model output is aligned with the implementation run (set-up packets of the server victim are
    ops of the model but were not produced by the adversary)"""

    def _align(self, cases, gots):
        return [q_model_filter(c, g) for c, g in zip(cases, gots)]

    def disagree(self, case):
        exp = self.impl(case)
        got = q_model_filter(case, core.run_model(self.model, [self.encode(case)], shards=1)[0])
        return exp != got, exp, got

    def run(self, cases, label=""):
        real = core.run_model
        try:
            def patched_run_model(name, encoded, shards=None):
                return self._align(cases, real(name, encoded, shards))
            core.run_model = patched_run_model
            return super().run(cases, label)
        finally:
            core.run_model = real


def _q_ops(c):
    return c["ops"]


def _q_rebuild(c, ops):
    d = dict(c)
    d["ops"] = ops
    return d


def _q_opname(o):
    return "%s@%s" % ("+".join(m[0] for m in o["m"]) or ("far" if "far" in o else "-"), o["ep"])


def q_suites(ctx, stale):
    if stale:
        mk = lambda name: T.OracleOnly(ctx, name, "exec_tlsquic", q_encode, q_impl, q_oracle, _q_ops, _q_rebuild,  # noqa: E731
                                       opname=_q_opname)
        return mk("quic_client_victim"), mk("quic_server_victim")
    mk = lambda name: QSuite(ctx, name, "exec_tlsquic", q_encode, q_impl, q_oracle, _q_ops, _q_rebuild,  # noqa: E731
                             nontrivial=lambda c, out: len(out) >= 26, opname=_q_opname)
    return mk("quic_client_victim"), mk("quic_server_victim")


def run_chunks(suite, cases, label, size=500):
    for i in range(0, len(cases), size):
        suite.run(cases[i:i + size], label)
        _QCACHE.clear()


def q_run(ctx, stale=False):
    logging.getLogger("quic").setLevel(logging.CRITICAL)
    qenv()
    qc, qs = q_suites(ctx, stale)
    for s in (qc, qs):
        run_chunks(s, corr.load_corpus("C11", s.name), "corpus")
    for k in ("runs", "completed", "closed", "packets", "dropped", "wrong_epoch_accepted", "completed_with_wrong_epoch",
              "cross_epoch_splice"):
        QSTATS[k] = 0
    QSTATS["close_codes"] = {}
    cc = gen_client(ctx)
    sc = gen_server(ctx)
    run_chunks(qc, cc, "quic")
    run_chunks(qs, sc, "quic")
    extra = {"quic_client_cases": len(cc), "quic_server_cases": len(sc)}
    extra.update({"quic_" + k: v for k, v in QSTATS.items()})
    return [qc, qs], extra


def q_replay(ctx, case):
    logging.getLogger("quic").setLevel(logging.CRITICAL)
    qenv()
    qc, qs = q_suites(ctx, False)
    s = qc if case.get("role") == "client" else qs
    d, e, g = s.disagree(case)
    r = qtrace(case)
    return {"suite": s.name, "disagree": d, "impl": e, "model": g, "oracle": q_oracle(case),
            "messages_met_by_tls": [(m[0], m[1], m[2]) for m in r.msgs_seen],
            "packets": [(p["ep"], [(o, len(d_)) for o, d_ in p["frames"]], p["tokens"]) for p in r.packets],
            "handshake_completed": r.victim.handshake_completed, "close_code": r.close_code()}
